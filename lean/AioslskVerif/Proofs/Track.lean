import AioslskVerif.Model.Track
import AioslskVerif.Proofs.TrackLog
/-! Helper lemmas for C15: the per-user invariant and its preservation by every step. -/
namespace AioslskVerif.Track
open AioslskVerif.Generated.Track

/-! ### flags and the specification fold -/

@[simp] theorem Flags.remove_empty_left (f : Flags) : Flags.empty.remove f = Flags.empty := by
  simp [Flags.remove, Flags.empty]

@[simp] theorem Flags.add_empty_right (f : Flags) : f.add Flags.empty = f := by
  cases f; simp [Flags.add, Flags.empty]

theorem specFlagsFrom_append (f : Flags) (rs : List Req) (r : Req) :
    specFlagsFrom f (rs ++ [r]) = r.apply (specFlagsFrom f rs) := by
  simp [specFlagsFrom, List.foldl_append]

theorem specFlags_append (rs : List Req) (r : Req) : specFlags (rs ++ [r]) = r.apply (specFlags rs) :=
  specFlagsFrom_append _ _ _

@[simp] theorem specFlags_nil : specFlags [] = Flags.empty := rfl
@[simp] theorem specFrames_nil : specFrames [] = [] := rfl

theorem specFramesFrom_append (f : Flags) (rs : List Req) (r : Req) :
    specFramesFrom f (rs ++ [r]) = specFramesFrom f rs ++ edge (specFlagsFrom f rs) r := by
  induction rs generalizing f with
  | nil => simp [specFramesFrom, specFlagsFrom]
  | cons a rs ih =>
    simp only [List.cons_append, specFramesFrom, ih, List.append_assoc]
    rfl

theorem specFrames_append (rs : List Req) (r : Req) :
    specFrames (rs ++ [r]) = specFrames rs ++ edge (specFlags rs) r :=
  specFramesFrom_append _ _ _

/-! ### the invariant -/

structure UInv (now : Nat) (U : User) : Prop where
  lost : U.processed ++ U.queue = U.issued
  flags : U.flagsOf = specFlags U.processed
  frames : collapse U.frames = specFrames U.processed
  wire : U.frames.getLast? = some .addUser ↔ U.flagsOf ≠ Flags.empty
  finLt : ∀ g ∈ U.finished, g < U.nextGen
  genLt : ∀ e, U.entry = some e → e.gen < U.nextGen ∧ e.gen ∉ U.finished
  pcAdd : ∀ e, U.entry = some e → (e.pc = .sendAdd ∨ ∃ d, e.pc = .waitResp d) →
    e.flags ≠ Flags.empty ∧ ∃ t, U.log.getLast? = some (.add t)
  pcRem : ∀ e, U.entry = some e → e.pc = .sendRemove →
    e.flags = Flags.empty ∧ e.retry = none ∧ e.live = none ∧ U.log.getLast? = some .remove
  retry : ∀ e t, U.entry = some e → e.retry = some t →
    e.flags ≠ Flags.empty ∧ t.armedAt ≤ now ∧ (t.delay = retryNetError ∨ t.delay = retryNonExisting) ∧
    e.pc = .idle ∧ e.live = none ∧ U.log.getLast? = some (.fail t.due)
  live : ∀ e k, U.entry = some e → e.live = some k →
    e.flags ≠ Flags.empty ∧ e.pc = .idle ∧ e.retry = none ∧ ∃ due, U.log.getLast? = some (.fail due) ∧ due ≤ now
  idle : ∀ e, U.entry = some e → e.pc = .idle →
    ((e.flags = Flags.empty ↔ e.state = .untracked) ∧
     (e.flags ≠ Flags.empty → (e.state = .tracked ↔ U.outcomes.getLast? = some .exists)) ∧
     (e.flags = Flags.empty → (U.log.getLast? = none ∨ U.log.getLast? = some .remove)) ∧
     (e.flags ≠ Flags.empty →
        ((e.state = .tracked ∧ U.log.getLast? = some .ok) ∨
         (e.state = .retryPending ∧ ∃ due, U.log.getLast? = some (.fail due)))))
  noEnt : U.entry = none → (U.log.getLast? = none ∨ U.log.getLast? = some .remove)
  count : U.fired + U.pending ≤ U.failed
  logJ : Justified U.log = true
  logF : framesOf U.log = U.frames

theorem UInv.init (now : Nat) : UInv now User.init := by
  constructor <;> simp [User.init, User.queue, User.flagsOf, User.pending]

theorem UInv.mono {now now' : Nat} {U : User} (h : UInv now U) (hle : now ≤ now') : UInv now' U := by
  refine { h with retry := ?_, live := ?_ }
  · intro e t he ht
    have := h.retry e t he ht
    exact ⟨this.1, by omega, this.2.2⟩
  · intro e k he hk
    obtain ⟨h1, h2, h3, due, h4, h5⟩ := h.live e k he hk
    exact ⟨h1, h2, h3, due, h4, by omega⟩

/-! ### every per-user step preserves the invariant -/

syntax "uinv_auto" : tactic
macro_rules
  | `(tactic| uinv_auto) => `(tactic|
      (constructor <;>
        (try simp_all [User.queue, User.flagsOf, User.pending, Req.call, specFlags_append, specFrames_append, edge,
           justified_append, framesOf_append, framesOf, Ev.okAfter, collapse_append_remove, Timer.due]) <;>
        (try grind)))

set_option maxHeartbeats 4000000 in
theorem UInv.track {now : Nat} {U : User} (h : UInv now U) (f : Flags) : UInv now (U.track f) := by
  have ⟨h1, h2, h3, h4, h5, h6, h7, h8, h9, h10, h11, h12, h13, h14, h15⟩ := h
  unfold User.track
  cases he : U.entry <;> uinv_auto

set_option maxHeartbeats 4000000 in
theorem UInv.untrack {now : Nat} {U : User} (h : UInv now U) (f : Flags) : UInv now (U.untrack f) := by
  have ⟨h1, h2, h3, h4, h5, h6, h7, h8, h9, h10, h11, h12, h13, h14, h15⟩ := h
  unfold User.untrack
  cases he : U.entry with
  | some e => uinv_auto
  | none =>
    have hf : specFlags U.processed = Flags.empty := by simpa [User.flagsOf, he] using h2.symm
    have ha : (Req.call false f).apply Flags.empty = Flags.empty := by simp [Req.apply, Req.call]
    constructor <;>
      (try simp_all [User.queue, User.flagsOf, User.pending, specFlags_append, specFrames_append, edge])

set_option maxHeartbeats 4000000 in
theorem UInv.retryFires {now : Nat} {U : User} (h : UInv now U) : UInv now (U.retryFires now) := by
  have ⟨h1, h2, h3, h4, h5, h6, h7, h8, h9, h10, h11, h12, h13, h14, h15⟩ := h
  unfold User.retryFires
  split
  · exact h
  · split
    · exact h
    · split
      · uinv_auto
      · exact h

set_option maxHeartbeats 4000000 in
theorem UInv.reap {now : Nat} {U : User} (h : UInv now U) (g : Nat) : UInv now (U.reap g) := by
  have ⟨h1, h2, h3, h4, h5, h6, h7, h8, h9, h10, h11, h12, h13, h14, h15⟩ := h
  unfold User.reap
  split
  · cases he : U.entry with
    | none => uinv_auto
    | some e =>
      have : e.gen ≠ g := by grind
      simp only [this, if_false]
      uinv_auto
  · exact h

set_option maxHeartbeats 4000000 in
theorem UInv.close {now : Nat} {U : User} (h : UInv now U) : UInv now U.close := by
  have ⟨h1, h2, h3, h4, h5, h6, h7, h8, h9, h10, h11, h12, h13, h14, h15⟩ := h
  unfold User.close
  cases he : U.entry <;> uinv_auto

set_option maxHeartbeats 4000000 in
theorem UInv.take {now : Nat} {U : User} {e : Entry} {r : Req} {q : List Req} (h : UInv now U)
    (he : U.entry = some e) (hpc : e.pc = .idle) (hq : e.queue = r :: q) : UInv now (U.take now e r q) := by
  have ⟨h1, h2, h3, h4, h5, h6, h7, h8, h9, h10, h11, h12, h13, h14, h15⟩ := h
  have hl : U.processed ++ [r] ++ q = U.issued := by
    rw [← h1]; simp [User.queue, he, hq]
  have hf : specFlags U.processed = e.flags := by simpa [User.flagsOf, he] using h2.symm
  have hfl : specFlags (U.processed ++ [r]) = r.apply e.flags := by rw [specFlags_append, hf]
  have hfr : specFrames (U.processed ++ [r]) = collapse U.frames ++ edge e.flags r := by
    rw [specFrames_append, hf, h3]
  have hw : U.frames.getLast? = some .addUser ↔ e.flags ≠ Flags.empty := by simpa [User.flagsOf, he] using h4
  have hi := h11 e he hpc
  have hlive : ∀ k, e.live = some k →
      e.flags ≠ Flags.empty ∧ e.retry = none ∧ ∃ due, U.log.getLast? = some (.fail due) ∧ due ≤ now := by
    intro k hk
    obtain ⟨a, _, b, c⟩ := h10 e k he hk
    exact ⟨a, b, c⟩
  have hhon : e.honours r = true → ∃ k, e.live = some k := by
    unfold Entry.honours
    cases r.rid with
    | none => simp
    | some k => intro hh; exact ⟨k, by simpa using hh⟩
  unfold User.take User.loopOrExit User.exit
  simp only []
  by_cases hA : r.apply e.flags = Flags.empty
  · simp only [hA, if_true]
    by_cases hB : e.flags = Flags.empty
    · simp only [hB, ne_eq, not_true_eq_false, if_false]
      split
      · uinv_auto
      · uinv_auto
    · simp only [ne_eq, hB, not_false_eq_true, if_true]
      have hlast : U.log.getLast? = some .ok ∨ ∃ due, U.log.getLast? = some (.fail due) := by
        rcases hi.2.2.2 hB with ⟨_, h⟩ | ⟨_, h⟩
        · exact Or.inl h
        · exact Or.inr h
      uinv_auto
  · simp only [hA, if_false]
    by_cases hB : e.flags = Flags.empty
    · have hlv : e.live = none := by
        cases hk : e.live with
        | none => rfl
        | some k => exact ((hlive k hk).1 hB).elim
      have hnh : e.honours r = false := by
        cases hh : e.honours r with
        | false => rfl
        | true => obtain ⟨k, hk⟩ := hhon hh; rw [hlv] at hk; cases hk
      have hlast : U.frames.getLast? ≠ some .addUser := fun hx => (hw.mp hx) hB
      have hc := collapse_append_add_of_not_last U.frames hlast
      simp only [hB, true_or, if_true, hnh, Bool.false_eq_true, if_false]
      uinv_auto
    · by_cases hH : e.honours r = true
      · obtain ⟨k, hk⟩ := hhon hH
        obtain ⟨_, hrt, due, hdue, hle⟩ := hlive k hk
        have hlast : U.frames.getLast? = some .addUser := hw.mpr hB
        have hc := collapse_append_add_of_last U.frames hlast
        simp only [hB, hH, or_true, if_true]
        uinv_auto
      · have hnh : e.honours r = false := by simpa using hH
        simp only [hB, hnh, Bool.false_eq_true, or_false, if_false]
        uinv_auto

set_option maxHeartbeats 4000000 in
theorem UInv.failAttempt {now : Nat} {U : User} {e : Entry} (h : UInv now U) (he : U.entry = some e)
    (hpc : e.pc = .sendAdd ∨ ∃ d, e.pc = .waitResp d) (o : Outcome) (ho : o ≠ .exists) (delay : Nat)
    (hd : delay = retryNetError ∨ delay = retryNonExisting) : UInv now (U.failAttempt e now o delay) := by
  have ⟨h1, h2, h3, h4, h5, h6, h7, h8, h9, h10, h11, h12, h13, h14, h15⟩ := h
  obtain ⟨hne, t, hlast⟩ := h7 e he hpc
  unfold User.failAttempt
  uinv_auto

set_option maxHeartbeats 4000000 in
theorem UInv.succeed {now : Nat} {U : User} {e : Entry} (h : UInv now U) (he : U.entry = some e)
    (hpc : ∃ d, e.pc = .waitResp d) : UInv now (U.succeed e) := by
  have ⟨h1, h2, h3, h4, h5, h6, h7, h8, h9, h10, h11, h12, h13, h14, h15⟩ := h
  obtain ⟨hne, t, hlast⟩ := h7 e he (Or.inr hpc)
  unfold User.succeed
  uinv_auto

set_option maxHeartbeats 4000000 in
theorem UInv.afterRemove {now : Nat} {U : User} {e : Entry} (h : UInv now U) (he : U.entry = some e)
    (hpc : e.pc = .sendRemove) : UInv now (U.afterRemove e) := by
  have ⟨h1, h2, h3, h4, h5, h6, h7, h8, h9, h10, h11, h12, h13, h14, h15⟩ := h
  have hne := h8 e he hpc
  unfold User.afterRemove User.loopOrExit User.exit
  simp only []
  split
  · uinv_auto
  · uinv_auto

set_option maxHeartbeats 4000000 in
theorem UInv.sendOk {now : Nat} {U : User} {e : Entry} (h : UInv now U) (he : U.entry = some e)
    (hpc : e.pc = .sendAdd) (d : Nat) : UInv now { U with entry := some { e with pc := .waitResp d } } := by
  have ⟨h1, h2, h3, h4, h5, h6, h7, h8, h9, h10, h11, h12, h13, h14, h15⟩ := h
  have hne := h7 e he (Or.inl hpc)
  uinv_auto

/-- every failure branch of `_request_tracking` returns one of the two module constants (regenerated) -/
theorem delays_documented :
    (delaySendFail = retryNetError ∨ delaySendFail = retryNonExisting) ∧
    (delayTimeout = retryNetError ∨ delayTimeout = retryNonExisting) ∧
    (delayError = retryNetError ∨ delayError = retryNonExisting) ∧
    (delayNotExists = retryNetError ∨ delayNotExists = retryNonExisting) := by decide

theorem UInv.worker {now : Nat} {U : User} (h : UInv now U) (env : Env) : UInv now (U.worker now env) := by
  unfold User.worker
  split
  · exact h
  · next e he =>
    split
    · split
      · exact h
      · next r q hq => exact h.take he (by assumption) hq
    · exact h.sendOk he (by assumption) _
    · exact h.failAttempt he (Or.inl (by assumption)) _ (by decide) _ delays_documented.1
    · exact h.succeed he ⟨_, by assumption⟩
    · exact h.failAttempt he (Or.inr ⟨_, by assumption⟩) _ (by decide) _ delays_documented.2.2.2
    · exact h.failAttempt he (Or.inr ⟨_, by assumption⟩) _ (by decide) _ delays_documented.2.2.1
    · split
      · exact h.failAttempt he (Or.inr ⟨_, by assumption⟩) _ (by decide) _ delays_documented.2.1
      · exact h
    · exact h.afterRemove he (by assumption)
    · exact h.afterRemove he (by assumption)
    · exact h

/-! ### the whole state -/

def Inv (s : State) : Prop := ∀ u, UInv s.now (s.users u)

theorem Inv.init : Inv State.init := fun _ => UInv.init _

theorem Inv.upd {s : State} (h : Inv s) (u : Nat) {U : User} (hU : UInv s.now U) : Inv (s.upd u U) := by
  intro v
  by_cases hv : v = u
  · simpa [State.upd, hv] using hU
  · simpa [State.upd, hv] using h v

theorem Inv.step {s : State} (h : Inv s) (op : Op) : Inv (step s op) := by
  cases op with
  | track u f => exact h.upd u ((h u).track f)
  | untrack u f => exact h.upd u ((h u).untrack f)
  | workerStep u env => exact h.upd u ((h u).worker env)
  | reap u g => exact h.upd u ((h u).reap g)
  | retryFires u => exact h.upd u (h u).retryFires
  | serverClosed => intro v; exact (h v).close
  | advance dt => intro v; exact (h v).mono (Nat.le_add_right _ _)

theorem Inv.run {s : State} (h : Inv s) (ops : List Op) : Inv (run s ops) := by
  induction ops generalizing s with
  | nil => exact h
  | cons op ops ih => exact ih (h.step op)

theorem inv_reach (ops : List Op) : Inv (run State.init ops) := Inv.init.run ops

theorem run_append (s : State) (a b : List Op) : run s (a ++ b) = run (run s a) b := by
  simp [run, List.foldl_append]

/-! ### retry requests come from timers only (calls name at least one reason) -/

theorem loopOrExit_ghost (U : User) (e : Entry) :
    (U.loopOrExit e).issued = U.issued ∧ (U.loopOrExit e).fired = U.fired := by
  unfold User.loopOrExit User.exit
  split <;> exact ⟨rfl, rfl⟩

theorem take_ghost (U : User) (now : Nat) (e : Entry) (r : Req) (q : List Req) :
    (U.take now e r q).issued = U.issued ∧ (U.take now e r q).fired = U.fired := by
  unfold User.take
  simp only []
  split
  · split
    · exact ⟨rfl, rfl⟩
    · exact loopOrExit_ghost _ _
  · split <;> exact ⟨rfl, rfl⟩

theorem worker_ghost (U : User) (now : Nat) (env : Env) :
    (U.worker now env).issued = U.issued ∧ (U.worker now env).fired = U.fired := by
  unfold User.worker
  split
  · exact ⟨rfl, rfl⟩
  · split
    · split
      · exact ⟨rfl, rfl⟩
      · exact take_ghost _ _ _ _ _
    · exact ⟨rfl, rfl⟩
    · exact ⟨rfl, rfl⟩
    · exact ⟨rfl, rfl⟩
    · exact ⟨rfl, rfl⟩
    · exact ⟨rfl, rfl⟩
    · split <;> exact ⟨rfl, rfl⟩
    · exact loopOrExit_ghost _ _
    · exact loopOrExit_ghost _ _
    · exact ⟨rfl, rfl⟩

def RInv (U : User) : Prop := (U.issued.filter Req.isRetry).length = U.fired

theorem RInv.track {U : User} (h : RInv U) (f : Flags) : RInv (U.track f) := by
  unfold RInv at *
  unfold User.track
  cases he : U.entry <;> simp [List.filter_append, Req.isRetry, Req.call, h]

theorem RInv.untrack {U : User} (h : RInv U) (f : Flags) : RInv (U.untrack f) := by
  unfold RInv at *
  unfold User.untrack
  cases he : U.entry <;> simp [List.filter_append, Req.isRetry, Req.call, h]

theorem RInv.worker {U : User} (h : RInv U) (now : Nat) (env : Env) : RInv (U.worker now env) := by
  unfold RInv at *
  rw [(worker_ghost U now env).1, (worker_ghost U now env).2]; exact h

theorem RInv.retryFires {U : User} (h : RInv U) (now : Nat) : RInv (U.retryFires now) := by
  unfold RInv at *
  unfold User.retryFires
  repeat' split
  all_goals first | exact h | simp [List.filter_append, List.filter, Req.isRetry, retryReq, h]

theorem RInv.reap {U : User} (h : RInv U) (g : Nat) : RInv (U.reap g) := by
  unfold RInv at *
  unfold User.reap
  repeat' split
  all_goals exact h

theorem RInv.close (U : User) : RInv U.close := by simp [RInv, User.close]

theorem rinv_step {s : State} (h : ∀ u, RInv (s.users u)) (op : Op) :
    ∀ u, RInv ((step s op).users u) := by
  intro v
  cases op with
  | track u f =>
    by_cases hv : v = u
    · simpa [step, State.upd, hv] using (h u).track f
    · simpa [step, State.upd, hv] using h v
  | untrack u f =>
    by_cases hv : v = u
    · simpa [step, State.upd, hv] using (h u).untrack f
    · simpa [step, State.upd, hv] using h v
  | workerStep u env =>
    by_cases hv : v = u
    · simpa [step, State.upd, hv] using (h u).worker s.now env
    · simpa [step, State.upd, hv] using h v
  | reap u g =>
    by_cases hv : v = u
    · simpa [step, State.upd, hv] using (h u).reap g
    · simpa [step, State.upd, hv] using h v
  | retryFires u =>
    by_cases hv : v = u
    · simpa [step, State.upd, hv] using (h u).retryFires s.now
    · simpa [step, State.upd, hv] using h v
  | serverClosed => exact RInv.close _
  | advance dt => exact h v

theorem rinv_run {s : State} (h : ∀ u, RInv (s.users u)) (ops : List Op) :
    ∀ u, RInv ((run s ops).users u) := by
  induction ops generalizing s with
  | nil => exact h
  | cons op ops ih => exact ih (rinv_step h op)

theorem rinv_reach (ops : List Op) (u : Nat) : RInv ((run State.init ops).users u) :=
  rinv_run (fun _ => by simp [RInv, State.init, User.init]) ops u

/-! ### after a close nothing happens until somebody calls -/

/-- no entry, empty history -/
def Dropped (U : User) : Prop :=
  U.entry = none ∧ U.issued = [] ∧ U.processed = [] ∧ U.frames = [] ∧ U.events = [] ∧ U.outcomes = [] ∧ U.log = []

theorem Dropped.close (U : User) : Dropped U.close := by simp [Dropped, User.close]

theorem Dropped.worker {U : User} (h : Dropped U) (now : Nat) (env : Env) : U.worker now env = U := by
  unfold User.worker; simp [h.1]

theorem Dropped.retryFires {U : User} (h : Dropped U) (now : Nat) : U.retryFires now = U := by
  unfold User.retryFires; simp [h.1]

theorem Dropped.reap {U : User} (h : Dropped U) (g : Nat) : Dropped (U.reap g) := by
  unfold User.reap
  obtain ⟨h1, h2, h3, h4, h5, h6, h7⟩ := h
  split
  · simp [Dropped, h1, h2, h3, h4, h5, h6, h7]
  · exact ⟨h1, h2, h3, h4, h5, h6, h7⟩

theorem dropped_step {s : State} (h : ∀ u, Dropped (s.users u)) (op : Op) (hop : op.isCall = false) :
    ∀ u, Dropped ((step s op).users u) := by
  intro v
  cases op with
  | track u f => simp [Op.isCall] at hop
  | untrack u f => simp [Op.isCall] at hop
  | workerStep u env =>
    by_cases hv : v = u
    · simpa [step, State.upd, hv, (h u).worker] using h u
    · simpa [step, State.upd, hv] using h v
  | reap u g =>
    by_cases hv : v = u
    · simpa [step, State.upd, hv] using (h u).reap g
    · simpa [step, State.upd, hv] using h v
  | retryFires u =>
    by_cases hv : v = u
    · simpa [step, State.upd, hv, (h u).retryFires] using h u
    · simpa [step, State.upd, hv] using h v
  | serverClosed => exact Dropped.close _
  | advance dt => exact h v

theorem dropped_run {s : State} (h : ∀ u, Dropped (s.users u)) (ops : List Op)
    (hops : ∀ op ∈ ops, op.isCall = false) : ∀ u, Dropped ((run s ops).users u) := by
  induction ops generalizing s with
  | nil => exact h
  | cons op ops ih =>
    exact ih (dropped_step h op (hops op (by simp))) (fun o ho => hops o (by simp [ho]))

/-! ### consequences of the invariant, per user -/

theorem reap_entry_of_inv {now : Nat} {U : User} (h : UInv now U) (g : Nat) : (U.reap g).entry = U.entry := by
  unfold User.reap
  split
  · next hg =>
    cases he : U.entry with
    | none => rfl
    | some e =>
      have : e.gen ≠ g := fun hgen => (h.genLt e he).2 (hgen ▸ hg)
      simp [this]
  · rfl

theorem edges_of_inv {now : Nat} {U : User} (h : UInv now U) :
    collapse U.frames = specFrames U.processed ∧ U.flagsOf = specFlags U.processed ∧
    (U.queue = [] → collapse U.frames = specFrames U.issued ∧ U.flagsOf = specFlags U.issued) := by
  refine ⟨h.frames, h.flags, fun hq => ?_⟩
  have h1 : U.processed = U.issued := by
    have := h.lost
    rw [hq, List.append_nil] at this
    exact this
  exact ⟨h1 ▸ h.frames, h1 ▸ h.flags⟩

theorem state_of_inv {now : Nat} {U : User} (h : UInv now U) (hq : U.Quiescent) :
    U.flagsOf = specFlags U.issued ∧
    (U.stateOf = .tracked ↔ U.flagsOf ≠ Flags.empty ∧ U.outcomes.getLast? = some .exists) ∧
    (U.stateOf = .untracked ↔ U.flagsOf = Flags.empty) := by
  cases he : U.entry with
  | none =>
    have hqu : U.queue = [] := by simp [User.queue, he]
    refine ⟨((edges_of_inv h).2.2 hqu).2, ?_, ?_⟩ <;> simp [User.stateOf, User.flagsOf, he]
  | some e =>
    have hq' : e.pc = .idle ∧ e.queue = [] := by simpa [User.Quiescent, he] using hq
    have hqu : U.queue = [] := by simp [User.queue, he, hq'.2]
    have hi := h.idle e he hq'.1
    refine ⟨((edges_of_inv h).2.2 hqu).2, ?_, ?_⟩
    · simp only [User.stateOf, User.flagsOf, he]
      constructor
      · intro ht
        have hne : e.flags ≠ Flags.empty := by
          intro hf
          have := hi.1.mp hf
          simp [ht] at this
        exact ⟨hne, (hi.2.1 hne).mp ht⟩
      · intro ⟨hne, hl⟩
        exact (hi.2.1 hne).mpr hl
    · simp only [User.stateOf, User.flagsOf, he]
      exact hi.1.symm

theorem documented_delays :
    delaySendFail = 10 ∧ delayTimeout = 10 ∧ delayError = 10 ∧ delayNotExists = 600 ∧ responseTimeout = 10 ∧
    retryNetError = 10 ∧ retryNonExisting = 600 := by
  decide

theorem retry_of_inv {now : Nat} {U : User} (h : UInv now U) :
    (∀ e t, U.entry = some e → e.retry = some t →
        e.flags ≠ Flags.empty ∧ t.armedAt ≤ now ∧ (t.delay = 10 ∨ t.delay = 600)) ∧
    U.fired + U.pending ≤ U.failed ∧
    (∀ e, U.entry = some e → (e.pc = .sendAdd ∨ ∃ d, e.pc = .waitResp d) → e.flags ≠ Flags.empty) ∧
    (∀ e, U.entry = some e → e.pc = .sendRemove → e.flags = Flags.empty ∧ e.retry = none ∧ e.live = none) := by
  refine ⟨fun e t he ht => ?_, h.count, fun e he hpc => (h.pcAdd e he hpc).1, fun e he hpc => ?_⟩
  · have := h.retry e t he ht
    rw [documented_delays.2.2.2.2.2.1, documented_delays.2.2.2.2.2.2] at this
    exact ⟨this.1, this.2.1, this.2.2.1⟩
  · have := h.pcRem e he hpc
    exact ⟨this.1, this.2.1, this.2.2.1⟩

theorem retry_delay (U : User) (now : Nat) (env : Env) (e e' : Entry) (t : Timer)
    (he : U.entry = some e) (he' : (U.worker now env).entry = some e') (ht : e'.retry = some t)
    (hnew : e.retry ≠ some t) :
    t.armedAt = now ∧
    (((env = .sendFail ∨ env = .timeout ∨ env = .error) ∧ t.delay = 10) ∨ (env = .notExists ∧ t.delay = 600)) := by
  obtain ⟨d1, d2, d3, d4, _⟩ := documented_delays
  unfold User.worker at he'
  rw [he] at he'
  unfold User.take User.failAttempt User.succeed User.afterRemove User.loopOrExit User.exit at he'
  simp only [] at he'
  (repeat' split at he') <;> grind

theorem retry_not_early (U : User) (now : Nat) (h : (U.retryFires now).issued ≠ U.issued) :
    ∃ e t, U.entry = some e ∧ e.retry = some t ∧ t.armedAt + t.delay * 1024 ≤ now := by
  unfold User.retryFires at h
  split at h
  · exact (h rfl).elim
  · next e he =>
    split at h
    · exact (h rfl).elim
    · next t ht =>
      split at h
      · next hd => exact ⟨e, t, he, ht, hd⟩
      · exact (h rfl).elim

theorem edge_cases (f : Flags) (r : Req) :
    (f ≠ Flags.empty → r.apply f = Flags.empty → edge f r = [.removeUser]) ∧
    (f = Flags.empty → r.apply f ≠ Flags.empty → edge f r = [.addUser]) ∧
    (f = Flags.empty → r.apply f = Flags.empty → edge f r = []) ∧
    (f ≠ Flags.empty → r.apply f ≠ Flags.empty → edge f r = []) := by
  refine ⟨?_, ?_, ?_, ?_⟩
  · intro h1 h2; simp [edge, h1, h2]
  · intro h1 h2; subst h1; simp [edge, h2]
  · intro h1 h2; subst h1; simp [edge, h2]
  · intro h1 h2; simp [edge, h1, h2]

theorem dropped_after_close (ops after : List Op) (hafter : ∀ op ∈ after, op.isCall = false) (u : Nat) :
    Dropped ((run State.init (ops ++ [.serverClosed] ++ after)).users u) := by
  rw [run_append, run_append]
  apply dropped_run _ after hafter
  intro v
  exact Dropped.close _


/-! ### the wire mirrors the reasons: the last attempt is an AddUser iff the reasons are non-empty -/

theorem edge_last (pre : List Frame) (f : Flags) (r : Req)
    (h : pre.getLast? = some .addUser ↔ f ≠ Flags.empty) :
    ((pre ++ edge f r).getLast? = some .addUser ↔ r.apply f ≠ Flags.empty) := by
  unfold edge
  split
  · next h0 =>
    split
    · simp [h0]
    · next hf =>
      have : ¬ pre.getLast? = some .addUser := fun hp => hf (h.mp hp)
      simpa [h0] using this
  · next h0 =>
    split
    · simp [h0]
    · next hf =>
      simp [h0]; exact h.mpr hf

theorem specFramesFrom_last (rs : List Req) : ∀ (f : Flags) (pre : List Frame),
    (pre.getLast? = some .addUser ↔ f ≠ Flags.empty) →
    ((pre ++ specFramesFrom f rs).getLast? = some .addUser ↔ specFlagsFrom f rs ≠ Flags.empty) := by
  induction rs with
  | nil => intro f pre h; simpa [specFramesFrom, specFlagsFrom] using h
  | cons r rs ih =>
    intro f pre h
    have := ih (r.apply f) (pre ++ edge f r) (edge_last pre f r h)
    simpa [specFramesFrom, specFlagsFrom, List.append_assoc] using this

theorem specFrames_last (rs : List Req) :
    (specFrames rs).getLast? = some .addUser ↔ specFlags rs ≠ Flags.empty := by
  have := specFramesFrom_last rs Flags.empty [] (by simp)
  simpa [specFrames, specFlags] using this

theorem wire_of_inv {now : Nat} {U : User} (h : UInv now U) :
    U.frames.getLast? = some .addUser ↔ U.flagsOf ≠ Flags.empty := h.wire

end AioslskVerif.Track
