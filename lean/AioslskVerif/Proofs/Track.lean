import AioslskVerif.Model.Track
/-! Helper lemmas for C15: the per-user invariant and its preservation by every step. -/
namespace AioslskVerif.Track
open AioslskVerif.Generated.Track

/-! ### flags and the specification fold -/

@[simp] theorem Flags.remove_empty_left (f : Flags) : Flags.empty.remove f = Flags.empty := by
  simp [Flags.remove, Flags.empty]

@[simp] theorem Flags.add_empty_right (f : Flags) : f.add Flags.empty = f := by
  cases f; simp [Flags.add, Flags.empty]

theorem specFlagsFrom_append (f : Flags) (rs : List Req) (r : Req) :
    specFlagsFrom f (rs ++ [r]) = r.apply (specFlagsFrom f rs) := by
  simp [specFlagsFrom, List.foldl_append]

theorem specFlags_append (rs : List Req) (r : Req) : specFlags (rs ++ [r]) = r.apply (specFlags rs) :=
  specFlagsFrom_append _ _ _

@[simp] theorem specFlags_nil : specFlags [] = Flags.empty := rfl
@[simp] theorem specFrames_nil : specFrames [] = [] := rfl

theorem specFramesFrom_append (f : Flags) (rs : List Req) (r : Req) :
    specFramesFrom f (rs ++ [r]) = specFramesFrom f rs ++ edge (specFlagsFrom f rs) r := by
  induction rs generalizing f with
  | nil => simp [specFramesFrom, specFlagsFrom]
  | cons a rs ih =>
    simp only [List.cons_append, specFramesFrom, ih, List.append_assoc]
    rfl

theorem specFrames_append (rs : List Req) (r : Req) :
    specFrames (rs ++ [r]) = specFrames rs ++ edge (specFlags rs) r :=
  specFramesFrom_append _ _ _

/-! ### the invariant -/

structure UInv (now : Nat) (U : User) : Prop where
  lost : U.processed ++ U.queue = U.issued
  flags : U.flagsOf = specFlags U.processed
  frames : U.frames = specFrames U.processed
  finLt : ∀ g ∈ U.finished, g < U.nextGen
  genLt : ∀ e, U.entry = some e → e.gen < U.nextGen ∧ e.gen ∉ U.finished
  pcAdd : ∀ e, U.entry = some e → (e.pc = .sendAdd ∨ ∃ d, e.pc = .waitResp d) → e.flags ≠ Flags.empty
  pcRem : ∀ e, U.entry = some e → e.pc = .sendRemove → e.flags = Flags.empty ∧ e.retry = none
  retry : ∀ e t, U.entry = some e → e.retry = some t →
    e.flags ≠ Flags.empty ∧ t.armedAt ≤ now ∧ (t.delay = retryNetError ∨ t.delay = retryNonExisting)
  idle : ∀ e, U.entry = some e → e.pc = .idle →
    ((e.flags = Flags.empty ↔ e.state = .untracked) ∧
     (e.flags ≠ Flags.empty → (e.state = .tracked ↔ U.outcomes.getLast? = some .exists)))
  count : U.fired + U.pending ≤ U.failed

theorem UInv.init (now : Nat) : UInv now User.init := by
  constructor <;> simp [User.init, User.queue, User.flagsOf, User.pending]

theorem UInv.mono {now now' : Nat} {U : User} (h : UInv now U) (hle : now ≤ now') : UInv now' U := by
  refine { h with retry := ?_ }
  intro e t he ht
  have := h.retry e t he ht
  exact ⟨this.1, by omega, this.2.2⟩

/-! ### every per-user step preserves the invariant -/

syntax "uinv_auto" : tactic
macro_rules
  | `(tactic| uinv_auto) => `(tactic|
      (constructor <;>
        (try simp_all [User.queue, User.flagsOf, User.pending, specFlags_append, specFrames_append, edge]) <;>
        (try grind)))

theorem UInv.track {now : Nat} {U : User} (h : UInv now U) (f : Flags) : UInv now (U.track f) := by
  have ⟨h1, h2, h3, h4, h5, h6, h7, h8, h9, h10⟩ := h
  unfold User.track
  cases he : U.entry <;> uinv_auto

theorem UInv.untrack {now : Nat} {U : User} (h : UInv now U) (f : Flags) : UInv now (U.untrack f) := by
  have ⟨h1, h2, h3, h4, h5, h6, h7, h8, h9, h10⟩ := h
  unfold User.untrack
  cases he : U.entry with
  | some e => uinv_auto
  | none =>
    have hf : specFlags U.processed = Flags.empty := by simpa [User.flagsOf, he] using h2.symm
    have ha : ({ add := false, flag := f } : Req).apply Flags.empty = Flags.empty := by simp [Req.apply]
    constructor <;>
      (try simp_all [User.queue, User.flagsOf, User.pending, specFlags_append, specFrames_append, edge])

theorem UInv.retryFires {now : Nat} {U : User} (h : UInv now U) (t : Nat) : UInv now (U.retryFires t) := by
  have ⟨h1, h2, h3, h4, h5, h6, h7, h8, h9, h10⟩ := h
  unfold User.retryFires
  split
  · exact h
  · split
    · exact h
    · split
      · uinv_auto
      · exact h

/-- the done-callback of a finished worker never removes a live entry: the entry it belonged to was
removed when the worker returned, and newer entries have newer identities -/
theorem UInv.reap {now : Nat} {U : User} (h : UInv now U) (g : Nat) : UInv now (U.reap g) := by
  have ⟨h1, h2, h3, h4, h5, h6, h7, h8, h9, h10⟩ := h
  unfold User.reap
  split
  · cases he : U.entry with
    | none => uinv_auto
    | some e =>
      have : e.gen ≠ g := by grind
      simp only [this, if_false]
      uinv_auto
  · exact h

theorem UInv.close {now : Nat} {U : User} (h : UInv now U) : UInv now U.close := by
  have ⟨h1, h2, h3, h4, h5, h6, h7, h8, h9, h10⟩ := h
  unfold User.close
  cases he : U.entry <;> uinv_auto

theorem UInv.take {now : Nat} {U : User} {e : Entry} {r : Req} {q : List Req} (h : UInv now U)
    (he : U.entry = some e) (hpc : e.pc = .idle) (hq : e.queue = r :: q) : UInv now (U.take e r q) := by
  have ⟨h1, h2, h3, h4, h5, h6, h7, h8, h9, h10⟩ := h
  have hl : U.processed ++ [r] ++ q = U.issued := by
    rw [← h1]; simp [User.queue, he, hq]
  have hf : specFlags U.processed = e.flags := by simpa [User.flagsOf, he] using h2.symm
  have hfl : specFlags (U.processed ++ [r]) = r.apply e.flags := by rw [specFlags_append, hf]
  have hfr : specFrames (U.processed ++ [r]) = U.frames ++ edge e.flags r := by
    rw [specFrames_append, hf, h3]
  unfold User.take User.loopOrExit User.exit
  simp only []
  split
  · split
    · uinv_auto
    · split
      · uinv_auto
      · uinv_auto
  · split
    · uinv_auto
    · uinv_auto

theorem UInv.failAttempt {now : Nat} {U : User} {e : Entry} (h : UInv now U) (he : U.entry = some e)
    (hpc : e.pc = .sendAdd ∨ ∃ d, e.pc = .waitResp d) (o : Outcome) (ho : o ≠ .exists) (delay : Nat)
    (hd : delay = retryNetError ∨ delay = retryNonExisting) : UInv now (U.failAttempt e now o delay) := by
  have ⟨h1, h2, h3, h4, h5, h6, h7, h8, h9, h10⟩ := h
  have hne := h6 e he hpc
  unfold User.failAttempt
  uinv_auto

theorem UInv.succeed {now : Nat} {U : User} {e : Entry} (h : UInv now U) (he : U.entry = some e)
    (hpc : ∃ d, e.pc = .waitResp d) : UInv now (U.succeed e) := by
  have ⟨h1, h2, h3, h4, h5, h6, h7, h8, h9, h10⟩ := h
  have hne := h6 e he (Or.inr hpc)
  unfold User.succeed
  uinv_auto

theorem UInv.afterRemove {now : Nat} {U : User} {e : Entry} (h : UInv now U) (he : U.entry = some e)
    (hpc : e.pc = .sendRemove) : UInv now (U.afterRemove e) := by
  have ⟨h1, h2, h3, h4, h5, h6, h7, h8, h9, h10⟩ := h
  have hne := h7 e he hpc
  unfold User.afterRemove User.loopOrExit User.exit
  simp only []
  split
  · uinv_auto
  · uinv_auto

theorem UInv.sendOk {now : Nat} {U : User} {e : Entry} (h : UInv now U) (he : U.entry = some e)
    (hpc : e.pc = .sendAdd) (d : Nat) : UInv now { U with entry := some { e with pc := .waitResp d } } := by
  have ⟨h1, h2, h3, h4, h5, h6, h7, h8, h9, h10⟩ := h
  have hne := h6 e he (Or.inl hpc)
  uinv_auto

/-- every failure branch of `_request_tracking` returns one of the two module constants (regenerated) -/
theorem delays_documented :
    (delaySendFail = retryNetError ∨ delaySendFail = retryNonExisting) ∧
    (delayTimeout = retryNetError ∨ delayTimeout = retryNonExisting) ∧
    (delayError = retryNetError ∨ delayError = retryNonExisting) ∧
    (delayNotExists = retryNetError ∨ delayNotExists = retryNonExisting) := by decide

theorem UInv.worker {now : Nat} {U : User} (h : UInv now U) (env : Env) : UInv now (U.worker now env) := by
  unfold User.worker
  split
  · exact h
  · next e he =>
    split
    · split
      · exact h
      · next r q hq => exact h.take he (by assumption) hq
    · exact h.sendOk he (by assumption) _
    · exact h.failAttempt he (Or.inl (by assumption)) _ (by decide) _ delays_documented.1
    · exact h.succeed he ⟨_, by assumption⟩
    · exact h.failAttempt he (Or.inr ⟨_, by assumption⟩) _ (by decide) _ delays_documented.2.2.2
    · exact h.failAttempt he (Or.inr ⟨_, by assumption⟩) _ (by decide) _ delays_documented.2.2.1
    · split
      · exact h.failAttempt he (Or.inr ⟨_, by assumption⟩) _ (by decide) _ delays_documented.2.1
      · exact h
    · exact h.afterRemove he (by assumption)
    · exact h.afterRemove he (by assumption)
    · exact h

/-! ### the whole state -/

def Inv (s : State) : Prop := ∀ u, UInv s.now (s.users u)

theorem Inv.init : Inv State.init := fun _ => UInv.init _

theorem Inv.upd {s : State} (h : Inv s) (u : Nat) {U : User} (hU : UInv s.now U) : Inv (s.upd u U) := by
  intro v
  by_cases hv : v = u
  · simpa [State.upd, hv] using hU
  · simpa [State.upd, hv] using h v

theorem Inv.step {s : State} (h : Inv s) (op : Op) : Inv (step s op) := by
  cases op with
  | track u f => exact h.upd u ((h u).track f)
  | untrack u f => exact h.upd u ((h u).untrack f)
  | workerStep u env => exact h.upd u ((h u).worker env)
  | reap u g => exact h.upd u ((h u).reap g)
  | retryFires u => exact h.upd u ((h u).retryFires _)
  | serverClosed => intro v; exact (h v).close
  | advance dt => intro v; exact (h v).mono (Nat.le_add_right _ _)

theorem Inv.run {s : State} (h : Inv s) (ops : List Op) : Inv (run s ops) := by
  induction ops generalizing s with
  | nil => exact h
  | cons op ops ih => exact ih (h.step op)

theorem inv_reach (ops : List Op) : Inv (run State.init ops) := Inv.init.run ops

theorem run_append (s : State) (a b : List Op) : run s (a ++ b) = run (run s a) b := by
  simp [run, List.foldl_append]

/-! ### retry requests come from timers only (calls name at least one reason) -/

theorem loopOrExit_ghost (U : User) (e : Entry) :
    (U.loopOrExit e).issued = U.issued ∧ (U.loopOrExit e).fired = U.fired := by
  unfold User.loopOrExit User.exit
  split <;> exact ⟨rfl, rfl⟩

theorem take_ghost (U : User) (e : Entry) (r : Req) (q : List Req) :
    (U.take e r q).issued = U.issued ∧ (U.take e r q).fired = U.fired := by
  unfold User.take
  simp only []
  split
  · split
    · exact ⟨rfl, rfl⟩
    · exact loopOrExit_ghost _ _
  · split <;> exact ⟨rfl, rfl⟩

theorem worker_ghost (U : User) (now : Nat) (env : Env) :
    (U.worker now env).issued = U.issued ∧ (U.worker now env).fired = U.fired := by
  unfold User.worker
  split
  · exact ⟨rfl, rfl⟩
  · split
    · split
      · exact ⟨rfl, rfl⟩
      · exact take_ghost _ _ _ _
    · exact ⟨rfl, rfl⟩
    · exact ⟨rfl, rfl⟩
    · exact ⟨rfl, rfl⟩
    · exact ⟨rfl, rfl⟩
    · exact ⟨rfl, rfl⟩
    · split <;> exact ⟨rfl, rfl⟩
    · exact loopOrExit_ghost _ _
    · exact loopOrExit_ghost _ _
    · exact ⟨rfl, rfl⟩

def RInv (U : User) : Prop := (U.issued.filter Req.isRetry).length = U.fired

theorem RInv.track {U : User} (h : RInv U) {f : Flags} (hf : f ≠ Flags.empty) : RInv (U.track f) := by
  unfold RInv at *
  unfold User.track
  cases he : U.entry <;> simp [List.filter_append, Req.isRetry, hf, h]

theorem RInv.untrack {U : User} (h : RInv U) {f : Flags} (hf : f ≠ Flags.empty) : RInv (U.untrack f) := by
  unfold RInv at *
  unfold User.untrack
  cases he : U.entry <;> simp [List.filter_append, Req.isRetry, hf, h]

theorem RInv.worker {U : User} (h : RInv U) (now : Nat) (env : Env) : RInv (U.worker now env) := by
  unfold RInv at *
  rw [(worker_ghost U now env).1, (worker_ghost U now env).2]; exact h

theorem RInv.retryFires {U : User} (h : RInv U) (now : Nat) : RInv (U.retryFires now) := by
  unfold RInv at *
  unfold User.retryFires
  repeat' split
  all_goals first | exact h | simp [List.filter_append, Req.isRetry, retryReq, h]

theorem RInv.reap {U : User} (h : RInv U) (g : Nat) : RInv (U.reap g) := by
  unfold RInv at *
  unfold User.reap
  repeat' split
  all_goals exact h

theorem RInv.close (U : User) : RInv U.close := by simp [RInv, User.close]

theorem rinv_step {s : State} (h : ∀ u, RInv (s.users u)) (op : Op) (hop : op.flagOk = true) :
    ∀ u, RInv ((step s op).users u) := by
  intro v
  cases op with
  | track u f =>
    have hf : f ≠ Flags.empty := by simpa [Op.flagOk] using hop
    by_cases hv : v = u
    · simpa [step, State.upd, hv] using (h u).track hf
    · simpa [step, State.upd, hv] using h v
  | untrack u f =>
    have hf : f ≠ Flags.empty := by simpa [Op.flagOk] using hop
    by_cases hv : v = u
    · simpa [step, State.upd, hv] using (h u).untrack hf
    · simpa [step, State.upd, hv] using h v
  | workerStep u env =>
    by_cases hv : v = u
    · simpa [step, State.upd, hv] using (h u).worker s.now env
    · simpa [step, State.upd, hv] using h v
  | reap u g =>
    by_cases hv : v = u
    · simpa [step, State.upd, hv] using (h u).reap g
    · simpa [step, State.upd, hv] using h v
  | retryFires u =>
    by_cases hv : v = u
    · simpa [step, State.upd, hv] using (h u).retryFires s.now
    · simpa [step, State.upd, hv] using h v
  | serverClosed => exact RInv.close _
  | advance dt => exact h v

theorem rinv_run {s : State} (h : ∀ u, RInv (s.users u)) (ops : List Op) (hops : ∀ op ∈ ops, op.flagOk = true) :
    ∀ u, RInv ((run s ops).users u) := by
  induction ops generalizing s with
  | nil => exact h
  | cons op ops ih =>
    exact ih (rinv_step h op (hops op (by simp))) (fun o ho => hops o (by simp [ho]))

theorem rinv_reach (ops : List Op) (hops : ∀ op ∈ ops, op.flagOk = true) (u : Nat) :
    RInv ((run State.init ops).users u) :=
  rinv_run (fun _ => by simp [RInv, State.init, User.init]) ops hops u

/-! ### after a close nothing happens until somebody calls -/

/-- no entry, empty history -/
def Dropped (U : User) : Prop :=
  U.entry = none ∧ U.issued = [] ∧ U.processed = [] ∧ U.frames = [] ∧ U.events = [] ∧ U.outcomes = []

theorem Dropped.close (U : User) : Dropped U.close := by simp [Dropped, User.close]

theorem Dropped.worker {U : User} (h : Dropped U) (now : Nat) (env : Env) : U.worker now env = U := by
  unfold User.worker; simp [h.1]

theorem Dropped.retryFires {U : User} (h : Dropped U) (now : Nat) : U.retryFires now = U := by
  unfold User.retryFires; simp [h.1]

theorem Dropped.reap {U : User} (h : Dropped U) (g : Nat) : Dropped (U.reap g) := by
  unfold User.reap
  obtain ⟨h1, h2, h3, h4, h5, h6⟩ := h
  split
  · simp [Dropped, h1, h2, h3, h4, h5, h6]
  · exact ⟨h1, h2, h3, h4, h5, h6⟩

theorem dropped_step {s : State} (h : ∀ u, Dropped (s.users u)) (op : Op) (hop : op.isCall = false) :
    ∀ u, Dropped ((step s op).users u) := by
  intro v
  cases op with
  | track u f => simp [Op.isCall] at hop
  | untrack u f => simp [Op.isCall] at hop
  | workerStep u env =>
    by_cases hv : v = u
    · simpa [step, State.upd, hv, (h u).worker] using h u
    · simpa [step, State.upd, hv] using h v
  | reap u g =>
    by_cases hv : v = u
    · simpa [step, State.upd, hv] using (h u).reap g
    · simpa [step, State.upd, hv] using h v
  | retryFires u =>
    by_cases hv : v = u
    · simpa [step, State.upd, hv, (h u).retryFires] using h u
    · simpa [step, State.upd, hv] using h v
  | serverClosed => exact Dropped.close _
  | advance dt => exact h v

theorem dropped_run {s : State} (h : ∀ u, Dropped (s.users u)) (ops : List Op)
    (hops : ∀ op ∈ ops, op.isCall = false) : ∀ u, Dropped ((run s ops).users u) := by
  induction ops generalizing s with
  | nil => exact h
  | cons op ops ih =>
    exact ih (dropped_step h op (hops op (by simp))) (fun o ho => hops o (by simp [ho]))

/-! ### consequences of the invariant, per user -/

theorem reap_entry_of_inv {now : Nat} {U : User} (h : UInv now U) (g : Nat) : (U.reap g).entry = U.entry := by
  unfold User.reap
  split
  · next hg =>
    cases he : U.entry with
    | none => rfl
    | some e =>
      have : e.gen ≠ g := fun hgen => (h.genLt e he).2 (hgen ▸ hg)
      simp [this]
  · rfl

theorem edges_of_inv {now : Nat} {U : User} (h : UInv now U) :
    U.frames = specFrames U.processed ∧ U.flagsOf = specFlags U.processed ∧
    (U.queue = [] → U.frames = specFrames U.issued ∧ U.flagsOf = specFlags U.issued) := by
  refine ⟨h.frames, h.flags, fun hq => ?_⟩
  have h1 : U.processed = U.issued := by
    have := h.lost
    rw [hq, List.append_nil] at this
    exact this
  exact ⟨h1 ▸ h.frames, h1 ▸ h.flags⟩

theorem state_of_inv {now : Nat} {U : User} (h : UInv now U) (hq : U.Quiescent) :
    U.flagsOf = specFlags U.issued ∧
    (U.stateOf = .tracked ↔ U.flagsOf ≠ Flags.empty ∧ U.outcomes.getLast? = some .exists) ∧
    (U.stateOf = .untracked ↔ U.flagsOf = Flags.empty) := by
  cases he : U.entry with
  | none =>
    have hqu : U.queue = [] := by simp [User.queue, he]
    refine ⟨((edges_of_inv h).2.2 hqu).2, ?_, ?_⟩ <;> simp [User.stateOf, User.flagsOf, he]
  | some e =>
    have hq' : e.pc = .idle ∧ e.queue = [] := by simpa [User.Quiescent, he] using hq
    have hqu : U.queue = [] := by simp [User.queue, he, hq'.2]
    have hi := h.idle e he hq'.1
    refine ⟨((edges_of_inv h).2.2 hqu).2, ?_, ?_⟩
    · simp only [User.stateOf, User.flagsOf, he]
      constructor
      · intro ht
        have hne : e.flags ≠ Flags.empty := by
          intro hf
          have := hi.1.mp hf
          simp [ht] at this
        exact ⟨hne, (hi.2 hne).mp ht⟩
      · intro ⟨hne, hl⟩
        exact (hi.2 hne).mpr hl
    · simp only [User.stateOf, User.flagsOf, he]
      exact hi.1.symm

theorem documented_delays :
    delaySendFail = 10 ∧ delayTimeout = 10 ∧ delayError = 10 ∧ delayNotExists = 600 ∧ responseTimeout = 10 ∧
    retryNetError = 10 ∧ retryNonExisting = 600 := by
  decide

theorem retry_of_inv {now : Nat} {U : User} (h : UInv now U) :
    (∀ e t, U.entry = some e → e.retry = some t →
        e.flags ≠ Flags.empty ∧ t.armedAt ≤ now ∧ (t.delay = 10 ∨ t.delay = 600)) ∧
    U.fired + U.pending ≤ U.failed ∧
    (∀ e, U.entry = some e → (e.pc = .sendAdd ∨ ∃ d, e.pc = .waitResp d) → e.flags ≠ Flags.empty) ∧
    (∀ e, U.entry = some e → e.pc = .sendRemove → e.flags = Flags.empty ∧ e.retry = none) := by
  refine ⟨fun e t he ht => ?_, h.count, h.pcAdd, h.pcRem⟩
  have := h.retry e t he ht
  rw [documented_delays.2.2.2.2.2.1, documented_delays.2.2.2.2.2.2] at this
  exact this

theorem retry_delay (U : User) (now : Nat) (env : Env) (e e' : Entry) (t : Timer)
    (he : U.entry = some e) (he' : (U.worker now env).entry = some e') (ht : e'.retry = some t)
    (hnew : e.retry ≠ some t) :
    t.armedAt = now ∧
    (((env = .sendFail ∨ env = .timeout ∨ env = .error) ∧ t.delay = 10) ∨ (env = .notExists ∧ t.delay = 600)) := by
  obtain ⟨d1, d2, d3, d4, _⟩ := documented_delays
  unfold User.worker at he'
  rw [he] at he'
  unfold User.take User.failAttempt User.succeed User.afterRemove User.loopOrExit User.exit at he'
  simp only [] at he'
  (repeat' split at he') <;> grind

theorem retry_not_early (U : User) (now : Nat) (h : (U.retryFires now).issued ≠ U.issued) :
    ∃ e t, U.entry = some e ∧ e.retry = some t ∧ t.armedAt + t.delay * 1024 ≤ now := by
  unfold User.retryFires at h
  split at h
  · exact (h rfl).elim
  · next e he =>
    split at h
    · exact (h rfl).elim
    · next t ht =>
      split at h
      · next hd => exact ⟨e, t, he, ht, hd⟩
      · exact (h rfl).elim

theorem edge_cases (f : Flags) (r : Req) :
    (f ≠ Flags.empty → r.apply f = Flags.empty → edge f r = [.removeUser]) ∧
    (f = Flags.empty → r.apply f ≠ Flags.empty → edge f r = [.addUser]) ∧
    (f = Flags.empty → r.apply f = Flags.empty → edge f r = []) ∧
    (f ≠ Flags.empty → r.apply f ≠ Flags.empty → r.isRetry = false → edge f r = []) ∧
    (f ≠ Flags.empty → r.isRetry = true → edge f r = [.addUser]) := by
  refine ⟨?_, ?_, ?_, ?_, ?_⟩
  · intro h1 h2; simp [edge, h1, h2]
  · intro h1 h2; subst h1; simp [edge, h2]
  · intro h1 h2; subst h1; simp [edge, h2]
  · intro h1 h2 h3; simp [edge, h1, h2, h3]
  · intro h1 h3
    have hf : r.flag = Flags.empty := by simpa [Req.isRetry] using h3
    have : r.apply f = f := by
      unfold Req.apply
      rw [hf]
      cases f
      simp [Flags.add, Flags.remove, Flags.empty]
    simp [edge, this, h1, h3]

theorem dropped_after_close (ops after : List Op) (hafter : ∀ op ∈ after, op.isCall = false) (u : Nat) :
    Dropped ((run State.init (ops ++ [.serverClosed] ++ after)).users u) := by
  rw [run_append, run_append]
  apply dropped_run _ after hafter
  intro v
  exact Dropped.close _


/-! ### the wire mirrors the reasons: the last attempt is an AddUser iff the reasons are non-empty -/

theorem edge_last (pre : List Frame) (f : Flags) (r : Req)
    (h : pre.getLast? = some .addUser ↔ f ≠ Flags.empty) :
    ((pre ++ edge f r).getLast? = some .addUser ↔ r.apply f ≠ Flags.empty) := by
  unfold edge
  split
  · next h0 =>
    split
    · simp [h0]
    · next hf =>
      have : ¬ pre.getLast? = some .addUser := fun hp => hf (h.mp hp)
      simpa [h0] using this
  · next h0 =>
    split
    · simp [h0]
    · next hf =>
      have hf' : f ≠ Flags.empty := fun hfe => hf (Or.inl hfe)
      simp [h0]; exact h.mpr hf'

theorem specFramesFrom_last (rs : List Req) : ∀ (f : Flags) (pre : List Frame),
    (pre.getLast? = some .addUser ↔ f ≠ Flags.empty) →
    ((pre ++ specFramesFrom f rs).getLast? = some .addUser ↔ specFlagsFrom f rs ≠ Flags.empty) := by
  induction rs with
  | nil => intro f pre h; simpa [specFramesFrom, specFlagsFrom] using h
  | cons r rs ih =>
    intro f pre h
    have := ih (r.apply f) (pre ++ edge f r) (edge_last pre f r h)
    simpa [specFramesFrom, specFlagsFrom, List.append_assoc] using this

theorem specFrames_last (rs : List Req) :
    (specFrames rs).getLast? = some .addUser ↔ specFlags rs ≠ Flags.empty := by
  have := specFramesFrom_last rs Flags.empty [] (by simp)
  simpa [specFrames, specFlags] using this

theorem wire_of_inv {now : Nat} {U : User} (h : UInv now U) :
    U.frames.getLast? = some .addUser ↔ U.flagsOf ≠ Flags.empty := by
  rw [h.frames, h.flags]; exact specFrames_last _

/-! ### `reasons`: how each step changes the fold of the requests made -/

theorem mem_dedup {u : Nat} {l : List Nat} : u ∈ dedup l ↔ u ∈ l := by
  induction l with
  | nil => simp [dedup]
  | cons a l ih =>
    unfold dedup
    split
    · next ha =>
      constructor
      · intro h; exact List.mem_cons_of_mem _ (ih.mp h)
      · intro h
        cases List.mem_cons.mp h with
        | inl h => exact ih.mpr (h ▸ ha)
        | inr h => exact ih.mpr h
    · simp [ih]

theorem issued_track (U : User) (f : Flags) : (U.track f).issued = U.issued ++ [⟨true, f⟩] := by
  unfold User.track; cases U.entry <;> rfl

theorem issued_untrack (U : User) (f : Flags) : (U.untrack f).issued = U.issued ++ [⟨false, f⟩] := by
  unfold User.untrack; cases U.entry <;> rfl

theorem issued_reap (U : User) (g : Nat) : (U.reap g).issued = U.issued := by
  unfold User.reap
  repeat' split
  all_goals rfl

theorem specFlags_issued_retryFires (U : User) (now : Nat) :
    specFlags (U.retryFires now).issued = specFlags U.issued := by
  unfold User.retryFires
  repeat' split
  all_goals first | rfl | simp [specFlags_append, retryReq, Req.apply]

theorem reasons_track (s : State) (v : Nat) (f : Flags) (u : Nat) :
    reasons (step s (.track v f)) u = if u = v then (reasons s u).add f else reasons s u := by
  unfold reasons
  by_cases h : u = v
  · subst h; simp [step, State.upd, issued_track, specFlags_append, Req.apply]
  · simp [step, State.upd, h]

theorem reasons_untrack (s : State) (v : Nat) (f : Flags) (u : Nat) :
    reasons (step s (.untrack v f)) u = if u = v then (reasons s u).remove f else reasons s u := by
  unfold reasons
  by_cases h : u = v
  · subst h; simp [step, State.upd, issued_untrack, specFlags_append, Req.apply]
  · simp [step, State.upd, h]

theorem reasons_closed (s : State) (u : Nat) : reasons (step s .serverClosed) u = Flags.empty := by
  simp [reasons, step, User.close]

theorem reasons_workerStep (s : State) (v : Nat) (env : Env) (u : Nat) :
    reasons (step s (.workerStep v env)) u = reasons s u := by
  unfold reasons
  by_cases h : u = v
  · subst h; simp [step, State.upd, (worker_ghost _ _ _).1]
  · simp [step, State.upd, h]

theorem reasons_reap (s : State) (v g : Nat) (u : Nat) : reasons (step s (.reap v g)) u = reasons s u := by
  unfold reasons
  by_cases h : u = v
  · subst h; simp [step, State.upd, issued_reap]
  · simp [step, State.upd, h]

theorem reasons_retryFires (s : State) (v : Nat) (u : Nat) : reasons (step s (.retryFires v)) u = reasons s u := by
  unfold reasons
  by_cases h : u = v
  · subst h; simp [step, State.upd, specFlags_issued_retryFires]
  · simp [step, State.upd, h]

theorem reasons_advance (s : State) (dt : Nat) (u : Nat) : reasons (step s (.advance dt)) u = reasons s u := rfl

theorem Flags.add_idem (a f : Flags) : (a.add f).add f = a.add f := by
  cases a; cases f; simp [Flags.add]

theorem Flags.remove_idem (a f : Flags) : (a.remove f).remove f = a.remove f := by
  cases a; cases f; simp [Flags.remove]

theorem run_cons (s : State) (op : Op) (ops : List Op) : run s (op :: ops) = run (step s op) ops := rfl

/-- the same reason requested for a list of users: every user in the list gets it, nobody else is touched -/
theorem reasons_run_tracks (us : List Nat) (f : Flags) (u : Nat) : ∀ s : State,
    reasons (run s (us.map (Op.track · f))) u = if u ∈ us then (reasons s u).add f else reasons s u := by
  induction us with
  | nil => intro s; simp [run]
  | cons v us ih =>
    intro s
    rw [List.map_cons, run_cons, ih, reasons_track]
    by_cases h1 : u = v <;> by_cases h2 : u ∈ us <;> simp [h1, h2, Flags.add_idem]

theorem reasons_run_untracks (us : List Nat) (f : Flags) (u : Nat) : ∀ s : State,
    reasons (run s (us.map (Op.untrack · f))) u = if u ∈ us then (reasons s u).remove f else reasons s u := by
  induction us with
  | nil => intro s; simp [run]
  | cons v us ih =>
    intro s
    rw [List.map_cons, run_cons, ih, reasons_untrack]
    by_cases h1 : u = v <;> by_cases h2 : u ∈ us <;> simp [h1, h2, Flags.remove_idem]

/-! ### the owners: what a login / a management cycle leaves behind -/

namespace World

theorem mem_unfinishedUsers (w : World) (u : Nat) : u ∈ w.unfinishedUsers ↔ w.HasUnfinished u := by
  unfold unfinishedUsers HasUnfinished
  rw [mem_dedup]
  simp only [List.mem_map, List.mem_filter]
  constructor
  · rintro ⟨x, ⟨hx, hf⟩, rfl⟩; exact ⟨x, hx, rfl, by simpa using hf⟩
  · rintro ⟨x, hx, rfl, hf⟩; exact ⟨x, ⟨hx, by simp [hf]⟩, rfl⟩

theorem mem_finishedOnlyUsers (w : World) (u : Nat) :
    u ∈ w.finishedOnlyUsers ↔ w.HasFinished u ∧ ¬ w.HasUnfinished u := by
  unfold finishedOnlyUsers HasFinished
  rw [List.mem_filter, mem_dedup]
  simp only [List.mem_map, List.mem_filter, decide_eq_true_eq]
  constructor
  · rintro ⟨⟨x, ⟨hx, hf⟩, rfl⟩, hn⟩; exact ⟨⟨x, hx, rfl, hf⟩, hn⟩
  · rintro ⟨⟨x, hx, rfl, hf⟩, hn⟩; exact ⟨⟨x, ⟨hx, hf⟩, rfl⟩, hn⟩

/-- one management cycle, per user -/
theorem reasons_cycle (w : World) (u : Nat) :
    reasons (run w.t w.cycleOps) u =
      if w.HasUnfinished u then (reasons w.t u).add fTr
      else if w.HasFinished u then (reasons w.t u).remove fTr
      else reasons w.t u := by
  unfold cycleOps
  rw [run_append, reasons_run_untracks, reasons_run_tracks]
  simp only [mem_unfinishedUsers, mem_finishedOnlyUsers]
  by_cases h1 : w.HasUnfinished u <;> by_cases h2 : w.HasFinished u <;> simp [h1, h2]

/-- one login, per user other than the own name -/
theorem reasons_login (w : World) (u : Nat) (hu : u ≠ me) :
    reasons (run w.t w.loginOps) u = if u ∈ w.friends then (reasons w.t u).add fFr else reasons w.t u := by
  unfold loginOps
  rw [run_cons, reasons_run_tracks, reasons_track]
  simp [hu, mem_dedup]

end World

/-! ### the world invariant: the owners' reasons are what the owners can see -/

@[simp] theorem tr_add_fTr (a : Flags) : (a.add fTr).tr = true := by simp [Flags.add, fTr]
@[simp] theorem tr_remove_fTr (a : Flags) : (a.remove fTr).tr = false := by simp [Flags.remove, fTr]
@[simp] theorem tr_add_fFr (a : Flags) : (a.add fFr).tr = a.tr := by simp [Flags.add, fFr]
@[simp] theorem tr_remove_fFr (a : Flags) : (a.remove fFr).tr = a.tr := by simp [Flags.remove, fFr]
@[simp] theorem tr_add_fReq (a : Flags) : (a.add fReq).tr = a.tr := by simp [Flags.add, fReq]
@[simp] theorem tr_remove_fReq (a : Flags) : (a.remove fReq).tr = a.tr := by simp [Flags.remove, fReq]
@[simp] theorem fr_add_fFr (a : Flags) : (a.add fFr).fr = true := by simp [Flags.add, fFr]
@[simp] theorem fr_remove_fFr (a : Flags) : (a.remove fFr).fr = false := by simp [Flags.remove, fFr]
@[simp] theorem fr_add_fTr (a : Flags) : (a.add fTr).fr = a.fr := by simp [Flags.add, fTr]
@[simp] theorem fr_remove_fTr (a : Flags) : (a.remove fTr).fr = a.fr := by simp [Flags.remove, fTr]
@[simp] theorem fr_add_fReq (a : Flags) : (a.add fReq).fr = a.fr := by simp [Flags.add, fReq]
@[simp] theorem fr_remove_fReq (a : Flags) : (a.remove fReq).fr = a.fr := by simp [Flags.remove, fReq]
@[simp] theorem req_add_fTr (a : Flags) : (a.add fTr).req = a.req := by simp [Flags.add, fTr]
@[simp] theorem req_remove_fTr (a : Flags) : (a.remove fTr).req = a.req := by simp [Flags.remove, fTr]
@[simp] theorem req_add_fFr (a : Flags) : (a.add fFr).req = a.req := by simp [Flags.add, fFr]
@[simp] theorem req_remove_fFr (a : Flags) : (a.remove fFr).req = a.req := by simp [Flags.remove, fFr]
@[simp] theorem empty_tr : Flags.empty.tr = false := rfl
@[simp] theorem empty_fr : Flags.empty.fr = false := rfl
@[simp] theorem empty_req : Flags.empty.req = false := rfl

structure WInv (w : World) : Prop where
  /-- after a cycle (and until the transfers change or the server closes) TRANSFER = "has an unfinished transfer" -/
  trSync : w.cycleRan = true → ∀ u, (reasons w.t u).tr = decide (w.HasUnfinished u)
  /-- a user without any transfer never carries TRANSFER -/
  trNone : ∀ u, ¬ w.HasXfer u → (reasons w.t u).tr = false
  /-- without a session nobody carries FRIEND -/
  frOff : w.session = false → ∀ u, u ≠ me → (reasons w.t u).fr = false
  /-- in a session FRIEND = "is in the friends list" -/
  frOn : w.session = true → ∀ u, u ≠ me → (reasons w.t u).fr = decide (u ∈ w.friends)

theorem WInv.init : WInv World.init := by
  constructor <;> simp [World.init, reasons, State.init, User.init]

/-- a step of the layer below made by the application (REQUESTED only) or by the tracking tasks / the clock
leaves TRANSFER and FRIEND alone -/
theorem reasons_step_app (s : State) (op : Op) (hop : (WOp.base op).appOk = true) (hc : op ≠ .serverClosed)
    (u : Nat) : (reasons (step s op) u).tr = (reasons s u).tr ∧ (reasons (step s op) u).fr = (reasons s u).fr := by
  cases op with
  | track v f =>
    have hf : f = fReq := by simpa [WOp.appOk] using hop
    subst hf; rw [reasons_track]; split <;> simp
  | untrack v f =>
    have hf : f = fReq := by simpa [WOp.appOk] using hop
    subst hf; rw [reasons_untrack]; split <;> simp
  | workerStep v env => rw [reasons_workerStep]; exact ⟨rfl, rfl⟩
  | reap v g => rw [reasons_reap]; exact ⟨rfl, rfl⟩
  | retryFires v => rw [reasons_retryFires]; exact ⟨rfl, rfl⟩
  | serverClosed => exact (hc rfl).elim
  | advance dt => exact ⟨rfl, rfl⟩

theorem WInv.close {w : World} (_h : WInv w) : WInv w.close := by
  constructor <;> simp [World.close, reasons_closed]

theorem hasXfer_of_unfinished {w : World} {u : Nat} (h : w.HasUnfinished u) : w.HasXfer u := by
  obtain ⟨x, hx, hu, _⟩ := h; exact ⟨x, hx, hu⟩

theorem hasXfer_of_finished {w : World} {u : Nat} (h : w.HasFinished u) : w.HasXfer u := by
  obtain ⟨x, hx, hu, _⟩ := h; exact ⟨x, hx, hu⟩

theorem WInv.cycle {w : World} (h : WInv w) : WInv (wstep w .cycle) := by
  have hx : ∀ u, (wstep w .cycle).HasUnfinished u ↔ w.HasUnfinished u := fun _ => Iff.rfl
  constructor
  · intro _ u
    show (reasons (run w.t w.cycleOps) u).tr = decide (w.HasUnfinished u)
    rw [World.reasons_cycle]
    by_cases h1 : w.HasUnfinished u
    · simp [h1]
    · by_cases h2 : w.HasFinished u
      · simp [h1, h2]
      · have : ¬ w.HasXfer u := by
          rintro ⟨x, hx, hu⟩
          cases hf : x.finished
          · exact h1 ⟨x, hx, hu, hf⟩
          · exact h2 ⟨x, hx, hu, hf⟩
        simp [h1, h2, h.trNone u this]
  · intro u hn
    show (reasons (run w.t w.cycleOps) u).tr = false
    have hn' : ¬ w.HasXfer u := hn
    rw [World.reasons_cycle]
    have h1 : ¬ w.HasUnfinished u := fun h1 => hn' (hasXfer_of_unfinished h1)
    have h2 : ¬ w.HasFinished u := fun h2 => hn' (hasXfer_of_finished h2)
    simp [h1, h2, h.trNone u hn']
  · intro hs u hu
    show (reasons (run w.t w.cycleOps) u).fr = false
    rw [World.reasons_cycle]
    have := h.frOff hs u hu
    repeat' split
    all_goals simpa using this
  · intro hs u hu
    show (reasons (run w.t w.cycleOps) u).fr = decide (u ∈ w.friends)
    rw [World.reasons_cycle]
    have := h.frOn hs u hu
    repeat' split
    all_goals simpa using this

theorem WInv.login {w : World} (h : WInv w) : WInv (wstep w .login) := by
  have key : ∀ u, u ≠ me → (reasons (run w.t w.loginOps) u).tr = (reasons w.t u).tr := by
    intro u hu; rw [World.reasons_login w u hu]; split <;> simp
  have keyMe : (reasons (run w.t w.loginOps) me).tr = (reasons w.t me).tr := by
    unfold World.loginOps
    rw [run_cons, reasons_run_tracks, reasons_track]
    split <;> simp
  have keyAll : ∀ u, (reasons (run w.t w.loginOps) u).tr = (reasons w.t u).tr := by
    intro u; by_cases hu : u = me
    · subst hu; exact keyMe
    · exact key u hu
  constructor
  · intro hc u
    show (reasons (run w.t w.loginOps) u).tr = decide (w.HasUnfinished u)
    rw [keyAll]; exact h.trSync hc u
  · intro u hn
    show (reasons (run w.t w.loginOps) u).tr = false
    rw [keyAll]; exact h.trNone u hn
  · intro hs; simp [wstep] at hs
  · intro _ u hu
    show (reasons (run w.t w.loginOps) u).fr = decide (u ∈ w.friends)
    rw [World.reasons_login w u hu]
    by_cases hf : u ∈ w.friends
    · simp [hf]
    · cases hs : w.session
      · simp [hf, h.frOff hs u hu]
      · simp [hf, h.frOn hs u hu]


theorem wstep_friend_true (w : World) (u : Nat) : wstep w (.friend u true) =
    if u ∈ w.friends then w
    else { w with friends := w.friends ++ [u], t := if w.session then step w.t (.track u fFr) else w.t } := rfl

theorem wstep_friend_false (w : World) (u : Nat) : wstep w (.friend u false) =
    if u ∈ w.friends then
      { w with friends := w.friends.filter (· ≠ u), t := if w.session then step w.t (.untrack u fFr) else w.t }
    else w := rfl

theorem wstep_trm (w : World) (id : Nat) : wstep w (.trm id) =
    match w.xfers.find? (fun x => x.id = id) with
    | none => w
    | some x =>
      let rest := w.xfers.erase x
      { w with xfers := rest, cycleRan := false,
               t := if ∃ y ∈ rest, y.user = x.user then w.t else step w.t (.untrack x.user fTr) } := rfl

theorem WInv.base {w : World} (h : WInv w) (op : Op) (hop : (WOp.base op).appOk = true) :
    WInv (wstep w (.base op)) := by
  by_cases hc : op = .serverClosed
  · subst hc; exact h.close
  · have hw : wstep w (.base op) = { w with t := step w.t op } := by
      cases op <;> first | rfl | exact (hc rfl).elim
    rw [hw]
    have key := reasons_step_app w.t op hop hc
    constructor
    · intro hcr u; show (reasons (step w.t op) u).tr = _; rw [(key u).1]; exact h.trSync hcr u
    · intro u hn; show (reasons (step w.t op) u).tr = _; rw [(key u).1]; exact h.trNone u hn
    · intro hs u hu; show (reasons (step w.t op) u).fr = _; rw [(key u).2]; exact h.frOff hs u hu
    · intro hs u hu; show (reasons (step w.t op) u).fr = _; rw [(key u).2]; exact h.frOn hs u hu

theorem WInv.friend {w : World} (h : WInv w) (u : Nat) (b : Bool) : WInv (wstep w (.friend u b)) := by
  cases b with
  | true =>
    rw [wstep_friend_true]
    split
    · exact h
    · next hnot =>
      constructor
      · intro hcr v
        show (reasons (if w.session = true then step w.t (.track u fFr) else w.t) v).tr = decide (w.HasUnfinished v)
        split
        · rw [reasons_track]; split <;> simpa using h.trSync hcr v
        · exact h.trSync hcr v
      · intro v hn
        show (reasons (if w.session = true then step w.t (.track u fFr) else w.t) v).tr = false
        split
        · rw [reasons_track]; split <;> simpa using h.trNone v hn
        · exact h.trNone v hn
      · intro hs v hv
        have hs' : w.session = false := hs
        show (reasons (if w.session = true then step w.t (.track u fFr) else w.t) v).fr = false
        simp [hs', h.frOff hs' v hv]
      · intro hs v hv
        have hs' : w.session = true := hs
        show (reasons (if w.session = true then step w.t (.track u fFr) else w.t) v).fr = decide (v ∈ w.friends ++ [u])
        simp only [hs', if_true]
        rw [reasons_track]
        by_cases hvu : v = u
        · simp [hvu]
        · simp [hvu, h.frOn hs' v hv]
  | false =>
    rw [wstep_friend_false]
    split
    · next hin =>
      constructor
      · intro hcr v
        show (reasons (if w.session = true then step w.t (.untrack u fFr) else w.t) v).tr = decide (w.HasUnfinished v)
        split
        · rw [reasons_untrack]; split <;> simpa using h.trSync hcr v
        · exact h.trSync hcr v
      · intro v hn
        show (reasons (if w.session = true then step w.t (.untrack u fFr) else w.t) v).tr = false
        split
        · rw [reasons_untrack]; split <;> simpa using h.trNone v hn
        · exact h.trNone v hn
      · intro hs v hv
        have hs' : w.session = false := hs
        show (reasons (if w.session = true then step w.t (.untrack u fFr) else w.t) v).fr = false
        simp [hs', h.frOff hs' v hv]
      · intro hs v hv
        have hs' : w.session = true := hs
        show (reasons (if w.session = true then step w.t (.untrack u fFr) else w.t) v).fr
          = decide (v ∈ w.friends.filter (· ≠ u))
        simp only [hs', if_true]
        rw [reasons_untrack]
        by_cases hvu : v = u
        · simp [hvu]
        · simp [hvu, h.frOn hs' v hv]
    · exact h

theorem WInv.tadd {w : World} (h : WInv w) (u : Nat) : WInv (wstep w (.tadd u)) := by
  constructor
  · intro hcr; simp [wstep] at hcr
  · intro v hn
    apply h.trNone v
    rintro ⟨x, hx, hu⟩
    exact hn ⟨x, by simp [wstep, hx], hu⟩
  · exact h.frOff
  · exact h.frOn

theorem WInv.setFinished {w : World} (h : WInv w) (id : Nat) (b : Bool) : WInv (w.setFinished id b) := by
  constructor
  · intro hcr; simp [World.setFinished] at hcr
  · intro v hn
    apply h.trNone v
    rintro ⟨x, hx, hu⟩
    apply hn
    refine ⟨if x.id = id then { x with finished := b } else x, ?_, ?_⟩
    · simp only [World.setFinished, List.mem_map]; exact ⟨x, hx, rfl⟩
    · split <;> exact hu
  · exact h.frOff
  · exact h.frOn

theorem WInv.trm {w : World} (h : WInv w) (id : Nat) : WInv (wstep w (.trm id)) := by
  rw [wstep_trm]
  split
  · exact h
  · next x hfind =>
    have hxin : x ∈ w.xfers := List.mem_of_find?_eq_some hfind
    have trEq : ∀ v, v ≠ x.user →
        reasons (if ∃ y ∈ w.xfers.erase x, y.user = x.user then w.t else step w.t (.untrack x.user fTr)) v
          = reasons w.t v := by
      intro v hv
      split
      · rfl
      · rw [reasons_untrack]; simp [hv]
    have frEq : ∀ v,
        (reasons (if ∃ y ∈ w.xfers.erase x, y.user = x.user then w.t else step w.t (.untrack x.user fTr)) v).fr
          = (reasons w.t v).fr := by
      intro v
      split
      · rfl
      · rw [reasons_untrack]; split <;> simp
    constructor
    · intro hcr; simp at hcr
    · intro v hn
      have hn' : ¬ ∃ y ∈ w.xfers.erase x, y.user = v := hn
      show (reasons (if ∃ y ∈ w.xfers.erase x, y.user = x.user then w.t
        else step w.t (.untrack x.user fTr)) v).tr = false
      by_cases hv : v = x.user
      · subst hv
        simp only [hn', if_false]
        rw [reasons_untrack]; simp
      · rw [trEq v hv]
        apply h.trNone v
        rintro ⟨y, hy, hyu⟩
        have hne : y ≠ x := fun hyx => hv (hyx ▸ hyu.symm)
        exact hn' ⟨y, (List.mem_erase_of_ne hne).mpr hy, hyu⟩
    · intro hs v hv
      have hs' : w.session = false := hs
      show (reasons _ v).fr = false
      rw [frEq]; exact h.frOff hs' v hv
    · intro hs v hv
      have hs' : w.session = true := hs
      show (reasons _ v).fr = decide (v ∈ w.friends)
      rw [frEq]; exact h.frOn hs' v hv

theorem WInv.step {w : World} (h : WInv w) (op : WOp) (hop : op.appOk = true) : WInv (wstep w op) := by
  cases op with
  | base op => exact h.base op hop
  | login => exact h.login
  | cycle => exact h.cycle
  | friend u b => exact h.friend u b
  | tadd u => exact h.tadd u
  | tfin id => exact h.setFinished id true
  | tque id => exact h.setFinished id false
  | trm id => exact h.trm id

theorem WInv.run {w : World} (h : WInv w) (ops : List WOp) (hops : ∀ op ∈ ops, op.appOk = true) :
    WInv (wrun w ops) := by
  induction ops generalizing w with
  | nil => exact h
  | cons op ops ih =>
    exact ih (h.step op (hops op (by simp))) (fun o ho => hops o (by simp [ho]))

theorem winv_reach (ops : List WOp) (hops : ∀ op ∈ ops, op.appOk = true) : WInv (wrun World.init ops) :=
  WInv.init.run ops hops

theorem wrun_append (w : World) (a b : List WOp) : wrun w (a ++ b) = wrun (wrun w a) b := by
  simp [wrun, List.foldl_append]

/-! ### every history of the world is a history of the tracking manager -/

theorem wstep_base (w : World) (op : WOp) : ∃ ops, (wstep w op).t = run w.t ops := by
  cases op with
  | base op => exact ⟨[op], by cases op <;> rfl⟩
  | login => exact ⟨w.loginOps, rfl⟩
  | cycle => exact ⟨w.cycleOps, rfl⟩
  | friend u b =>
    cases b with
    | false =>
      rw [wstep_friend_false]
      split
      · cases hs : w.session
        · exact ⟨[], by simp [run]⟩
        · exact ⟨[.untrack u fFr], by simp [run]⟩
      · exact ⟨[], rfl⟩
    | true =>
      rw [wstep_friend_true]
      split
      · exact ⟨[], rfl⟩
      · cases hs : w.session
        · exact ⟨[], by simp [run]⟩
        · exact ⟨[.track u fFr], by simp [run]⟩
  | tadd u => exact ⟨[], rfl⟩
  | tfin id => exact ⟨[], rfl⟩
  | tque id => exact ⟨[], rfl⟩
  | trm id =>
    rw [wstep_trm]
    split
    · exact ⟨[], rfl⟩
    · next x _ =>
      by_cases hc : ∃ y ∈ w.xfers.erase x, y.user = x.user
      · exact ⟨[], by simp [hc, run]⟩
      · exact ⟨[.untrack x.user fTr], by simp [hc, run]⟩

theorem wrun_base (wops : List WOp) : ∀ (w : World) (ops0 : List Op), w.t = run State.init ops0 →
    ∃ ops, (wrun w wops).t = run State.init ops := by
  induction wops with
  | nil => intro w ops0 h; exact ⟨ops0, h⟩
  | cons op wops ih =>
    intro w ops0 h
    obtain ⟨ops1, h1⟩ := wstep_base w op
    exact ih (wstep w op) (ops0 ++ ops1) (by rw [h1, h, run_append])

theorem wrun_is_run (wops : List WOp) : ∃ ops, (wrun World.init wops).t = run State.init ops :=
  wrun_base wops World.init [] rfl


/-! ### the owners never touch REQUESTED -/

theorem req_run_tracks_fTr (us : List Nat) (s : State) (u : Nat) :
    (reasons (run s (us.map (Op.track · fTr))) u).req = (reasons s u).req := by
  rw [reasons_run_tracks]; split <;> simp

theorem req_run_untracks_fTr (us : List Nat) (s : State) (u : Nat) :
    (reasons (run s (us.map (Op.untrack · fTr))) u).req = (reasons s u).req := by
  rw [reasons_run_untracks]; split <;> simp

theorem req_owner_step (w : World) (op : WOp) (hop : ∀ b, op ≠ .base b) (u : Nat) :
    (reasons (wstep w op).t u).req = (reasons w.t u).req := by
  cases op with
  | base b => exact (hop b rfl).elim
  | login =>
    show (reasons (run w.t w.loginOps) u).req = _
    unfold World.loginOps
    rw [run_cons, reasons_run_tracks, reasons_track]
    repeat' split
    all_goals simp
  | cycle =>
    show (reasons (run w.t w.cycleOps) u).req = _
    unfold World.cycleOps
    rw [run_append, req_run_untracks_fTr, req_run_tracks_fTr]
  | friend v b =>
    cases b with
    | true =>
      rw [wstep_friend_true]
      split
      · rfl
      · show (reasons (if w.session = true then step w.t (.track v fFr) else w.t) u).req = _
        split
        · rw [reasons_track]; split <;> simp
        · rfl
    | false =>
      rw [wstep_friend_false]
      split
      · show (reasons (if w.session = true then step w.t (.untrack v fFr) else w.t) u).req = _
        split
        · rw [reasons_untrack]; split <;> simp
        · rfl
      · rfl
  | tadd v => rfl
  | tfin id => rfl
  | tque id => rfl
  | trm id =>
    rw [wstep_trm]
    split
    · rfl
    · next x _ =>
      show (reasons (if ∃ y ∈ w.xfers.erase x, y.user = x.user then w.t
        else step w.t (.untrack x.user fTr)) u).req = _
      split
      · rfl
      · rw [reasons_untrack]; split <;> simp

theorem Flags.ne_empty_iff (f : Flags) : f ≠ Flags.empty ↔ (f.req = true ∨ f.tr = true ∨ f.fr = true) := by
  cases f with
  | mk a b c => cases a <;> cases b <;> cases c <;> simp [Flags.empty]

end AioslskVerif.Track
