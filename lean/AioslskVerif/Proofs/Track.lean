import AioslskVerif.Model.Track
/-! Helper lemmas for C15: the per-user invariant and its preservation by every step. -/
namespace AioslskVerif.Track
open AioslskVerif.Generated.Track

/-! ### flags and the specification fold -/

@[simp] theorem Flags.remove_empty_left (f : Flags) : Flags.empty.remove f = Flags.empty := by
  simp [Flags.remove, Flags.empty]

@[simp] theorem Flags.add_empty_right (f : Flags) : f.add Flags.empty = f := by
  cases f; simp [Flags.add, Flags.empty]

theorem specFlagsFrom_append (f : Flags) (rs : List Req) (r : Req) :
    specFlagsFrom f (rs ++ [r]) = r.apply (specFlagsFrom f rs) := by
  simp [specFlagsFrom, List.foldl_append]

theorem specFlags_append (rs : List Req) (r : Req) : specFlags (rs ++ [r]) = r.apply (specFlags rs) :=
  specFlagsFrom_append _ _ _

@[simp] theorem specFlags_nil : specFlags [] = Flags.empty := rfl
@[simp] theorem specFrames_nil : specFrames [] = [] := rfl

theorem specFramesFrom_append (f : Flags) (rs : List Req) (r : Req) :
    specFramesFrom f (rs ++ [r]) = specFramesFrom f rs ++ edge (specFlagsFrom f rs) r := by
  induction rs generalizing f with
  | nil => simp [specFramesFrom, specFlagsFrom]
  | cons a rs ih =>
    simp only [List.cons_append, specFramesFrom, ih, List.append_assoc]
    rfl

theorem specFrames_append (rs : List Req) (r : Req) :
    specFrames (rs ++ [r]) = specFrames rs ++ edge (specFlags rs) r :=
  specFramesFrom_append _ _ _

/-! ### the invariant -/

structure UInv (now : Nat) (U : User) : Prop where
  lost : U.processed ++ U.queue = U.issued
  flags : U.flagsOf = specFlags U.processed
  frames : U.frames = specFrames U.processed
  finLt : ∀ g ∈ U.finished, g < U.nextGen
  genLt : ∀ e, U.entry = some e → e.gen < U.nextGen ∧ e.gen ∉ U.finished
  pcAdd : ∀ e, U.entry = some e → (e.pc = .sendAdd ∨ ∃ d, e.pc = .waitResp d) → e.flags ≠ Flags.empty
  pcRem : ∀ e, U.entry = some e → e.pc = .sendRemove → e.flags = Flags.empty ∧ e.retry = none
  retry : ∀ e t, U.entry = some e → e.retry = some t →
    e.flags ≠ Flags.empty ∧ t.armedAt ≤ now ∧ (t.delay = retryNetError ∨ t.delay = retryNonExisting)
  idle : ∀ e, U.entry = some e → e.pc = .idle →
    ((e.flags = Flags.empty ↔ e.state = .untracked) ∧
     (e.flags ≠ Flags.empty → (e.state = .tracked ↔ U.outcomes.getLast? = some .exists)))
  count : U.fired + U.pending ≤ U.failed

theorem UInv.init (now : Nat) : UInv now User.init := by
  constructor <;> simp [User.init, User.queue, User.flagsOf, User.pending]

theorem UInv.mono {now now' : Nat} {U : User} (h : UInv now U) (hle : now ≤ now') : UInv now' U := by
  refine { h with retry := ?_ }
  intro e t he ht
  have := h.retry e t he ht
  exact ⟨this.1, by omega, this.2.2⟩

end AioslskVerif.Track
