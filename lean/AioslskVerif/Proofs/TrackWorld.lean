import AioslskVerif.Proofs.Track
/-! Helper lemmas for C15, second half: `reasons` (the fold of the requests made), the owners of the reasons
(`World`) and the world invariant. -/
namespace AioslskVerif.Track
open AioslskVerif.Generated.Track

/-! ### `reasons`: how each step changes the fold of the requests made -/

theorem mem_dedup {u : Nat} {l : List Nat} : u ∈ dedup l ↔ u ∈ l := by
  induction l with
  | nil => simp [dedup]
  | cons a l ih =>
    unfold dedup
    split
    · next ha =>
      constructor
      · intro h; exact List.mem_cons_of_mem _ (ih.mp h)
      · intro h
        cases List.mem_cons.mp h with
        | inl h => exact ih.mpr (h ▸ ha)
        | inr h => exact ih.mpr h
    · simp [ih]

theorem issued_track (U : User) (f : Flags) : (U.track f).issued = U.issued ++ [Req.call true f] := by
  unfold User.track; cases U.entry <;> rfl

theorem issued_untrack (U : User) (f : Flags) : (U.untrack f).issued = U.issued ++ [Req.call false f] := by
  unfold User.untrack; cases U.entry <;> rfl

theorem issued_reap (U : User) (g : Nat) : (U.reap g).issued = U.issued := by
  unfold User.reap
  repeat' split
  all_goals rfl

theorem specFlags_issued_retryFires (U : User) (now : Nat) :
    specFlags (U.retryFires now).issued = specFlags U.issued := by
  unfold User.retryFires
  repeat' split
  all_goals first | rfl | simp [specFlags_append, retryReq, Req.apply]

theorem reasons_track (s : State) (v : Nat) (f : Flags) (u : Nat) :
    reasons (step s (.track v f)) u = if u = v then (reasons s u).add f else reasons s u := by
  unfold reasons
  by_cases h : u = v
  · subst h; simp [step, State.upd, issued_track, specFlags_append, Req.apply, Req.call]
  · simp [step, State.upd, h]

theorem reasons_untrack (s : State) (v : Nat) (f : Flags) (u : Nat) :
    reasons (step s (.untrack v f)) u = if u = v then (reasons s u).remove f else reasons s u := by
  unfold reasons
  by_cases h : u = v
  · subst h; simp [step, State.upd, issued_untrack, specFlags_append, Req.apply, Req.call]
  · simp [step, State.upd, h]

theorem reasons_closed (s : State) (u : Nat) : reasons (step s .serverClosed) u = Flags.empty := by
  simp [reasons, step, User.close]

theorem reasons_workerStep (s : State) (v : Nat) (env : Env) (u : Nat) :
    reasons (step s (.workerStep v env)) u = reasons s u := by
  unfold reasons
  by_cases h : u = v
  · subst h; simp [step, State.upd, (worker_ghost _ _ _).1]
  · simp [step, State.upd, h]

theorem reasons_reap (s : State) (v g : Nat) (u : Nat) : reasons (step s (.reap v g)) u = reasons s u := by
  unfold reasons
  by_cases h : u = v
  · subst h; simp [step, State.upd, issued_reap]
  · simp [step, State.upd, h]

theorem reasons_retryFires (s : State) (v : Nat) (u : Nat) : reasons (step s (.retryFires v)) u = reasons s u := by
  unfold reasons
  by_cases h : u = v
  · subst h; simp [step, State.upd, specFlags_issued_retryFires]
  · simp [step, State.upd, h]

theorem reasons_advance (s : State) (dt : Nat) (u : Nat) : reasons (step s (.advance dt)) u = reasons s u := rfl

theorem Flags.add_idem (a f : Flags) : (a.add f).add f = a.add f := by
  cases a; cases f; simp [Flags.add]

theorem Flags.remove_idem (a f : Flags) : (a.remove f).remove f = a.remove f := by
  cases a; cases f; simp [Flags.remove]

theorem run_cons (s : State) (op : Op) (ops : List Op) : run s (op :: ops) = run (step s op) ops := rfl

/-- the same reason requested for a list of users: every user in the list gets it, nobody else is touched -/
theorem reasons_run_tracks (us : List Nat) (f : Flags) (u : Nat) : ∀ s : State,
    reasons (run s (us.map (Op.track · f))) u = if u ∈ us then (reasons s u).add f else reasons s u := by
  induction us with
  | nil => intro s; simp [run]
  | cons v us ih =>
    intro s
    rw [List.map_cons, run_cons, ih, reasons_track]
    by_cases h1 : u = v <;> by_cases h2 : u ∈ us <;> simp [h1, h2, Flags.add_idem]

theorem reasons_run_untracks (us : List Nat) (f : Flags) (u : Nat) : ∀ s : State,
    reasons (run s (us.map (Op.untrack · f))) u = if u ∈ us then (reasons s u).remove f else reasons s u := by
  induction us with
  | nil => intro s; simp [run]
  | cons v us ih =>
    intro s
    rw [List.map_cons, run_cons, ih, reasons_untrack]
    by_cases h1 : u = v <;> by_cases h2 : u ∈ us <;> simp [h1, h2, Flags.remove_idem]

/-! ### the owners: what a login / a management cycle leaves behind -/

namespace World

theorem mem_unfinishedUsers (w : World) (u : Nat) : u ∈ w.unfinishedUsers ↔ w.HasUnfinished u := by
  unfold unfinishedUsers HasUnfinished
  rw [mem_dedup]
  simp only [List.mem_map, List.mem_filter]
  constructor
  · rintro ⟨x, ⟨hx, hf⟩, rfl⟩; exact ⟨x, hx, rfl, by simpa using hf⟩
  · rintro ⟨x, hx, rfl, hf⟩; exact ⟨x, ⟨hx, by simp [hf]⟩, rfl⟩

theorem mem_finishedOnlyUsers (w : World) (u : Nat) :
    u ∈ w.finishedOnlyUsers ↔ w.HasFinished u ∧ ¬ w.HasUnfinished u := by
  unfold finishedOnlyUsers HasFinished
  rw [List.mem_filter, mem_dedup]
  simp only [List.mem_map, List.mem_filter, decide_eq_true_eq]
  constructor
  · rintro ⟨⟨x, ⟨hx, hf⟩, rfl⟩, hn⟩; exact ⟨⟨x, hx, rfl, hf⟩, hn⟩
  · rintro ⟨⟨x, hx, rfl, hf⟩, hn⟩; exact ⟨⟨x, ⟨hx, hf⟩, rfl⟩, hn⟩

/-- one management cycle, per user -/
theorem reasons_cycle (w : World) (u : Nat) :
    reasons (run w.t w.cycleOps) u =
      if w.HasUnfinished u then (reasons w.t u).add fTr
      else if w.HasFinished u then (reasons w.t u).remove fTr
      else reasons w.t u := by
  unfold cycleOps
  rw [run_append, reasons_run_untracks, reasons_run_tracks]
  simp only [mem_unfinishedUsers, mem_finishedOnlyUsers]
  by_cases h1 : w.HasUnfinished u <;> by_cases h2 : w.HasFinished u <;> simp [h1, h2]

/-- one login, per user other than the own name -/
theorem reasons_login (w : World) (u : Nat) (hu : u ≠ me) :
    reasons (run w.t w.loginOps) u = if u ∈ w.friends then (reasons w.t u).add fFr else reasons w.t u := by
  unfold loginOps
  rw [run_cons, reasons_run_tracks, reasons_track]
  simp [hu, mem_dedup]

end World

/-! ### the world invariant: the owners' reasons are what the owners can see -/

@[simp] theorem tr_add_fTr (a : Flags) : (a.add fTr).tr = true := by simp [Flags.add, fTr]
@[simp] theorem tr_remove_fTr (a : Flags) : (a.remove fTr).tr = false := by simp [Flags.remove, fTr]
@[simp] theorem tr_add_fFr (a : Flags) : (a.add fFr).tr = a.tr := by simp [Flags.add, fFr]
@[simp] theorem tr_remove_fFr (a : Flags) : (a.remove fFr).tr = a.tr := by simp [Flags.remove, fFr]
@[simp] theorem tr_add_fReq (a : Flags) : (a.add fReq).tr = a.tr := by simp [Flags.add, fReq]
@[simp] theorem tr_remove_fReq (a : Flags) : (a.remove fReq).tr = a.tr := by simp [Flags.remove, fReq]
@[simp] theorem fr_add_fFr (a : Flags) : (a.add fFr).fr = true := by simp [Flags.add, fFr]
@[simp] theorem fr_remove_fFr (a : Flags) : (a.remove fFr).fr = false := by simp [Flags.remove, fFr]
@[simp] theorem fr_add_fTr (a : Flags) : (a.add fTr).fr = a.fr := by simp [Flags.add, fTr]
@[simp] theorem fr_remove_fTr (a : Flags) : (a.remove fTr).fr = a.fr := by simp [Flags.remove, fTr]
@[simp] theorem fr_add_fReq (a : Flags) : (a.add fReq).fr = a.fr := by simp [Flags.add, fReq]
@[simp] theorem fr_remove_fReq (a : Flags) : (a.remove fReq).fr = a.fr := by simp [Flags.remove, fReq]
@[simp] theorem req_add_fTr (a : Flags) : (a.add fTr).req = a.req := by simp [Flags.add, fTr]
@[simp] theorem req_remove_fTr (a : Flags) : (a.remove fTr).req = a.req := by simp [Flags.remove, fTr]
@[simp] theorem req_add_fFr (a : Flags) : (a.add fFr).req = a.req := by simp [Flags.add, fFr]
@[simp] theorem req_remove_fFr (a : Flags) : (a.remove fFr).req = a.req := by simp [Flags.remove, fFr]
@[simp] theorem empty_tr : Flags.empty.tr = false := rfl
@[simp] theorem empty_fr : Flags.empty.fr = false := rfl
@[simp] theorem empty_req : Flags.empty.req = false := rfl

structure WInv (w : World) : Prop where
  /-- after a cycle (and until the transfers change or the server closes) TRANSFER = "has an unfinished transfer" —
  except for a user without any transfer whose last one a `remove()` in progress has just taken off the list -/
  trSync : w.cycleRan = true → ∀ u,
    (reasons w.t u).tr = decide (w.HasUnfinished u) ∨ (w.RemovalPending u ∧ ¬ w.HasXfer u)
  /-- a user without any transfer does not carry TRANSFER, unless a `remove()` in progress is about to ask -/
  trNone : ∀ u, ¬ w.HasXfer u → w.RemovalPending u ∨ (reasons w.t u).tr = false
  /-- without a session nobody carries FRIEND -/
  frOff : w.session = false → ∀ u, u ≠ me → (reasons w.t u).fr = false
  /-- in a session FRIEND = "is in the friends list" -/
  frOn : w.session = true → ∀ u, u ≠ me → (reasons w.t u).fr = decide (u ∈ w.friends)

theorem WInv.init : WInv World.init := by
  constructor <;> simp [World.init, reasons, State.init, User.init]

/-- a step of the layer below made by the application (REQUESTED only) or by the tracking tasks / the clock
leaves TRANSFER and FRIEND alone -/
theorem reasons_step_app (s : State) (op : Op) (hop : (WOp.base op).appOk = true) (hc : op ≠ .serverClosed)
    (u : Nat) : (reasons (step s op) u).tr = (reasons s u).tr ∧ (reasons (step s op) u).fr = (reasons s u).fr := by
  cases op with
  | track v f =>
    have hf : f = fReq := by simpa [WOp.appOk] using hop
    subst hf; rw [reasons_track]; split <;> simp
  | untrack v f =>
    have hf : f = fReq := by simpa [WOp.appOk] using hop
    subst hf; rw [reasons_untrack]; split <;> simp
  | workerStep v env => rw [reasons_workerStep]; exact ⟨rfl, rfl⟩
  | reap v g => rw [reasons_reap]; exact ⟨rfl, rfl⟩
  | retryFires v => rw [reasons_retryFires]; exact ⟨rfl, rfl⟩
  | serverClosed => exact (hc rfl).elim
  | advance dt => exact ⟨rfl, rfl⟩

theorem WInv.close {w : World} (_h : WInv w) : WInv w.close := by
  constructor
  · intro hc; simp [World.close] at hc
  · intro u _; right; simp [World.close, reasons_closed]
  · intro _ u _; simp [World.close, reasons_closed]
  · intro hs; simp [World.close] at hs

theorem hasXfer_of_unfinished {w : World} {u : Nat} (h : w.HasUnfinished u) : w.HasXfer u := by
  obtain ⟨x, hx, hu, _⟩ := h; exact ⟨x, hx, hu⟩

theorem hasXfer_of_finished {w : World} {u : Nat} (h : w.HasFinished u) : w.HasXfer u := by
  obtain ⟨x, hx, hu, _⟩ := h; exact ⟨x, hx, hu⟩

theorem not_unfinished_of_no_xfer {w : World} {u : Nat} (h : ¬ w.HasXfer u) :
    decide (w.HasUnfinished u) = false := by
  simp only [decide_eq_false_iff_not]
  exact fun h1 => h (hasXfer_of_unfinished h1)

/-- what a cycle leaves for a user without any transfer: nothing changes -/
theorem tr_cycle_no_xfer (w : World) (u : Nat) (hn : ¬ w.HasXfer u) :
    (reasons (run w.t w.cycleOps) u).tr = (reasons w.t u).tr := by
  rw [World.reasons_cycle]
  have h1 : ¬ w.HasUnfinished u := fun h1 => hn (hasXfer_of_unfinished h1)
  have h2 : ¬ w.HasFinished u := fun h2 => hn (hasXfer_of_finished h2)
  simp [h1, h2]

/-- … and for a user with a transfer: TRANSFER = "has an unfinished transfer" -/
theorem tr_cycle_xfer (w : World) (u : Nat) (hx : w.HasXfer u) :
    (reasons (run w.t w.cycleOps) u).tr = decide (w.HasUnfinished u) := by
  rw [World.reasons_cycle]
  by_cases h1 : w.HasUnfinished u
  · simp [h1]
  · have h2 : w.HasFinished u := by
      obtain ⟨x, hx, hu⟩ := hx
      cases hf : x.finished
      · exact (h1 ⟨x, hx, hu, hf⟩).elim
      · exact ⟨x, hx, hu, hf⟩
    simp [h1, h2]

theorem WInv.cycle {w : World} (h : WInv w) : WInv (wstep w .cycle) := by
  constructor
  · intro _ u
    show (reasons (run w.t w.cycleOps) u).tr = decide (w.HasUnfinished u) ∨ (w.RemovalPending u ∧ ¬ w.HasXfer u)
    by_cases hx : w.HasXfer u
    · exact Or.inl (tr_cycle_xfer w u hx)
    · rcases h.trNone u hx with hp | ht
      · exact Or.inr ⟨hp, hx⟩
      · left; rw [tr_cycle_no_xfer w u hx, ht, not_unfinished_of_no_xfer hx]
  · intro u hn
    have hn' : ¬ w.HasXfer u := hn
    show w.RemovalPending u ∨ (reasons (run w.t w.cycleOps) u).tr = false
    rw [tr_cycle_no_xfer w u hn']
    exact h.trNone u hn'
  · intro hs u hu
    show (reasons (run w.t w.cycleOps) u).fr = false
    rw [World.reasons_cycle]
    have := h.frOff hs u hu
    repeat' split
    all_goals simpa using this
  · intro hs u hu
    show (reasons (run w.t w.cycleOps) u).fr = decide (u ∈ w.friends)
    rw [World.reasons_cycle]
    have := h.frOn hs u hu
    repeat' split
    all_goals simpa using this

theorem tr_login (w : World) (u : Nat) : (reasons (run w.t w.loginOps) u).tr = (reasons w.t u).tr := by
  unfold World.loginOps
  rw [run_cons, reasons_run_tracks, reasons_track]
  repeat' split
  all_goals simp

theorem WInv.login {w : World} (h : WInv w) : WInv (wstep w .login) := by
  constructor
  · intro hc u
    show (reasons (run w.t w.loginOps) u).tr = decide (w.HasUnfinished u) ∨ (w.RemovalPending u ∧ ¬ w.HasXfer u)
    rw [tr_login]; exact h.trSync hc u
  · intro u hn
    show w.RemovalPending u ∨ (reasons (run w.t w.loginOps) u).tr = false
    rw [tr_login]; exact h.trNone u hn
  · intro hs; simp [wstep] at hs
  · intro _ u hu
    show (reasons (run w.t w.loginOps) u).fr = decide (u ∈ w.friends)
    rw [World.reasons_login w u hu]
    by_cases hf : u ∈ w.friends
    · simp [hf]
    · cases hs : w.session
      · simp [hf, h.frOff hs u hu]
      · simp [hf, h.frOn hs u hu]


theorem wstep_friend_true (w : World) (u : Nat) : wstep w (.friend u true) =
    if u ∈ w.friends then w
    else { w with friends := w.friends ++ [u], t := if w.session then step w.t (.track u fFr) else w.t } := rfl

theorem wstep_friend_false (w : World) (u : Nat) : wstep w (.friend u false) =
    if u ∈ w.friends then
      { w with friends := w.friends.filter (· ≠ u), t := if w.session then step w.t (.untrack u fFr) else w.t }
    else w := rfl

theorem WInv.base {w : World} (h : WInv w) (op : Op) (hop : (WOp.base op).appOk = true) :
    WInv (wstep w (.base op)) := by
  by_cases hc : op = .serverClosed
  · subst hc; exact h.close
  · have hw : wstep w (.base op) = { w with t := step w.t op } := by
      cases op <;> first | rfl | exact (hc rfl).elim
    rw [hw]
    have key := reasons_step_app w.t op hop hc
    constructor
    · intro hcr u
      show (reasons (step w.t op) u).tr = decide (w.HasUnfinished u) ∨ (w.RemovalPending u ∧ ¬ w.HasXfer u)
      rw [(key u).1]; exact h.trSync hcr u
    · intro u hn
      show w.RemovalPending u ∨ (reasons (step w.t op) u).tr = false
      rw [(key u).1]; exact h.trNone u hn
    · intro hs u hu; show (reasons (step w.t op) u).fr = _; rw [(key u).2]; exact h.frOff hs u hu
    · intro hs u hu; show (reasons (step w.t op) u).fr = _; rw [(key u).2]; exact h.frOn hs u hu

/-- a FRIEND request or withdrawal leaves TRANSFER alone -/
theorem tr_friend_step (s : State) (b : Bool) (c : Bool) (u v : Nat) :
    (reasons (if c = true then step s (if b then .track u fFr else .untrack u fFr) else s) v).tr = (reasons s v).tr := by
  cases c with
  | false => rfl
  | true =>
    cases b with
    | true => simp only [if_true]; rw [reasons_track]; split <;> simp
    | false => simp only [Bool.false_eq_true, if_false, if_true]; rw [reasons_untrack]; split <;> simp

theorem WInv.friend {w : World} (h : WInv w) (u : Nat) (b : Bool) : WInv (wstep w (.friend u b)) := by
  cases b with
  | true =>
    rw [wstep_friend_true]
    split
    · exact h
    · next hnot =>
      have htr : ∀ v, (reasons (if w.session = true then step w.t (.track u fFr) else w.t) v).tr = (reasons w.t v).tr :=
        fun v => tr_friend_step w.t true w.session u v
      constructor
      · intro hcr v
        show (reasons (if w.session = true then step w.t (.track u fFr) else w.t) v).tr = decide (w.HasUnfinished v)
          ∨ (w.RemovalPending v ∧ ¬ w.HasXfer v)
        rw [htr]; exact h.trSync hcr v
      · intro v hn
        show w.RemovalPending v ∨ (reasons (if w.session = true then step w.t (.track u fFr) else w.t) v).tr = false
        rw [htr]; exact h.trNone v hn
      · intro hs v hv
        have hs' : w.session = false := hs
        show (reasons (if w.session = true then step w.t (.track u fFr) else w.t) v).fr = false
        simp [hs', h.frOff hs' v hv]
      · intro hs v hv
        have hs' : w.session = true := hs
        show (reasons (if w.session = true then step w.t (.track u fFr) else w.t) v).fr = decide (v ∈ w.friends ++ [u])
        simp only [hs', if_true]
        rw [reasons_track]
        by_cases hvu : v = u
        · simp [hvu]
        · simp [hvu, h.frOn hs' v hv]
  | false =>
    rw [wstep_friend_false]
    split
    · next hin =>
      have htr : ∀ v, (reasons (if w.session = true then step w.t (.untrack u fFr) else w.t) v).tr = (reasons w.t v).tr :=
        fun v => tr_friend_step w.t false w.session u v
      constructor
      · intro hcr v
        show (reasons (if w.session = true then step w.t (.untrack u fFr) else w.t) v).tr = decide (w.HasUnfinished v)
          ∨ (w.RemovalPending v ∧ ¬ w.HasXfer v)
        rw [htr]; exact h.trSync hcr v
      · intro v hn
        show w.RemovalPending v ∨ (reasons (if w.session = true then step w.t (.untrack u fFr) else w.t) v).tr = false
        rw [htr]; exact h.trNone v hn
      · intro hs v hv
        have hs' : w.session = false := hs
        show (reasons (if w.session = true then step w.t (.untrack u fFr) else w.t) v).fr = false
        simp [hs', h.frOff hs' v hv]
      · intro hs v hv
        have hs' : w.session = true := hs
        show (reasons (if w.session = true then step w.t (.untrack u fFr) else w.t) v).fr
          = decide (v ∈ w.friends.filter (· ≠ u))
        simp only [hs', if_true]
        rw [reasons_untrack]
        by_cases hvu : v = u
        · simp [hvu]
        · simp [hvu, h.frOn hs' v hv]
    · exact h

theorem WInv.tadd {w : World} (h : WInv w) (u : Nat) : WInv (wstep w (.tadd u)) := by
  constructor
  · intro hcr; simp [wstep] at hcr
  · intro v hn
    apply h.trNone v
    rintro ⟨x, hx, hu⟩
    exact hn ⟨x, by simp [wstep, hx], hu⟩
  · exact h.frOff
  · exact h.frOn

theorem hasXfer_setFinished (w : World) (id : Nat) (b : Bool) (v : Nat) :
    w.HasXfer v → (w.setFinished id b).HasXfer v := by
  rintro ⟨x, hx, hu⟩
  refine ⟨if x.id = id then { x with finished := b } else x, ?_, ?_⟩
  · simp only [World.setFinished, List.mem_map]; exact ⟨x, hx, rfl⟩
  · split <;> exact hu

theorem WInv.setFinished {w : World} (h : WInv w) (id : Nat) (b : Bool) : WInv (w.setFinished id b) := by
  constructor
  · intro hcr; simp [World.setFinished] at hcr
  · intro v hn
    exact h.trNone v (fun hx => hn (hasXfer_setFinished w id b v hx))
  · exact h.frOff
  · exact h.frOn

theorem WInv.trmStart {w : World} (h : WInv w) (id : Nat) : WInv (w.trmStart id) := by
  unfold World.trmStart
  split
  · exact h
  · have h' := h.setFinished id true
    constructor
    · intro hcr; simp [World.setFinished] at hcr
    · intro v hn
      rcases h'.trNone v hn with ⟨r, hr, hd⟩ | ht
      · exact Or.inl ⟨r, List.mem_append_left _ hr, hd⟩
      · exact Or.inr ht
    · exact h'.frOff
    · exact h'.frOn

theorem WInv.trmDrop {w : World} (h : WInv w) (id : Nat) : WInv (w.trmDrop id) := by
  unfold World.trmDrop
  split
  · exact h
  · next r hfind =>
    have hrd : r.dropped = none := by
      have := List.find?_some hfind
      simp only [decide_eq_true_eq] at this
      exact this.2
    have keep : ∀ v, w.RemovalPending v → ∃ r' ∈ w.rm.erase r, r'.dropped = some v := by
      rintro v ⟨r', hr', hd⟩
      have hne : r' ≠ r := by intro he; rw [he, hrd] at hd; cases hd
      exact ⟨r', (List.mem_erase_of_ne hne).mpr hr', hd⟩
    split
    · constructor
      · intro hcr v
        rcases h.trSync hcr v with ht | ⟨hp, hx⟩
        · exact Or.inl ht
        · exact Or.inr ⟨keep v hp, hx⟩
      · intro v hn
        rcases h.trNone v hn with hp | ht
        · exact Or.inl (keep v hp)
        · exact Or.inr ht
      · exact h.frOff
      · exact h.frOn
    · next x hx =>
      constructor
      · intro hcr; simp at hcr
      · intro v hn
        have hn' : ¬ ∃ y ∈ w.xfers.erase x, y.user = v := hn
        by_cases hv : v = x.user
        · exact Or.inl ⟨⟨id, some x.user⟩, by simp, by simp [hv]⟩
        · have hold : ¬ w.HasXfer v := by
            rintro ⟨y, hy, hyu⟩
            have hne : y ≠ x := fun hyx => hv (hyx ▸ hyu.symm)
            exact hn' ⟨y, (List.mem_erase_of_ne hne).mpr hy, hyu⟩
          rcases h.trNone v hold with hp | ht
          · obtain ⟨r', hr', hd⟩ := keep v hp
            exact Or.inl ⟨r', List.mem_append_left _ hr', hd⟩
          · exact Or.inr ht
      · exact h.frOff
      · exact h.frOn

theorem WInv.trmEnd {w : World} (h : WInv w) (id : Nat) : WInv (w.trmEnd id) := by
  unfold World.trmEnd
  split
  · exact h
  · next r hfind =>
    split
    · exact h
    · next u hru =>
      have keep : ∀ v, v ≠ u → w.RemovalPending v → ∃ r' ∈ w.rm.erase r, r'.dropped = some v := by
        rintro v hv ⟨r', hr', hd⟩
        have hne : r' ≠ r := by intro he; rw [he, hru] at hd; exact hv (Option.some.inj hd).symm
        exact ⟨r', (List.mem_erase_of_ne hne).mpr hr', hd⟩
      have trEq : ∀ v, v ≠ u →
          reasons (if ∃ y ∈ w.xfers, y.user = u then w.t else step w.t (.untrack u fTr)) v = reasons w.t v := by
        intro v hv
        split
        · rfl
        · rw [reasons_untrack]; simp [hv]
      have frEq : ∀ v,
          (reasons (if ∃ y ∈ w.xfers, y.user = u then w.t else step w.t (.untrack u fTr)) v).fr
            = (reasons w.t v).fr := by
        intro v
        split
        · rfl
        · rw [reasons_untrack]; split <;> simp
      constructor
      · intro hcr v
        have hcr' : w.cycleRan = true := hcr
        show (reasons (if ∃ y ∈ w.xfers, y.user = u then w.t else step w.t (.untrack u fTr)) v).tr
            = decide (w.HasUnfinished v) ∨ ((∃ r' ∈ w.rm.erase r, r'.dropped = some v) ∧ ¬ w.HasXfer v)
        by_cases hv : v = u
        · subst hv
          by_cases hx : w.HasXfer v
          · have hx' : ∃ y ∈ w.xfers, y.user = v := hx
            simp only [hx', if_true]
            rcases h.trSync hcr' v with ht | ⟨_, hnx⟩
            · exact Or.inl ht
            · exact (hnx hx).elim
          · have hx' : ¬ ∃ y ∈ w.xfers, y.user = v := hx
            simp only [hx', if_false]
            left
            rw [reasons_untrack, not_unfinished_of_no_xfer hx]; simp
        · rw [trEq v hv]
          rcases h.trSync hcr' v with ht | ⟨hp, hnx⟩
          · exact Or.inl ht
          · exact Or.inr ⟨keep v hv hp, hnx⟩
      · intro v hn
        have hn' : ¬ w.HasXfer v := hn
        show (∃ r' ∈ w.rm.erase r, r'.dropped = some v)
          ∨ (reasons (if ∃ y ∈ w.xfers, y.user = u then w.t else step w.t (.untrack u fTr)) v).tr = false
        by_cases hv : v = u
        · subst hv
          have hx' : ¬ ∃ y ∈ w.xfers, y.user = v := hn'
          simp only [hx', if_false]
          right
          rw [reasons_untrack]; simp
        · rw [trEq v hv]
          rcases h.trNone v hn' with hp | ht
          · exact Or.inl (keep v hv hp)
          · exact Or.inr ht
      · intro hs v hv
        have hs' : w.session = false := hs
        show (reasons _ v).fr = false
        rw [frEq]; exact h.frOff hs' v hv
      · intro hs v hv
        have hs' : w.session = true := hs
        show (reasons _ v).fr = decide (v ∈ w.friends)
        rw [frEq]; exact h.frOn hs' v hv

theorem WInv.step {w : World} (h : WInv w) (op : WOp) (hop : op.appOk = true) : WInv (wstep w op) := by
  cases op with
  | base op => exact h.base op hop
  | login => exact h.login
  | cycle => exact h.cycle
  | friend u b => exact h.friend u b
  | tadd u => exact h.tadd u
  | tfin id => exact h.setFinished id true
  | tque id => exact h.setFinished id false
  | trm id => exact ((h.trmStart id).trmDrop id).trmEnd id
  | trmStart id => exact h.trmStart id
  | trmDrop id => exact h.trmDrop id
  | trmEnd id => exact h.trmEnd id

theorem WInv.run {w : World} (h : WInv w) (ops : List WOp) (hops : ∀ op ∈ ops, op.appOk = true) :
    WInv (wrun w ops) := by
  induction ops generalizing w with
  | nil => exact h
  | cons op ops ih =>
    exact ih (h.step op (hops op (by simp))) (fun o ho => hops o (by simp [ho]))

theorem winv_reach (ops : List WOp) (hops : ∀ op ∈ ops, op.appOk = true) : WInv (wrun World.init ops) :=
  WInv.init.run ops hops

theorem wrun_append (w : World) (a b : List WOp) : wrun w (a ++ b) = wrun (wrun w a) b := by
  simp [wrun, List.foldl_append]

/-! ### every history of the world is a history of the tracking manager -/

theorem trmStart_base (w : World) (id : Nat) : ∃ ops, (w.trmStart id).t = run w.t ops := by
  unfold World.trmStart
  split <;> exact ⟨[], rfl⟩

theorem trmDrop_base (w : World) (id : Nat) : ∃ ops, (w.trmDrop id).t = run w.t ops := by
  unfold World.trmDrop
  split
  · exact ⟨[], rfl⟩
  · split <;> exact ⟨[], rfl⟩

theorem trmEnd_base (w : World) (id : Nat) : ∃ ops, (w.trmEnd id).t = run w.t ops := by
  unfold World.trmEnd
  split
  · exact ⟨[], rfl⟩
  · split
    · exact ⟨[], rfl⟩
    · next u _ =>
      by_cases hc : ∃ y ∈ w.xfers, y.user = u
      · exact ⟨[], by simp [hc, run]⟩
      · exact ⟨[.untrack u fTr], by simp [hc, run]⟩

theorem wstep_base (w : World) (op : WOp) : ∃ ops, (wstep w op).t = run w.t ops := by
  cases op with
  | base op => exact ⟨[op], by cases op <;> rfl⟩
  | login => exact ⟨w.loginOps, rfl⟩
  | cycle => exact ⟨w.cycleOps, rfl⟩
  | friend u b =>
    cases b with
    | false =>
      rw [wstep_friend_false]
      split
      · cases hs : w.session
        · exact ⟨[], by simp [run]⟩
        · exact ⟨[.untrack u fFr], by simp [run]⟩
      · exact ⟨[], rfl⟩
    | true =>
      rw [wstep_friend_true]
      split
      · exact ⟨[], rfl⟩
      · cases hs : w.session
        · exact ⟨[], by simp [run]⟩
        · exact ⟨[.track u fFr], by simp [run]⟩
  | tadd u => exact ⟨[], rfl⟩
  | tfin id => exact ⟨[], rfl⟩
  | tque id => exact ⟨[], rfl⟩
  | trm id =>
    obtain ⟨o1, h1⟩ := trmStart_base w id
    obtain ⟨o2, h2⟩ := trmDrop_base (w.trmStart id) id
    obtain ⟨o3, h3⟩ := trmEnd_base ((w.trmStart id).trmDrop id) id
    exact ⟨o1 ++ o2 ++ o3, by
      show (((w.trmStart id).trmDrop id).trmEnd id).t = _
      rw [h3, h2, h1, run_append, run_append]⟩
  | trmStart id => exact trmStart_base w id
  | trmDrop id => exact trmDrop_base w id
  | trmEnd id => exact trmEnd_base w id

theorem wrun_base (wops : List WOp) : ∀ (w : World) (ops0 : List Op), w.t = run State.init ops0 →
    ∃ ops, (wrun w wops).t = run State.init ops := by
  induction wops with
  | nil => intro w ops0 h; exact ⟨ops0, h⟩
  | cons op wops ih =>
    intro w ops0 h
    obtain ⟨ops1, h1⟩ := wstep_base w op
    exact ih (wstep w op) (ops0 ++ ops1) (by rw [h1, h, run_append])

theorem wrun_is_run (wops : List WOp) : ∃ ops, (wrun World.init wops).t = run State.init ops :=
  wrun_base wops World.init [] rfl


/-! ### the owners never touch REQUESTED -/

theorem req_run_tracks_fTr (us : List Nat) (s : State) (u : Nat) :
    (reasons (run s (us.map (Op.track · fTr))) u).req = (reasons s u).req := by
  rw [reasons_run_tracks]; split <;> simp

theorem req_run_untracks_fTr (us : List Nat) (s : State) (u : Nat) :
    (reasons (run s (us.map (Op.untrack · fTr))) u).req = (reasons s u).req := by
  rw [reasons_run_untracks]; split <;> simp

theorem req_trmStart (w : World) (id u : Nat) : (reasons (w.trmStart id).t u).req = (reasons w.t u).req := by
  unfold World.trmStart
  split <;> rfl

theorem req_trmDrop (w : World) (id u : Nat) : (reasons (w.trmDrop id).t u).req = (reasons w.t u).req := by
  unfold World.trmDrop
  split
  · rfl
  · split <;> rfl

theorem req_trmEnd (w : World) (id u : Nat) : (reasons (w.trmEnd id).t u).req = (reasons w.t u).req := by
  unfold World.trmEnd
  split
  · rfl
  · split
    · rfl
    · next v _ =>
      show (reasons (if ∃ y ∈ w.xfers, y.user = v then w.t else step w.t (.untrack v fTr)) u).req = _
      split
      · rfl
      · rw [reasons_untrack]; split <;> simp

theorem req_owner_step (w : World) (op : WOp) (hop : ∀ b, op ≠ .base b) (u : Nat) :
    (reasons (wstep w op).t u).req = (reasons w.t u).req := by
  cases op with
  | base b => exact (hop b rfl).elim
  | login =>
    show (reasons (run w.t w.loginOps) u).req = _
    unfold World.loginOps
    rw [run_cons, reasons_run_tracks, reasons_track]
    repeat' split
    all_goals simp
  | cycle =>
    show (reasons (run w.t w.cycleOps) u).req = _
    unfold World.cycleOps
    rw [run_append, req_run_untracks_fTr, req_run_tracks_fTr]
  | friend v b =>
    cases b with
    | true =>
      rw [wstep_friend_true]
      split
      · rfl
      · show (reasons (if w.session = true then step w.t (.track v fFr) else w.t) u).req = _
        split
        · rw [reasons_track]; split <;> simp
        · rfl
    | false =>
      rw [wstep_friend_false]
      split
      · show (reasons (if w.session = true then step w.t (.untrack v fFr) else w.t) u).req = _
        split
        · rw [reasons_untrack]; split <;> simp
        · rfl
      · rfl
  | tadd v => rfl
  | tfin id => rfl
  | tque id => rfl
  | trm id =>
    show (reasons (((w.trmStart id).trmDrop id).trmEnd id).t u).req = _
    rw [req_trmEnd, req_trmDrop, req_trmStart]
  | trmStart id => exact req_trmStart w id u
  | trmDrop id => exact req_trmDrop w id u
  | trmEnd id => exact req_trmEnd w id u

theorem Flags.ne_empty_iff (f : Flags) : f ≠ Flags.empty ↔ (f.req = true ∨ f.tr = true ∨ f.fr = true) := by
  cases f with
  | mk a b c => cases a <;> cases b <;> cases c <;> simp [Flags.empty]

end AioslskVerif.Track
