import AioslskVerif.Model.Wire
/-! Helper lemmas for C01/C02: integer codecs, strings, the mutual prefix-parser round trip. -/
namespace AioslskVerif.Wire

/-! ### integers -/

theorem rd8_byte (n : Nat) (h : n < 256) (r : Bytes) : rd8 (byte n :: r) = .ok (n, r) := by
  simp only [rd8, byte_toNat]; congr 2; omega

theorem rd16_le16 (n : Nat) (h : n < 65536) (r : Bytes) : rd16 (le16 n ++ r) = .ok (n, r) := by
  simp only [le16, rd16, List.cons_append, List.nil_append, byte_toNat]; congr 2; omega

theorem rd32_le32 (n : Nat) (h : n < 4294967296) (r : Bytes) : rd32 (le32 n ++ r) = .ok (n, r) := by
  simp only [le32, rd32, List.cons_append, List.nil_append, byte_toNat]; congr 2; omega

theorem rd64_le64 (n : Nat) (h : n < 18446744073709551616) (r : Bytes) :
    rd64 (le64 n ++ r) = .ok (n, r) := by
  simp only [le64, rd64, List.cons_append, List.nil_append, byte_toNat]; congr 2; omega

theorem le32_length (n : Nat) : (le32 n).length = 4 := rfl
theorem le64_length (n : Nat) : (le64 n).length = 8 := rfl

theorem encI32_lt (i : Int) (h : -2147483648 ≤ i ∧ i < 2147483648) : encI32 i < 4294967296 := by
  unfold encI32; split <;> omega

theorem decI32_encI32 (i : Int) (h : -2147483648 ≤ i ∧ i < 2147483648) : decI32 (encI32 i) = i := by
  unfold decI32 encI32; split <;> split <;> omega

/-! ### strings -/

theorem utf8Dec_utf8Enc (cs : List Char) : utf8Dec (utf8Enc cs) = some cs := by
  unfold utf8Dec utf8Enc
  have h : (⟨(String.ofList cs).toUTF8.data.toList.toArray⟩ : ByteArray) = cs.utf8Encode := by
    simp [String.toUTF8_eq_toByteArray]
  rw [h, List.utf8Decode?_utf8Encode]; simp

theorem decodeString_utf8Enc (cs : List Char) : decodeString (utf8Enc cs) = .ok cs := by
  simp [decodeString, utf8Dec_utf8Enc]

end AioslskVerif.Wire

namespace AioslskVerif.Wire

@[simp] theorem except_bind_ok {ε α β : Type} (a : α) (f : α → Except ε β) :
    ((Except.ok a : Except ε α) >>= f) = f a := rfl
@[simp] theorem except_bind_error {ε α β : Type} (e : ε) (f : α → Except ε β) :
    ((Except.error e : Except ε α) >>= f) = Except.error e := rfl
@[simp] theorem except_pure {ε α : Type} (a : α) : (pure a : Except ε α) = .ok a := rfl

/-! ### the prefix-parser round trip, by mutual structural recursion -/
mutual
theorem dec_enc : ∀ (t : Ty) (v : Val) (b r : Bytes), t.noTicket = true → enc t v = some b →
    dec t (b ++ r) = .ok (v, r)
  | .prim .u8, .nat n, b, r, _, h => by
    simp only [enc] at h; split at h
    · cases h; simp [dec, rd8_byte _ ‹_›]
    · cases h
  | .prim .u16, .nat n, b, r, _, h => by
    simp only [enc] at h; split at h
    · cases h; simp [dec, rd16_le16 _ ‹_›]
    · cases h
  | .prim .u32, .nat n, b, r, _, h => by
    simp only [enc] at h; split at h
    · cases h; simp [dec, rd32_le32 _ ‹_›]
    · cases h
  | .prim .u64, .nat n, b, r, _, h => by
    simp only [enc] at h; split at h
    · cases h; simp [dec, rd64_le64 _ ‹_›]
    · cases h
  | .prim .i32, .int i, b, r, _, h => by
    simp only [enc] at h; split at h
    · rename_i hi; cases h
      simp [dec, rd32_le32 _ (encI32_lt i hi), decI32_encI32 i hi]
    · cases h
  | .prim .bool, .bool x, b, r, _, h => by
    simp only [enc] at h; cases h
    cases x <;> simp [dec, rd8]
  | .prim .str, .str cs, b, r, _, h => by
    simp only [enc] at h; split at h
    · cases h
      simp [dec, List.append_assoc, rd32_le32 _ ‹_›, decodeString_utf8Enc]
      intro h'; omega
    · cases h
  | .prim .bytes, .bytes bs, b, r, _, h => by
    simp only [enc] at h; split at h
    · cases h
      simp [dec, List.append_assoc, rd32_le32 _ ‹_›]
    · cases h
  | .prim .ip, .ip a b' c d, b, r, _, h => by
    simp only [enc] at h; cases h; simp [dec]
  | .arr e, .arr vs, b, r, ht, h => by
    simp only [enc] at h; split at h
    · rename_i hl
      cases hb : encList e vs with
      | none => simp [hb] at h
      | some b' =>
        simp [hb] at h; subst h
        have ht' : e.noTicket = true := by simpa [Ty.noTicket] using ht
        simp [dec, List.append_assoc, rd32_le32 _ hl, decList_encList e vs b' r ht' hb]
    · cases h
  | .record fs, .record vs, b, r, ht, h => by
    simp only [enc] at h
    have ht' : Ty.noTicketL fs = true := by simpa [Ty.noTicket] using ht
    simp [dec, decRec_encRec fs vs b r ht' h]
  | .prim .ticket, _, _, _, ht, _ => by simp [Ty.noTicket] at ht
  | .prim .u8, .int _, _, _, _, h | .prim .u8, .bool _, _, _, _, h | .prim .u8, .str _, _, _, _, h
  | .prim .u8, .bytes _, _, _, _, h | .prim .u8, .ip _ _ _ _, _, _, _, h | .prim .u8, .arr _, _, _, _, h
  | .prim .u8, .record _, _, _, _, h | .prim .u8, .absent, _, _, _, h => by simp [enc] at h
  | .prim .u16, .int _, _, _, _, h | .prim .u16, .bool _, _, _, _, h | .prim .u16, .str _, _, _, _, h
  | .prim .u16, .bytes _, _, _, _, h | .prim .u16, .ip _ _ _ _, _, _, _, h | .prim .u16, .arr _, _, _, _, h
  | .prim .u16, .record _, _, _, _, h | .prim .u16, .absent, _, _, _, h => by simp [enc] at h
  | .prim .u32, .int _, _, _, _, h | .prim .u32, .bool _, _, _, _, h | .prim .u32, .str _, _, _, _, h
  | .prim .u32, .bytes _, _, _, _, h | .prim .u32, .ip _ _ _ _, _, _, _, h | .prim .u32, .arr _, _, _, _, h
  | .prim .u32, .record _, _, _, _, h | .prim .u32, .absent, _, _, _, h => by simp [enc] at h
  | .prim .u64, .int _, _, _, _, h | .prim .u64, .bool _, _, _, _, h | .prim .u64, .str _, _, _, _, h
  | .prim .u64, .bytes _, _, _, _, h | .prim .u64, .ip _ _ _ _, _, _, _, h | .prim .u64, .arr _, _, _, _, h
  | .prim .u64, .record _, _, _, _, h | .prim .u64, .absent, _, _, _, h => by simp [enc] at h
  | .prim .i32, .nat _, _, _, _, h | .prim .i32, .bool _, _, _, _, h | .prim .i32, .str _, _, _, _, h
  | .prim .i32, .bytes _, _, _, _, h | .prim .i32, .ip _ _ _ _, _, _, _, h | .prim .i32, .arr _, _, _, _, h
  | .prim .i32, .record _, _, _, _, h | .prim .i32, .absent, _, _, _, h => by simp [enc] at h
  | .prim .bool, .nat _, _, _, _, h | .prim .bool, .int _, _, _, _, h | .prim .bool, .str _, _, _, _, h
  | .prim .bool, .bytes _, _, _, _, h | .prim .bool, .ip _ _ _ _, _, _, _, h | .prim .bool, .arr _, _, _, _, h
  | .prim .bool, .record _, _, _, _, h | .prim .bool, .absent, _, _, _, h => by simp [enc] at h
  | .prim .str, .nat _, _, _, _, h | .prim .str, .int _, _, _, _, h | .prim .str, .bool _, _, _, _, h
  | .prim .str, .bytes _, _, _, _, h | .prim .str, .ip _ _ _ _, _, _, _, h | .prim .str, .arr _, _, _, _, h
  | .prim .str, .record _, _, _, _, h | .prim .str, .absent, _, _, _, h => by simp [enc] at h
  | .prim .bytes, .nat _, _, _, _, h | .prim .bytes, .int _, _, _, _, h | .prim .bytes, .bool _, _, _, _, h
  | .prim .bytes, .str _, _, _, _, h | .prim .bytes, .ip _ _ _ _, _, _, _, h | .prim .bytes, .arr _, _, _, _, h
  | .prim .bytes, .record _, _, _, _, h | .prim .bytes, .absent, _, _, _, h => by simp [enc] at h
  | .prim .ip, .nat _, _, _, _, h | .prim .ip, .int _, _, _, _, h | .prim .ip, .bool _, _, _, _, h
  | .prim .ip, .str _, _, _, _, h | .prim .ip, .bytes _, _, _, _, h | .prim .ip, .arr _, _, _, _, h
  | .prim .ip, .record _, _, _, _, h | .prim .ip, .absent, _, _, _, h => by simp [enc] at h
  | .arr _, .nat _, _, _, _, h | .arr _, .int _, _, _, _, h | .arr _, .bool _, _, _, _, h
  | .arr _, .str _, _, _, _, h | .arr _, .bytes _, _, _, _, h | .arr _, .ip _ _ _ _, _, _, _, h
  | .arr _, .record _, _, _, _, h | .arr _, .absent, _, _, _, h => by simp [enc] at h
  | .record _, .nat _, _, _, _, h | .record _, .int _, _, _, _, h | .record _, .bool _, _, _, _, h
  | .record _, .str _, _, _, _, h | .record _, .bytes _, _, _, _, h | .record _, .ip _ _ _ _, _, _, _, h
  | .record _, .arr _, _, _, _, h | .record _, .absent, _, _, _, h => by simp [enc] at h
theorem decList_encList : ∀ (e : Ty) (vs : List Val) (b r : Bytes), e.noTicket = true →
    encList e vs = some b → decList e vs.length (b ++ r) = .ok (vs, r)
  | _, [], b, r, _, h => by simp [encList] at h; subst h; simp [decList]
  | e, v :: vs, b, r, ht, h => by
    simp only [encList] at h
    cases ha : enc e v with
    | none => simp [ha] at h
    | some a =>
      cases hb : encList e vs with
      | none => simp [ha, hb] at h
      | some b' =>
        simp [ha, hb] at h; subst h
        simp [decList, List.append_assoc, dec_enc e v a (b' ++ r) ht ha, decList_encList e vs b' r ht hb]
theorem decRec_encRec : ∀ (fs : List Ty) (vs : List Val) (b r : Bytes), Ty.noTicketL fs = true →
    encRec fs vs = some b → decRec fs (b ++ r) = .ok (vs, r)
  | [], [], b, r, _, h => by simp [encRec] at h; subst h; simp [decRec]
  | f :: fs, v :: vs, b, r, ht, h => by
    simp only [encRec] at h
    have ht1 : f.noTicket = true ∧ Ty.noTicketL fs = true := by simpa [Ty.noTicketL] using ht
    cases ha : enc f v with
    | none => simp [ha] at h
    | some a =>
      cases hb : encRec fs vs with
      | none => simp [ha, hb] at h
      | some b' =>
        simp [ha, hb] at h; subst h
        simp [decRec, List.append_assoc, dec_enc f v a (b' ++ r) ht1.1 ha, decRec_encRec fs vs b' r ht1.2 hb]
  | [], _ :: _, _, _, _, h => by simp [encRec] at h
  | _ :: _, [], _, _, _, h => by simp [encRec] at h
end

end AioslskVerif.Wire
