import AioslskVerif.Proofs.Dist
import AioslskVerif.Model.DistSearch
/-!
Helper lemmas for `Props/C14.lean` (model: `Model/DistSearch.lean`, tree invariant: `Proofs/Dist.lean`).
-/
namespace AioslskVerif.DistSearch
open AioslskVerif.Dist
open AioslskVerif.Generated.DistSearch

theorem isOwn_false_iff (s : DState) (u : Name) : isOwn s u = false ↔ s.session ≠ some u := by
  simp [isOwn]

theorem isOwn_true_iff (s : DState) (u : Name) : isOwn s u = true ↔ s.session = some u := by
  simp [isOwn]

/-- a foreign search request is passed on with the expected `unknown` -/
theorem passOn_foreign (s : DState) (r : Req) (hown : s.session ≠ some r.user) (hs : r.IsSearch) :
    passOn s r = some r.outUnknown := by
  have ho : isOwn s r.user = false := (isOwn_false_iff s r.user).2 hown
  unfold passOn Req.outUnknown
  unfold Req.IsSearch at hs
  split <;> simp_all

theorem passOn_own (s : DState) (r : Req) (hown : s.session = some r.user) : passOn s r = none := by
  have ho : isOwn s r.user = true := (isOwn_true_iff s r.user).2 hown
  unfold passOn
  split <;> simp_all

theorem forward_foreign (s : DState) (r : Req) (hown : s.session ≠ some r.user) (hs : r.IsSearch) :
    forward s r = s.children.map (fun c => Out.fwd c r.outUnknown r.user r.ticket r.query) := by
  unfold forward
  rw [passOn_foreign s r hown hs]

theorem forward_own (s : DState) (r : Req) (hown : s.session = some r.user) : forward s r = [] := by
  unfold forward
  rw [passOn_own s r hown]

/-- whatever the carrier: a forwarded frame goes to a child and carries the carrier's user, ticket, query -/
theorem mem_forward (s : DState) (r : Req) (o : Out) (h : o ∈ forward s r) :
    ∃ c unk, c ∈ s.children ∧ o = Out.fwd c unk r.user r.ticket r.query := by
  unfold forward at h
  split at h
  · rename_i unk _
    obtain ⟨c, hc, rfl⟩ := List.mem_map.1 h
    exact ⟨c, unk, hc, rfl⟩
  · simp at h

theorem reply_toConn (env : Env) (s : DState) (r : Req) (o : Out) (h : o ∈ reply env s r) (c : ConnId) :
    o.toConn c = false := by
  unfold reply at h
  split at h
  · split at h
    · dsimp only at h
      split at h
      · simp at h
      · rw [List.mem_singleton] at h; subst h; rfl
    · simp at h
  · simp at h

theorem reply_length_le (env : Env) (s : DState) (r : Req) : (reply env s r).length ≤ 1 := by
  unfold reply
  split
  · split
    · dsimp only
      split <;> simp
    · simp
  · simp

theorem countP_fwd_map (l : List ConnId) (c : ConnId) (unk : Nat) (u : Name) (t : Ticket) (q : Query) :
    (l.map (fun d => Out.fwd d unk u t q)).countP (Out.toConn c) = l.count c := by
  induction l with
  | nil => rfl
  | cons d l ih =>
    simp only [List.map_cons, List.countP_cons, List.count_cons, ih, Out.toConn]
    rfl

theorem countP_reply (env : Env) (s : DState) (r : Req) (c : ConnId) :
    (reply env s r).countP (Out.toConn c) = 0 := by
  rw [List.countP_eq_zero]
  intro o ho
  simp [reply_toConn env s r o ho c]

theorem count_of_nodup (l : List ConnId) (h : l.Nodup) (c : ConnId) :
    l.count c = if c ∈ l then 1 else 0 := by
  induction l with
  | nil => simp
  | cons d l ih =>
    have hd := List.nodup_cons.1 h
    rw [List.count_cons, ih hd.2]
    by_cases hcd : d = c
    · subst hcd
      simp [hd.1]
    · have : (d == c) = false := by simpa using hcd
      have hne : ¬ c = d := fun e => hcd e.symm
      simp [this, hne]

/-- with a session, a foreign asker that is not search-blocked and a search carrier, the shares are queried -/
theorem queried_true (env : Env) (s : DState) (r : Req) (me : Name) (hs : s.session = some me)
    (hu : r.user ≠ me) (hsearch : r.IsSearch) (hb : env.blocked r.user = false) : queried env s r = true := by
  have ho : isOwn s r.user = false := by
    rw [isOwn_false_iff, hs]; intro h; exact hu (Option.some.inj h).symm
  unfold queried reaches
  unfold Req.IsSearch at hsearch
  split <;> simp_all

theorem queried_own (env : Env) (s : DState) (r : Req) (hown : s.session = some r.user) :
    queried env s r = false := by
  have ho : isOwn s r.user = true := (isOwn_true_iff s r.user).2 hown
  unfold queried
  simp [ho]

theorem stepS_closeBegin_d (env : Env) (st : SState) (c : ConnId) : (stepS env st (.closeBegin c)).d = st.d := by
  simp only [stepS]; split <;> rfl

theorem stepS_closeBegin_log (env : Env) (st : SState) (c : ConnId) : (stepS env st (.closeBegin c)).log = st.log := by
  simp only [stepS]; split <;> rfl

theorem stepS_closeBegin_sent (env : Env) (st : SState) (c : ConnId) :
    (stepS env st (.closeBegin c)).sent = st.sent := by
  simp only [stepS]; split <;> rfl

theorem stepS_closeBegin_adding (env : Env) (st : SState) (c : ConnId) :
    (stepS env st (.closeBegin c)).adding = st.adding := by
  simp only [stepS]; split <;> rfl

/-- the tree state of a small-step history is that of its tree operations (`addBegin n` acts as
`initialized n false`; carriers, `addEnd` and `closeBegin` do not touch it) -/
theorem runS_state (env : Env) (h : List SOp) : (runS env h).d = run (treeOps h) := by
  unfold runS run
  suffices ∀ (st : SState), (h.foldl (stepS env) st).d = (treeOps h).foldl step st.d from this SState.init
  induction h with
  | nil => intro st; rfl
  | cons op h ih =>
    intro st
    cases op with
    | tree op => simp only [List.foldl_cons, treeOps, ih, stepS]
    | search r => simp only [List.foldl_cons, treeOps, ih, stepS]
    | addBegin n => simp only [List.foldl_cons, treeOps, ih, stepS]
    | addEnd c => simp only [List.foldl_cons, treeOps, ih, stepS]
    | closeBegin c => simp only [List.foldl_cons, treeOps, ih, stepS_closeBegin_d]
    | credentials n => simp only [List.foldl_cons, treeOps, ih, stepS]

theorem runS_append (env : Env) (h : List SOp) (op : SOp) :
    runS env (h ++ [op]) = stepS env (runS env h) op := by
  simp [runS, List.foldl_append]

theorem len_zero_iff (a b : List File) : a.length + b.length = 0 ↔ a = [] ∧ b = [] := by
  constructor
  · intro h
    exact ⟨List.length_eq_zero_iff.1 (by omega), List.length_eq_zero_iff.1 (by omega)⟩
  · rintro ⟨rfl, rfl⟩; rfl

/-- the reply once the shares are queried -/
theorem reply_eq (env : Env) (s : DState) (r : Req) (me : Name) (hs : s.session = some me)
    (hq : queried env s r = true) :
    reply env s r =
      if (env.answer r.user r.query).1.length + (env.answer r.user r.query).2.length = 0 then []
      else [Out.reply r.user r.ticket me (env.answer r.user r.query).1 (env.answer r.user r.query).2] := by
  unfold reply
  rw [hs]
  dsimp only
  rw [if_pos hq]

theorem reply_not_queried (env : Env) (s : DState) (r : Req) (hq : queried env s r = false) :
    reply env s r = [] := by
  unfold reply
  split
  · rw [if_neg (by simp [hq])]
  · rfl

/-- log entries of a history: generalised over the already processed prefix -/
theorem history_aux (env : Env) (h pre : List SOp) (e : Req × List Out)
    (he : e ∈ (h.foldl (stepS env) (runS env pre)).log) :
    e ∈ (runS env pre).log ∨ ∃ h', h' <+: h ∧ e.2 = handle env (runS env (pre ++ h')).d e.1 := by
  induction h generalizing pre with
  | nil => exact Or.inl he
  | cons op h ih =>
    rw [List.foldl_cons, ← runS_append] at he
    rcases ih (pre ++ [op]) he with h1 | ⟨h', hp, heq⟩
    · rw [runS_append] at h1
      cases op with
      | tree op => exact Or.inl h1
      | addBegin n => exact Or.inl h1
      | addEnd c => exact Or.inl h1
      | closeBegin c => rw [stepS_closeBegin_log] at h1; exact Or.inl h1
      | credentials n => exact Or.inl h1
      | search r =>
        simp only [stepS] at h1
        rcases List.mem_append.1 h1 with h1 | h1
        · exact Or.inl h1
        · rw [List.mem_singleton] at h1
          subst h1
          exact Or.inr ⟨[], List.nil_prefix, by rw [List.append_nil]⟩
    · refine Or.inr ⟨op :: h', (List.cons_prefix_cons).2 ⟨rfl, hp⟩, ?_⟩
      rw [heq, List.append_assoc]
      rfl

/-- entries of the log of written frames: what was queued in the state before the carrier, minus the frames for the
connections that were closing then -/
theorem sent_aux (env : Env) (h pre : List SOp) (e : Req × List Out)
    (he : e ∈ (h.foldl (stepS env) (runS env pre)).sent) :
    e ∈ (runS env pre).sent ∨
      ∃ h', h' <+: h ∧
        e.2 = written (runS env (pre ++ h')).closing (handle env (runS env (pre ++ h')).d e.1) := by
  induction h generalizing pre with
  | nil => exact Or.inl he
  | cons op h ih =>
    rw [List.foldl_cons, ← runS_append] at he
    rcases ih (pre ++ [op]) he with h1 | ⟨h', hp, heq⟩
    · rw [runS_append] at h1
      cases op with
      | tree op => exact Or.inl h1
      | addBegin n => exact Or.inl h1
      | addEnd c => exact Or.inl h1
      | closeBegin c => rw [stepS_closeBegin_sent] at h1; exact Or.inl h1
      | credentials n => exact Or.inl h1
      | search r =>
        simp only [stepS] at h1
        rcases List.mem_append.1 h1 with h1 | h1
        · exact Or.inl h1
        · rw [List.mem_singleton] at h1
          subst h1
          exact Or.inr ⟨[], List.nil_prefix, by rw [List.append_nil]⟩
    · refine Or.inr ⟨op :: h', (List.cons_prefix_cons).2 ⟨rfl, hp⟩, ?_⟩
      rw [heq, List.append_assoc]
      rfl

/-! ### frames refused on closing connections -/

theorem written_nil (outs : List Out) : written [] outs = outs := by
  unfold written
  rw [List.filter_eq_self]
  intro o _
  cases o <;> simp [refused]

/-- per connection: nothing is written to a closing connection, the others are unaffected -/
theorem countP_written (closing : List ConnId) (outs : List Out) (c : ConnId) :
    (written closing outs).countP (Out.toConn c) = if c ∈ closing then 0 else outs.countP (Out.toConn c) := by
  unfold written
  induction outs with
  | nil => simp
  | cons o outs ih =>
    by_cases hr : refused closing o = true
    · have hf : List.filter (fun o => !refused closing o) (o :: outs) =
          List.filter (fun o => !refused closing o) outs := by
        simp [hr]
      rw [hf, ih, List.countP_cons]
      by_cases hc : c ∈ closing
      · simp [hc]
      · -- a refused frame goes to a closing connection, `c` is not one
        have hne : Out.toConn c o = false := by
          cases o with
          | reply to t me v l => rfl
          | fwd d unk u t q =>
            have hd : d ∈ closing := by simpa [refused] using hr
            simp only [Out.toConn, beq_eq_false_iff_ne, ne_eq]
            intro e; subst e; exact hc hd
        simp [hc, hne]
    · have hr' : refused closing o = false := by simpa using hr
      have hf : List.filter (fun o => !refused closing o) (o :: outs) =
          o :: List.filter (fun o => !refused closing o) outs := by
        simp [hr']
      rw [hf, List.countP_cons, ih, List.countP_cons]
      by_cases hc : c ∈ closing
      · -- a frame that is not refused does not go to the closing connection `c`
        have hne : Out.toConn c o = false := by
          cases o with
          | reply to t me v l => rfl
          | fwd d unk u t q =>
            have hd : d ∉ closing := by simpa [refused] using hr'
            simp only [Out.toConn, beq_eq_false_iff_ne, ne_eq]
            intro e; subst e; exact hd hc
        simp [hc, hne]
      · simp [hc]

/-- the reply is never refused on account of a closing distributed connection -/
theorem reply_sub_written (env : Env) (s : DState) (r : Req) (closing : List ConnId) (o : Out)
    (ho : o ∈ reply env s r) : o ∈ written closing (handle env s r) := by
  unfold written handle
  rw [List.mem_filter]
  refine ⟨List.mem_append_right _ ho, ?_⟩
  unfold reply at ho
  split at ho
  · split at ho
    · dsimp only at ho
      split at ho
      · simp at ho
      · rw [List.mem_singleton] at ho; subst ho; rfl
    · simp at ho
  · simp at ho

theorem written_sub (closing : List ConnId) (outs : List Out) (o : Out) (ho : o ∈ written closing outs) :
    o ∈ outs := (List.mem_filter.1 ho).1

/-! ### a child stays a child for as long as its connection is registered -/

/-- children only leave `children` together with their connection leaving `distributed_peers` -/
def Stays (s s' : DState) : Prop := ∀ c, c ∈ s.children → c ∈ s'.live → c ∈ s'.children

theorem stays_of_eq {s s' : DState} (h : s'.children = s.children) : Stays s s' := by
  intro c hc _; rw [h]; exact hc

theorem closePeer_live_sub (s : DState) (x d : ConnId) (h : d ∈ (closePeer s x).live) : d ∈ s.live := by
  unfold closePeer at h
  split at h
  · by_cases hp : s.parent = some x
    · simp only [if_pos hp] at h
      have := List.mem_of_mem_erase h
      simpa using this
    · simp only [if_neg hp] at h
      exact List.mem_of_mem_erase h
  · exact h

theorem closePeer_stays (s : DState) (x : ConnId) (hn : s.live.Nodup) : Stays s (closePeer s x) := by
  intro c hc hl
  unfold closePeer at hl ⊢
  split
  · rename_i hx
    rw [if_pos hx] at hl
    by_cases hp : s.parent = some x
    · simp only [if_pos hp] at hl ⊢
      have hl' : c ∈ s.live.erase x := by simpa using hl
      have hne : c ≠ x := (hn.mem_erase_iff.1 hl').1
      have : c ∈ s.children.erase x := (List.mem_erase_of_ne hne).2 hc
      simpa using this
    · simp only [if_neg hp] at hl ⊢
      have hne : c ≠ x := (hn.mem_erase_iff.1 hl).1
      exact (List.mem_erase_of_ne hne).2 hc
  · exact hc

theorem foldl_closePeer_live_sub (l : List ConnId) (s : DState) (d : ConnId)
    (h : d ∈ (l.foldl closePeer s).live) : d ∈ s.live := by
  induction l generalizing s with
  | nil => exact h
  | cons x l ih => exact closePeer_live_sub s x d (ih _ h)

theorem foldl_closePeer_stays (l : List ConnId) (s : DState) (hi : Inv s) : Stays s (l.foldl closePeer s) := by
  induction l generalizing s with
  | nil => intro c hc _; exact hc
  | cons x l ih =>
    intro c hc hl
    have h1 : c ∈ (closePeer s x).live := foldl_closePeer_live_sub l _ c hl
    exact ih _ (closePeer_inv s x hi) c (closePeer_stays s x hi.str.liveNodup c hc h1) hl

theorem reset_stays (s : DState) (hi : Inv s) : Stays s (reset s) := by
  intro c hc hl
  unfold reset at hl ⊢
  simp only at hl ⊢
  have hi1 := foldl_closePeer_inv s.children s hi
  split
  · rename_i p hp
    rw [hp] at hl
    simp only at hl
    have h1 := closePeer_live_sub _ p c hl
    exact closePeer_stays _ p hi1.str.liveNodup c (foldl_closePeer_stays _ s hi c hc h1) hl
  · rename_i hp
    rw [hp] at hl
    exact foldl_closePeer_stays _ s hi c hc hl

theorem checkNewParent_stays (s : DState) (x : ConnId) (hn : s.live.Nodup) : Stays s (checkNewParent s x) := by
  unfold checkNewParent
  split
  · split
    · exact stays_of_eq (setParent_children s x)
    · exact closePeer_stays s x hn
  · intro c hc _; exact hc

theorem onLevel_stays (s : DState) (x : ConnId) (n : Nat) (hn : s.live.Nodup) : Stays s (onLevel s x n) := by
  unfold onLevel
  split
  · by_cases hp : s.parent = some x
    · simp only [if_pos hp]
      exact stays_of_eq (by simp)
    · simp only [if_neg hp]
      intro c hc hl
      refine checkNewParent_stays _ x ?_ c ?_ hl
      · exact hn
      · exact hc
  · intro c hc _; exact hc

theorem onRoot_stays (s : DState) (x : ConnId) (r : Name) (hn : s.live.Nodup) : Stays s (onRoot s x r) := by
  unfold onRoot
  split
  · split
    · intro c hc _; exact hc
    · by_cases hp : s.parent = some x
      · simp only [if_pos hp]
        exact stays_of_eq (by simp)
      · simp only [if_neg hp]
        intro c hc hl
        refine checkNewParent_stays _ x ?_ c ?_ hl
        · exact hn
        · exact hc
  · intro c hc _; exact hc

theorem checkNewChild_stays (s : DState) (x : ConnId) (hn : s.live.Nodup) : Stays s (checkNewChild s x) := by
  unfold checkNewChild
  split
  · intro c hc _; exact hc
  · split
    · exact closePeer_stays s x hn
    · split
      · exact closePeer_stays s x hn
      · intro c hc _
        rw [addChild_children]
        exact List.mem_append_left _ hc

theorem initialized_stays (s : DState) (n : Name) (r : Bool) (hi : Inv s) : Stays s (initialized s n r) := by
  rw [initialized_eq]
  split
  · exact stays_of_eq rfl
  · intro c hc hl
    exact checkNewChild_stays (withConn s n) s.nextConn (withConn_inv s n hi).str.liveNodup c hc hl

theorem onUserStats_children (s : DState) (n : Name) (sp : Nat) : (onUserStats s n sp).children = s.children := by
  unfold onUserStats; simp only; split
  · split
    · rfl
    · split <;> rfl
  · rfl

theorem requestUserStats_children (s : DState) : (requestUserStats s).children = s.children := by
  unfold requestUserStats; split <;> rfl

theorem step_stays (s : DState) (op : Op) (hi : Inv s) : Stays s (step s op) := by
  cases op with
  | potentialParents ns => exact stays_of_eq rfl
  | initialized n r => exact initialized_stays s n r hi
  | level c n => exact onLevel_stays s c n hi.str.liveNodup
  | root c r => exact onRoot_stays s c r hi.str.liveNodup
  | closed c => exact closePeer_stays s c hi.str.liveNodup
  | userStats n sp => exact stays_of_eq (onUserStats_children s n sp)
  | minSpeed n => exact stays_of_eq (requestUserStats_children _)
  | speedRatio n => exact stays_of_eq (requestUserStats_children _)
  | resetDistributed => exact reset_stays s hi
  | sessionInit me => exact stays_of_eq (by simp [step])
  | sessionDestroyed => exact stays_of_eq rfl
  | serverStateChange => exact stays_of_eq rfl

theorem run_append (ops : List Op) (op : Op) : run (ops ++ [op]) = step (run ops) op := by
  simp [run, List.foldl_append]

/-! ### a registered connection that has been sent our branch level is a child -/

/-- `toldL c ≠ none`: a `DistributedBranchLevel` has been written to connection `c` -/
def ToldChild (s : DState) : Prop := ∀ c, c ∈ s.live → s.toldL c ≠ none → c ∈ s.children

theorem ToldChild.congr {s s' : DState} (h : ToldChild s) (h1 : s'.live = s.live) (h2 : s'.toldL = s.toldL)
    (h3 : s'.children = s.children) : ToldChild s' := by
  intro c hc ht; rw [h3]; exact h c (h1 ▸ hc) (h2 ▸ ht)

theorem notifyServer_tc (s : DState) (h : ToldChild s) : ToldChild (notifyServer s) :=
  h.congr (by simp) (by simp) (by simp)

theorem notifyChildren_tc (s : DState) (h : ToldChild s) : ToldChild (notifyChildren s) := by
  intro c hc ht
  rw [notifyChildren_children]
  rw [notifyChildren_live] at hc
  by_cases hm : c ∈ s.children
  · exact hm
  · apply h c hc
    unfold notifyChildren at ht
    split at ht
    · simpa [hm] using ht
    · exact ht

theorem erase_tc (s : DState) (x : ConnId) (hn : s.live.Nodup) (h : ToldChild s) :
    ToldChild { s with children := s.children.erase x, live := s.live.erase x } := by
  intro c hc ht
  have hc' : c ∈ s.live.erase x := hc
  have hne : c ≠ x := (hn.mem_erase_iff.1 hc').1
  exact (List.mem_erase_of_ne hne).2 (h c (List.mem_of_mem_erase hc') ht)

theorem closePeer_tc (s : DState) (x : ConnId) (hn : s.live.Nodup) (h : ToldChild s) :
    ToldChild (closePeer s x) := by
  unfold closePeer
  split
  · by_cases hp : s.parent = some x
    · simp only [if_pos hp]
      refine erase_tc _ x (by simpa using hn) ?_
      exact notifyChildren_tc _ (notifyServer_tc _ (h.congr rfl rfl rfl))
    · simp only [if_neg hp]
      exact erase_tc s x hn h
  · exact h

theorem foldl_closePeer_tc (l : List ConnId) (s : DState) (hi : Inv s) (h : ToldChild s) :
    ToldChild (l.foldl closePeer s) := by
  induction l generalizing s with
  | nil => exact h
  | cons x l ih => exact ih _ (closePeer_inv s x hi) (closePeer_tc s x hi.str.liveNodup h)

theorem reset_tc (s : DState) (hi : Inv s) (h : ToldChild s) : ToldChild (reset s) := by
  unfold reset
  simp only
  have hi1 := foldl_closePeer_inv s.children s hi
  have h1 := foldl_closePeer_tc s.children s hi h
  split
  · exact closePeer_tc _ _ hi1.str.liveNodup h1
  · exact h1

theorem setParent_tc (s : DState) (x : ConnId) (h : ToldChild s) : ToldChild (setParent s x) := by
  unfold setParent
  apply notifyChildren_tc
  apply notifyServer_tc
  intro c hc ht
  exact h c (List.mem_filter.1 hc).1 ht

theorem checkNewParent_tc (s : DState) (x : ConnId) (hn : s.live.Nodup) (h : ToldChild s) :
    ToldChild (checkNewParent s x) := by
  unfold checkNewParent
  split
  · split
    · exact setParent_tc s x h
    · exact closePeer_tc s x hn h
  · exact h

theorem onLevel_tc (s : DState) (x : ConnId) (n : Nat) (hn : s.live.Nodup) (h : ToldChild s) :
    ToldChild (onLevel s x n) := by
  unfold onLevel
  split
  · by_cases hp : s.parent = some x
    · simp only [if_pos hp]
      exact notifyChildren_tc _ (notifyServer_tc _ (h.congr rfl rfl rfl))
    · simp only [if_neg hp]
      exact checkNewParent_tc _ x hn (h.congr rfl rfl rfl)
  · exact h

theorem onRoot_tc (s : DState) (x : ConnId) (r : Name) (hn : s.live.Nodup) (h : ToldChild s) :
    ToldChild (onRoot s x r) := by
  unfold onRoot
  split
  · split
    · exact h
    · by_cases hp : s.parent = some x
      · simp only [if_pos hp]
        exact notifyChildren_tc _ (notifyServer_tc _ (h.congr rfl rfl rfl))
      · simp only [if_neg hp]
        exact checkNewParent_tc _ x hn (h.congr rfl rfl rfl)
  · exact h

theorem addChild_tc (s : DState) (x : ConnId) (h : ToldChild s) : ToldChild (addChild s x) := by
  intro c hc ht
  rw [addChild_children]
  by_cases hcx : c = x
  · subst hcx; simp
  · apply List.mem_append_left
    have hl : (addChild s x).live = s.live := by unfold addChild; split <;> rfl
    apply h c (hl ▸ hc)
    unfold addChild at ht
    split at ht
    · simpa [upd, hcx] using ht
    · exact ht

theorem checkNewChild_tc (s : DState) (x : ConnId) (hn : s.live.Nodup) (h : ToldChild s) :
    ToldChild (checkNewChild s x) := by
  unfold checkNewChild
  split
  · exact h
  · split
    · exact closePeer_tc s x hn h
    · split
      · exact closePeer_tc s x hn h
      · exact addChild_tc s x h

theorem withConn_tc (s : DState) (n : Name) (h : ToldChild s) : ToldChild (withConn s n) := by
  intro c hc ht
  have hc' : c ∈ s.live ++ [s.nextConn] := hc
  have ht' : upd s.toldL s.nextConn none c ≠ none := ht
  show c ∈ s.children
  by_cases hcx : c = s.nextConn
  · subst hcx; simp at ht'
  · rw [upd_ne _ _ _ _ hcx] at ht'
    rcases List.mem_append.1 hc' with hl | hl
    · exact h c hl ht'
    · simp at hl; exact absurd hl hcx

theorem initialized_tc (s : DState) (n : Name) (r : Bool) (hi : Inv s) (h : ToldChild s) :
    ToldChild (initialized s n r) := by
  rw [initialized_eq]
  split
  · exact withConn_tc s n h
  · exact checkNewChild_tc _ _ (withConn_inv s n hi).str.liveNodup (withConn_tc s n h)

theorem requestUserStats_tc (s : DState) (h : ToldChild s) : ToldChild (requestUserStats s) := by
  unfold requestUserStats
  split
  · exact h.congr rfl rfl rfl
  · exact h

theorem onUserStats_tc (s : DState) (n : Name) (sp : Nat) (h : ToldChild s) : ToldChild (onUserStats s n sp) := by
  unfold onUserStats
  simp only
  split
  · split
    · exact h.congr rfl rfl rfl
    · split
      · exact h.congr rfl rfl rfl
      · exact h.congr rfl rfl rfl
  · exact h

theorem step_tc (s : DState) (op : Op) (hi : Inv s) (h : ToldChild s) : ToldChild (step s op) := by
  cases op with
  | potentialParents ns => exact h.congr rfl rfl rfl
  | initialized n r => exact initialized_tc s n r hi h
  | level c n => exact onLevel_tc s c n hi.str.liveNodup h
  | root c r => exact onRoot_tc s c r hi.str.liveNodup h
  | closed c => exact closePeer_tc s c hi.str.liveNodup h
  | userStats n sp => exact onUserStats_tc s n sp h
  | minSpeed n => exact requestUserStats_tc _ (h.congr rfl rfl rfl)
  | speedRatio n => exact requestUserStats_tc _ (h.congr rfl rfl rfl)
  | resetDistributed => exact reset_tc s hi h
  | sessionInit me => exact notifyChildren_tc _ (notifyServer_tc _ (h.congr rfl rfl rfl))
  | sessionDestroyed => exact h.congr rfl rfl rfl
  | serverStateChange => exact h.congr rfl rfl rfl

theorem run_tc (ops : List Op) : ToldChild (run ops) := by
  suffices ∀ (l : List Op) (s : DState), Inv s → ToldChild s → ToldChild (l.foldl step s) from
    this ops init init_inv (by intro c hc; simp [init] at hc)
  intro l
  induction l with
  | nil => intro s _ h; exact h
  | cons op l ih => intro s hi h; exact ih _ (step_inv s op hi) (step_tc s op hi h)

/-! ### adds in progress -/

/-- every add in progress is on a registered connection that is listed as a child -/
def AddingOK (st : SState) : Prop := ∀ c, c ∈ st.adding → c ∈ st.d.live ∧ c ∈ st.d.children

theorem stillAdding_ok (adding : List ConnId) (d d' : DState) (hs : Stays d d')
    (h : ∀ c, c ∈ adding → c ∈ d.live ∧ c ∈ d.children) :
    ∀ c, c ∈ stillAdding adding d' → c ∈ d'.live ∧ c ∈ d'.children := by
  intro c hc
  unfold stillAdding at hc
  have hm := List.mem_filter.1 hc
  have hl : c ∈ d'.live := by simpa using hm.2
  exact ⟨hl, hs c (h c hm.1).2 hl⟩

theorem stepS_addingOK (env : Env) (st : SState) (op : SOp) (hi : Inv st.d) (h : AddingOK st) :
    AddingOK (stepS env st op) := by
  cases op with
  | tree op =>
    exact stillAdding_ok st.adding st.d _ (step_stays st.d op hi) h
  | search r => exact h
  | addBegin n =>
    intro c hc
    simp only [stepS] at hc ⊢
    rcases List.mem_append.1 hc with hc | hc
    · exact stillAdding_ok st.adding st.d _ (step_stays st.d _ hi) h c hc
    · split at hc
      · rename_i hcond
        rw [List.mem_singleton] at hc
        subst hc
        exact ⟨(step_inv st.d _ hi).str.childLive _ hcond.1, hcond.1⟩
      · simp at hc
  | addEnd x =>
    intro c hc
    exact h c (List.mem_of_mem_erase hc)
  | closeBegin x =>
    intro c hc
    rw [stepS_closeBegin_adding] at hc
    rw [stepS_closeBegin_d]
    exact h c hc
  | credentials n => exact h

theorem runS_inv (env : Env) (h : List SOp) : Inv (runS env h).d := by
  rw [runS_state]; exact run_inv _

theorem stepS_inv (env : Env) (st : SState) (op : SOp) (hi : Inv st.d) : Inv (stepS env st op).d := by
  cases op with
  | tree op => exact step_inv st.d op hi
  | search r => exact hi
  | addBegin n => exact step_inv st.d (.initialized n false) hi
  | addEnd c => exact hi
  | closeBegin c => rw [stepS_closeBegin_d]; exact hi
  | credentials n => exact hi

theorem runS_addingOK (env : Env) (h : List SOp) : AddingOK (runS env h) := by
  unfold runS
  suffices ∀ (st : SState), Inv st.d → AddingOK st → AddingOK (h.foldl (stepS env) st) from
    this SState.init init_inv (by intro c hc; simp [SState.init] at hc)
  induction h with
  | nil => intro st _ h; exact h
  | cons op h ih => intro st hi hok; exact ih _ (stepS_inv env st op hi) (stepS_addingOK env st op hi hok)

/-! ### connections between CLOSING and CLOSED -/

/-- every closing connection is still registered, and none is listed twice -/
def ClosingOK (st : SState) : Prop := (∀ c, c ∈ st.closing → c ∈ st.d.live) ∧ st.closing.Nodup

theorem stillAdding_live (l : List ConnId) (d' : DState) : ∀ c, c ∈ stillAdding l d' → c ∈ d'.live := by
  intro c hc
  unfold stillAdding at hc
  simpa using (List.mem_filter.1 hc).2

theorem stepS_closingOK (env : Env) (st : SState) (op : SOp) (h : ClosingOK st) : ClosingOK (stepS env st op) := by
  cases op with
  | tree op => exact ⟨stillAdding_live _ _, h.2.filter _⟩
  | search r => exact h
  | addBegin n => exact ⟨stillAdding_live _ _, h.2.filter _⟩
  | addEnd x => exact h
  | closeBegin x =>
    simp only [stepS]
    split
    · rename_i hx
      refine ⟨fun c hc => ?_, ?_⟩
      · rcases List.mem_append.1 hc with hc | hc
        · exact h.1 c hc
        · rw [List.mem_singleton] at hc; subst hc; exact hx.1
      · refine List.nodup_append.2 ⟨h.2, by simp, ?_⟩
        intro a ha b hb
        rw [List.mem_singleton] at hb
        subst hb
        intro e; subst e; exact hx.2 ha
    · exact h
  | credentials n => exact h

theorem runS_closingOK (env : Env) (h : List SOp) : ClosingOK (runS env h) := by
  unfold runS
  suffices ∀ (st : SState), ClosingOK st → ClosingOK (h.foldl (stepS env) st) from
    this SState.init ⟨by intro c hc; simp [SState.init] at hc, by simp [SState.init]⟩
  induction h with
  | nil => intro st h; exact h
  | cons op h ih => intro st hok; exact ih _ (stepS_closingOK env st op hok)

theorem treeOps_append (h1 h2 : List SOp) : treeOps (h1 ++ h2) = treeOps h1 ++ treeOps h2 := by
  induction h1 with
  | nil => rfl
  | cons op h ih => cases op <;> simp [treeOps, ih]

/-- the CLOSED notification ends the window: the connection is not closing any more -/
theorem closed_not_closing (env : Env) (h : List SOp) (c : ConnId) :
    c ∉ (runS env (h ++ [.tree (.closed c)])).closing := by
  intro hc
  have hl := (runS_closingOK env (h ++ [.tree (.closed c)])).1 c hc
  rw [runS_state] at hl
  have : treeOps (h ++ [SOp.tree (.closed c)]) = treeOps h ++ [.closed c] := by
    rw [treeOps_append]; rfl
  rw [this, run_append] at hl
  have hnd := (run_inv (treeOps h)).str.liveNodup
  have hnot : c ∉ (closePeer (run (treeOps h)) c).live := by
    unfold closePeer
    split
    · intro hm
      have hm' : c ∈ (run (treeOps h)).live.erase c := by
        by_cases hp : (run (treeOps h)).parent = some c
        · simp only [if_pos hp] at hm; simpa using hm
        · simp only [if_neg hp] at hm; exact hm
      exact (hnd.mem_erase_iff.1 hm').1 rfl
    · assumption
  exact hnot hl

/-! ### the configured login name (`SOp.credentials`) -/

/-- a small-step operation that assigns the configured login name -/
def isCredentials : SOp → Bool
  | .credentials _ => true
  | _ => false

/-- the state without the record of the configured name -/
def forget (st : SState) : SState := { st with configured := none }

theorem forget_stepS (env : Env) (st : SState) (op : SOp) (hop : isCredentials op = false) :
    forget (stepS env st op) = stepS env (forget st) op := by
  cases op with
  | tree op => rfl
  | search r => rfl
  | addBegin n => rfl
  | addEnd c => rfl
  | closeBegin c =>
    simp only [stepS, forget]
    by_cases hx : c ∈ st.d.live ∧ c ∉ st.closing
    · simp [hx]
    · simp [hx]
  | credentials n => simp [isCredentials] at hop

theorem forget_foldl (env : Env) (h : List SOp) (st : SState) :
    forget (h.foldl (stepS env) st) =
      (h.filter (fun op => !isCredentials op)).foldl (stepS env) (forget st) := by
  induction h generalizing st with
  | nil => rfl
  | cons op h ih =>
    rw [List.foldl_cons, ih]
    cases hop : isCredentials op with
    | false =>
      rw [List.filter_cons_of_pos (by simp [hop]), List.foldl_cons, forget_stepS env st op hop]
    | true =>
      rw [List.filter_cons_of_neg (by simp [hop])]
      cases op with
      | credentials n => rfl
      | tree op => simp [isCredentials] at hop
      | search r => simp [isCredentials] at hop
      | addBegin n => simp [isCredentials] at hop
      | addEnd c => simp [isCredentials] at hop
      | closeBegin c => simp [isCredentials] at hop

end AioslskVerif.DistSearch
