import AioslskVerif.Proofs.Dist
import AioslskVerif.Model.DistSearch
/-!
Helper lemmas for `Props/C14.lean` (model: `Model/DistSearch.lean`, tree invariant: `Proofs/Dist.lean`).
-/
namespace AioslskVerif.DistSearch
open AioslskVerif.Dist
open AioslskVerif.Generated.DistSearch

theorem isOwn_false_iff (s : DState) (u : Name) : isOwn s u = false ↔ s.session ≠ some u := by
  simp [isOwn]

theorem isOwn_true_iff (s : DState) (u : Name) : isOwn s u = true ↔ s.session = some u := by
  simp [isOwn]

/-- a foreign search request is passed on with the expected `unknown` -/
theorem passOn_foreign (s : DState) (r : Req) (hown : s.session ≠ some r.user) (hs : r.IsSearch) :
    passOn s r = some r.outUnknown := by
  have ho : isOwn s r.user = false := (isOwn_false_iff s r.user).2 hown
  unfold passOn Req.outUnknown
  unfold Req.IsSearch at hs
  split <;> simp_all

theorem passOn_own (s : DState) (r : Req) (hown : s.session = some r.user) : passOn s r = none := by
  have ho : isOwn s r.user = true := (isOwn_true_iff s r.user).2 hown
  unfold passOn
  split <;> simp_all

theorem forward_foreign (s : DState) (r : Req) (hown : s.session ≠ some r.user) (hs : r.IsSearch) :
    forward s r = s.children.map (fun c => Out.fwd c r.outUnknown r.user r.ticket r.query) := by
  unfold forward
  rw [passOn_foreign s r hown hs]

theorem forward_own (s : DState) (r : Req) (hown : s.session = some r.user) : forward s r = [] := by
  unfold forward
  rw [passOn_own s r hown]

/-- whatever the carrier: a forwarded frame goes to a child and carries the carrier's user, ticket, query -/
theorem mem_forward (s : DState) (r : Req) (o : Out) (h : o ∈ forward s r) :
    ∃ c unk, c ∈ s.children ∧ o = Out.fwd c unk r.user r.ticket r.query := by
  unfold forward at h
  split at h
  · rename_i unk _
    obtain ⟨c, hc, rfl⟩ := List.mem_map.1 h
    exact ⟨c, unk, hc, rfl⟩
  · simp at h

theorem reply_toConn (env : Env) (s : DState) (r : Req) (o : Out) (h : o ∈ reply env s r) (c : ConnId) :
    o.toConn c = false := by
  unfold reply at h
  split at h
  · split at h
    · dsimp only at h
      split at h
      · simp at h
      · rw [List.mem_singleton] at h; subst h; rfl
    · simp at h
  · simp at h

theorem reply_length_le (env : Env) (s : DState) (r : Req) : (reply env s r).length ≤ 1 := by
  unfold reply
  split
  · split
    · dsimp only
      split <;> simp
    · simp
  · simp

theorem countP_fwd_map (l : List ConnId) (c : ConnId) (unk : Nat) (u : Name) (t : Ticket) (q : Query) :
    (l.map (fun d => Out.fwd d unk u t q)).countP (Out.toConn c) = l.count c := by
  induction l with
  | nil => rfl
  | cons d l ih =>
    simp only [List.map_cons, List.countP_cons, List.count_cons, ih, Out.toConn]
    rfl

theorem countP_reply (env : Env) (s : DState) (r : Req) (c : ConnId) :
    (reply env s r).countP (Out.toConn c) = 0 := by
  rw [List.countP_eq_zero]
  intro o ho
  simp [reply_toConn env s r o ho c]

theorem count_of_nodup (l : List ConnId) (h : l.Nodup) (c : ConnId) :
    l.count c = if c ∈ l then 1 else 0 := by
  induction l with
  | nil => simp
  | cons d l ih =>
    have hd := List.nodup_cons.1 h
    rw [List.count_cons, ih hd.2]
    by_cases hcd : d = c
    · subst hcd
      simp [hd.1]
    · have : (d == c) = false := by simpa using hcd
      have hne : ¬ c = d := fun e => hcd e.symm
      simp [this, hne]

/-- with a session, a foreign asker that is not search-blocked and a search carrier, the shares are queried -/
theorem queried_true (env : Env) (s : DState) (r : Req) (me : Name) (hs : s.session = some me)
    (hu : r.user ≠ me) (hsearch : r.IsSearch) (hb : env.blocked r.user = false) : queried env s r = true := by
  have ho : isOwn s r.user = false := by
    rw [isOwn_false_iff, hs]; intro h; exact hu (Option.some.inj h).symm
  unfold queried reaches
  unfold Req.IsSearch at hsearch
  split <;> simp_all

theorem queried_own (env : Env) (s : DState) (r : Req) (hown : s.session = some r.user) :
    queried env s r = false := by
  have ho : isOwn s r.user = true := (isOwn_true_iff s r.user).2 hown
  unfold queried
  simp [ho]

/-- the tree state is not touched by search carriers -/
theorem runS_state (env : Env) (h : List SOp) : (runS env h).1 = run (treeOps h) := by
  unfold runS run
  suffices ∀ (st : DState × List (Req × List Out)), (h.foldl (stepS env) st).1 = (treeOps h).foldl step st.1 from
    this (init, [])
  induction h with
  | nil => intro st; rfl
  | cons op h ih =>
    intro st
    cases op with
    | tree op => simp only [List.foldl_cons, treeOps, ih, stepS]
    | search r => simp only [List.foldl_cons, treeOps, ih, stepS]

theorem runS_append (env : Env) (h : List SOp) (op : SOp) :
    runS env (h ++ [op]) = stepS env (runS env h) op := by
  simp [runS, List.foldl_append]

theorem len_zero_iff (a b : List File) : a.length + b.length = 0 ↔ a = [] ∧ b = [] := by
  constructor
  · intro h
    exact ⟨List.length_eq_zero_iff.1 (by omega), List.length_eq_zero_iff.1 (by omega)⟩
  · rintro ⟨rfl, rfl⟩; rfl

/-- the reply once the shares are queried -/
theorem reply_eq (env : Env) (s : DState) (r : Req) (me : Name) (hs : s.session = some me)
    (hq : queried env s r = true) :
    reply env s r =
      if (env.answer r.user r.query).1.length + (env.answer r.user r.query).2.length = 0 then []
      else [Out.reply r.user r.ticket me (env.answer r.user r.query).1 (env.answer r.user r.query).2] := by
  unfold reply
  rw [hs]
  dsimp only
  rw [if_pos hq]

theorem reply_not_queried (env : Env) (s : DState) (r : Req) (hq : queried env s r = false) :
    reply env s r = [] := by
  unfold reply
  split
  · rw [if_neg (by simp [hq])]
  · rfl

/-- log entries of a history: generalised over the already processed prefix -/
theorem history_aux (env : Env) (h pre : List SOp) (e : Req × List Out)
    (he : e ∈ (h.foldl (stepS env) (runS env pre)).2) :
    e ∈ (runS env pre).2 ∨ ∃ h', h' <+: h ∧ e.2 = handle env (run (treeOps (pre ++ h'))) e.1 := by
  induction h generalizing pre with
  | nil => exact Or.inl he
  | cons op h ih =>
    rw [List.foldl_cons, ← runS_append] at he
    rcases ih (pre ++ [op]) he with h1 | ⟨h', hp, heq⟩
    · rw [runS_append] at h1
      cases op with
      | tree op => exact Or.inl h1
      | search r =>
        simp only [stepS] at h1
        rcases List.mem_append.1 h1 with h1 | h1
        · exact Or.inl h1
        · rw [List.mem_singleton] at h1
          subst h1
          refine Or.inr ⟨[], List.nil_prefix, ?_⟩
          rw [List.append_nil, runS_state]
    · refine Or.inr ⟨op :: h', (List.cons_prefix_cons).2 ⟨rfl, hp⟩, ?_⟩
      rw [heq, List.append_assoc]
      rfl

end AioslskVerif.DistSearch
