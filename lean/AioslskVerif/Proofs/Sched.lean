import AioslskVerif.Model.Sched
/-!
Helper lemmas for C05 (`Props/C05.lean`): the eligibility loop, the stable sort, the selection, the
invariant (`ids` strictly increasing + one active upload per user) and counting.
-/
namespace AioslskVerif.Sched
open List

/-! ### the eligibility loop -/

theorem mem_eligLoop {users : Nat → UserInfo} {busy : List Nat} :
    ∀ {xs : List Xfer} {seen : List Nat} {t : Xfer}, t ∈ eligLoop users busy seen xs →
      t ∈ xs ∧ t.dir = .upload ∧ t.st = .queued ∧ (users t.user).status ≠ .offline ∧ t.user ∉ busy ∧ t.user ∉ seen := by
  intro xs
  induction xs with
  | nil => intro seen t h; simp [eligLoop] at h
  | cons x r ih =>
    intro seen t h
    unfold eligLoop at h
    split at h
    · have := ih h; exact ⟨mem_cons_of_mem _ this.1, this.2⟩
    · rename_i hoff
      split at h
      · rename_i hup
        split at h
        · have := ih h; exact ⟨mem_cons_of_mem _ this.1, this.2⟩
        · rename_i hbusy
          split at h
          · have := ih h; exact ⟨mem_cons_of_mem _ this.1, this.2⟩
          · rename_i hseen
            split at h
            · rename_i hq
              rcases mem_cons.mp h with rfl | h'
              · exact ⟨mem_cons_self, hup, hq, hoff, hbusy, hseen⟩
              · have := ih h'
                refine ⟨mem_cons_of_mem _ this.1, this.2.1, this.2.2.1, this.2.2.2.1, this.2.2.2.2.1, ?_⟩
                intro hc
                exact this.2.2.2.2.2 (mem_cons_of_mem _ hc)
            · have := ih h; exact ⟨mem_cons_of_mem _ this.1, this.2⟩
      · have := ih h; exact ⟨mem_cons_of_mem _ this.1, this.2⟩

theorem eligLoop_nodup_users {users : Nat → UserInfo} {busy : List Nat} :
    ∀ (xs : List Xfer) (seen : List Nat), ((eligLoop users busy seen xs).map (·.user)).Nodup := by
  intro xs
  induction xs with
  | nil => intro seen; simp [eligLoop]
  | cons x r ih =>
    intro seen
    unfold eligLoop
    split
    · exact ih seen
    · split
      · split
        · exact ih seen
        · split
          · exact ih seen
          · split
            · rw [map_cons, nodup_cons]
              refine ⟨?_, ih _⟩
              intro hm
              obtain ⟨t, ht, hu⟩ := mem_map.mp hm
              have := (mem_eligLoop ht).2.2.2.2.2
              exact this (by rw [hu]; exact mem_cons_self)
            · exact ih seen
      · exact ih seen

/-- completeness of the loop: a queued upload of a user that is neither offline, busy nor already
seen is represented (by the first such upload of that user). -/
theorem eligLoop_complete {users : Nat → UserInfo} {busy : List Nat} :
    ∀ (xs : List Xfer) (seen : List Nat) (x : Xfer), x ∈ xs → x.dir = .upload → x.st = .queued →
      (users x.user).status ≠ .offline → x.user ∉ busy → x.user ∉ seen →
      ∃ y ∈ eligLoop users busy seen xs, y.user = x.user := by
  intro xs
  induction xs with
  | nil => intro seen x hx; simp at hx
  | cons h r ih =>
    intro seen x hx hup hq hoff hbusy hseen
    unfold eligLoop
    rcases mem_cons.mp hx with rfl | hx'
    · simp only [hoff, hup, hbusy, hseen, hq, if_true, if_false]
      exact ⟨x, mem_cons_self, rfl⟩
    · split
      · exact ih seen x hx' hup hq hoff hbusy hseen
      · split
        · split
          · exact ih seen x hx' hup hq hoff hbusy hseen
          · split
            · exact ih seen x hx' hup hq hoff hbusy hseen
            · split
              · by_cases hu : x.user = h.user
                · exact ⟨h, mem_cons_self, hu.symm⟩
                · have hs' : x.user ∉ h.user :: seen := by
                    intro hc
                    rcases mem_cons.mp hc with hc | hc
                    · exact hu hc
                    · exact hseen hc
                  obtain ⟨y, hy, hyu⟩ := ih (h.user :: seen) x hx' hup hq hoff hbusy hs'
                  exact ⟨y, mem_cons_of_mem _ hy, hyu⟩
              · exact ih seen x hx' hup hq hoff hbusy hseen
        · exact ih seen x hx' hup hq hoff hbusy hseen

/-! ### the stable sort -/

theorem insAsc_perm (key : Xfer → Nat) (a : Xfer) : ∀ l, insAsc key a l ~ a :: l
  | [] => by simp [insAsc]
  | b :: l => by
    unfold insAsc
    split
    · exact Perm.refl _
    · exact ((insAsc_perm key a l).cons b).trans (Perm.swap a b l)

theorem sortAsc_perm (key : Xfer → Nat) : ∀ l, sortAsc key l ~ l
  | [] => by simp [sortAsc]
  | a :: l => by
    unfold sortAsc
    exact (insAsc_perm key a _).trans ((sortAsc_perm key l).cons a)

theorem insAsc_sorted (key : Xfer → Nat) (a : Xfer) :
    ∀ l, l.Pairwise (fun x y => key x ≤ key y) → (insAsc key a l).Pairwise (fun x y => key x ≤ key y)
  | [], _ => by simp [insAsc]
  | b :: l, h => by
    unfold insAsc
    rw [pairwise_cons] at h
    split
    · rename_i hab
      rw [pairwise_cons]
      refine ⟨?_, pairwise_cons.mpr h⟩
      intro x hx
      rcases mem_cons.mp hx with rfl | hx
      · exact hab
      · exact Nat.le_trans hab (h.1 x hx)
    · rename_i hab
      rw [pairwise_cons]
      refine ⟨?_, insAsc_sorted key a l h.2⟩
      intro x hx
      have hx' := (insAsc_perm key a l).mem_iff.mp hx
      rcases mem_cons.mp hx' with rfl | hx'
      · omega
      · exact h.1 x hx'

theorem sortAsc_sorted (key : Xfer → Nat) : ∀ l, (sortAsc key l).Pairwise (fun x y => key x ≤ key y)
  | [] => by simp [sortAsc]
  | a :: l => by
    unfold sortAsc
    exact insAsc_sorted key a _ (sortAsc_sorted key l)

theorem prioritize_perm (s : Sched) (l : List Xfer) : s.prioritize l ~ l :=
  (reverse_perm _).trans (sortAsc_perm _ l)

theorem prioritize_sorted (s : Sched) (l : List Xfer) :
    (s.prioritize l).Pairwise (fun a b => s.rankOf b ≤ s.rankOf a) := by
  unfold Sched.prioritize
  rw [pairwise_reverse]
  exact sortAsc_sorted _ l

/-! ### the selection -/

theorem eligible_perm (s : Sched) : s.eligible ~ s.candidates := prioritize_perm s _

theorem select_sublist (s : Sched) : s.select <+ s.eligible := take_sublist _ _

theorem mem_select_candidates {s : Sched} {t : Xfer} (h : t ∈ s.select) : t ∈ s.candidates :=
  (eligible_perm s).mem_iff.mp (mem_of_mem_take h)

theorem nodup_of_nodup_map {α β} (f : α → β) {l : List α} (h : (l.map f).Nodup) : l.Nodup := by
  rw [nodup_iff_pairwise_ne] at h ⊢
  rw [pairwise_map] at h
  exact h.imp (fun hab e => hab (by rw [e]))

theorem inj_of_nodup_map {α β} (f : α → β) : ∀ {l : List α}, (l.map f).Nodup → ∀ {a b}, a ∈ l → b ∈ l → f a = f b → a = b
  | [], _, a, _, ha, _, _ => by simp at ha
  | x :: l, h, a, b, ha, hb, e => by
    rw [map_cons, nodup_cons] at h
    rcases mem_cons.mp ha with rfl | ha' <;> rcases mem_cons.mp hb with rfl | hb'
    · rfl
    · exact absurd (mem_map.mpr ⟨b, hb', e.symm⟩) h.1
    · exact absurd (mem_map.mpr ⟨a, ha', e⟩) h.1
    · exact inj_of_nodup_map f h.2 ha' hb' e

theorem eligible_nodup_users (s : Sched) : (s.eligible.map (·.user)).Nodup :=
  ((eligible_perm s).map _).nodup_iff.mpr (eligLoop_nodup_users _ _)

theorem select_nodup_users (s : Sched) : (s.select.map (·.user)).Nodup :=
  ((select_sublist s).map _).nodup (eligible_nodup_users s)

theorem mem_busyUsers {s : Sched} {x : Xfer} (hx : x ∈ s.xs) (hp : x.procUpload = true) : x.user ∈ s.busyUsers :=
  mem_map.mpr ⟨x, mem_filter.mpr ⟨hx, hp⟩, rfl⟩

/-- everything the selection guarantees about one selected upload -/
theorem select_spec {s : Sched} {t : Xfer} (h : t ∈ s.select) :
    t ∈ s.xs ∧ t.dir = .upload ∧ t.st = .queued ∧ (s.users t.user).status ≠ .offline ∧
      ∀ x ∈ s.xs, x.procUpload = true → x.user ≠ t.user := by
  have := mem_eligLoop (mem_select_candidates h)
  refine ⟨this.1, this.2.1, this.2.2.1, this.2.2.2.1, ?_⟩
  intro x hx hp e
  exact this.2.2.2.2.1 (e ▸ mem_busyUsers hx hp)

theorem not_proc_of_queued {x : Xfer} (h : x.st = .queued) : x.procUpload = false := by
  simp [Xfer.procUpload, Xfer.processing, h]

/-! ### invariant -/

structure InvL (xs : List Xfer) : Prop where
  ids : xs.Pairwise (fun a b => a.id < b.id)
  bound : ∀ x ∈ xs, x.id < xs.length
  one : xs.Pairwise (fun a b => a.procUpload = true → b.procUpload = true → a.user ≠ b.user)

def Inv (s : Sched) : Prop := InvL s.xs

theorem InvL.nodup {xs : List Xfer} (h : InvL xs) : xs.Nodup := by
  rw [nodup_iff_pairwise_ne]
  exact h.ids.imp (fun hab e => by rw [e] at hab; exact Nat.lt_irrefl _ hab)

/-- an update that keeps id and user and never makes an upload active preserves the invariant -/
theorem InvL.map {xs : List Xfer} (h : InvL xs) (g : Xfer → Xfer) (hid : ∀ x, (g x).id = x.id)
    (hu : ∀ x, (g x).user = x.user) (hp : ∀ x, (g x).procUpload = true → x.procUpload = true) : InvL (xs.map g) := by
  refine ⟨?_, ?_, ?_⟩
  · rw [pairwise_map]
    exact h.ids.imp (fun hab => by rw [hid, hid]; exact hab)
  · intro y hy
    obtain ⟨x, hx, rfl⟩ := mem_map.mp hy
    rw [hid, length_map]
    exact h.bound x hx
  · rw [pairwise_map]
    exact h.one.imp (fun hab ha hb => by rw [hu, hu]; exact hab (hp _ ha) (hp _ hb))

theorem InvL.append_idle {xs : List Xfer} (h : InvL xs) (x : Xfer) (hid : x.id = xs.length)
    (hp : x.procUpload = false) : InvL (xs ++ [x]) := by
  refine ⟨?_, ?_, ?_⟩
  · rw [pairwise_append]
    refine ⟨h.ids, by simp, ?_⟩
    intro a ha b hb
    simp only [mem_singleton] at hb
    subst hb
    rw [hid]
    exact h.bound a ha
  · intro y hy
    rw [length_append, length_singleton]
    rcases mem_append.mp hy with hy | hy
    · exact Nat.lt_succ_of_lt (h.bound y hy)
    · simp only [mem_singleton] at hy
      subst hy
      omega
  · rw [pairwise_append]
    refine ⟨h.one, by simp, ?_⟩
    intro a _ b hb
    simp only [mem_singleton] at hb
    subst hb
    intro _ hb
    rw [hp] at hb
    cases hb

/-- the update a cycle applies -/
def cycleMap (sel : List Xfer) (x : Xfer) : Xfer := if x ∈ sel then { x with st := .initializing } else x

theorem start_xs (s : Sched) : s.start.xs = s.xs.map (cycleMap s.select) := rfl

/-- the tracking half of a cycle touches neither the transfers nor the slot setting -/
theorem track_xs (s : Sched) : s.track.xs = s.xs := rfl

theorem cycle_eq (s : Sched) : s.cycle = s.track.start := rfl

theorem cycleMap_proc {s : Sched} {x : Xfer} (_hx : x ∈ s.xs) :
    (cycleMap s.select x).procUpload = (x.procUpload || decide (x ∈ s.select)) := by
  unfold cycleMap
  by_cases h : x ∈ s.select
  · have hs := select_spec h
    simp [h, Xfer.procUpload, Xfer.processing, hs.2.1]
  · simp [h]

theorem inv_start {s : Sched} (h : Inv s) : Inv s.start := by
  unfold Inv at h ⊢
  rw [start_xs]
  refine ⟨?_, ?_, ?_⟩
  · rw [pairwise_map]
    exact h.ids.imp (fun hab => by
      unfold cycleMap
      split <;> split <;> exact hab)
  · intro y hy
    obtain ⟨x, hx, rfl⟩ := mem_map.mp hy
    rw [length_map]
    have := h.bound x hx
    unfold cycleMap
    split <;> exact this
  · rw [pairwise_map]
    refine (h.ids.and h.one).imp_of_mem ?_
    intro a b ha hb hab pa pb
    have ua : (cycleMap s.select a).user = a.user := by unfold cycleMap; split <;> rfl
    have ub : (cycleMap s.select b).user = b.user := by unfold cycleMap; split <;> rfl
    rw [ua, ub]
    rw [cycleMap_proc ha] at pa
    rw [cycleMap_proc hb] at pb
    by_cases sa : a ∈ s.select <;> by_cases sb : b ∈ s.select
    · intro e
      have := inj_of_nodup_map (·.user) (select_nodup_users s) sa sb e
      rw [this] at hab
      exact Nat.lt_irrefl _ hab.1
    · have pb' : b.procUpload = true := by simpa [sb] using pb
      exact fun e => (select_spec sa).2.2.2.2 b hb pb' e.symm
    · have pa' : a.procUpload = true := by simpa [sa] using pa
      exact fun e => (select_spec sb).2.2.2.2 a ha pa' e
    · have pa' : a.procUpload = true := by simpa [sa] using pa
      have pb' : b.procUpload = true := by simpa [sb] using pb
      exact hab.2 pa' pb'

theorem setSt_xs (s : Sched) (k : Nat) (st : St) :
    (s.setSt k st).xs = s.xs.map (fun x => if x.id = k then { x with st := st } else x) := rfl

theorem get?_spec {s : Sched} {k : Nat} {x : Xfer} (h : s.get? k = some x) : x ∈ s.xs ∧ x.id = k := by
  unfold Sched.get? at h
  have h1 := List.mem_of_find?_eq_some h
  have h2 := List.find?_some h
  exact ⟨h1, by simpa using h2⟩

/-- the element found by id is the only one with that id -/
theorem unique_id {xs : List Xfer} (h : InvL xs) {x y : Xfer} (hx : x ∈ xs) (hy : y ∈ xs) (e : x.id = y.id) : x = y := by
  have hn : (xs.map (·.id)).Nodup := by
    rw [nodup_iff_pairwise_ne, pairwise_map]
    exact h.ids.imp (fun hab e => by rw [e] at hab; exact Nat.lt_irrefl _ hab)
  exact inj_of_nodup_map (·.id) hn hx hy e

/-- a per-transfer op makes an upload active only from an active state (`started`) -/
theorem target_proc {x : Xfer} {op : Op} {st : St} (h : target x op = some st) :
    ({ x with st := st } : Xfer).procUpload = true → x.procUpload = true := by
  cases op <;> simp only [target] at h <;> try cases h
  all_goals
    split at h <;> try cases h
    rename_i hc
    simp_all [Xfer.procUpload, Xfer.processing]

theorem inv_setSt {s : Sched} (h : Inv s) {k : Nat} {x : Xfer} {op : Op} {st : St}
    (hg : s.get? k = some x) (ht : target x op = some st) : Inv (s.setSt k st) := by
  unfold Inv at h ⊢
  rw [setSt_xs]
  have ⟨hx, hk⟩ := get?_spec hg
  -- on the elements of xs the update is "only x changes"
  have hmap : s.xs.map (fun y => if y.id = k then { y with st := st } else y)
      = s.xs.map (fun y => if y = x then ({ x with st := st } : Xfer) else y) := by
    apply map_congr_left
    intro y hy
    by_cases e : y.id = k
    · have : y = x := unique_id h hy hx (e.trans hk.symm)
      simp [this, hk]
    · have : y ≠ x := fun e' => e (e' ▸ hk)
      simp [e, this]
  rw [hmap]
  apply h.map
  · intro y; split <;> simp_all
  · intro y; split <;> simp_all
  · intro y hy
    split at hy
    · rename_i e; subst e; exact target_proc ht hy
    · exact hy

theorem inv_step {s : Sched} (h : Inv s) (op : Op) : Inv (step s op) := by
  cases op with
  | addUpload u => exact InvL.append_idle h _ rfl (by simp [Xfer.procUpload, Xfer.processing])
  | addDownload u => exact InvL.append_idle h _ rfl (by simp [Xfer.procUpload, Xfer.processing])
  | cycle =>
    simp only [step]
    split
    · exact inv_start (s := s.track) h
    · exact h
  | setSlots n => exact h
  | friend u b => exact h
  | report u st p => exact h
  | reply u st => cases st <;> exact h
  | privList l => exact h
  | started k | finish k | failX k | backToQueue k | requeue k | apiQueue k | abort k =>
    simp only [step, Op.xfer?]
    split
    · rename_i x hg
      split
      · rename_i st ht
        exact inv_setSt h hg ht
      · exact h
    · exact h

theorem inv_init : Inv {} := ⟨by simp, by simp, by simp⟩

theorem inv_runFrom {s : Sched} (h : Inv s) (ops : List Op) : Inv (runFrom s ops) := by
  induction ops generalizing s with
  | nil => exact h
  | cons op ops ih => exact ih (inv_step h op)

theorem inv_run (ops : List Op) : Inv (run ops) := inv_runFrom inv_init ops


/-! ### tracking bookkeeping: the weak dictionary against its specification -/

/-- `u` has some transfer (finalized or not) -/
def Sched.hasXfer (s : Sched) (u : Nat) : Bool := s.xs.any (fun x => x.user == u)

theorem hasXfer_split (s : Sched) (u : Nat) : s.hasXfer u = (s.unfinishedUser u || s.finishedUser u) := by
  unfold Sched.hasXfer Sched.unfinishedUser Sched.finishedUser
  induction s.xs with
  | nil => rfl
  | cons x r ih =>
    simp only [any_cons, ih]
    cases (x.user == u) <;> cases x.finalized <;> simp

theorem any_user_map (g : Xfer → Xfer) (hu : ∀ x, (g x).user = x.user) (u : Nat) (xs : List Xfer) :
    (xs.map g).any (fun x => x.user == u) = xs.any (fun x => x.user == u) := by
  induction xs with
  | nil => rfl
  | cons x r ih => simp only [map_cons, any_cons, ih, hu]

/-- the weak dictionary agrees with the specification, and holds nobody who has no transfer -/
structure TrackInv (s : Sched) : Prop where
  same : ∀ u, s.store u = s.ref u
  idle : ∀ u, s.hasXfer u = false → s.store u = none

theorem trackInv_init (n : Nat) : TrackInv { slots := n } := ⟨fun _ => rfl, fun _ _ => rfl⟩

theorem trackInv_track {s : Sched} (h : TrackInv s) : TrackInv s.track := by
  refine ⟨?_, ?_⟩
  · intro u
    show (if s.unfinishedUser u then (match s.store u with | some k => some k | none => some (s.fresh u))
        else if s.finishedUser u then none else s.store u)
      = (if s.unfinishedUser u then (match s.ref u with | some k => some k | none => some (s.fresh u)) else none)
    rw [h.same u]
    by_cases hu : s.unfinishedUser u = true
    · simp only [hu, if_true]
    · by_cases hf : s.finishedUser u = true
      · simp only [hu, hf, if_true]
      · have : s.hasXfer u = false := by
          rw [hasXfer_split]; simp [hu, hf]
        simp only [hu, hf]
        rw [← h.same u]
        exact h.idle u this
  · intro u hx
    have hx' : s.hasXfer u = false := hx
    rw [hasXfer_split] at hx'
    have hu : s.unfinishedUser u = false := by cases h1 : s.unfinishedUser u <;> simp_all
    have hf : s.finishedUser u = false := by cases h1 : s.finishedUser u <;> simp_all
    show (if s.unfinishedUser u then (match s.store u with | some k => some k | none => some (s.fresh u))
        else if s.finishedUser u then none else s.store u) = none
    simp only [hu, hf]
    exact h.idle u hx

/-- a step that keeps `store` / `ref` and only re-states or appends transfers -/
theorem trackInv_of_xs {s s' : Sched} (h : TrackInv s) (hs : s'.store = s.store) (hr : s'.ref = s.ref)
    (hx : ∀ u, s'.hasXfer u = false → s.hasXfer u = false) : TrackInv s' :=
  ⟨fun u => by rw [hs, hr]; exact h.same u, fun u hu => by rw [hs]; exact h.idle u (hx u hu)⟩

theorem trackInv_start {s : Sched} (h : TrackInv s) : TrackInv s.start := by
  apply trackInv_of_xs (s' := s.start) h rfl rfl
  intro u hu
  unfold Sched.hasXfer at hu ⊢
  rw [start_xs, any_user_map _ (fun x => by unfold cycleMap; split <;> rfl)] at hu
  exact hu

theorem trackInv_setSt {s : Sched} (h : TrackInv s) (k : Nat) (st : St) : TrackInv (s.setSt k st) := by
  apply trackInv_of_xs (s' := s.setSt k st) h rfl rfl
  intro u hu
  unfold Sched.hasXfer at hu ⊢
  rw [setSt_xs, any_user_map _ (fun x => by split <;> rfl)] at hu
  exact hu

theorem trackInv_append {s : Sched} (h : TrackInv s) (x : Xfer) (p : Bool) :
    TrackInv { s with xs := s.xs ++ [x], cyclePending := p } := by
  apply trackInv_of_xs (s' := { s with xs := s.xs ++ [x], cyclePending := p }) h rfl rfl
  intro u hu
  unfold Sched.hasXfer at hu ⊢
  simp only [any_append, Bool.or_eq_false_iff] at hu
  exact hu.1

theorem trackInv_step {s : Sched} (h : TrackInv s) (op : Op) : TrackInv (step s op) := by
  cases op with
  | addUpload u => exact trackInv_append h _ _
  | addDownload u => exact trackInv_append h _ _
  | cycle =>
    simp only [step]
    split
    · exact trackInv_start (trackInv_track h)
    · exact h
  | setSlots n => exact ⟨h.same, h.idle⟩
  | friend u b => exact ⟨h.same, h.idle⟩
  | report u st p =>
    refine ⟨fun v => ?_, fun v hv => ?_⟩
    · show updKnown s.store u _ v = updKnown s.ref u _ v
      unfold updKnown
      rw [h.same v]
    · show updKnown s.store u _ v = none
      unfold updKnown
      rw [h.idle v hv]
      split <;> rfl
  | reply u st =>
    cases st with
    | none => exact ⟨h.same, h.idle⟩
    | some st =>
      refine ⟨fun v => ?_, fun v hv => ?_⟩
      · show updKnown s.store u _ v = updKnown s.ref u _ v
        unfold updKnown
        rw [h.same v]
      · show updKnown s.store u _ v = none
        unfold updKnown
        rw [h.idle v hv]
        split <;> rfl
  | privList l =>
    refine ⟨fun v => ?_, fun v hv => ?_⟩
    · show (s.store v).map _ = (s.ref v).map _
      rw [h.same v]
    · show (s.store v).map _ = none
      rw [h.idle v hv]
      rfl
  | started k | finish k | failX k | backToQueue k | requeue k | apiQueue k | abort k =>
    simp only [step, Op.xfer?]
    split
    · split
      · exact trackInv_setSt h _ _
      · exact h
    · exact h

theorem trackInv_runFrom {s : Sched} (h : TrackInv s) (ops : List Op) : TrackInv (runFrom s ops) := by
  induction ops generalizing s with
  | nil => exact h
  | cons op ops ih => exact ih (trackInv_step h op)

/-- after the tracking half of a cycle every user with an unfinished transfer is held -/
theorem track_holds_unfinished (s : Sched) {x : Xfer} (hx : x ∈ s.xs) (hf : x.finalized = false) :
    (s.track.store x.user).isSome = true := by
  have hu : s.unfinishedUser x.user = true := by
    unfold Sched.unfinishedUser
    rw [any_eq_true]
    exact ⟨x, hx, by simp [hf]⟩
  show (if s.unfinishedUser x.user then (match s.store x.user with | some k => some k | none => some (s.fresh x.user))
      else if s.finishedUser x.user then none else s.store x.user).isSome = true
  simp only [hu, if_true]
  cases s.store x.user <;> rfl

/-! ### counting -/

theorem countP_or_disjoint {α} (p q : α → Bool) :
    ∀ (l : List α), (∀ x ∈ l, q x = true → p x = false) → countP (fun x => p x || q x) l = countP p l + countP q l
  | [], _ => by simp
  | a :: l, h => by
    have ih := countP_or_disjoint p q l (fun x hx => h x (mem_cons_of_mem _ hx))
    have ha := h a mem_cons_self
    rw [countP_cons, countP_cons, countP_cons, ih]
    cases hq : q a <;> cases hp : p a <;> simp_all <;> omega

theorem countP_mem_eq_length {xs sel : List Xfer} (hx : xs.Nodup) (hs : sel.Nodup) (hsub : ∀ x ∈ sel, x ∈ xs) :
    countP (fun x => decide (x ∈ sel)) xs = sel.length := by
  rw [countP_eq_length_filter]
  apply Perm.length_eq
  rw [perm_ext_iff_of_nodup (hx.filter _) hs]
  intro a
  simp only [mem_filter, decide_eq_true_eq]
  exact ⟨fun h => h.2, fun h => ⟨hsub a h, h⟩⟩

theorem procUploads_start {s : Sched} (h : Inv s) : s.start.procUploads = s.procUploads + s.select.length := by
  unfold Sched.procUploads
  rw [start_xs, countP_map]
  have : countP (Xfer.procUpload ∘ cycleMap s.select) s.xs
      = countP (fun x => x.procUpload || decide (x ∈ s.select)) s.xs := by
    apply countP_congr
    intro x hx
    simp only [Function.comp]
    rw [cycleMap_proc hx]
  rw [this, countP_or_disjoint]
  · rw [countP_mem_eq_length (InvL.nodup h) (nodup_of_nodup_map _ (select_nodup_users s))
      (fun x hx => (select_spec hx).1)]
  · intro x _ hq
    exact not_proc_of_queued (select_spec (of_decide_eq_true hq)).2.2.1

theorem select_length_le (s : Sched) : s.select.length ≤ s.freeSlots := by
  unfold Sched.select
  rw [length_take]
  exact Nat.min_le_left _ _

theorem procUploads_setSt_le {s : Sched} (h : Inv s) {k : Nat} {x : Xfer} {op : Op} {st : St}
    (hg : s.get? k = some x) (ht : target x op = some st) : (s.setSt k st).procUploads ≤ s.procUploads := by
  unfold Sched.procUploads
  rw [setSt_xs, countP_map]
  apply countP_mono_left
  intro y hy hp
  simp only [Function.comp] at hp
  split at hp
  · rename_i e
    have ⟨hx, hk⟩ := get?_spec hg
    have : y = x := unique_id h hy hx (e.trans hk.symm)
    subst this
    exact target_proc ht hp
  · exact hp

theorem procUploads_append_idle (xs : List Xfer) (x : Xfer) (hp : x.procUpload = false) :
    countP Xfer.procUpload (xs ++ [x]) = countP Xfer.procUpload xs := by
  simp [countP_append, hp]

/-- symmetric reading of a `Pairwise` fact -/
theorem forall_of_pairwise {α} {R : α → α → Prop} (hsymm : ∀ a b, R a b → R b a) :
    ∀ {l : List α}, l.Pairwise R → ∀ a ∈ l, ∀ b ∈ l, a ≠ b → R a b
  | [], _, a, ha, _, _, _ => by simp at ha
  | x :: l, h, a, ha, b, hb, hne => by
    rw [pairwise_cons] at h
    rcases mem_cons.mp ha with rfl | ha' <;> rcases mem_cons.mp hb with rfl | hb'
    · exact absurd rfl hne
    · exact h.1 b hb'
    · exact hsymm _ _ (h.1 a ha')
    · exact forall_of_pairwise hsymm h.2 a ha' b hb' hne

end AioslskVerif.Sched
