import AioslskVerif.Model.Sched
/-!
Helper lemmas for C05 (`Props/C05.lean`): the eligibility loop, the stable sort, the selection, the
invariant (`ids` strictly increasing + one active upload per user) and counting.
-/
namespace AioslskVerif.Sched
open List

/-! ### the eligibility loop -/

theorem mem_eligLoop {users : Nat → UserInfo} {busy : List Nat} :
    ∀ {xs : List Xfer} {seen : List Nat} {t : Xfer}, t ∈ eligLoop users busy seen xs →
      t ∈ xs ∧ t.dir = .upload ∧ t.st = .queued ∧ (users t.user).status ≠ .offline ∧ t.user ∉ busy ∧ t.user ∉ seen := by
  intro xs
  induction xs with
  | nil => intro seen t h; simp [eligLoop] at h
  | cons x r ih =>
    intro seen t h
    unfold eligLoop at h
    split at h
    · have := ih h; exact ⟨mem_cons_of_mem _ this.1, this.2⟩
    · rename_i hoff
      split at h
      · rename_i hup
        split at h
        · have := ih h; exact ⟨mem_cons_of_mem _ this.1, this.2⟩
        · rename_i hbusy
          split at h
          · have := ih h; exact ⟨mem_cons_of_mem _ this.1, this.2⟩
          · rename_i hseen
            split at h
            · rename_i hq
              rcases mem_cons.mp h with rfl | h'
              · exact ⟨mem_cons_self, hup, hq, hoff, hbusy, hseen⟩
              · have := ih h'
                refine ⟨mem_cons_of_mem _ this.1, this.2.1, this.2.2.1, this.2.2.2.1, this.2.2.2.2.1, ?_⟩
                intro hc
                exact this.2.2.2.2.2 (mem_cons_of_mem _ hc)
            · have := ih h; exact ⟨mem_cons_of_mem _ this.1, this.2⟩
      · have := ih h; exact ⟨mem_cons_of_mem _ this.1, this.2⟩

theorem eligLoop_nodup_users {users : Nat → UserInfo} {busy : List Nat} :
    ∀ (xs : List Xfer) (seen : List Nat), ((eligLoop users busy seen xs).map (·.user)).Nodup := by
  intro xs
  induction xs with
  | nil => intro seen; simp [eligLoop]
  | cons x r ih =>
    intro seen
    unfold eligLoop
    split
    · exact ih seen
    · split
      · split
        · exact ih seen
        · split
          · exact ih seen
          · split
            · rw [map_cons, nodup_cons]
              refine ⟨?_, ih _⟩
              intro hm
              obtain ⟨t, ht, hu⟩ := mem_map.mp hm
              have := (mem_eligLoop ht).2.2.2.2.2
              exact this (by rw [hu]; exact mem_cons_self)
            · exact ih seen
      · exact ih seen

/-- completeness of the loop: a queued upload of a user that is neither offline, busy nor already
seen is represented (by the first such upload of that user). -/
theorem eligLoop_complete {users : Nat → UserInfo} {busy : List Nat} :
    ∀ (xs : List Xfer) (seen : List Nat) (x : Xfer), x ∈ xs → x.dir = .upload → x.st = .queued →
      (users x.user).status ≠ .offline → x.user ∉ busy → x.user ∉ seen →
      ∃ y ∈ eligLoop users busy seen xs, y.user = x.user := by
  intro xs
  induction xs with
  | nil => intro seen x hx; simp at hx
  | cons h r ih =>
    intro seen x hx hup hq hoff hbusy hseen
    unfold eligLoop
    rcases mem_cons.mp hx with rfl | hx'
    · simp only [hoff, hup, hbusy, hseen, hq, if_true, if_false]
      exact ⟨x, mem_cons_self, rfl⟩
    · split
      · exact ih seen x hx' hup hq hoff hbusy hseen
      · split
        · split
          · exact ih seen x hx' hup hq hoff hbusy hseen
          · split
            · exact ih seen x hx' hup hq hoff hbusy hseen
            · split
              · by_cases hu : x.user = h.user
                · exact ⟨h, mem_cons_self, hu.symm⟩
                · have hs' : x.user ∉ h.user :: seen := by
                    intro hc
                    rcases mem_cons.mp hc with hc | hc
                    · exact hu hc
                    · exact hseen hc
                  obtain ⟨y, hy, hyu⟩ := ih (h.user :: seen) x hx' hup hq hoff hbusy hs'
                  exact ⟨y, mem_cons_of_mem _ hy, hyu⟩
              · exact ih seen x hx' hup hq hoff hbusy hseen
        · exact ih seen x hx' hup hq hoff hbusy hseen

/-! ### the stable sort -/

theorem insAsc_perm (key : Xfer → Nat) (a : Xfer) : ∀ l, insAsc key a l ~ a :: l
  | [] => by simp [insAsc]
  | b :: l => by
    unfold insAsc
    split
    · exact Perm.refl _
    · exact ((insAsc_perm key a l).cons b).trans (Perm.swap a b l)

theorem sortAsc_perm (key : Xfer → Nat) : ∀ l, sortAsc key l ~ l
  | [] => by simp [sortAsc]
  | a :: l => by
    unfold sortAsc
    exact (insAsc_perm key a _).trans ((sortAsc_perm key l).cons a)

theorem insAsc_sorted (key : Xfer → Nat) (a : Xfer) :
    ∀ l, l.Pairwise (fun x y => key x ≤ key y) → (insAsc key a l).Pairwise (fun x y => key x ≤ key y)
  | [], _ => by simp [insAsc]
  | b :: l, h => by
    unfold insAsc
    rw [pairwise_cons] at h
    split
    · rename_i hab
      rw [pairwise_cons]
      refine ⟨?_, pairwise_cons.mpr h⟩
      intro x hx
      rcases mem_cons.mp hx with rfl | hx
      · exact hab
      · exact Nat.le_trans hab (h.1 x hx)
    · rename_i hab
      rw [pairwise_cons]
      refine ⟨?_, insAsc_sorted key a l h.2⟩
      intro x hx
      have hx' := (insAsc_perm key a l).mem_iff.mp hx
      rcases mem_cons.mp hx' with rfl | hx'
      · omega
      · exact h.1 x hx'

theorem sortAsc_sorted (key : Xfer → Nat) : ∀ l, (sortAsc key l).Pairwise (fun x y => key x ≤ key y)
  | [] => by simp [sortAsc]
  | a :: l => by
    unfold sortAsc
    exact insAsc_sorted key a _ (sortAsc_sorted key l)

theorem prioritize_perm (s : Sched) (l : List Xfer) : s.prioritize l ~ l :=
  (reverse_perm _).trans (sortAsc_perm _ l)

theorem prioritize_sorted (s : Sched) (l : List Xfer) :
    (s.prioritize l).Pairwise (fun a b => s.rankOf b ≤ s.rankOf a) := by
  unfold Sched.prioritize
  rw [pairwise_reverse]
  exact sortAsc_sorted _ l

/-! ### the selection -/

theorem eligible_perm (s : Sched) : s.eligible ~ s.candidates := prioritize_perm s _

theorem select_sublist (s : Sched) : s.select <+ s.eligible := take_sublist _ _

theorem mem_select_candidates {s : Sched} {t : Xfer} (h : t ∈ s.select) : t ∈ s.candidates :=
  (eligible_perm s).mem_iff.mp (mem_of_mem_take h)

theorem nodup_of_nodup_map {α β} (f : α → β) {l : List α} (h : (l.map f).Nodup) : l.Nodup := by
  rw [nodup_iff_pairwise_ne] at h ⊢
  rw [pairwise_map] at h
  exact h.imp (fun hab e => hab (by rw [e]))

theorem inj_of_nodup_map {α β} (f : α → β) : ∀ {l : List α}, (l.map f).Nodup → ∀ {a b}, a ∈ l → b ∈ l → f a = f b → a = b
  | [], _, a, _, ha, _, _ => by simp at ha
  | x :: l, h, a, b, ha, hb, e => by
    rw [map_cons, nodup_cons] at h
    rcases mem_cons.mp ha with rfl | ha' <;> rcases mem_cons.mp hb with rfl | hb'
    · rfl
    · exact absurd (mem_map.mpr ⟨b, hb', e.symm⟩) h.1
    · exact absurd (mem_map.mpr ⟨a, ha', e⟩) h.1
    · exact inj_of_nodup_map f h.2 ha' hb' e

theorem eligible_nodup_users (s : Sched) : (s.eligible.map (·.user)).Nodup :=
  ((eligible_perm s).map _).nodup_iff.mpr (eligLoop_nodup_users _ _)

theorem select_nodup_users (s : Sched) : (s.select.map (·.user)).Nodup :=
  ((select_sublist s).map _).nodup (eligible_nodup_users s)

theorem mem_busyUsers {s : Sched} {x : Xfer} (hx : x ∈ s.xs) (hp : x.procUpload = true) : x.user ∈ s.busyUsers :=
  mem_map.mpr ⟨x, mem_filter.mpr ⟨hx, hp⟩, rfl⟩

/-- everything the selection guarantees about one selected upload -/
theorem select_spec {s : Sched} {t : Xfer} (h : t ∈ s.select) :
    t ∈ s.xs ∧ t.dir = .upload ∧ t.st = .queued ∧ (s.users t.user).status ≠ .offline ∧
      ∀ x ∈ s.xs, x.procUpload = true → x.user ≠ t.user := by
  have := mem_eligLoop (mem_select_candidates h)
  refine ⟨this.1, this.2.1, this.2.2.1, this.2.2.2.1, ?_⟩
  intro x hx hp e
  exact this.2.2.2.2.1 (e ▸ mem_busyUsers hx hp)

theorem not_proc_of_queued {x : Xfer} (h : x.st = .queued) : x.procUpload = false := by
  simp [Xfer.procUpload, Xfer.processing, h]

/-! ### invariant -/

theorem not_held_of_queued {x : Xfer} (h : x.st = .queued) (hi : x.inflight = false) : x.held = false := by
  simp [Xfer.held, not_proc_of_queued h, hi]

theorem held_of_proc {x : Xfer} (h : x.procUpload = true) : x.held = true := by
  simp [Xfer.held, h]

structure InvL (xs : List Xfer) : Prop where
  ids : xs.Pairwise (fun a b => a.id < b.id)
  bound : ∀ x ∈ xs, x.id < xs.length
  /-- no user holds two slots (active uploads and chosen ones alike) -/
  one : xs.Pairwise (fun a b => a.held = true → b.held = true → a.user ≠ b.user)
  /-- only a QUEUED upload is between decision and record -/
  infl : ∀ x ∈ xs, x.inflight = true → x.dir = .upload ∧ x.st = .queued

def Inv (s : Sched) : Prop := InvL s.xs

theorem InvL.nodup {xs : List Xfer} (h : InvL xs) : xs.Nodup := by
  rw [nodup_iff_pairwise_ne]
  exact h.ids.imp (fun hab e => by rw [e] at hab; exact Nat.lt_irrefl _ hab)

/-- an update that keeps id and user and never makes an upload hold a slot preserves the invariant -/
theorem InvL.map {xs : List Xfer} (h : InvL xs) (g : Xfer → Xfer) (hid : ∀ x, (g x).id = x.id)
    (hu : ∀ x, (g x).user = x.user) (hp : ∀ x, (g x).held = true → x.held = true)
    (hq : ∀ x ∈ xs, (g x).inflight = true → (g x).dir = .upload ∧ (g x).st = .queued) : InvL (xs.map g) := by
  refine ⟨?_, ?_, ?_, ?_⟩
  · rw [pairwise_map]
    exact h.ids.imp (fun hab => by rw [hid, hid]; exact hab)
  · intro y hy
    obtain ⟨x, hx, rfl⟩ := mem_map.mp hy
    rw [hid, length_map]
    exact h.bound x hx
  · rw [pairwise_map]
    exact h.one.imp (fun hab ha hb => by rw [hu, hu]; exact hab (hp _ ha) (hp _ hb))
  · intro y hy
    obtain ⟨x, hx, rfl⟩ := mem_map.mp hy
    exact hq x hx

theorem InvL.append_idle {xs : List Xfer} (h : InvL xs) (x : Xfer) (hid : x.id = xs.length)
    (hp : x.held = false) : InvL (xs ++ [x]) := by
  refine ⟨?_, ?_, ?_, ?_⟩
  · rw [pairwise_append]
    refine ⟨h.ids, by simp, ?_⟩
    intro a ha b hb
    simp only [mem_singleton] at hb
    subst hb
    rw [hid]
    exact h.bound a ha
  · intro y hy
    rw [length_append, length_singleton]
    rcases mem_append.mp hy with hy | hy
    · exact Nat.lt_succ_of_lt (h.bound y hy)
    · simp only [mem_singleton] at hy
      subst hy
      omega
  · rw [pairwise_append]
    refine ⟨h.one, by simp, ?_⟩
    intro a _ b hb
    simp only [mem_singleton] at hb
    subst hb
    intro _ hb
    rw [hp] at hb
    cases hb
  · intro y hy hi
    rcases mem_append.mp hy with hy | hy
    · exact h.infl y hy hi
    · simp only [mem_singleton] at hy
      subst hy
      have : y.inflight = false := by
        cases hyi : y.inflight
        · rfl
        · simp [Xfer.held, hyi] at hp
      rw [this] at hi
      cases hi

theorem start_xs (s : Sched) : s.start.xs = s.xs.map (markSel s.select) := rfl

/-- the tracking half of a cycle touches neither the transfers nor the slot setting -/
theorem track_xs (s : Sched) : s.track.xs = s.xs := rfl

theorem cycle_eq (s : Sched) : s.cycle = s.track.start := rfl

theorem noInflight_spec {s : Sched} (h : s.noInflight = true) {x : Xfer} (hx : x ∈ s.xs) : x.inflight = false := by
  unfold Sched.noInflight at h
  rw [all_eq_true] at h
  simpa using h x hx

theorem markSel_user (sel : List Xfer) (x : Xfer) : (markSel sel x).user = x.user := by
  unfold markSel; split <;> (try split) <;> rfl
theorem markSel_id (sel : List Xfer) (x : Xfer) : (markSel sel x).id = x.id := by
  unfold markSel; split <;> (try split) <;> rfl
theorem markSel_dir (sel : List Xfer) (x : Xfer) : (markSel sel x).dir = x.dir := by
  unfold markSel; split <;> (try split) <;> rfl
theorem markSel_st (sel : List Xfer) (x : Xfer) : (markSel sel x).st = x.st := by
  unfold markSel; split <;> (try split) <;> rfl
theorem markSel_proc (sel : List Xfer) (x : Xfer) : (markSel sel x).procUpload = x.procUpload := by
  unfold markSel; split <;> (try split) <;> rfl

/-- the selected uploads that get a task: those without a lingering one -/
def taskSel (sel : List Xfer) : List Xfer := sel.filter (fun x => !x.lingering)

theorem mem_taskSel {sel : List Xfer} {x : Xfer} : x ∈ taskSel sel ↔ x ∈ sel ∧ x.lingering = false := by
  unfold taskSel
  simp [mem_filter]

theorem markSel_inflight (sel : List Xfer) (x : Xfer) :
    (markSel sel x).inflight = (x.inflight || decide (x ∈ taskSel sel)) := by
  unfold markSel
  by_cases h : x ∈ sel
  · by_cases hl : x.lingering = true
    · simp [h, hl, mem_taskSel]
    · simp [h, hl, mem_taskSel]
  · simp [h, mem_taskSel]

theorem markSel_held (sel : List Xfer) (x : Xfer) :
    (markSel sel x).held = (x.held || decide (x ∈ taskSel sel)) := by
  unfold Xfer.held
  rw [markSel_proc, markSel_inflight, Bool.or_assoc]

theorem markSel_watched (sel : List Xfer) (x : Xfer) :
    (markSel sel x).watched = (x.watched || (decide (x ∈ sel) && x.lingering)) := by
  unfold markSel
  by_cases h : x ∈ sel
  · by_cases hl : x.lingering = true
    · simp [h, hl]
    · simp [h, hl]
  · simp [h]

/-- a timely cycle (nothing between decision and record) keeps the invariant -/
theorem inv_start {s : Sched} (h : Inv s) (hn : s.noInflight = true) : Inv s.start := by
  unfold Inv at h ⊢
  rw [start_xs]
  refine ⟨?_, ?_, ?_, ?_⟩
  · rw [pairwise_map]
    exact h.ids.imp (fun hab => by rw [markSel_id, markSel_id]; exact hab)
  · intro y hy
    obtain ⟨x, hx, rfl⟩ := mem_map.mp hy
    rw [length_map, markSel_id]
    exact h.bound x hx
  · rw [pairwise_map]
    refine (h.ids.and h.one).imp_of_mem ?_
    intro a b ha hb hab pa pb
    rw [markSel_user, markSel_user]
    rw [markSel_held] at pa pb
    have ia := noInflight_spec hn ha
    have ib := noInflight_spec hn hb
    by_cases sa : a ∈ taskSel s.select <;> by_cases sb : b ∈ taskSel s.select
    · intro e
      have := inj_of_nodup_map (·.user) (select_nodup_users s) (mem_taskSel.mp sa).1 (mem_taskSel.mp sb).1 e
      rw [this] at hab
      exact Nat.lt_irrefl _ hab.1
    · have pb' : b.procUpload = true := by simpa [sb, Xfer.held, ib] using pb
      exact fun e => (select_spec (mem_taskSel.mp sa).1).2.2.2.2 b hb pb' e.symm
    · have pa' : a.procUpload = true := by simpa [sa, Xfer.held, ia] using pa
      exact fun e => (select_spec (mem_taskSel.mp sb).1).2.2.2.2 a ha pa' e
    · have pa' : a.held = true := by simpa [sa] using pa
      have pb' : b.held = true := by simpa [sb] using pb
      exact hab.2 pa' pb'
  · intro y hy hi
    obtain ⟨x, hx, rfl⟩ := mem_map.mp hy
    rw [markSel_dir, markSel_st]
    rw [markSel_inflight, noInflight_spec hn hx] at hi
    have hs : x ∈ taskSel s.select := by simpa using hi
    have hs' := (mem_taskSel.mp hs).1
    exact ⟨(select_spec hs').2.1, (select_spec hs').2.2.1⟩

theorem setSt_xs (s : Sched) (k : Nat) (st : St) :
    (s.setSt k st).xs = s.xs.map (fun x => if x.id = k then x.withSt st else x) := rfl

theorem withSt_held (x : Xfer) (st : St) : (x.withSt st).held = ({ x with st := st, inflight := false } : Xfer).held := rfl

theorem withSt_st (x : Xfer) (st : St) : (x.withSt st).st = st := rfl
theorem withSt_inflight (x : Xfer) (st : St) : (x.withSt st).inflight = false := rfl
theorem withSt_id (x : Xfer) (st : St) : (x.withSt st).id = x.id := rfl
theorem withSt_user (x : Xfer) (st : St) : (x.withSt st).user = x.user := rfl
theorem withSt_dir (x : Xfer) (st : St) : (x.withSt st).dir = x.dir := rfl

theorem get?_spec {s : Sched} {k : Nat} {x : Xfer} (h : s.get? k = some x) : x ∈ s.xs ∧ x.id = k := by
  unfold Sched.get? at h
  have h1 := List.mem_of_find?_eq_some h
  have h2 := List.find?_some h
  exact ⟨h1, by simpa using h2⟩

/-- the element found by id is the only one with that id -/
theorem unique_id {xs : List Xfer} (h : InvL xs) {x y : Xfer} (hx : x ∈ xs) (hy : y ∈ xs) (e : x.id = y.id) : x = y := by
  have hn : (xs.map (·.id)).Nodup := by
    rw [nodup_iff_pairwise_ne, pairwise_map]
    exact h.ids.imp (fun hab e => by rw [e] at hab; exact Nat.lt_irrefl _ hab)
  exact inj_of_nodup_map (·.id) hn hx hy e

/-- a per-transfer op makes an upload active only from an active state (`started`) or from the decision of a
cycle (`record`): no per-transfer op takes a slot -/
theorem target_held {x : Xfer} {op : Op} {st : St} (h : target x op = some st) :
    (x.withSt st).held = true → x.held = true := by
  rw [withSt_held]
  cases op <;> simp only [target] at h <;> try cases h
  all_goals
    split at h <;> try cases h
    rename_i hc
    simp_all [Xfer.held, Xfer.procUpload, Xfer.processing]

/-- ... and only `record` and `started` make an upload initialising / uploading -/
theorem target_proc {x : Xfer} {op : Op} {st : St} (h : target x op = some st) :
    (x.withSt st).procUpload = true → x.held = true :=
  fun hp => target_held h (held_of_proc hp)

/-- on the elements of `xs` an update by id is "only `x` changes" -/
theorem map_id_eq {s : Sched} (h : Inv s) {k : Nat} {x : Xfer} (hg : s.get? k = some x) (f : Xfer → Xfer) :
    s.xs.map (fun y => if y.id = k then f y else y) = s.xs.map (fun y => if y = x then f x else y) := by
  have ⟨hx, hk⟩ := get?_spec hg
  apply map_congr_left
  intro y hy
  by_cases e : y.id = k
  · have : y = x := unique_id h hy hx (e.trans hk.symm)
    simp [this, hk]
  · have : y ≠ x := fun e' => e (e' ▸ hk)
    simp [e, this]

theorem setSt_map_eq {s : Sched} (h : Inv s) {k : Nat} {x : Xfer} (hg : s.get? k = some x) (st : St) :
    s.xs.map (fun y => if y.id = k then y.withSt st else y)
      = s.xs.map (fun y => if y = x then x.withSt st else y) := map_id_eq h hg (fun y => y.withSt st)

theorem inv_setSt {s : Sched} (h : Inv s) {k : Nat} {x : Xfer} {op : Op} {st : St}
    (hg : s.get? k = some x) (ht : target x op = some st) : Inv (s.setSt k st) := by
  have hmap := setSt_map_eq h hg st
  unfold Inv at h ⊢
  rw [setSt_xs, hmap]
  apply h.map
  · intro y; split <;> simp_all [withSt_id]
  · intro y; split <;> simp_all [withSt_user]
  · intro y hy
    split at hy
    · rename_i e; subst e; exact target_held ht hy
    · exact hy
  · intro y hy hi
    split at hi
    · cases hi
    · rename_i e
      simp only [e, if_false]
      exact h.infl y hy hi

/-- an update of one transfer (found by id) that keeps id and user, does not make it hold a slot and leaves it
not inflight preserves the invariant -/
theorem inv_update {s : Sched} (h : Inv s) {k : Nat} {x : Xfer} (hg : s.get? k = some x) (f : Xfer → Xfer)
    (hid : (f x).id = x.id) (hu : (f x).user = x.user) (hh : (f x).held = true → x.held = true)
    (hi : (f x).inflight = true → (f x).dir = .upload ∧ (f x).st = .queued) :
    InvL (s.xs.map (fun y => if y.id = k then f y else y)) := by
  rw [map_id_eq h hg f]
  unfold Inv at h
  apply h.map
  · intro y; split <;> simp_all
  · intro y; split <;> simp_all
  · intro y hy
    split at hy
    · rename_i e; subst e; exact hh hy
    · exact hy
  · intro y hy hi'
    split at hi'
    · rename_i e
      simp only [e, if_true]
      exact hi hi'
    · rename_i e
      simp only [e, if_false]
      exact h.infl y hy hi'

theorem accepts_breakX {s : Sched} {k : Nat} (h : s.accepts (.breakX k) = true) :
    ∃ x, s.get? k = some x ∧ x.dir = .upload ∧ x.st = .uploading := by
  simp only [Sched.accepts] at h
  cases hg : s.get? k with
  | none => simp [hg] at h
  | some x => simp [hg] at h; exact ⟨x, rfl, h.1, h.2⟩

theorem accepts_noticeEnd {s : Sched} {k : Nat} {d : Bool} (h : s.accepts (.noticeEnd k d) = true) :
    ∃ x, s.get? k = some x ∧ x.lingering = true := by
  simp only [Sched.accepts] at h
  cases hg : s.get? k with
  | none => simp [hg] at h
  | some x => simp [hg] at h; exact ⟨x, rfl, h⟩

theorem afterNotice_held (x : Xfer) (d : Bool) : (x.afterNotice d).held = true → x.held = true := by
  unfold Xfer.afterNotice Xfer.held Xfer.procUpload Xfer.processing
  cases d <;> cases hs : x.st <;> simp_all

theorem inv_breakSt {s : Sched} (h : Inv s) {k : Nat} (ha : s.accepts (.breakX k) = true) : Inv (s.breakSt k) := by
  obtain ⟨x, hg, _, _⟩ := accepts_breakX ha
  exact inv_update h hg (fun y => { y with st := .failed, inflight := false, lingering := true }) rfl rfl
    (by simp [Xfer.held, Xfer.procUpload, Xfer.processing]) (by simp)

theorem inv_endNotice {s : Sched} (h : Inv s) {k : Nat} {d : Bool} (ha : s.accepts (.noticeEnd k d) = true) :
    Inv (s.endNotice k d) := by
  obtain ⟨x, hg, hl⟩ := accepts_noticeEnd ha
  have hx := (get?_spec hg).1
  refine inv_update h hg (fun y => y.afterNotice d) rfl rfl (afterNotice_held x d) ?_
  intro hi
  have hq := h.infl x hx hi
  refine ⟨hq.1, ?_⟩
  simp [Xfer.afterNotice, hq.2]

theorem inv_step {s : Sched} (h : Inv s) (op : Op) (ht : timelyOp s op = true) : Inv (step s op) := by
  cases op with
  | addUpload u => exact InvL.append_idle h _ rfl (by simp [Xfer.held, Xfer.procUpload, Xfer.processing])
  | addDownload u => exact InvL.append_idle h _ rfl (by simp [Xfer.held, Xfer.procUpload, Xfer.processing])
  | cycle =>
    simp only [step]
    split
    · rename_i hp
      have hn : s.noInflight = true := by simpa [timelyOp, hp] using ht
      exact inv_start (s := s.track) h hn
    · exact h
  | setSlots n => exact h
  | friend u b => exact h
  | report u st p => exact h
  | reply u st => cases st <;> exact h
  | privList l => exact h
  | breakX k =>
    simp only [step]
    split
    · rename_i ha; exact inv_breakSt h ha
    · exact h
  | noticeEnd k d =>
    simp only [step]
    split
    · rename_i ha; exact inv_endNotice h ha
    · exact h
  | record k | started k | finish k | failX k | backToQueue k | requeue k | apiQueue k | abort k =>
    simp only [step, Op.xfer?]
    split
    · rename_i x hg
      split
      · rename_i st ht
        exact inv_setSt h hg ht
      · exact h
    · exact h

theorem inv_init : Inv {} := ⟨by simp, by simp, by simp, by simp⟩

theorem inv_slots (n : Nat) : Inv { slots := n } := ⟨by simp, by simp, by simp, by simp⟩

theorem timely_cons {s : Sched} {op : Op} {ops : List Op} :
    Timely s (op :: ops) ↔ timelyOp s op = true ∧ Timely (step s op) ops := by
  unfold Timely
  simp [timelyB]

theorem inv_runFrom {s : Sched} (h : Inv s) (ops : List Op) (ht : Timely s ops) : Inv (runFrom s ops) := by
  induction ops generalizing s with
  | nil => exact h
  | cons op ops ih =>
    have ht' := timely_cons.mp ht
    exact ih (inv_step h op ht'.1) ht'.2

theorem inv_run (ops : List Op) (ht : Timely {} ops) : Inv (run ops) := inv_runFrom inv_init ops ht


/-! ### tracking bookkeeping: the weak dictionary against its specification -/

/-- `u` has some transfer (finalized or not) -/
def Sched.hasXfer (s : Sched) (u : Nat) : Bool := s.xs.any (fun x => x.user == u)

theorem hasXfer_split (s : Sched) (u : Nat) : s.hasXfer u = (s.unfinishedUser u || s.finishedUser u) := by
  unfold Sched.hasXfer Sched.unfinishedUser Sched.finishedUser
  induction s.xs with
  | nil => rfl
  | cons x r ih =>
    simp only [any_cons, ih]
    cases (x.user == u) <;> cases x.finalized <;> simp

theorem any_user_map (g : Xfer → Xfer) (hu : ∀ x, (g x).user = x.user) (u : Nat) (xs : List Xfer) :
    (xs.map g).any (fun x => x.user == u) = xs.any (fun x => x.user == u) := by
  induction xs with
  | nil => rfl
  | cons x r ih => simp only [map_cons, any_cons, ih, hu]

/-- the weak dictionary agrees with the specification, and holds nobody who has no transfer -/
structure TrackInv (s : Sched) : Prop where
  same : ∀ u, s.store u = s.ref u
  idle : ∀ u, s.hasXfer u = false → s.store u = none

theorem trackInv_init (n : Nat) : TrackInv { slots := n } := ⟨fun _ => rfl, fun _ _ => rfl⟩

theorem trackInv_track {s : Sched} (h : TrackInv s) : TrackInv s.track := by
  refine ⟨?_, ?_⟩
  · intro u
    show (if s.unfinishedUser u then (match s.store u with | some k => some k | none => some (s.fresh u))
        else if s.finishedUser u then none else s.store u)
      = (if s.unfinishedUser u then (match s.ref u with | some k => some k | none => some (s.fresh u)) else none)
    rw [h.same u]
    by_cases hu : s.unfinishedUser u = true
    · simp only [hu, if_true]
    · by_cases hf : s.finishedUser u = true
      · simp only [hu, hf, if_true]
      · have : s.hasXfer u = false := by
          rw [hasXfer_split]; simp [hu, hf]
        simp only [hu, hf]
        rw [← h.same u]
        exact h.idle u this
  · intro u hx
    have hx' : s.hasXfer u = false := hx
    rw [hasXfer_split] at hx'
    have hu : s.unfinishedUser u = false := by cases h1 : s.unfinishedUser u <;> simp_all
    have hf : s.finishedUser u = false := by cases h1 : s.finishedUser u <;> simp_all
    show (if s.unfinishedUser u then (match s.store u with | some k => some k | none => some (s.fresh u))
        else if s.finishedUser u then none else s.store u) = none
    simp only [hu, hf]
    exact h.idle u hx

/-- a step that keeps `store` / `ref` and only re-states or appends transfers -/
theorem trackInv_of_xs {s s' : Sched} (h : TrackInv s) (hs : s'.store = s.store) (hr : s'.ref = s.ref)
    (hx : ∀ u, s'.hasXfer u = false → s.hasXfer u = false) : TrackInv s' :=
  ⟨fun u => by rw [hs, hr]; exact h.same u, fun u hu => by rw [hs]; exact h.idle u (hx u hu)⟩

theorem trackInv_start {s : Sched} (h : TrackInv s) : TrackInv s.start := by
  apply trackInv_of_xs (s' := s.start) h rfl rfl
  intro u hu
  unfold Sched.hasXfer at hu ⊢
  rw [start_xs, any_user_map _ (markSel_user _)] at hu
  exact hu

theorem trackInv_setSt {s : Sched} (h : TrackInv s) (k : Nat) (st : St) : TrackInv (s.setSt k st) := by
  apply trackInv_of_xs (s' := s.setSt k st) h rfl rfl
  intro u hu
  unfold Sched.hasXfer at hu ⊢
  rw [setSt_xs, any_user_map _ (fun x => by split <;> rfl)] at hu
  exact hu

theorem trackInv_mapId {s : Sched} (h : TrackInv s) (k : Nat) (f : Xfer → Xfer) (hu : ∀ x, (f x).user = x.user) (p : Bool) :
    TrackInv { s with xs := s.xs.map (fun x => if x.id = k then f x else x), cyclePending := p } := by
  apply trackInv_of_xs (s' := { s with xs := s.xs.map (fun x => if x.id = k then f x else x), cyclePending := p }) h rfl rfl
  intro u hx
  unfold Sched.hasXfer at hx ⊢
  rw [any_user_map _ (fun x => by split <;> simp [hu])] at hx
  exact hx

theorem trackInv_append {s : Sched} (h : TrackInv s) (x : Xfer) (p : Bool) :
    TrackInv { s with xs := s.xs ++ [x], cyclePending := p } := by
  apply trackInv_of_xs (s' := { s with xs := s.xs ++ [x], cyclePending := p }) h rfl rfl
  intro u hu
  unfold Sched.hasXfer at hu ⊢
  simp only [any_append, Bool.or_eq_false_iff] at hu
  exact hu.1

theorem trackInv_step {s : Sched} (h : TrackInv s) (op : Op) : TrackInv (step s op) := by
  cases op with
  | addUpload u => exact trackInv_append h _ _
  | addDownload u => exact trackInv_append h _ _
  | cycle =>
    simp only [step]
    split
    · exact trackInv_start (trackInv_track h)
    · exact h
  | setSlots n => exact ⟨h.same, h.idle⟩
  | friend u b => exact ⟨h.same, h.idle⟩
  | report u st p =>
    refine ⟨fun v => ?_, fun v hv => ?_⟩
    · show updKnown s.store u _ v = updKnown s.ref u _ v
      unfold updKnown
      rw [h.same v]
    · show updKnown s.store u _ v = none
      unfold updKnown
      rw [h.idle v hv]
      split <;> rfl
  | reply u st =>
    cases st with
    | none => exact ⟨h.same, h.idle⟩
    | some st =>
      refine ⟨fun v => ?_, fun v hv => ?_⟩
      · show updKnown s.store u _ v = updKnown s.ref u _ v
        unfold updKnown
        rw [h.same v]
      · show updKnown s.store u _ v = none
        unfold updKnown
        rw [h.idle v hv]
        split <;> rfl
  | privList l =>
    refine ⟨fun v => ?_, fun v hv => ?_⟩
    · show (s.store v).map _ = (s.ref v).map _
      rw [h.same v]
    · show (s.store v).map _ = none
      rw [h.idle v hv]
      rfl
  | breakX k =>
    simp only [step]
    split
    · exact trackInv_mapId h k (fun y => { y with st := .failed, inflight := false, lingering := true }) (fun _ => rfl) _
    · exact h
  | noticeEnd k d =>
    simp only [step]
    split
    · exact trackInv_mapId h k (fun y => y.afterNotice d) (fun _ => rfl) _
    · exact h
  | record k | started k | finish k | failX k | backToQueue k | requeue k | apiQueue k | abort k =>
    simp only [step, Op.xfer?]
    split
    · split
      · exact trackInv_setSt h _ _
      · exact h
    · exact h

theorem trackInv_runFrom {s : Sched} (h : TrackInv s) (ops : List Op) : TrackInv (runFrom s ops) := by
  induction ops generalizing s with
  | nil => exact h
  | cons op ops ih => exact ih (trackInv_step h op)

/-- after the tracking half of a cycle every user with an unfinished transfer is held -/
theorem track_holds_unfinished (s : Sched) {x : Xfer} (hx : x ∈ s.xs) (hf : x.finalized = false) :
    (s.track.store x.user).isSome = true := by
  have hu : s.unfinishedUser x.user = true := by
    unfold Sched.unfinishedUser
    rw [any_eq_true]
    exact ⟨x, hx, by simp [hf]⟩
  show (if s.unfinishedUser x.user then (match s.store x.user with | some k => some k | none => some (s.fresh x.user))
      else if s.finishedUser x.user then none else s.store x.user).isSome = true
  simp only [hu, if_true]
  cases s.store x.user <;> rfl

/-! ### counting -/

theorem countP_or_disjoint {α} (p q : α → Bool) :
    ∀ (l : List α), (∀ x ∈ l, q x = true → p x = false) → countP (fun x => p x || q x) l = countP p l + countP q l
  | [], _ => by simp
  | a :: l, h => by
    have ih := countP_or_disjoint p q l (fun x hx => h x (mem_cons_of_mem _ hx))
    have ha := h a mem_cons_self
    rw [countP_cons, countP_cons, countP_cons, ih]
    cases hq : q a <;> cases hp : p a <;> simp_all <;> omega

theorem countP_mem_eq_length {xs sel : List Xfer} (hx : xs.Nodup) (hs : sel.Nodup) (hsub : ∀ x ∈ sel, x ∈ xs) :
    countP (fun x => decide (x ∈ sel)) xs = sel.length := by
  rw [countP_eq_length_filter]
  apply Perm.length_eq
  rw [perm_ext_iff_of_nodup (hx.filter _) hs]
  intro a
  simp only [mem_filter, decide_eq_true_eq]
  exact ⟨fun h => h.2, fun h => ⟨hsub a h, h⟩⟩

theorem taskSel_nodup (s : Sched) : (taskSel s.select).Nodup :=
  (nodup_of_nodup_map _ (select_nodup_users s)).filter _

theorem heldCount_start {s : Sched} (h : Inv s) (hn : s.noInflight = true) :
    s.start.heldCount = s.heldCount + (taskSel s.select).length := by
  unfold Sched.heldCount
  rw [start_xs, countP_map]
  have : countP (Xfer.held ∘ markSel s.select) s.xs
      = countP (fun x => x.held || decide (x ∈ taskSel s.select)) s.xs := by
    apply countP_congr
    intro x _
    simp only [Function.comp]
    rw [markSel_held]
  rw [this, countP_or_disjoint]
  · rw [countP_mem_eq_length (InvL.nodup h) (taskSel_nodup s)
      (fun x hx => (select_spec (mem_taskSel.mp hx).1).1)]
  · intro x hx hq
    exact not_held_of_queued (select_spec (mem_taskSel.mp (of_decide_eq_true hq)).1).2.2.1 (noInflight_spec hn hx)

/-- the selected uploads with a lingering task -/
def lingerSel (sel : List Xfer) : List Xfer := sel.filter (fun x => x.lingering)

theorem mem_lingerSel {sel : List Xfer} {x : Xfer} : x ∈ lingerSel sel ↔ x ∈ sel ∧ x.lingering = true := by
  unfold lingerSel
  simp [mem_filter]

theorem taskSel_add_lingerSel (sel : List Xfer) : (taskSel sel).length + (lingerSel sel).length = sel.length := by
  unfold taskSel lingerSel
  induction sel with
  | nil => rfl
  | cons a l ih =>
    simp only [filter_cons]
    cases a.lingering <;> simp <;> omega

/-- every selected upload that was passed over is watched afterwards -/
theorem watchedCount_start_ge {s : Sched} (h : Inv s) : (lingerSel s.select).length ≤ s.start.watchedCount := by
  unfold Sched.watchedCount
  rw [start_xs, countP_map]
  have hsub : ∀ x ∈ lingerSel s.select, x ∈ s.xs := fun x hx => (select_spec (mem_lingerSel.mp hx).1).1
  have hnd : (lingerSel s.select).Nodup := (nodup_of_nodup_map _ (select_nodup_users s)).filter _
  rw [← countP_mem_eq_length (InvL.nodup h) hnd hsub]
  apply countP_mono_left
  intro x _ hx
  simp only [Function.comp]
  rw [markSel_watched]
  have := mem_lingerSel.mp (of_decide_eq_true hx)
  simp [this.1, this.2]

/-- the scheduler's own count is at most the number of held slots -/
theorem procUploads_le_heldCount (s : Sched) : s.procUploads ≤ s.heldCount := by
  unfold Sched.procUploads Sched.heldCount
  exact countP_mono_left (fun x _ hp => held_of_proc hp) 

/-- ... and equals it when nothing is between decision and record -/
theorem heldCount_of_noInflight {s : Sched} (hn : s.noInflight = true) : s.heldCount = s.procUploads := by
  unfold Sched.procUploads Sched.heldCount
  apply countP_congr
  intro x hx
  simp [Xfer.held, noInflight_spec hn hx]

theorem select_length_le (s : Sched) : s.select.length ≤ s.freeSlots := by
  unfold Sched.select
  rw [length_take]
  exact Nat.min_le_left _ _

/-- an update of one transfer that does not make it hold a slot does not increase the number of held slots -/
theorem heldCount_update_le {s : Sched} (h : Inv s) {k : Nat} {x : Xfer} (hg : s.get? k = some x) (f : Xfer → Xfer)
    (hh : (f x).held = true → x.held = true) :
    countP Xfer.held (s.xs.map (fun y => if y.id = k then f y else y)) ≤ countP Xfer.held s.xs := by
  rw [countP_map]
  apply countP_mono_left
  intro y hy hp
  simp only [Function.comp] at hp
  split at hp
  · rename_i e
    have ⟨hx, hk⟩ := get?_spec hg
    have : y = x := unique_id h hy hx (e.trans hk.symm)
    subst this
    exact hh hp
  · exact hp

theorem heldCount_setSt_le {s : Sched} (h : Inv s) {k : Nat} {x : Xfer} {op : Op} {st : St}
    (hg : s.get? k = some x) (ht : target x op = some st) : (s.setSt k st).heldCount ≤ s.heldCount :=
  heldCount_update_le h hg (fun y => y.withSt st) (target_held ht)

theorem heldCount_breakSt_le {s : Sched} (h : Inv s) {k : Nat} (ha : s.accepts (.breakX k) = true) :
    (s.breakSt k).heldCount ≤ s.heldCount := by
  obtain ⟨x, hg, _, _⟩ := accepts_breakX ha
  exact heldCount_update_le h hg (fun y => { y with st := .failed, inflight := false, lingering := true })
    (by simp [Xfer.held, Xfer.procUpload, Xfer.processing])

theorem heldCount_endNotice_le {s : Sched} (h : Inv s) {k : Nat} {d : Bool} (ha : s.accepts (.noticeEnd k d) = true) :
    (s.endNotice k d).heldCount ≤ s.heldCount := by
  obtain ⟨x, hg, _⟩ := accepts_noticeEnd ha
  exact heldCount_update_le h hg (fun y => y.afterNotice d) (afterNotice_held x d)

theorem heldCount_append_idle (xs : List Xfer) (x : Xfer) (hp : x.held = false) :
    countP Xfer.held (xs ++ [x]) = countP Xfer.held xs := by
  simp [countP_append, hp]

/-! ### the decision commutes with marking (what the scheduler reads does not change when tasks are created) -/

theorem eligLoop_map {users : Nat → UserInfo} {busy : List Nat} (g : Xfer → Xfer) (hu : ∀ x, (g x).user = x.user)
    (hd : ∀ x, (g x).dir = x.dir) (hs : ∀ x, (g x).st = x.st) :
    ∀ (xs : List Xfer) (seen : List Nat), eligLoop users busy seen (xs.map g) = (eligLoop users busy seen xs).map g := by
  intro xs
  induction xs with
  | nil => intro seen; rfl
  | cons x r ih =>
    intro seen
    simp only [map_cons]
    unfold eligLoop
    simp only [hu, hd, hs]
    split
    · exact ih seen
    · split
      · split
        · exact ih seen
        · split
          · exact ih seen
          · split
            · rw [map_cons, ih]
            · exact ih seen
      · exact ih seen

theorem insAsc_map (key : Xfer → Nat) (g : Xfer → Xfer) (hk : ∀ x, key (g x) = key x) (a : Xfer) :
    ∀ l, insAsc key (g a) (l.map g) = (insAsc key a l).map g
  | [] => rfl
  | b :: l => by
    simp only [map_cons]
    unfold insAsc
    simp only [hk]
    split
    · rfl
    · rw [map_cons, insAsc_map key g hk a l]

theorem sortAsc_map (key : Xfer → Nat) (g : Xfer → Xfer) (hk : ∀ x, key (g x) = key x) :
    ∀ l, sortAsc key (l.map g) = (sortAsc key l).map g
  | [] => rfl
  | a :: l => by
    simp only [map_cons]
    unfold sortAsc
    rw [sortAsc_map key g hk l, insAsc_map key g hk]

theorem busyUsers_start (s : Sched) : s.start.busyUsers = s.busyUsers := by
  unfold Sched.busyUsers
  rw [start_xs, filter_map, map_map]
  have : (Xfer.procUpload ∘ markSel s.select) = Xfer.procUpload := by
    funext x; simp only [Function.comp]; exact markSel_proc _ _
  rw [this]
  apply map_congr_left
  intro x _
  simp only [Function.comp]
  exact markSel_user _ _

theorem users_start (s : Sched) : s.start.users = s.users := rfl

theorem candidates_start (s : Sched) : s.start.candidates = s.candidates.map (markSel s.select) := by
  unfold Sched.candidates
  rw [busyUsers_start, users_start, start_xs]
  exact eligLoop_map _ (markSel_user _) (markSel_dir _) (markSel_st _) _ _

theorem eligible_start (s : Sched) : s.start.eligible = s.eligible.map (markSel s.select) := by
  unfold Sched.eligible Sched.prioritize
  rw [candidates_start]
  have hk : ∀ x, s.start.rankOf (markSel s.select x) = s.rankOf x := by
    intro x
    unfold Sched.rankOf
    rw [users_start, markSel_user]
  rw [sortAsc_map s.start.rankOf (markSel s.select) hk, ← map_reverse]
  rfl

/-- symmetric reading of a `Pairwise` fact -/
theorem forall_of_pairwise {α} {R : α → α → Prop} (hsymm : ∀ a b, R a b → R b a) :
    ∀ {l : List α}, l.Pairwise R → ∀ a ∈ l, ∀ b ∈ l, a ≠ b → R a b
  | [], _, a, ha, _, _, _ => by simp at ha
  | x :: l, h, a, ha, b, hb, hne => by
    rw [pairwise_cons] at h
    rcases mem_cons.mp ha with rfl | ha' <;> rcases mem_cons.mp hb with rfl | hb'
    · exact absurd rfl hne
    · exact h.1 b hb'
    · exact hsymm _ _ (h.1 a ha')
    · exact forall_of_pairwise hsymm h.2 a ha' b hb' hne

end AioslskVerif.Sched
