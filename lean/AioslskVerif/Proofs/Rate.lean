import AioslskVerif.Model.Rate
/-! Helper lemmas for C20 (token accounting). -/
namespace AioslskVerif.Rate
open AioslskVerif.Generated.Rate

/-- tokens credited by a non-full refill: `min (L-b) ((L-b)*dt/1024)` -/
def credit (s : Lim) (now : Nat) : Nat :=
  let n := (s.L - s.bucket) * (now - s.last) / tps
  if s.bucket + n > s.L then s.L - s.bucket else n

theorem credit_le_room (s : Lim) (now : Nat) (h : s.bucket ≤ s.L) : s.bucket + credit s now ≤ s.L := by
  unfold credit; simp only; split <;> omega

theorem credit_scaled_le (s : Lim) (now : Nat) (Lmax : Nat) (hL : s.L ≤ Lmax) :
    tps * credit s now ≤ Lmax * (now - s.last) := by
  have h1 : (s.L - s.bucket) * (now - s.last) / tps * tps ≤ (s.L - s.bucket) * (now - s.last) :=
    Nat.div_mul_le_self _ _
  have h2 : (s.L - s.bucket) * (now - s.last) ≤ Lmax * (now - s.last) :=
    Nat.mul_le_mul_right _ (by omega)
  unfold credit; simp only
  generalize (s.L - s.bucket) * (now - s.last) / tps = n at *
  split
  · have : s.L - s.bucket ≤ n := by omega
    calc tps * (s.L - s.bucket) ≤ tps * n := Nat.mul_le_mul_left _ this
      _ = n * tps := Nat.mul_comm _ _
      _ ≤ _ := Nat.le_trans h1 h2
  · calc tps * n = n * tps := Nat.mul_comm _ _
      _ ≤ _ := Nat.le_trans h1 h2

/-- `refill` on a non-full bucket, in terms of `credit`. -/
theorem refill_lt (s : Lim) (now : Nat) (h : s.bucket < s.L) :
    (refill s now).1 = { L := s.L, bucket := s.bucket + credit s now, last := now } := by
  have hne : ¬ s.L = s.bucket := by omega
  unfold refill credit addTokens
  simp only [hne, h, if_true, if_false]
  split <;> simp_all <;> omega

theorem refill_full (s : Lim) (now : Nat) (h : s.L = s.bucket) : refill s now = (s, false) := by
  unfold refill; simp [h]

theorem refill_snd (s : Lim) (now : Nat) : (refill s now).2 = true →
    (refill s now).1.bucket < minBucket := by
  unfold refill
  split
  · simp
  · simp [isEmpty]

theorem refill_snd_false (s : Lim) (now : Nat) (hq : minBucket ≤ s.L) : (refill s now).2 = false →
    minBucket ≤ (refill s now).1.bucket := by
  unfold refill
  split
  · rename_i h; intro _; simpa [← h] using hq
  · simp [isEmpty]

end AioslskVerif.Rate

namespace AioslskVerif.Rate
open AioslskVerif.Generated.Rate

/-- well-formed limiter at clock reading `now` -/
def Lim.WF (s : Lim) (now : Nat) : Prop := s.bucket ≤ s.L ∧ s.last ≤ now ∧ minBucket ≤ s.L

/-- accounting potential (scaled by `tps`): what has been granted + what can still be granted
without further passage of time, + one quantum when the bucket is full (the refill clock of a
full bucket is not advanced, rate_limiter.py:85-86). -/
def phi (Lmax : Nat) (s : Lim) (now G : Nat) : Nat :=
  tps * G + min (tps * Lmax) (tps * s.bucket + Lmax * (now - s.last))
    + (if s.bucket = s.L then tps * minBucket else 0)

theorem poll_full (s : Lim) (t : Nat) (h : s.L = s.bucket) :
    poll s t = ({ L := s.L, bucket := s.bucket - minBucket, last := s.last }, minBucket) := by
  simp [poll, refill_full s t h]

theorem poll_empty (s : Lim) (t : Nat) (h : s.bucket < s.L) (he : s.bucket + credit s t < minBucket) :
    poll s t = ({ L := s.L, bucket := s.bucket + credit s t, last := t }, 0) := by
  have hne : ¬ s.L = s.bucket := by omega
  have hsnd : (refill s t).2 = isEmpty (refill s t).1 := by unfold refill; simp [hne]
  simp [poll, hsnd, refill_lt s t h, isEmpty, he]

theorem poll_grant (s : Lim) (t : Nat) (h : s.bucket < s.L) (he : ¬ s.bucket + credit s t < minBucket) :
    poll s t = ({ L := s.L, bucket := s.bucket + credit s t - minBucket, last := t }, minBucket) := by
  have hne : ¬ s.L = s.bucket := by omega
  have hsnd : (refill s t).2 = isEmpty (refill s t).1 := by unfold refill; simp [hne]
  simp [poll, hsnd, refill_lt s t h, isEmpty, he]

theorem minBucket_pos : 0 < minBucket := by decide

theorem tps_eq : tps = 1024 := rfl

theorem poll_step (Lmax : Nat) (s : Lim) (now dt G : Nat) (hwf : s.WF now) (hL : s.L ≤ Lmax) :
    (poll s (now + dt)).1.WF (now + dt) ∧ (poll s (now + dt)).1.L = s.L ∧
    (poll s (now + dt)).1.bucket < (poll s (now + dt)).1.L ∧
    ((poll s (now + dt)).2 = 0 ∨ (poll s (now + dt)).2 = minBucket) ∧
    phi Lmax (poll s (now + dt)).1 (now + dt) (G + (poll s (now + dt)).2) ≤ phi Lmax s now G + Lmax * dt := by
  obtain ⟨hb, hl, hq⟩ := hwf
  have hq0 := minBucket_pos
  have htime : Lmax * (now + dt - s.last) = Lmax * (now - s.last) + Lmax * dt := by
    rw [← Nat.mul_add]; congr 1; omega
  by_cases hfull : s.L = s.bucket
  · -- full bucket: grant without touching the refill clock
    rw [poll_full s _ hfull]
    unfold Lim.WF phi
    dsimp only
    have h1 : ¬ (s.bucket - minBucket = s.L) := by omega
    rw [if_neg h1, if_pos hfull.symm, htime, tps_eq]
    generalize Lmax * (now - s.last) = Y
    generalize Lmax * dt = D
    generalize minBucket = q at *
    refine ⟨⟨?_, ?_, ?_⟩, ?_, ?_, ?_, ?_⟩ <;> first | rfl | omega
  · have hlt : s.bucket < s.L := by omega
    have hc1 := credit_le_room s (now + dt) hb
    have hc2 := credit_scaled_le s (now + dt) Lmax hL
    rw [htime, tps_eq] at hc2
    have hne : ¬ s.bucket = s.L := by omega
    by_cases hemp : s.bucket + credit s (now + dt) < minBucket
    · rw [poll_empty s _ hlt hemp]
      generalize credit s (now + dt) = c at *
      unfold Lim.WF phi
      dsimp only
      have h1 : ¬ (s.bucket + c = s.L) := by omega
      rw [if_neg h1, if_neg hne, Nat.sub_self, Nat.mul_zero, Nat.add_zero, tps_eq]
      generalize Lmax * (now - s.last) = Y at *
      generalize Lmax * dt = D at *
      generalize minBucket = q at *
      refine ⟨⟨?_, ?_, ?_⟩, ?_, ?_, ?_, ?_⟩ <;> first | rfl | omega
    · rw [poll_grant s _ hlt hemp]
      generalize credit s (now + dt) = c at *
      unfold Lim.WF phi
      dsimp only
      have h1 : ¬ (s.bucket + c - minBucket = s.L) := by omega
      rw [if_neg h1, if_neg hne, Nat.sub_self, Nat.mul_zero, Nat.add_zero, tps_eq]
      generalize Lmax * (now - s.last) = Y at *
      generalize Lmax * dt = D at *
      generalize minBucket = q at *
      refine ⟨⟨?_, ?_, ?_⟩, ?_, ?_, ?_, ?_⟩ <;> first | rfl | omega

end AioslskVerif.Rate

namespace AioslskVerif.Rate
open AioslskVerif.Generated.Rate

/-- Run a list of operations. -/
def run (s : St) (ops : List Op) : St := ops.foldl (fun s o => (step s o).1) s

def elapsed : List Op → Nat
  | [] => 0
  | .poll dt :: r => dt + elapsed r
  | .setLimit _ :: r => elapsed r

def changes : List Op → Nat
  | [] => 0
  | .poll _ :: r => changes r
  | .setLimit _ :: r => 1 + changes r

/-- every limit set during the run is at most `Lmax` (0 = "no limit" is allowed) -/
def LimitsWithin (Lmax : Nat) : List Op → Prop
  | [] => True
  | .poll _ :: r => LimitsWithin Lmax r
  | .setLimit k :: r => k * bytesPerKb ≤ Lmax ∧ LimitsWithin Lmax r

theorem quantum_le_kb : minBucket ≤ bytesPerKb := by decide

/-- well-formed limiter object at clock reading `now`, limits within `Lmax` -/
def Limiter.WF (lim : Limiter) (now Lmax : Nat) : Prop :=
  match lim with
  | .limited l => l.WF now ∧ l.L ≤ Lmax
  | .unlimited _ last => last ≤ now

/-- the accounting potential of a limiter object: an unlimited limiter carries the bucket and refill
clock of the limiter it replaced (it never has a "full" bucket of its own) -/
def phiL (Lmax : Nat) (lim : Limiter) (now G : Nat) : Nat :=
  match lim with
  | .limited l => phi Lmax l now G
  | .unlimited b last => tps * G + min (tps * Lmax) (tps * b + Lmax * (now - last))

theorem setLimit_step (Lmax : Nat) (l : Lim) (now G k : Nat) (hwf : l.WF now) (hk : 0 < k)
    (hkL : k * bytesPerKb ≤ Lmax) :
    ∃ l', setLimit (.limited l) k = .limited l' ∧ l'.WF now ∧ l'.L ≤ Lmax ∧
      phi Lmax l' now G ≤ phi Lmax l now G + 1024 * minBucket := by
  obtain ⟨hb, hl, hq⟩ := hwf
  have hk0 : ¬ k = 0 := by omega
  have hkb : bytesPerKb ≤ k * bytesPerKb := Nat.le_mul_of_pos_left _ hk
  have hqk := quantum_le_kb
  unfold setLimit addTokens
  simp only [hk0, if_false, Limiter.bucket, Limiter.last, Nat.zero_add]
  generalize k * bytesPerKb = L' at *
  by_cases hgt : l.bucket > L'
  · simp only [hgt, if_true]
    refine ⟨_, rfl, ⟨Nat.le_refl _, hl, by dsimp only; omega⟩, hkL, ?_⟩
    unfold phi; dsimp only; rw [tps_eq]
    generalize Lmax * (now - l.last) = Y
    generalize minBucket = q at *
    split <;> split <;> omega
  · simp only [hgt, if_false]
    refine ⟨_, rfl, ⟨by dsimp only; omega, hl, by dsimp only; omega⟩, hkL, ?_⟩
    unfold phi; dsimp only; rw [tps_eq]
    generalize Lmax * (now - l.last) = Y
    generalize minBucket = q at *
    split <;> split <;> omega

/-- a limit set on an unlimited limiter: the bucket and refill clock it kept are taken over -/
theorem setLimit_step_unlimited (Lmax : Nat) (b last now G k : Nat) (hl : last ≤ now) (hk : 0 < k)
    (hkL : k * bytesPerKb ≤ Lmax) :
    ∃ l', setLimit (.unlimited b last) k = .limited l' ∧ l'.WF now ∧ l'.L ≤ Lmax ∧
      phi Lmax l' now G ≤ phiL Lmax (.unlimited b last) now G + 1024 * minBucket := by
  have hk0 : ¬ k = 0 := by omega
  have hkb : bytesPerKb ≤ k * bytesPerKb := Nat.le_mul_of_pos_left _ hk
  have hqk := quantum_le_kb
  unfold setLimit addTokens
  simp only [hk0, if_false, Limiter.bucket, Limiter.last, Nat.zero_add]
  generalize k * bytesPerKb = L' at *
  by_cases hgt : b > L'
  · simp only [hgt, if_true]
    refine ⟨_, rfl, ⟨Nat.le_refl _, hl, by dsimp only; omega⟩, hkL, ?_⟩
    unfold phiL phi; dsimp only; rw [tps_eq]
    generalize Lmax * (now - last) = Y
    generalize minBucket = q at *
    split <;> omega
  · simp only [hgt, if_false]
    refine ⟨_, rfl, ⟨by dsimp only; omega, hl, by dsimp only; omega⟩, hkL, ?_⟩
    unfold phiL phi; dsimp only; rw [tps_eq]
    generalize Lmax * (now - last) = Y
    generalize minBucket = q at *
    split <;> omega

/-- one operation of the run keeps the limiter well formed and raises the potential by at most the
credit of the time that passed, plus one quantum per limit change -/
theorem step_phi (Lmax : Nat) (lim : Limiter) (now G : Nat) (op : Op) (hwf : lim.WF now Lmax)
    (hop : LimitsWithin Lmax [op]) :
    let s' := (step { lim := lim, now := now, granted := G } op).1
    s'.lim.WF s'.now Lmax ∧ s'.now = now + elapsed [op] ∧
      phiL Lmax s'.lim s'.now s'.granted
        ≤ phiL Lmax lim now G + Lmax * elapsed [op] + 1024 * minBucket * changes [op] := by
  cases op with
  | poll dt =>
    cases lim with
    | limited l =>
      obtain ⟨h1, h2, _, _, h5⟩ := poll_step Lmax l now dt G hwf.1 hwf.2
      simp only [step, Limiter.poll, elapsed, changes, Nat.add_zero, Nat.mul_zero]
      exact ⟨⟨h1, h2 ▸ hwf.2⟩, trivial, h5⟩
    | unlimited b last =>
      have hl : last ≤ now := hwf
      have htime : Lmax * (now + dt - last) = Lmax * (now - last) + Lmax * dt := by
        rw [← Nat.mul_add]; congr 1; omega
      simp only [step, Limiter.poll, elapsed, changes, Nat.add_zero, Nat.mul_zero]
      refine ⟨?_, trivial, ?_⟩
      · show last ≤ now + dt; omega
      · unfold phiL; dsimp only; rw [htime]; omega
  | setLimit k =>
    have hkL : k * bytesPerKb ≤ Lmax := hop.1
    simp only [step, elapsed, changes, Nat.add_zero, Nat.mul_zero, Nat.mul_one]
    by_cases hk : k = 0
    · subst hk
      cases lim with
      | limited l =>
        have hl : l.last ≤ now := hwf.1.2.1
        refine ⟨?_, trivial, ?_⟩
        · simp only [setLimit, if_true, Limiter.last]; exact hl
        · simp only [setLimit, if_true, Limiter.bucket, Limiter.last]
          unfold phiL phi; dsimp only; omega
      | unlimited b last =>
        refine ⟨?_, trivial, ?_⟩
        · simp only [setLimit, if_true, Limiter.last]; exact hwf
        · simp only [setLimit, if_true, Limiter.bucket, Limiter.last]; omega
    · have hk' : 0 < k := by omega
      cases lim with
      | limited l =>
        obtain ⟨l1, s1, s2, s3, s4⟩ := setLimit_step Lmax l now G k hwf.1 hk' hkL
        rw [s1]
        exact ⟨⟨s2, s3⟩, trivial, s4⟩
      | unlimited b last =>
        obtain ⟨l1, s1, s2, s3, s4⟩ := setLimit_step_unlimited Lmax b last now G k hwf hk' hkL
        rw [s1]
        exact ⟨⟨s2, s3⟩, trivial, s4⟩

theorem elapsed_cons (op : Op) (r : List Op) : elapsed (op :: r) = elapsed [op] + elapsed r := by
  cases op <;> simp [elapsed]

theorem changes_cons (op : Op) (r : List Op) : changes (op :: r) = changes [op] + changes r := by
  cases op <;> simp [changes]

theorem limitsWithin_cons (Lmax : Nat) (op : Op) (r : List Op) :
    LimitsWithin Lmax (op :: r) ↔ LimitsWithin Lmax [op] ∧ LimitsWithin Lmax r := by
  cases op <;> simp [LimitsWithin]

/-- The accounting invariant over any run: polls, limit changes, periods without a limit. -/
theorem run_phi (Lmax : Nat) : ∀ (ops : List Op) (lim : Limiter) (now G : Nat),
    lim.WF now Lmax → LimitsWithin Lmax ops →
    (run { lim := lim, now := now, granted := G } ops).lim.WF (now + elapsed ops) Lmax ∧
      (run { lim := lim, now := now, granted := G } ops).now = now + elapsed ops ∧
      phiL Lmax (run { lim := lim, now := now, granted := G } ops).lim (now + elapsed ops)
          (run { lim := lim, now := now, granted := G } ops).granted
        ≤ phiL Lmax lim now G + Lmax * elapsed ops + 1024 * minBucket * changes ops
  | [], lim, now, G, hwf, _ => by simpa [run, elapsed, changes] using hwf
  | op :: r, lim, now, G, hwf, hops => by
    rw [limitsWithin_cons] at hops
    have h := step_phi Lmax lim now G op hwf hops.1
    simp only at h
    generalize hs : (step { lim := lim, now := now, granted := G } op).1 = s1 at h
    obtain ⟨lim1, now1, G1⟩ := s1
    obtain ⟨h1, h2, h3⟩ := h
    dsimp only at h1 h2 h3
    subst h2
    have hrun : run { lim := lim, now := now, granted := G } (op :: r)
        = run { lim := lim1, now := now + elapsed [op], granted := G1 } r := by
      simp [run, hs]
    obtain ⟨i1, i2, i3⟩ := run_phi Lmax r lim1 (now + elapsed [op]) G1 h1 hops.2
    have he : elapsed (op :: r) = elapsed [op] + elapsed r := elapsed_cons op r
    have hc : changes (op :: r) = changes [op] + changes r := changes_cons op r
    have ha : now + (elapsed [op] + elapsed r) = now + elapsed [op] + elapsed r := by omega
    rw [hrun, he, hc, ha]
    refine ⟨i1, i2, ?_⟩
    rw [Nat.mul_add, Nat.mul_add]
    omega

theorem phi_ge (Lmax : Nat) (l : Lim) (now G : Nat) : 1024 * G ≤ phi Lmax l now G := by
  unfold phi; rw [tps_eq]; omega

theorem phi_le (Lmax : Nat) (l : Lim) (now G : Nat) :
    phi Lmax l now G ≤ 1024 * G + 1024 * Lmax + 1024 * minBucket := by
  unfold phi; rw [tps_eq]; split <;> omega

theorem phiL_ge (Lmax : Nat) (lim : Limiter) (now G : Nat) : 1024 * G ≤ phiL Lmax lim now G := by
  cases lim with
  | limited l => exact phi_ge Lmax l now G
  | unlimited b last => unfold phiL; dsimp only; rw [tps_eq]; omega

theorem phiL_le (Lmax : Nat) (lim : Limiter) (now G : Nat) :
    phiL Lmax lim now G ≤ 1024 * G + 1024 * Lmax + 1024 * minBucket := by
  cases lim with
  | limited l => exact phi_le Lmax l now G
  | unlimited b last => unfold phiL; dsimp only; rw [tps_eq]; omega

theorem phi_le_notfull (Lmax : Nat) (l : Lim) (now G : Nat) (h : l.bucket < l.L) :
    phi Lmax l now G ≤ 1024 * G + 1024 * Lmax := by
  unfold phi; rw [tps_eq]
  have : ¬ l.bucket = l.L := by omega
  rw [if_neg this]; omega

end AioslskVerif.Rate

namespace AioslskVerif.Rate
open AioslskVerif.Generated.Rate

/-- consecutive polls of a single limiter; returns final limiter, clock and the sum of grants -/
def polls : Lim → Nat → List Nat → Lim × Nat × Nat
  | l, now, [] => (l, now, 0)
  | l, now, dt :: r =>
    let p := poll l (now + dt)
    let q := polls p.1 (now + dt) r
    (q.1, q.2.1, p.2 + q.2.2)

theorem credit_ge (l : Lim) (t : Nat) (gap : Nat) (hL : 1024 ≤ l.L) (hb : l.bucket < 128)
    (hgap : 10 ≤ gap) (ht : l.last + gap ≤ t) : 8 ≤ credit l t := by
  unfold credit
  have h1 : 897 * 10 ≤ (l.L - l.bucket) * (t - l.last) := Nat.mul_le_mul (by omega) (by omega)
  have h2 : 897 * 10 / tps ≤ (l.L - l.bucket) * (t - l.last) / tps := Nat.div_le_div_right h1
  have h3 : 897 * 10 / tps = 8 := by decide
  dsimp only
  generalize (l.L - l.bucket) * (t - l.last) / tps = n at *
  split <;> omega

/-- a lone poller that never gets a grant gains at least 8 tokens per poll -/
theorem polls_starved : ∀ (dts : List Nat) (l : Lim) (now : Nat), l.WF now → 1024 ≤ l.L →
    (∀ d ∈ dts, 10 ≤ d) → (polls l now dts).2.2 = 0 → dts ≠ [] →
    l.bucket + 8 * dts.length ≤ (polls l now dts).1.bucket ∧ (polls l now dts).1.bucket < minBucket
  | [], _, _, _, _, _, _, hne => absurd rfl hne
  | dt :: r, l, now, hwf, hL, hd, hz, _ => by
    have hq : minBucket = 128 := rfl
    obtain ⟨hb, hl, hqq⟩ := hwf
    have hdt : 10 ≤ dt := hd dt (by simp)
    simp only [polls] at hz ⊢
    have hz1 : (poll l (now + dt)).2 = 0 := by omega
    have hz2 : (polls (poll l (now + dt)).1 (now + dt) r).2.2 = 0 := by omega
    -- the poll was an empty one
    by_cases hfull : l.L = l.bucket
    · rw [poll_full l _ hfull] at hz1; simp [hq] at hz1
    · have hlt : l.bucket < l.L := by omega
      by_cases hemp : l.bucket + credit l (now + dt) < minBucket
      · have hp := poll_empty l (now + dt) hlt hemp
        have hc := credit_ge l (now + dt) dt hL (by omega) hdt (by omega)
        by_cases hr : r = []
        · subst hr
          simp only [polls, hp, List.length_cons, List.length_nil]
          omega
        · have hwf' : (poll l (now + dt)).1.WF (now + dt) := by
            rw [hp]; exact ⟨by dsimp only; have := credit_le_room l (now + dt) hb; omega, Nat.le_refl _, hqq⟩
          have hL' : 1024 ≤ (poll l (now + dt)).1.L := by rw [hp]; exact hL
          have ih := polls_starved r (poll l (now + dt)).1 (now + dt) hwf' hL'
            (fun d hd' => hd d (by simp [hd'])) hz2 hr
          rw [hp] at ih ⊢
          simp only [List.length_cons] at ih ⊢
          omega
      · rw [poll_grant l _ hlt hemp] at hz1; simp [hq] at hz1

end AioslskVerif.Rate

namespace AioslskVerif.Rate
open AioslskVerif.Generated.Rate

/-- scaled lower bound on the tokens credited by one non-full refill: truncation loses < 1 token -/
theorem credit_scaled_ge (l : Lim) (t : Nat) (gap : Nat) (hL : 1024 ≤ l.L) (hb : l.bucket < 128)
    (ht : l.last + gap ≤ t) :
    897 * gap ≤ 1024 * credit l t + 1023 ∨ l.L ≤ l.bucket + credit l t := by
  unfold credit
  have h1 : 897 * gap ≤ (l.L - l.bucket) * (t - l.last) := Nat.mul_le_mul (by omega) (by omega)
  have h2 := Nat.div_add_mod ((l.L - l.bucket) * (t - l.last)) tps
  have h3 : (l.L - l.bucket) * (t - l.last) % tps < tps := Nat.mod_lt _ (by decide)
  rw [tps_eq] at h2 h3
  dsimp only
  rw [tps_eq]
  generalize (l.L - l.bucket) * (t - l.last) / 1024 = n at *
  generalize (l.L - l.bucket) * (t - l.last) % 1024 = m at *
  split
  · right; omega
  · left; omega

/-- one empty poll: bucket grows by the credit, the refill clock is the poll time -/
theorem poll_empty_step (l : Lim) (now dt : Nat) (hwf : l.WF now) (hL : 1024 ≤ l.L)
    (hz : (poll l (now + dt)).2 = 0) :
    (poll l (now + dt)).1.WF (now + dt) ∧ (poll l (now + dt)).1.L = l.L ∧
    (poll l (now + dt)).1.last = now + dt ∧ (poll l (now + dt)).1.bucket < 128 ∧ l.bucket < 128 ∧
    897 * dt ≤ 1024 * ((poll l (now + dt)).1.bucket - l.bucket) + 1023 ∧
    l.bucket ≤ (poll l (now + dt)).1.bucket := by
  have hq : minBucket = 128 := rfl
  obtain ⟨hb, hl, hqq⟩ := hwf
  by_cases hfull : l.L = l.bucket
  · rw [poll_full l _ hfull] at hz; simp [hq] at hz
  · have hlt : l.bucket < l.L := by omega
    by_cases hemp : l.bucket + credit l (now + dt) < minBucket
    · have hp := poll_empty l (now + dt) hlt hemp
      have hc1 := credit_le_room l (now + dt) hb
      have hb128 : l.bucket < 128 := by omega
      have hc := credit_scaled_ge l (now + dt) dt hL hb128 (by omega)
      rw [hp]
      refine ⟨⟨hc1, Nat.le_refl _, hqq⟩, rfl, rfl, by dsimp only; omega, hb128, ?_, by dsimp only; omega⟩
      dsimp only
      rcases hc with hc | hc
      · omega
      · omega
    · rw [poll_grant l _ hlt hemp] at hz; simp [hq] at hz

/-- **four** consecutive empty polls whose gaps add up to at least 10 ticks gain at least 5 tokens -/
theorem four_empty_polls (l : Lim) (now d1 d2 d3 d4 : Nat) (hwf : l.WF now) (hL : 1024 ≤ l.L)
    (hsum : 10 ≤ d1 + d2 + d3 + d4) (hz : (polls l now [d1, d2, d3, d4]).2.2 = 0) :
    (polls l now [d1, d2, d3, d4]).1.WF (polls l now [d1, d2, d3, d4]).2.1 ∧
    (polls l now [d1, d2, d3, d4]).1.L = l.L ∧
    l.bucket + 5 ≤ (polls l now [d1, d2, d3, d4]).1.bucket ∧
    (polls l now [d1, d2, d3, d4]).1.bucket < 128 := by
  simp only [polls] at hz ⊢
  have z1 : (poll l (now + d1)).2 = 0 := by omega
  obtain ⟨w1, L1, _, b1, b0, g1, m1⟩ := poll_empty_step l now d1 hwf hL z1
  generalize poll l (now + d1) = p1 at *
  have z2 : (poll p1.1 (now + d1 + d2)).2 = 0 := by omega
  obtain ⟨w2, L2, _, b2, _, g2, m2⟩ := poll_empty_step p1.1 (now + d1) d2 w1 (by omega) z2
  generalize poll p1.1 (now + d1 + d2) = p2 at *
  have z3 : (poll p2.1 (now + d1 + d2 + d3)).2 = 0 := by omega
  obtain ⟨w3, L3, _, b3, _, g3, m3⟩ := poll_empty_step p2.1 (now + d1 + d2) d3 w2 (by omega) z3
  generalize poll p2.1 (now + d1 + d2 + d3) = p3 at *
  have z4 : (poll p3.1 (now + d1 + d2 + d3 + d4)).2 = 0 := by omega
  obtain ⟨w4, L4, _, b4, _, g4, m4⟩ := poll_empty_step p3.1 (now + d1 + d2 + d3) d4 w3 (by omega) z4
  generalize poll p3.1 (now + d1 + d2 + d3 + d4) = p4 at *
  refine ⟨w4, by omega, by omega, b4⟩

/-- polls in blocks of four (up to four pollers, each waiting ≥ INTERVAL between its own polls:
any four consecutive gaps then add up to ≥ 10 ticks) -/
def blockPolls : Lim → Nat → List (Nat × Nat × Nat × Nat) → Lim × Nat × Nat
  | l, now, [] => (l, now, 0)
  | l, now, (d1, d2, d3, d4) :: r =>
    let p := polls l now [d1, d2, d3, d4]
    let q := blockPolls p.1 p.2.1 r
    (q.1, q.2.1, p.2.2 + q.2.2)

theorem blocks_starved : ∀ (bs : List (Nat × Nat × Nat × Nat)) (l : Lim) (now : Nat), l.WF now → 1024 ≤ l.L →
    (∀ b ∈ bs, 10 ≤ b.1 + b.2.1 + b.2.2.1 + b.2.2.2) → (blockPolls l now bs).2.2 = 0 → bs ≠ [] →
    l.bucket + 5 * bs.length ≤ (blockPolls l now bs).1.bucket ∧ (blockPolls l now bs).1.bucket < 128
  | [], _, _, _, _, _, _, hne => absurd rfl hne
  | (d1, d2, d3, d4) :: r, l, now, hwf, hL, hd, hz, _ => by
    simp only [blockPolls] at hz ⊢
    have hz1 : (polls l now [d1, d2, d3, d4]).2.2 = 0 := by omega
    have hz2 : (blockPolls (polls l now [d1, d2, d3, d4]).1 (polls l now [d1, d2, d3, d4]).2.1 r).2.2 = 0 := by omega
    have hsum := hd (d1, d2, d3, d4) (by simp)
    obtain ⟨w, hLL, hg, hb⟩ := four_empty_polls l now d1 d2 d3 d4 hwf hL hsum hz1
    by_cases hr : r = []
    · subst hr; simp only [blockPolls, List.length_cons, List.length_nil]; omega
    · have ih := blocks_starved r _ _ w (by omega) (fun b hb' => hd b (by simp [hb'])) hz2 hr
      simp only [List.length_cons]; omega

end AioslskVerif.Rate

namespace AioslskVerif.Rate

/-! ### FIFO service order of the `take_tokens` lock -/

def waitingList (o : LObj) : List Nat := o.holder.toList ++ o.queue

/-- the lock is only free when nobody waits for it (`asyncio.Lock.release` wakes the first waiter) -/
def LObj.Tidy (o : LObj) : Prop := o.holder = none → o.queue = []

theorem cascade_spec (now : Nat) : ∀ (q : List Nat) (lim : Lim),
    (cascade lim now q).2 ++ waitingList (cascade lim now q).1 = q ∧ (cascade lim now q).1.Tidy
  | [], lim => by simp [cascade, waitingList, LObj.Tidy]
  | p :: rest, lim => by
    simp only [cascade]
    split
    · simp [waitingList, LObj.Tidy]
    · have ih := cascade_spec now rest (Rate.poll lim now).1
      exact ⟨by simp [ih.1], ih.2⟩

theorem holderPoll_spec (o : LObj) (now : Nat) (ht : o.Tidy) :
    (o.holderPoll now).2 ++ waitingList (o.holderPoll now).1 = waitingList o ∧ (o.holderPoll now).1.Tidy := by
  unfold LObj.holderPoll
  cases hh : o.holder with
  | none => simp only []; exact ⟨by simp, ht⟩
  | some h =>
    simp only []
    split
    · refine ⟨by simp [waitingList, hh], ?_⟩
      intro hnone; simp [hh] at hnone
    · have c := cascade_spec now o.queue (Rate.poll o.lim now).1
      refine ⟨?_, c.2⟩
      have c1 := c.1
      simp only [waitingList] at c1
      simp only [List.cons_append, waitingList, hh, Option.toList_some, c1]
      simp

theorem arrive_spec (o : LObj) (p now : Nat) (ht : o.Tidy) :
    (o.arrive p now).2 ++ waitingList (o.arrive p now).1 = waitingList o ++ [p] ∧ (o.arrive p now).1.Tidy := by
  unfold LObj.arrive
  cases hh : o.holder with
  | none =>
    simp only []
    have hq : o.queue = [] := ht hh
    have ht' : ({ o with holder := some p } : LObj).Tidy := by intro h; simp at h
    have := holderPoll_spec { o with holder := some p } now ht'
    refine ⟨?_, this.2⟩
    rw [this.1]; simp [waitingList, hh, hq]
  | some h =>
    simp only []
    refine ⟨by simp [waitingList, hh], ?_⟩
    intro hnone; simp [hh] at hnone

/-- one limited limiter object driven by arrivals of requests and by the holder's wake-ups -/
structure LockRun where
  o : LObj
  now : Nat
  arrivals : List Nat      -- ghost: pollers in order of their `take_tokens()` calls
  served : List Nat        -- ghost: pollers in the order in which they were granted tokens

inductive LOp
  | arrive (p : Nat) (dt : Nat)
  | wake (dt : Nat)

def lstep (s : LockRun) : LOp → LockRun
  | .arrive p dt =>
    let r := s.o.arrive p (s.now + dt)
    { o := r.1, now := s.now + dt, arrivals := s.arrivals ++ [p], served := s.served ++ r.2 }
  | .wake dt =>
    let r := s.o.holderPoll (s.now + dt)
    { o := r.1, now := s.now + dt, arrivals := s.arrivals, served := s.served ++ r.2 }

def lrun (s : LockRun) (ops : List LOp) : LockRun := ops.foldl lstep s

theorem lrun_fifo : ∀ (ops : List LOp) (s : LockRun), s.o.Tidy →
    s.served ++ waitingList s.o = s.arrivals →
    (lrun s ops).served ++ waitingList (lrun s ops).o = (lrun s ops).arrivals ∧ (lrun s ops).o.Tidy
  | [], s, ht, h => ⟨h, ht⟩
  | .arrive p dt :: r, s, ht, h => by
    have a := arrive_spec s.o p (s.now + dt) ht
    apply lrun_fifo r (lstep s (.arrive p dt)) a.2
    simp only [lstep, List.append_assoc, a.1]
    rw [← List.append_assoc, h]
  | .wake dt :: r, s, ht, h => by
    have a := holderPoll_spec s.o (s.now + dt) ht
    apply lrun_fifo r (lstep s (.wake dt)) a.2
    simp only [lstep, List.append_assoc, a.1]
    exact h

end AioslskVerif.Rate

namespace AioslskVerif.Rate

/-! ### Bytes follow grants -/

theorem sum_set_add : ∀ (l : List Nat) (c n : Nat), c < l.length →
    (l.set c n).sum + l.getD c 0 = l.sum + n
  | [], c, n, h => by simp at h
  | x :: l, 0, n, _ => by simp [List.sum_cons]; omega
  | x :: l, c + 1, n, h => by
    have ih := sum_set_add l c n (by simpa using h)
    simp only [List.set_cons_succ, List.sum_cons, List.getD_cons_succ]
    omega

theorem getD_le_sum : ∀ (l : List Nat) (c : Nat), l.getD c 0 ≤ l.sum
  | [], c => by simp
  | x :: l, 0 => by simp [List.sum_cons]
  | x :: l, c + 1 => by
    have := getD_le_sum l c
    simp only [List.getD_cons_succ, List.sum_cons]; omega

/-- one event keeps `moved + outstanding ≤ granted + slack`, and never takes tokens or bytes back -/
theorem xstep_inv (s : XSt) (e : XEv) :
    (xstep s e).moved + (xstep s e).holding.sum + s.granted ≤ (xstep s e).granted + s.moved + s.holding.sum ∧
    s.granted ≤ (xstep s e).granted ∧ s.moved ≤ (xstep s e).moved ∧ (xstep s e).holding.length = s.holding.length := by
  cases e with
  | grant c n =>
    by_cases h : c < s.holding.length
    · have := sum_set_add s.holding c n h
      have hx : xstep s (.grant c n) = { s with holding := s.holding.set c n, granted := s.granted + n } := by
        simp [xstep, h]
      rw [hx]
      refine ⟨?_, ?_, ?_, ?_⟩
      · show s.moved + (s.holding.set c n).sum + s.granted ≤ s.granted + n + s.moved + s.holding.sum
        omega
      · show s.granted ≤ s.granted + n
        omega
      · exact Nat.le_refl _
      · show (s.holding.set c n).length = s.holding.length
        simp
    · have hx : xstep s (.grant c n) = s := by simp [xstep, h]
      rw [hx]
      exact ⟨by omega, Nat.le_refl _, Nat.le_refl _, rfl⟩
  | move c m =>
    by_cases h : c < s.holding.length
    · have := sum_set_add s.holding c 0 h
      have hm : min m (s.holding.getD c 0) ≤ s.holding.getD c 0 := Nat.min_le_right _ _
      have hx : xstep s (.move c m) =
          { s with holding := s.holding.set c 0, moved := s.moved + min m (s.holding.getD c 0) } := by
        simp [xstep, h]
      rw [hx]
      refine ⟨?_, ?_, ?_, ?_⟩
      · show s.moved + min m (s.holding.getD c 0) + (s.holding.set c 0).sum + s.granted
            ≤ s.granted + s.moved + s.holding.sum
        omega
      · exact Nat.le_refl _
      · show s.moved ≤ s.moved + min m (s.holding.getD c 0)
        omega
      · show (s.holding.set c 0).length = s.holding.length
        simp
    · have hx : xstep s (.move c m) = s := by simp [xstep, h]
      rw [hx]
      exact ⟨by omega, Nat.le_refl _, Nat.le_refl _, rfl⟩

theorem xrun_inv : ∀ (evs : List XEv) (s : XSt),
    (xrun s evs).moved + (xrun s evs).holding.sum + s.granted ≤ (xrun s evs).granted + s.moved + s.holding.sum ∧
    s.granted ≤ (xrun s evs).granted ∧ s.moved ≤ (xrun s evs).moved ∧ (xrun s evs).holding.length = s.holding.length
  | [], s => ⟨by simp [xrun]; omega, by simp [xrun], by simp [xrun], by simp [xrun]⟩
  | e :: r, s => by
    have h1 := xstep_inv s e
    have h2 := xrun_inv r (xstep s e)
    have hr : xrun s (e :: r) = xrun (xstep s e) r := by simp [xrun]
    rw [hr]
    refine ⟨by omega, by omega, by omega, by omega⟩

theorem sum_le_of_all_le : ∀ (l : List Nat) (g : Nat), (∀ x ∈ l, x ≤ g) → l.sum ≤ l.length * g
  | [], g, _ => by simp
  | x :: l, g, h => by
    have := sum_le_of_all_le l g (fun y hy => h y (by simp [hy]))
    have hx := h x (by simp)
    simp only [List.sum_cons, List.length_cons, Nat.add_mul, Nat.one_mul]; omega

end AioslskVerif.Rate

namespace AioslskVerif.Rate
open AioslskVerif.Generated.Rate

theorem refill_L (l : Lim) (t : Nat) : (refill l t).1.L = l.L := by
  simp only [refill, addTokens]
  split
  · rfl
  · split <;> (try split) <;> rfl

theorem poll_L (l : Lim) (t : Nat) : (poll l t).1.L = l.L := by
  simp only [poll]
  split <;> simp [refill_L]

theorem poll_result (l : Lim) (t : Nat) : (poll l t).2 = 0 ∨ (poll l t).2 = minBucket := by
  simp only [poll]; split <;> simp

/-! ### The whole network: every grant under a limit is a poll of the current object

`PolledAt t l G l' G'`: the limiter state `l'` and the ghost total `G'` result from `l`, `G` by finitely many polls,
all at clock reading `t`. -/

inductive PolledAt (t : Nat) (l : Lim) (G : Nat) : Lim → Nat → Prop
  | refl : PolledAt t l G l G
  | step {l1 : Lim} {G1 : Nat} : PolledAt t l G l1 G1 → PolledAt t l G (poll l1 t).1 (G1 + (poll l1 t).2)

theorem PolledAt.trans {t : Nat} {l l1 l2 : Lim} {G G1 G2 : Nat} (h1 : PolledAt t l G l1 G1)
    (h2 : PolledAt t l1 G1 l2 G2) : PolledAt t l G l2 G2 := by
  induction h2 with
  | refl => exact h1
  | step _ ih => exact .step ih

theorem PolledAt.head {t : Nat} (l : Lim) (G : Nat) {l2 : Lim} {G2 : Nat}
    (h : PolledAt t (poll l t).1 (G + (poll l t).2) l2 G2) : PolledAt t l G l2 G2 :=
  PolledAt.trans (.step .refl) h

theorem phi_mono_time (Lmax : Nat) (l : Lim) (now dt G : Nat) (hl : l.last ≤ now) :
    phi Lmax l (now + dt) G ≤ phi Lmax l now G + Lmax * dt := by
  have htime : Lmax * (now + dt - l.last) = Lmax * (now - l.last) + Lmax * dt := by
    rw [← Nat.mul_add]; congr 1; omega
  unfold phi; rw [htime]; split <;> omega

/-- polls at one clock reading `now + dt`, starting from a state that is well formed at `now` -/
theorem polledAt_phi (Lmax : Nat) {l l' : Lim} {now dt G G' : Nat} (h : PolledAt (now + dt) l G l' G')
    (hwf : l.WF now) (hL : l.L ≤ Lmax) :
    l'.WF (now + dt) ∧ l'.L = l.L ∧ G ≤ G' ∧ phi Lmax l' (now + dt) G' ≤ phi Lmax l now G + Lmax * dt := by
  induction h with
  | refl =>
    exact ⟨⟨hwf.1, by have := hwf.2.1; omega, hwf.2.2⟩, rfl, Nat.le_refl _, phi_mono_time Lmax l now dt G hwf.2.1⟩
  | @step l1 G1 _ ih =>
    obtain ⟨w1, e1, g1, p1⟩ := ih
    obtain ⟨w2, e2, _, _, p2⟩ := poll_step Lmax l1 (now + dt) 0 G1 w1 (by omega)
    rw [Nat.add_zero] at w2 e2 p2
    rw [Nat.mul_zero, Nat.add_zero] at p2
    exact ⟨w2, by omega, by omega, by omega⟩

@[simp] theorem fateGrants_granted (p g : Nat) : fateGrants p (.granted g) = [(p, g)] := rfl
@[simp] theorem fateGrants_asleep (p : Nat) : fateGrants p .asleep = [] := rfl
@[simp] theorem fateGrants_queued (p : Nat) : fateGrants p .queued = [] := rfl

/-- a limiter *object* evolves by polls at clock `t`; the ghost total counts grants made under a limit only -/
def Evolves (t : Nat) (c : NObj) (G : Nat) (c' : NObj) (G' : Nat) : Prop :=
  match c with
  | .unlimited b l => c' = .unlimited b l ∧ G' = G
  | .limited o => ∃ o', c' = .limited o' ∧ PolledAt t o.lim G o'.lim G'

theorem Evolves.rfl' (t : Nat) (c : NObj) (G : Nat) : Evolves t c G c G := by
  cases c with
  | unlimited b l => exact ⟨rfl, rfl⟩
  | limited o => exact ⟨o, rfl, .refl⟩

theorem Evolves.trans {t : Nat} {c c1 c2 : NObj} {G G1 G2 : Nat} (h1 : Evolves t c G c1 G1)
    (h2 : Evolves t c1 G1 c2 G2) : Evolves t c G c2 G2 := by
  cases c with
  | unlimited b l =>
    obtain ⟨rfl, rfl⟩ := h1
    exact h2
  | limited o =>
    obtain ⟨o1, rfl, p1⟩ := h1
    obtain ⟨o2, rfl, p2⟩ := h2
    exact ⟨o2, rfl, p1.trans p2⟩

/-- tokens of a grant list that count against a limit: all of them if the granting object is limited -/
def limitedTotal (c : NObj) (gs : List (Nat × Nat)) : Nat :=
  match c with
  | .unlimited _ _ => 0
  | .limited _ => (gs.map (·.2)).sum

theorem limitedTotal_nil (c : NObj) : limitedTotal c [] = 0 := by cases c <;> simp [limitedTotal]

theorem limitedTotal_cons (c : NObj) (g : Nat × Nat) (gs : List (Nat × Nat)) :
    limitedTotal c (g :: gs) = limitedTotal c [g] + limitedTotal c gs := by
  cases c <;> simp [limitedTotal]

theorem limitedTotal_append (c : NObj) (gs hs : List (Nat × Nat)) :
    limitedTotal c (gs ++ hs) = limitedTotal c gs + limitedTotal c hs := by
  cases c <;> simp [limitedTotal]

/-- is the object limited? (kind never changes) -/
def NObj.isLimited : NObj → Bool
  | .unlimited _ _ => false
  | .limited _ => true

theorem Evolves.kind {t : Nat} {c c' : NObj} {G G' : Nat} (h : Evolves t c G c' G') : c'.isLimited = c.isLimited := by
  cases c with
  | unlimited b l => obtain ⟨rfl, _⟩ := h; rfl
  | limited o => obtain ⟨o', rfl, _⟩ := h; rfl

theorem limitedTotal_kind {c c' : NObj} (h : c'.isLimited = c.isLimited) (gs : List (Nat × Nat)) :
    limitedTotal c' gs = limitedTotal c gs := by
  cases c <;> cases c' <;> simp_all [limitedTotal, NObj.isLimited]

/-- a request entering the current object -/
theorem enterCur_evolves (p now : Nat) (c : NObj) (G : Nat) :
    Evolves now c G (enterCur p now c).1
      (G + limitedTotal c (fateGrants p (enterCur p now c).2)) := by
  cases c with
  | unlimited b l => exact ⟨rfl, by simp [limitedTotal]⟩
  | limited o =>
    simp only [enterCur]
    cases hh : o.holder with
    | some h => exact ⟨_, rfl, by simpa [limitedTotal] using (PolledAt.refl : PolledAt now o.lim G o.lim G)⟩
    | none =>
      simp only []
      by_cases hz : (Rate.poll o.lim now).2 = 0
      · simp only [hz, if_true]
        refine ⟨_, rfl, ?_⟩
        have := PolledAt.step (PolledAt.refl : PolledAt now o.lim G o.lim G)
        simpa [limitedTotal, hz] using this
      · simp only [hz, if_false]
        refine ⟨_, rfl, ?_⟩
        have := PolledAt.step (PolledAt.refl : PolledAt now o.lim G o.lim G)
        simpa [limitedTotal] using this

/-- a request entering the chain either stops at a replaced object (the current one is untouched) or enters the
current object -/
theorem enterChain_cur (p now : Nat) : ∀ (olds : List NObj) (cur : NObj),
    ((enterChain p now olds cur).2.1 = cur ∧ (enterChain p now olds cur).2.2 = .queued) ∨
    ((enterChain p now olds cur).2.1 = (enterCur p now cur).1 ∧ (enterChain p now olds cur).2.2 = (enterCur p now cur).2)
  | [], cur => by right; simp [enterChain]
  | .unlimited b l :: rest, cur => by simpa [enterChain] using enterChain_cur p now rest cur
  | .limited o :: rest, cur => by
    simp only [enterChain]
    cases hh : o.holder with
    | some h => left; simp
    | none => simpa using enterChain_cur p now rest cur

theorem enterChain_evolves (p now : Nat) (olds : List NObj) (cur : NObj) (G : Nat) :
    Evolves now cur G (enterChain p now olds cur).2.1
      (G + limitedTotal cur (fateGrants p (enterChain p now olds cur).2.2)) := by
  rcases enterChain_cur p now olds cur with ⟨h1, h2⟩ | ⟨h1, h2⟩
  · rw [h1, h2]; simpa [limitedTotal_nil] using Evolves.rfl' now cur G
  · rw [h1, h2]; exact enterCur_evolves p now cur G

theorem enterAll_evolves (now : Nat) : ∀ (ps : List Nat) (olds : List NObj) (cur : NObj) (G : Nat),
    Evolves now cur G (enterAll now ps olds cur).2.1 (G + limitedTotal cur (enterAll now ps olds cur).2.2)
  | [], olds, cur, G => by simpa [enterAll, limitedTotal_nil] using Evolves.rfl' now cur G
  | p :: ps, olds, cur, G => by
    have h1 := enterChain_evolves p now olds cur G
    have hk := h1.kind
    have h2 := enterAll_evolves now ps (enterChain p now olds cur).1 (enterChain p now olds cur).2.1
      (G + limitedTotal cur (fateGrants p (enterChain p now olds cur).2.2))
    rw [limitedTotal_kind hk] at h2
    have h := h1.trans h2
    simp only [enterAll]
    cases hf : (enterChain p now olds cur).2.2 with
    | granted n =>
      simp only [hf, fateGrants_granted] at h ⊢
      rw [limitedTotal_cons, ← Nat.add_assoc]
      exact h
    | asleep => simp only [hf, fateGrants_asleep, limitedTotal_nil, Nat.add_zero] at h ⊢; exact h
    | queued => simp only [hf, fateGrants_queued, limitedTotal_nil, Nat.add_zero] at h ⊢; exact h

theorem cascade_polled (now : Nat) : ∀ (q : List Nat) (lim : Lim) (G : Nat),
    PolledAt now lim G (cascade lim now q).1.lim (G + (cascade lim now q).2.length * minBucket) ∧
    (cascade lim now q).1.lim.L = lim.L
  | [], lim, G => by simpa [cascade] using (PolledAt.refl : PolledAt now lim G lim G)
  | p :: rest, lim, G => by
    simp only [cascade]
    by_cases hz : (Rate.poll lim now).2 = 0
    · simp only [hz, if_true, List.length_nil, Nat.zero_mul, Nat.add_zero]
      have := PolledAt.step (PolledAt.refl : PolledAt now lim G lim G)
      rw [hz, Nat.add_zero] at this
      exact ⟨this, poll_L lim now⟩
    · simp only [hz, if_false, List.length_cons]
      have hg : (Rate.poll lim now).2 = minBucket := by
        have := poll_result lim now; omega
      have ih := cascade_polled now rest (Rate.poll lim now).1 (G + minBucket)
      refine ⟨?_, by rw [ih.2, poll_L]⟩
      apply PolledAt.head
      rw [hg]
      have : G + ((cascade (Rate.poll lim now).1 now rest).2.length + 1) * minBucket
          = G + minBucket + (cascade (Rate.poll lim now).1 now rest).2.length * minBucket := by
        rw [Nat.add_mul, Nat.one_mul]; omega
      rw [this]
      exact ih.1

theorem holderPoll_polled (o : LObj) (now G : Nat) :
    PolledAt now o.lim G (o.holderPoll now).1.lim (G + (o.holderPoll now).2.length * minBucket) := by
  unfold LObj.holderPoll
  cases hh : o.holder with
  | none => simpa using (PolledAt.refl : PolledAt now o.lim G o.lim G)
  | some h =>
    simp only []
    by_cases hz : (Rate.poll o.lim now).2 = 0
    · simp only [hz, if_true, List.length_nil, Nat.zero_mul, Nat.add_zero]
      have := PolledAt.step (PolledAt.refl : PolledAt now o.lim G o.lim G)
      rw [hz, Nat.add_zero] at this
      exact this
    · simp only [hz, if_false, List.length_cons]
      have hg : (Rate.poll o.lim now).2 = minBucket := by
        have := poll_result o.lim now; omega
      have ih := (cascade_polled now o.queue (Rate.poll o.lim now).1 (G + minBucket)).1
      apply PolledAt.head
      rw [hg]
      have : G + ((cascade (Rate.poll o.lim now).1 now o.queue).2.length + 1) * minBucket
          = G + minBucket + (cascade (Rate.poll o.lim now).1 now o.queue).2.length * minBucket := by
        rw [Nat.add_mul, Nat.one_mul]; omega
      rw [this]
      exact ih

theorem sum_const_pairs (xs : List Nat) (q : Nat) : ((xs.map (·, q)).map (·.2)).sum = xs.length * q := by
  induction xs with
  | nil => simp
  | cons x xs ih => simp only [List.map_cons, List.sum_cons, List.length_cons, ih, Nat.add_mul, Nat.one_mul]; omega

theorem wakeCur_evolves (now : Nat) (c : NObj) (G : Nat) :
    Evolves now c G (wakeCur now c).1 (G + limitedTotal c (wakeCur now c).2) := by
  cases c with
  | unlimited b l => exact ⟨rfl, by simp [wakeCur, limitedTotal]⟩
  | limited o =>
    refine ⟨(o.holderPoll now).1, rfl, ?_⟩
    have := holderPoll_polled o now G
    have hs : limitedTotal (.limited o) (wakeCur now (.limited o)).2 = (o.holderPoll now).2.length * minBucket := by
      show (((o.holderPoll now).2.map (·, minBucket)).map (·.2)).sum = _
      exact sum_const_pairs _ _
    rw [hs]
    exact this

theorem wakeOld_evolves (now i : Nat) (olds : List NObj) (cur : NObj) (G : Nat) :
    Evolves now cur G (wakeOld now i olds cur).2.1 (G + limitedTotal cur (wakeOld now i olds cur).2.2) := by
  unfold wakeOld
  split
  · exact enterAll_evolves now _ _ cur G
  · simpa [limitedTotal_nil] using Evolves.rfl' now cur G

/-- one `poll` step of the network: the current object evolves by polls at the new clock reading -/
theorem netPoll_evolves (n : Net) (pid dt G : Nat) :
    Evolves (n.now + dt) n.cur G (n.poll pid dt).1.cur (G + limitedTotal n.cur (n.poll pid dt).2) ∧
    (n.poll pid dt).1.now = n.now + dt := by
  unfold Net.poll
  cases hf : findPending pid n.objs 0 with
  | none =>
    simp only []
    exact ⟨enterCur_evolves pid (n.now + dt) n.cur G, trivial⟩
  | some ib =>
    obtain ⟨i, b⟩ := ib
    cases b with
    | false =>
      simp only []
      exact ⟨by simpa [limitedTotal_nil] using Evolves.rfl' (n.now + dt) n.cur G, trivial⟩
    | true =>
      simp only []
      split
      · exact ⟨wakeOld_evolves (n.now + dt) i n.olds n.cur G, rfl⟩
      · exact ⟨wakeCur_evolves (n.now + dt) n.cur G, rfl⟩

/-! #### runs of the whole network -/

inductive NOp
  | poll (pid dt : Nat)        -- clock += dt, poller `pid` is stepped
  | setLimit (kbps : Nat)
deriving Repr

structure NRun where
  net : Net
  granted : Nat                -- ghost: tokens granted while a limit was in force, all connections together

def nstep (s : NRun) : NOp → NRun
  | .poll pid dt =>
    let r := s.net.poll pid dt
    { net := r.1, granted := s.granted + limitedTotal s.net.cur r.2 }
  | .setLimit k => { s with net := s.net.setLimit k }

def nrun (s : NRun) (ops : List NOp) : NRun := ops.foldl nstep s

def nelapsed : List NOp → Nat
  | [] => 0
  | .poll _ dt :: r => dt + nelapsed r
  | .setLimit _ :: r => nelapsed r

def nchanges : List NOp → Nat
  | [] => 0
  | .poll _ _ :: r => nchanges r
  | .setLimit _ :: r => 1 + nchanges r

def NLimitsWithin (Lmax : Nat) : List NOp → Prop
  | [] => True
  | .poll _ _ :: r => NLimitsWithin Lmax r
  | .setLimit k :: r => k * bytesPerKb ≤ Lmax ∧ NLimitsWithin Lmax r

theorem phiL_mono_time (Lmax : Nat) (lim : Limiter) (now dt G : Nat) (hwf : lim.WF now Lmax) :
    lim.WF (now + dt) Lmax ∧ phiL Lmax lim (now + dt) G ≤ phiL Lmax lim now G + Lmax * dt := by
  cases lim with
  | limited l =>
    exact ⟨⟨⟨hwf.1.1, by have := hwf.1.2.1; omega, hwf.1.2.2⟩, hwf.2⟩, phi_mono_time Lmax l now dt G hwf.1.2.1⟩
  | unlimited b last =>
    have hl : last ≤ now := hwf
    have htime : Lmax * (now + dt - last) = Lmax * (now - last) + Lmax * dt := by
      rw [← Nat.mul_add]; congr 1; omega
    refine ⟨?_, ?_⟩
    · show last ≤ now + dt; omega
    · unfold phiL; dsimp only; rw [htime]; omega

/-- the accounting invariant for one step of the network -/
theorem nstep_phi (Lmax : Nat) (s : NRun) (op : NOp) (hwf : s.net.cur.limiter.WF s.net.now Lmax)
    (hop : NLimitsWithin Lmax [op]) :
    (nstep s op).net.cur.limiter.WF (nstep s op).net.now Lmax ∧
    (nstep s op).net.now = s.net.now + nelapsed [op] ∧ s.granted ≤ (nstep s op).granted ∧
    phiL Lmax (nstep s op).net.cur.limiter (nstep s op).net.now (nstep s op).granted
      ≤ phiL Lmax s.net.cur.limiter s.net.now s.granted + Lmax * nelapsed [op] + 1024 * minBucket * nchanges [op] := by
  cases op with
  | poll pid dt =>
    obtain ⟨hev, hnow⟩ := netPoll_evolves s.net pid dt s.granted
    simp only [nstep, nelapsed, nchanges, Nat.add_zero, Nat.mul_zero]
    rw [hnow]
    cases hc : s.net.cur with
    | unlimited b l =>
      rw [hc] at hev hwf
      obtain ⟨h1, h2⟩ := hev
      rw [h1]
      simp only [limitedTotal, Nat.add_zero, NObj.limiter]
      have := phiL_mono_time Lmax (.unlimited b l) s.net.now dt s.granted hwf
      exact ⟨this.1, trivial, Nat.le_refl _, this.2⟩
    | limited o =>
      rw [hc] at hev hwf
      obtain ⟨o', h1, h2⟩ := hev
      rw [h1]
      simp only [NObj.limiter] at hwf ⊢
      obtain ⟨w, e, g, p⟩ := polledAt_phi Lmax h2 hwf.1 hwf.2
      exact ⟨⟨w, by rw [e]; exact hwf.2⟩, trivial, g, p⟩
  | setLimit k =>
    have hkL : k * bytesPerKb ≤ Lmax := hop.1
    have h := step_phi Lmax s.net.cur.limiter s.net.now s.granted (.setLimit k) hwf ⟨hkL, trivial⟩
    simp only [step, elapsed, changes, Nat.add_zero, Nat.mul_zero, Nat.mul_one] at h
    have hcur : (s.net.setLimit k).cur.limiter = setLimit s.net.cur.limiter k := by
      unfold Net.setLimit
      cases setLimit s.net.cur.limiter k <;> rfl
    simp only [nstep, nelapsed, nchanges, Nat.add_zero, Nat.mul_zero, Nat.mul_one]
    rw [hcur]
    have hnow : (s.net.setLimit k).now = s.net.now := rfl
    rw [hnow]
    exact ⟨h.1, rfl, Nat.le_refl _, h.2.2⟩

theorem nelapsed_cons (op : NOp) (r : List NOp) : nelapsed (op :: r) = nelapsed [op] + nelapsed r := by
  cases op <;> simp [nelapsed]

theorem nchanges_cons (op : NOp) (r : List NOp) : nchanges (op :: r) = nchanges [op] + nchanges r := by
  cases op <;> simp [nchanges]

theorem nlimitsWithin_cons (Lmax : Nat) (op : NOp) (r : List NOp) :
    NLimitsWithin Lmax (op :: r) ↔ NLimitsWithin Lmax [op] ∧ NLimitsWithin Lmax r := by
  cases op <;> simp [NLimitsWithin]

theorem nrun_phi (Lmax : Nat) : ∀ (ops : List NOp) (s : NRun),
    s.net.cur.limiter.WF s.net.now Lmax → NLimitsWithin Lmax ops →
    s.granted ≤ (nrun s ops).granted ∧
    phiL Lmax (nrun s ops).net.cur.limiter (s.net.now + nelapsed ops) (nrun s ops).granted
      ≤ phiL Lmax s.net.cur.limiter s.net.now s.granted + Lmax * nelapsed ops + 1024 * minBucket * nchanges ops ∧
    (nrun s ops).net.now = s.net.now + nelapsed ops
  | [], s, _, _ => by simp [nrun, nelapsed, nchanges]
  | op :: r, s, hwf, hops => by
    rw [nlimitsWithin_cons] at hops
    obtain ⟨h1, h2, h3, h4⟩ := nstep_phi Lmax s op hwf hops.1
    obtain ⟨i1, i2, i3⟩ := nrun_phi Lmax r (nstep s op) h1 hops.2
    have hrun : nrun s (op :: r) = nrun (nstep s op) r := by simp [nrun]
    have he : nelapsed (op :: r) = nelapsed [op] + nelapsed r := nelapsed_cons op r
    have hc : nchanges (op :: r) = nchanges [op] + nchanges r := nchanges_cons op r
    rw [hrun, he, hc]
    rw [h2] at i2 i3 h4
    have ha : s.net.now + (nelapsed [op] + nelapsed r) = s.net.now + nelapsed [op] + nelapsed r := by omega
    rw [ha]
    refine ⟨by omega, ?_, i3⟩
    rw [Nat.mul_add, Nat.mul_add]
    omega

end AioslskVerif.Rate

namespace AioslskVerif.Rate
open AioslskVerif.Generated.Rate

/-! ### Bounded wait behind the FIFO lock

A request that has `j` requests ahead of it (lock holder included) is served within `16·(j+1)` wake-ups of the successive
lock holders, provided every holder really sleeps at least 10 ticks (< `INTERVAL`) between two polls. Potential:
`16·(requests ahead) + rem`, where `rem` bounds the number of further empty polls of the current holder (each credits at
least 8 tokens and the bucket stays below one quantum while polls are empty). -/

/-- how many more empty polls (≥ 8 tokens each) fit below one quantum -/
def rem (l : Lim) : Nat := (135 - l.bucket) / 8

/-- every wake-up comes at least 10 ticks after the previous poll of that holder -/
def Disciplined : List LOp → Prop
  | [] => True
  | .wake dt :: r => 10 ≤ dt ∧ Disciplined r
  | .arrive _ _ :: r => Disciplined r

def wakes : List LOp → Nat
  | [] => 0
  | .wake _ :: r => 1 + wakes r
  | .arrive _ _ :: r => wakes r

/-- invariant of a limited limiter object between two steps -/
def LInv (s : LockRun) : Prop :=
  s.o.Tidy ∧ s.o.lim.WF s.now ∧ 1024 ≤ s.o.lim.L ∧ (s.o.holder ≠ none → s.o.lim.bucket < 128)

theorem poll_wf (l : Lim) (now dt : Nat) (hwf : l.WF now) : (poll l (now + dt)).1.WF (now + dt) :=
  (poll_step l.L l now dt 0 hwf (Nat.le_refl _)).1

theorem poll_zero_bucket (l : Lim) (t : Nat) (hz : (poll l t).2 = 0) : (poll l t).1.bucket < 128 := by
  have hq : minBucket = 128 := rfl
  simp only [poll] at hz ⊢
  split at hz
  · rename_i h
    have := refill_snd l t h
    simp only [h, if_true]; omega
  · simp [hq] at hz

theorem cascade_inv (now : Nat) : ∀ (q : List Nat) (lim : Lim), lim.WF now →
    (cascade lim now q).1.lim.WF now ∧ ((cascade lim now q).1.holder ≠ none → (cascade lim now q).1.lim.bucket < 128)
  | [], lim, hwf => by simp [cascade]; exact hwf
  | p :: rest, lim, hwf => by
    have hw : (Rate.poll lim now).1.WF now := by simpa using poll_wf lim now 0 hwf
    simp only [cascade]
    by_cases hz : (Rate.poll lim now).2 = 0
    · simp only [hz, if_true]
      exact ⟨hw, fun _ => poll_zero_bucket lim now hz⟩
    · simp only [hz, if_false]
      exact cascade_inv now rest _ hw

theorem served_mono : ∀ (ops : List LOp) (s : LockRun), s.served.length ≤ (lrun s ops).served.length
  | [], s => by simp [lrun]
  | op :: r, s => by
    have ih := served_mono r (lstep s op)
    have hr : lrun s (op :: r) = lrun (lstep s op) r := by simp [lrun]
    rw [hr]
    cases op <;> simp only [lstep, List.length_append] at ih ⊢ <;> omega

theorem rem_le (l : Lim) : rem l ≤ 16 := by unfold rem; omega

/-- an arrival while the lock is held: queue grows, nothing else moves -/
theorem arrive_held (s : LockRun) (p dt h : Nat) (hh : s.o.holder = some h) (hi : LInv s) :
    (lstep s (.arrive p dt)).served = s.served ∧ (lstep s (.arrive p dt)).o.lim = s.o.lim ∧
    (lstep s (.arrive p dt)).arrivals = s.arrivals ++ [p] ∧ LInv (lstep s (.arrive p dt)) ∧
    waitingList (lstep s (.arrive p dt)).o = waitingList s.o ++ [p] := by
  obtain ⟨ht, hwf, hL, hb⟩ := hi
  simp only [lstep, LObj.arrive, hh, List.append_nil]
  refine ⟨trivial, trivial, trivial, ⟨?_, ?_, hL, ?_⟩, ?_⟩
  · intro hn; simp [hh] at hn
  · exact ⟨hwf.1, by show s.o.lim.last ≤ s.now + dt; have := hwf.2.1; omega, hwf.2.2⟩
  · intro _; exact hb (by simp [hh])
  · simp [waitingList, hh]

/-- a disciplined wake-up of the holder: either somebody is served, or the bucket gained at least 8 tokens -/
theorem wake_progress (s : LockRun) (dt h : Nat) (hh : s.o.holder = some h) (hi : LInv s) (hd : 10 ≤ dt) :
    LInv (lstep s (.wake dt)) ∧ (lstep s (.wake dt)).arrivals = s.arrivals ∧
    (lstep s (.wake dt)).served ++ waitingList (lstep s (.wake dt)).o = s.served ++ waitingList s.o ∧
    (s.served.length < (lstep s (.wake dt)).served.length ∨
      ((lstep s (.wake dt)).served = s.served ∧ rem (lstep s (.wake dt)).o.lim + 1 ≤ rem s.o.lim ∧
        (lstep s (.wake dt)).o.holder = some h)) := by
  obtain ⟨ht, hwf, hL, hb⟩ := hi
  have hq : minBucket = 128 := rfl
  have hb' : s.o.lim.bucket < 128 := hb (by simp [hh])
  have hspec := holderPoll_spec s.o (s.now + dt) ht
  have hw : (Rate.poll s.o.lim (s.now + dt)).1.WF (s.now + dt) := poll_wf s.o.lim s.now dt hwf
  have hLL : (Rate.poll s.o.lim (s.now + dt)).1.L = s.o.lim.L := poll_L _ _
  simp only [lstep]
  refine ⟨?_, trivial, by rw [List.append_assoc, hspec.1], ?_⟩
  · -- invariant
    refine ⟨hspec.2, ?_⟩
    unfold LObj.holderPoll
    simp only [hh]
    by_cases hz : (Rate.poll s.o.lim (s.now + dt)).2 = 0
    · simp only [hz, if_true]
      exact ⟨hw, by omega, fun _ => poll_zero_bucket _ _ hz⟩
    · simp only [hz, if_false]
      have c := cascade_inv (s.now + dt) s.o.queue _ hw
      have cL := (cascade_polled (s.now + dt) s.o.queue (Rate.poll s.o.lim (s.now + dt)).1 0).2
      exact ⟨c.1, by omega, c.2⟩
  · unfold LObj.holderPoll
    simp only [hh]
    by_cases hz : (Rate.poll s.o.lim (s.now + dt)).2 = 0
    · right
      simp only [hz, if_true, List.append_nil]
      refine ⟨trivial, ?_, trivial⟩
      -- the poll was an empty one: it credited at least 8 tokens
      have hlt : s.o.lim.bucket < s.o.lim.L := by omega
      by_cases hemp : s.o.lim.bucket + credit s.o.lim (s.now + dt) < minBucket
      · have hp := poll_empty s.o.lim (s.now + dt) hlt hemp
        have hc := credit_ge s.o.lim (s.now + dt) dt hL hb' hd (by have := hwf.2.1; omega)
        rw [hp]
        unfold rem
        dsimp only
        omega
      · rw [poll_grant s.o.lim _ hlt hemp] at hz; simp [hq] at hz
    · left
      simp only [hz, if_false, List.length_append, List.length_cons]
      omega

theorem disciplined_cons (op : LOp) (r : List LOp) (h : Disciplined (op :: r)) : Disciplined r := by
  cases op with
  | arrive p dt => exact h
  | wake dt => exact h.2

/-- the potential argument -/
theorem bounded_wait_aux (idx : Nat) : ∀ (ops : List LOp) (s : LockRun), LInv s →
    s.served ++ waitingList s.o = s.arrivals → s.served.length ≤ idx → idx < s.arrivals.length →
    Disciplined ops → 16 * (idx - s.served.length) + rem s.o.lim ≤ wakes ops →
    idx < (lrun s ops).served.length
  | [], s, hi, hf, h1, h2, _, hw => by
    -- somebody waits, so the lock is held and the bucket is below one quantum: rem ≥ 1 > 0 = wakes []
    exfalso
    have hne : waitingList s.o ≠ [] := by
      intro he; rw [he, List.append_nil] at hf; rw [← hf] at h2; omega
    have hh : s.o.holder ≠ none := by
      intro hn
      have := hi.1 hn
      simp [waitingList, hn, this] at hne
    have hb := hi.2.2.2 hh
    simp only [wakes] at hw
    unfold rem at hw
    omega
  | op :: r, s, hi, hf, h1, h2, hd, hw => by
    have hne : waitingList s.o ≠ [] := by
      intro he; rw [he, List.append_nil] at hf; rw [← hf] at h2; omega
    have hh : s.o.holder ≠ none := by
      intro hn
      have := hi.1 hn
      simp [waitingList, hn, this] at hne
    obtain ⟨h, hh⟩ := Option.ne_none_iff_exists'.mp hh
    have hb : s.o.lim.bucket < 128 := hi.2.2.2 (by simp [hh])
    have hrem : 1 ≤ rem s.o.lim := by unfold rem; omega
    have hr : lrun s (op :: r) = lrun (lstep s op) r := by simp [lrun]
    rw [hr]
    cases op with
    | arrive p dt =>
      obtain ⟨a1, a2, a3, a4, a5⟩ := arrive_held s p dt h hh hi
      apply bounded_wait_aux idx r (lstep s (.arrive p dt)) a4
      · rw [a1, a5, a3, ← List.append_assoc, hf]
      · rw [a1]; exact h1
      · rw [a3, List.length_append]; omega
      · exact disciplined_cons _ _ hd
      · rw [a1, a2]; simpa [wakes] using hw
    | wake dt =>
      have hd10 : 10 ≤ dt := hd.1
      obtain ⟨w1, w2, w3, w4⟩ := wake_progress s dt h hh hi hd10
      simp only [wakes] at hw
      by_cases hserved : idx < (lstep s (.wake dt)).served.length
      · exact Nat.lt_of_lt_of_le hserved (served_mono r _)
      · apply bounded_wait_aux idx r (lstep s (.wake dt)) w1
        · rw [w3, w2]; exact hf
        · omega
        · rw [w2]; exact h2
        · exact hd.2
        · rcases w4 with hlen | ⟨hs, hrem', _⟩
          · have := rem_le (lstep s (.wake dt)).o.lim
            omega
          · rw [hs]; omega

end AioslskVerif.Rate

namespace AioslskVerif.Rate
open AioslskVerif.Generated.Rate

/-! ### No request is lost or duplicated in the network of limiter objects

`pendingAll`: every request that holds or waits for the lock of some limiter object, replaced objects first. Over any
history, the requests granted so far together with the pending ones are a permutation of the requests made. -/

def NObj.waiting : NObj → List Nat
  | .unlimited _ _ => []
  | .limited o => waitingList o

def pendingAll (olds : List NObj) (cur : NObj) : List Nat := olds.flatMap NObj.waiting ++ cur.waiting

def fateServed (p : Nat) : Fate → List Nat
  | .granted _ => [p]
  | _ => []

theorem enterCur_perm (p now : Nat) (c : NObj) :
    (fateServed p (enterCur p now c).2 ++ (enterCur p now c).1.waiting).Perm (c.waiting ++ [p]) := by
  cases c with
  | unlimited b l => simp [enterCur, fateServed, NObj.waiting]
  | limited o =>
    simp only [enterCur]
    cases hh : o.holder with
    | some h => simp [fateServed, NObj.waiting, waitingList, hh]
    | none =>
      simp only []
      by_cases hz : (Rate.poll o.lim now).2 = 0
      · simp only [hz, if_true, fateServed, NObj.waiting, waitingList, hh, Option.toList_some, Option.toList_none,
          List.nil_append, List.singleton_append]
        exact (List.perm_append_comm (l₁ := [p]) (l₂ := o.queue))
      · simp only [hz, if_false, fateServed, NObj.waiting, waitingList, hh, Option.toList_none, List.nil_append,
          List.singleton_append]
        exact (List.perm_append_comm (l₁ := [p]) (l₂ := o.queue))

theorem waiting_limited (o : LObj) : (NObj.limited o).waiting = waitingList o := rfl
theorem waiting_unlimited (b l : Nat) : (NObj.unlimited b l).waiting = [] := rfl

theorem perm_swap_head (A B C : List Nat) : (A ++ (B ++ C)).Perm (B ++ (A ++ C)) := by
  rw [← List.append_assoc, ← List.append_assoc]
  exact List.Perm.append_right _ List.perm_append_comm

theorem enterChain_perm (p now : Nat) : ∀ (olds : List NObj) (cur : NObj),
    (fateServed p (enterChain p now olds cur).2.2 ++
        pendingAll (enterChain p now olds cur).1 (enterChain p now olds cur).2.1).Perm (pendingAll olds cur ++ [p])
  | [], cur => by simpa [enterChain, pendingAll] using enterCur_perm p now cur
  | .unlimited b l :: rest, cur => by
    have ih := enterChain_perm p now rest cur
    simpa [enterChain, pendingAll, waiting_unlimited] using ih
  | .limited o :: rest, cur => by
    simp only [enterChain]
    cases hh : o.holder with
    | some h =>
      simp only [fateServed, pendingAll, List.flatMap_cons, waiting_limited, List.nil_append]
      have hw : waitingList { lim := o.lim, holder := some h, queue := o.queue ++ [p] } = waitingList o ++ [p] := by
        simp [waitingList, hh]
      rw [hw]
      simp only [List.append_assoc]
      apply List.Perm.append_left
      -- [p] ++ (rest… ++ cur…) ~ rest… ++ (cur… ++ [p])
      have := List.perm_append_comm (l₁ := [p]) (l₂ := rest.flatMap NObj.waiting ++ cur.waiting)
      simpa only [List.append_assoc] using this
    | none =>
      have ih := enterChain_perm p now rest cur
      simp only [pendingAll, List.flatMap_cons, List.append_assoc] at ih ⊢
      exact (perm_swap_head _ _ _).trans (List.Perm.append_left _ ih)

theorem enterAll_perm (now : Nat) : ∀ (ps : List Nat) (olds : List NObj) (cur : NObj),
    ((enterAll now ps olds cur).2.2.map (·.1) ++
        pendingAll (enterAll now ps olds cur).1 (enterAll now ps olds cur).2.1).Perm (pendingAll olds cur ++ ps)
  | [], olds, cur => by simp [enterAll]
  | p :: ps, olds, cur => by
    have h1 := enterChain_perm p now olds cur
    have h2 := enterAll_perm now ps (enterChain p now olds cur).1 (enterChain p now olds cur).2.1
    -- goal: served(p) ++ servedRest ++ pending'' ~ pending ++ p :: ps
    have hgoal : (fateServed p (enterChain p now olds cur).2.2 ++
        ((enterAll now ps (enterChain p now olds cur).1 (enterChain p now olds cur).2.1).2.2.map (·.1) ++
          pendingAll (enterAll now ps (enterChain p now olds cur).1 (enterChain p now olds cur).2.1).1
            (enterAll now ps (enterChain p now olds cur).1 (enterChain p now olds cur).2.1).2.1)).Perm
        (pendingAll olds cur ++ p :: ps) := by
      refine (List.Perm.append_left _ h2).trans ?_
      rw [← List.append_assoc]
      refine (List.Perm.append_right ps h1).trans ?_
      simp [List.append_assoc]
    simp only [enterAll]
    cases hf : (enterChain p now olds cur).2.2 with
    | granted n => simpa [hf, fateServed] using hgoal
    | asleep => simpa [hf, fateServed] using hgoal
    | queued => simpa [hf, fateServed] using hgoal

theorem holderPoll_waiting (o : LObj) (now : Nat) :
    (o.holderPoll now).2 ++ waitingList (o.holderPoll now).1 = waitingList o := by
  unfold LObj.holderPoll
  cases hh : o.holder with
  | none => simp
  | some h =>
    simp only []
    split
    · simp [waitingList, hh]
    · have c := (cascade_spec now o.queue (Rate.poll o.lim now).1).1
      simp only [List.cons_append, c]
      simp [waitingList, hh]

theorem wakeCur_perm (now : Nat) (c : NObj) :
    ((wakeCur now c).2.map (·.1) ++ (wakeCur now c).1.waiting).Perm c.waiting := by
  cases c with
  | unlimited b l => simp [wakeCur]
  | limited o =>
    have h := holderPoll_waiting o now
    have hm : ((o.holderPoll now).2.map (·, minBucket)).map (·.1) = (o.holderPoll now).2 := by
      simp [List.map_map, Function.comp_def]
    show ((((o.holderPoll now).2.map (·, minBucket)).map (·.1)) ++ waitingList (o.holderPoll now).1).Perm (waitingList o)
    rw [hm, h]

theorem split_at_getElem? : ∀ (l : List NObj) (i : Nat) (x : NObj), l[i]? = some x →
    l = l.take i ++ x :: l.drop (i + 1)
  | [], i, x, h => by simp at h
  | y :: l, 0, x, h => by simp at h; simp [h]
  | y :: l, i + 1, x, h => by
    have ih := split_at_getElem? l i x (by simpa using h)
    simp only [List.take_succ_cons, List.drop_succ_cons, List.cons_append]
    rw [← ih]

theorem wakeOld_perm (now i : Nat) (olds : List NObj) (cur : NObj) :
    ((wakeOld now i olds cur).2.2.map (·.1) ++ pendingAll (wakeOld now i olds cur).1 (wakeOld now i olds cur).2.1).Perm
      (pendingAll olds cur) := by
  cases ho : olds[i]? with
  | none => simp [wakeOld, ho]
  | some x =>
    cases x with
    | unlimited b l => simp [wakeOld, ho]
    | limited o =>
      have hsplit := split_at_getElem? olds i (.limited o) ho
      have he := enterAll_perm now (o.holder.toList ++ o.queue) (olds.drop (i + 1)) cur
      simp only [wakeOld, ho]
      generalize enterAll now (o.holder.toList ++ o.queue) (olds.drop (i + 1)) cur = r at he ⊢
      have hold : pendingAll olds cur =
          (olds.take i).flatMap NObj.waiting ++ (waitingList o ++ pendingAll (olds.drop (i + 1)) cur) := by
        conv => lhs; rw [hsplit]
        simp [pendingAll, List.flatMap_append, List.flatMap_cons, waiting_limited, List.append_assoc]
      have hnew : pendingAll (olds.take i ++ [.limited { o with holder := none, queue := [] }] ++ r.1) r.2.1 =
          (olds.take i).flatMap NObj.waiting ++ pendingAll r.1 r.2.1 := by
        simp [pendingAll, List.flatMap_append, waiting_limited, waitingList, List.append_assoc]
      rw [hold, hnew]
      refine (perm_swap_head _ _ _).trans (List.Perm.append_left _ ?_)
      refine he.trans ?_
      exact List.perm_append_comm

/-! #### runs with the order of arrival and of service as ghost lists -/

structure NGhost where
  net : Net
  arrivals : List Nat        -- ghost: pollers in the order of their `take_tokens()` calls
  served : List Nat          -- ghost: pollers in the order in which they were granted tokens

def gstep (s : NGhost) : NOp → NGhost
  | .poll pid dt =>
    let r := s.net.poll pid dt
    { net := r.1,
      arrivals := if (findPending pid s.net.objs 0).isNone then s.arrivals ++ [pid] else s.arrivals,
      served := s.served ++ r.2.map (·.1) }
  | .setLimit k => { s with net := s.net.setLimit k }

def grun (s : NGhost) (ops : List NOp) : NGhost := ops.foldl gstep s

def NGhost.Inv (s : NGhost) : Prop := (s.served ++ pendingAll s.net.olds s.net.cur).Perm s.arrivals

theorem gstep_inv (s : NGhost) (op : NOp) (h : s.Inv) : (gstep s op).Inv := by
  unfold NGhost.Inv at h ⊢
  cases op with
  | setLimit k =>
    simp only [gstep, Net.setLimit]
    cases Rate.setLimit s.net.cur.limiter k <;>
      simpa [pendingAll, List.flatMap_append, waiting_limited, waiting_unlimited, waitingList] using h
  | poll pid dt =>
    simp only [gstep, Net.poll]
    cases hf : findPending pid s.net.objs 0 with
    | none =>
      simp only [Option.isNone_none, if_true]
      have he := enterCur_perm pid (s.net.now + dt) s.net.cur
      have hm : ∀ f : Fate, List.map (fun x : Nat × Nat => x.1) (fateGrants pid f) = fateServed pid f := by
        intro f; cases f <;> simp [fateServed, fateGrants]
      rw [hm]
      simp only [pendingAll] at h he ⊢
      -- served ++ fs ++ (olds… ++ cur'…) ~ arrivals ++ [pid]
      rw [List.append_assoc]
      refine (List.Perm.append_left _ (perm_swap_head _ _ _)).trans ?_
      refine (List.Perm.append_left _ (List.Perm.append_left _ he)).trans ?_
      rw [← List.append_assoc, ← List.append_assoc]
      exact List.Perm.append_right _ (by rw [List.append_assoc]; exact h)
    | some ib =>
      obtain ⟨i, b⟩ := ib
      cases b with
      | false => simpa using h
      | true =>
        simp only [Option.isNone_some, Bool.false_eq_true, if_false]
        split
        · have hw := wakeOld_perm (s.net.now + dt) i s.net.olds s.net.cur
          rw [List.append_assoc]
          exact (List.Perm.append_left _ hw).trans h
        · have hw := wakeCur_perm (s.net.now + dt) s.net.cur
          simp only [pendingAll] at h ⊢
          rw [List.append_assoc]
          refine (List.Perm.append_left _ (perm_swap_head _ _ _)).trans ?_
          exact (List.Perm.append_left _ (List.Perm.append_left _ hw)).trans h

theorem grun_inv : ∀ (ops : List NOp) (s : NGhost), s.Inv → (grun s ops).Inv
  | [], _, h => h
  | op :: r, s, h => by
    have hr : grun s (op :: r) = grun (gstep s op) r := by simp [grun]
    rw [hr]
    exact grun_inv r _ (gstep_inv s op h)

end AioslskVerif.Rate
