import AioslskVerif.Proofs.ConnBase
/-! The step table of `Proofs/ConnBase.lean` for connections of origin `back`, type F, by kernel evaluation. -/
namespace AioslskVerif.Conn

theorem table_back_F : tableFor .back true = true := by decide +kernel

end AioslskVerif.Conn
