import AioslskVerif.Model.Shares
/-! Helper lemmas for C07 (index side): the invariant of the index and its preservation. -/
set_option linter.unusedSectionVars false
namespace AioslskVerif.Shares

section
variable {C : Type} [DecidableEq C]

/-! ### sets as lists -/

theorem mem_dedup {α : Type} [DecidableEq α] (x : α) (l : List α) : x ∈ dedup l ↔ x ∈ l := by
  induction l with
  | nil => simp [dedup]
  | cons y l ih =>
    simp only [dedup]
    split
    · rename_i hy
      rw [ih]
      constructor
      · exact List.mem_cons_of_mem _
      · intro h
        rcases List.mem_cons.1 h with rfl | h
        · exact hy
        · exact h
    · simp [ih]

theorem nodup_dedup {α : Type} [DecidableEq α] (l : List α) : (dedup l).Nodup := by
  induction l with
  | nil => simp [dedup]
  | cons y l ih =>
    simp only [dedup]
    split
    · exact ih
    · rename_i hy
      rw [List.nodup_cons]
      exact ⟨by rwa [mem_dedup], ih⟩

theorem mem_setUnion {α : Type} [DecidableEq α] (a b : List α) (x : α) : x ∈ setUnion a b ↔ x ∈ a ∨ x ∈ b := by
  simp only [setUnion, List.mem_append, List.mem_filter, mem_dedup, decide_eq_true_eq]
  constructor
  · rintro (h | ⟨h, _⟩)
    · exact Or.inl h
    · exact Or.inr h
  · rintro (h | h)
    · exact Or.inl h
    · by_cases hx : x ∈ a
      · exact Or.inl hx
      · exact Or.inr ⟨h, hx⟩

theorem nodup_setUnion {α : Type} [DecidableEq α] (a b : List α) (ha : a.Nodup) : (setUnion a b).Nodup := by
  simp only [setUnion]
  rw [List.nodup_append]
  refine ⟨ha, (List.filter_sublist).nodup (nodup_dedup b), ?_⟩
  intro x hx y hy hxy
  subst hxy
  simp only [List.mem_filter, decide_eq_true_eq] at hy
  exact hy.2 hx

/-! ### innermost parent -/

theorem longest_none (l : List (List C)) (h : longest l = none) : l = [] := by
  cases l with
  | nil => rfl
  | cons p ps =>
    simp only [longest] at h
    split at h
    · simp at h
    · split at h <;> simp at h

theorem longest_some (l : List (List C)) (b : List C) (h : longest l = some b) :
    b ∈ l ∧ ∀ p ∈ l, p.length ≤ b.length := by
  induction l generalizing b with
  | nil => simp [longest] at h
  | cons p ps ih =>
    simp only [longest] at h
    split at h
    · rename_i hn
      have : ps = [] := longest_none ps hn
      subst this
      have : b = p := by simpa using h.symm
      subst this
      simp
    · rename_i b' hb'
      obtain ⟨hmem, hle⟩ := ih b' hb'
      split at h
      · rename_i hgt
        have : b = p := by simpa using h.symm
        subst this
        refine ⟨List.mem_cons_self, ?_⟩
        intro q hq
        rcases List.mem_cons.1 hq with rfl | hq
        · exact Nat.le_refl _
        · have := hle q hq; omega
      · rename_i hgt
        have : b = b' := by simpa using h.symm
        subst this
        refine ⟨List.mem_cons_of_mem _ hmem, ?_⟩
        intro q hq
        rcases List.mem_cons.1 hq with rfl | hq
        · omega
        · exact hle q hq

theorem innermostParent_some (paths : List (List C)) (d par : List C) (h : innermostParent paths d = some par) :
    par ∈ paths ∧ par ≠ d ∧ par <+: d ∧ ∀ p ∈ paths, p ≠ d → p <+: d → p <+: par := by
  obtain ⟨hmem, hle⟩ := longest_some _ _ h
  simp only [List.mem_filter, Bool.and_eq_true, decide_eq_true_eq, List.isPrefixOf_iff_prefix] at hmem hle
  refine ⟨hmem.1, hmem.2.1, hmem.2.2, ?_⟩
  intro p hp hne hpre
  exact List.prefix_of_prefix_length_le hpre hmem.2.2 (hle p ⟨hp, hne, hpre⟩)

theorem innermostParent_none (paths : List (List C)) (d : List C) (h : innermostParent paths d = none) :
    ∀ p ∈ paths, p ≠ d → ¬ p <+: d := by
  have := longest_none _ h
  intro p hp hne hpre
  have hm : p ∈ paths.filter (fun p => decide (p ≠ d) && p.isPrefixOf d) := by
    simp only [List.mem_filter, Bool.and_eq_true, decide_eq_true_eq, List.isPrefixOf_iff_prefix]
    exact ⟨hp, hne, hpre⟩
  rw [this] at hm
  simp at hm

theorem prefix_antisymm {a b : List C} (h1 : a <+: b) (h2 : b <+: a) : a = b :=
  h1.eq_of_length (Nat.le_antisymm h1.length_le h2.length_le)

/-- two prefixes of one list are comparable -/
theorem prefix_total {a b l : List C} (ha : a <+: l) (hb : b <+: l) : a <+: b ∨ b <+: a := by
  rcases Nat.le_total a.length b.length with h | h
  · exact Or.inl (List.prefix_of_prefix_length_le ha hb h)
  · exact Or.inr (List.prefix_of_prefix_length_le hb ha h)

theorem rebase_dir (target : List C) (it : Item C) (h : target <+: it.dir) : (rebase target it).dir = it.dir := by
  simp only [rebase, Item.dir]
  exact List.prefix_iff_eq_append.1 h

@[simp] theorem rebase_sd (target : List C) (it : Item C) : (rebase target it).sd = target := rfl

theorem sd_prefix_dir (it : Item C) : it.sd <+: it.dir := List.prefix_append _ _

/-! ### the invariant -/

structure Inv (s : St C) : Prop where
  paths_nodup : s.paths.Nodup
  owner : ∀ it ∈ s.items, it.sd ∈ s.paths
  innermost : ∀ it ∈ s.items, ∀ p ∈ s.paths, p <+: it.dir → p <+: it.sd
  items_nodup : s.items.Nodup
  tm_nodup : s.tm.Nodup
  tm_sync : ∀ it, it ∈ s.tm ↔ it ∈ s.items

theorem inv_init : Inv ({} : St C) :=
  ⟨by simp, by simp, by simp, by simp, by simp, by simp⟩

/-- `_build_term_map(d)` then `_cleanup_term_map()` re-establishes "term map = index" when every
new item belongs to `d`. -/
theorem tm_step (tm old items : List (Item C)) (d : List C) (hn : tm.Nodup) (hs : ∀ it, it ∈ tm ↔ it ∈ old)
    (hnew : ∀ it ∈ items, it ∈ old ∨ it.sd = d) :
    (tmCleanup (tmBuild tm items d) items).Nodup ∧
      ∀ it, it ∈ tmCleanup (tmBuild tm items d) items ↔ it ∈ items := by
  constructor
  · exact (List.filter_sublist).nodup (nodup_setUnion _ _ hn)
  · intro it
    simp only [tmCleanup, tmBuild, List.mem_filter, mem_setUnion, decide_eq_true_eq]
    constructor
    · exact fun h => h.2
    · intro h
      refine ⟨?_, h⟩
      rcases hnew it h with h1 | h1
      · exact Or.inl ((hs it).2 h1)
      · exact Or.inr ⟨h, h1⟩

theorem inv_add (s : St C) (p : List C) (h : Inv s) : Inv (add s p).1 := by
  unfold add
  split
  · exact h
  · rename_i hp
    split
    · rename_i hnone
      have hno := innermostParent_none _ _ hnone
      refine ⟨?_, ?_, ?_, h.items_nodup, h.tm_nodup, h.tm_sync⟩
      · rw [List.nodup_append]
        refine ⟨h.paths_nodup, by simp, ?_⟩
        intro a ha b hb hab
        simp only [List.mem_singleton] at hb
        subst hb; subst hab
        exact hp ha
      · intro it hit
        exact List.mem_append_left _ (h.owner it hit)
      · intro it hit q hq hpre
        rcases List.mem_append.1 hq with hq | hq
        · exact h.innermost it hit q hq hpre
        · simp only [List.mem_singleton] at hq
          subst hq
          rcases prefix_total hpre (sd_prefix_dir it) with h1 | h1
          · exact h1
          · have hsd := h.owner it hit
            have hne : it.sd ≠ q := fun e => hp (e ▸ hsd)
            exact absurd h1 (hno _ hsd hne)
    · rename_i par hsome
      obtain ⟨hpar, hparne, hparpre, hparmax⟩ := innermostParent_some _ _ _ hsome
      dsimp only
      have hmem : ∀ it, it ∈ setUnion (s.items.filter (fun it => !(decide (it.sd = par) && p.isPrefixOf it.dir)))
          ((s.items.filter (fun it => decide (it.sd = par) && p.isPrefixOf it.dir)).map (rebase p)) ↔
          (it ∈ s.items ∧ ¬ (it.sd = par ∧ p <+: it.dir)) ∨
            ∃ it0 ∈ s.items, it0.sd = par ∧ p <+: it0.dir ∧ rebase p it0 = it := by
        intro it
        simp only [mem_setUnion, List.mem_filter, List.mem_map, Bool.not_eq_true', Bool.and_eq_true,
          decide_eq_true_eq, List.isPrefixOf_iff_prefix, ← Bool.not_eq_true]
        constructor
        · rintro (⟨h1, h2⟩ | ⟨it0, ⟨h1, h2, h3⟩, h4⟩)
          · left; exact ⟨h1, h2⟩
          · right; exact ⟨it0, h1, h2, h3, h4⟩
        · rintro (⟨h1, h2⟩ | ⟨it0, h1, h2, h3, h4⟩)
          · left; exact ⟨h1, h2⟩
          · right; exact ⟨it0, ⟨h1, h2, h3⟩, h4⟩
      have htm := tm_step s.tm s.items
        (setUnion (s.items.filter (fun it => !(decide (it.sd = par) && p.isPrefixOf it.dir)))
          ((s.items.filter (fun it => decide (it.sd = par) && p.isPrefixOf it.dir)).map (rebase p))) p
        h.tm_nodup h.tm_sync (by
          intro it hit
          rcases (hmem it).1 hit with ⟨h1, _⟩ | ⟨it0, _, _, _, h4⟩
          · exact Or.inl h1
          · right; rw [← h4]; rfl)
      refine ⟨?_, ?_, ?_, ?_, htm.1, htm.2⟩
      · rw [List.nodup_append]
        refine ⟨h.paths_nodup, by simp, ?_⟩
        intro a ha b hb hab
        simp only [List.mem_singleton] at hb
        subst hb; subst hab
        exact hp ha
      · intro it hit
        rcases (hmem it).1 hit with ⟨h1, _⟩ | ⟨it0, _, _, _, h4⟩
        · exact List.mem_append_left _ (h.owner it h1)
        · rw [← h4]; simp
      · intro it hit q hq hpre
        rcases (hmem it).1 hit with ⟨h1, h2⟩ | ⟨it0, h1, h2, h3, h4⟩
        · rcases List.mem_append.1 hq with hq | hq
          · exact h.innermost it h1 q hq hpre
          · simp only [List.mem_singleton] at hq
            subst hq
            rcases prefix_total hpre (sd_prefix_dir it) with h5 | h5
            · exact h5
            · exfalso
              have hsd := h.owner it h1
              have hne : it.sd ≠ q := fun e => hp (e ▸ hsd)
              have h6 : it.sd <+: par := hparmax _ hsd hne h5
              have h7 : par <+: it.sd := h.innermost it h1 par hpar (hparpre.trans hpre)
              exact h2 ⟨prefix_antisymm h6 h7, hpre⟩
        · subst h4
          rw [rebase_dir p it0 h3] at hpre
          simp only [rebase_sd]
          rcases List.mem_append.1 hq with hq | hq
          · have := h.innermost it0 h1 q hq hpre
            rw [h2] at this
            exact this.trans hparpre
          · simp only [List.mem_singleton] at hq
            subst hq
            exact List.prefix_refl _
      · exact nodup_setUnion _ _ ((List.filter_sublist).nodup h.items_nodup)

theorem inv_remove (s : St C) (p : List C) (h : Inv s) : Inv (remove s p).1 := by
  unfold remove
  split
  · exact h
  · rename_i hp
    have hp : p ∈ s.paths := by simpa using hp
    have hpaths : ∀ q, q ∈ s.paths.erase p ↔ q ≠ p ∧ q ∈ s.paths := fun q => h.paths_nodup.mem_erase_iff
    dsimp only
    split
    · rename_i hnone
      refine ⟨h.paths_nodup.erase p, ?_, ?_, (List.filter_sublist).nodup h.items_nodup,
        (List.filter_sublist).nodup h.tm_nodup, ?_⟩
      · intro it hit
        simp only [List.mem_filter, decide_eq_true_eq] at hit
        exact (hpaths _).2 ⟨hit.2, h.owner it hit.1⟩
      · intro it hit q hq hpre
        simp only [List.mem_filter, decide_eq_true_eq] at hit
        exact h.innermost it hit.1 q ((hpaths q).1 hq).2 hpre
      · intro it
        simp only [tmCleanup, List.mem_filter, decide_eq_true_eq]
        constructor
        · exact fun h1 => h1.2
        · intro h1; exact ⟨(h.tm_sync it).2 h1.1, h1⟩
    · rename_i par hsome
      obtain ⟨hpar, hparne, hparpre, hparmax⟩ := innermostParent_some _ _ _ hsome
      have hmem : ∀ it, it ∈ setUnion (s.items.filter (fun it => decide (it.sd ≠ p)))
          ((s.items.filter (fun it => decide (it.sd = p))).map (rebase par)) ↔
          (it ∈ s.items ∧ it.sd ≠ p) ∨ ∃ it0 ∈ s.items, it0.sd = p ∧ rebase par it0 = it := by
        intro it
        simp only [mem_setUnion, List.mem_filter, List.mem_map, decide_eq_true_eq]
        constructor
        · rintro (h1 | ⟨it0, ⟨h1, h2⟩, h3⟩)
          · exact Or.inl h1
          · exact Or.inr ⟨it0, h1, h2, h3⟩
        · rintro (h1 | ⟨it0, h1, h2, h3⟩)
          · exact Or.inl h1
          · exact Or.inr ⟨it0, ⟨h1, h2⟩, h3⟩
      have htm := tm_step s.tm s.items
        (setUnion (s.items.filter (fun it => decide (it.sd ≠ p)))
          ((s.items.filter (fun it => decide (it.sd = p))).map (rebase par))) par
        h.tm_nodup h.tm_sync (by
          intro it hit
          rcases (hmem it).1 hit with ⟨h1, _⟩ | ⟨it0, _, _, h4⟩
          · exact Or.inl h1
          · right; rw [← h4]; rfl)
      refine ⟨h.paths_nodup.erase p, ?_, ?_, ?_, htm.1, htm.2⟩
      · intro it hit
        rcases (hmem it).1 hit with ⟨h1, h2⟩ | ⟨it0, _, _, h4⟩
        · exact (hpaths _).2 ⟨h2, h.owner it h1⟩
        · rw [← h4]; exact hpar
      · intro it hit q hq hpre
        have hq' := (hpaths q).1 hq
        rcases (hmem it).1 hit with ⟨h1, _⟩ | ⟨it0, h1, h2, h4⟩
        · exact h.innermost it h1 q hq'.2 hpre
        · subst h4
          have hpd : par <+: it0.dir := by
            have := sd_prefix_dir it0
            rw [h2] at this
            exact hparpre.trans this
          rw [rebase_dir par it0 hpd] at hpre
          simp only [rebase_sd]
          have := h.innermost it0 h1 q hq'.2 hpre
          rw [h2] at this
          exact hparmax q hq hq'.1 this
      · exact nodup_setUnion _ _ ((List.filter_sublist).nodup h.items_nodup)

theorem mem_scanned (paths : List (List C)) (p : List C) (disk : List (File C)) (it : Item C) :
    it ∈ scanned paths p disk ↔
      ∃ f ∈ disk, p <+: f.dir ∧ (∀ c ∈ children paths p, ¬ c <+: f.dir) ∧
        it = { sd := p, sub := f.dir.drop p.length, name := f.name } := by
  simp only [scanned, mem_dedup, List.mem_map, List.mem_filter, Bool.and_eq_true, Bool.not_eq_true',
    List.isPrefixOf_iff_prefix, List.any_eq_false]
  constructor
  · rintro ⟨f, ⟨hf, h1, h2⟩, rfl⟩
    exact ⟨f, hf, h1, by simpa using h2, rfl⟩
  · rintro ⟨f, hf, h1, h2, rfl⟩
    exact ⟨f, ⟨hf, h1, by simpa using h2⟩, rfl⟩

theorem mem_scanDir_items (s : St C) (p : List C) (disk : List (File C)) (it : Item C) :
    it ∈ (scanDir s p disk).items ↔ (it ∈ s.items ∧ it.sd ≠ p) ∨ it ∈ scanned s.paths p disk := by
  simp [scanDir, mem_setUnion, List.mem_filter]

theorem inv_scanDir (s : St C) (p : List C) (disk : List (File C)) (h : Inv s) (hp : p ∈ s.paths) :
    Inv (scanDir s p disk) ∧ (scanDir s p disk).paths = s.paths := by
  refine ⟨?_, rfl⟩
  have hsc : ∀ it ∈ scanned s.paths p disk, it.sd = p ∧ ∀ q ∈ s.paths, q <+: it.dir → q <+: p := by
    intro it hit
    obtain ⟨f, _, h1, h2, rfl⟩ := (mem_scanned _ _ _ _).1 hit
    refine ⟨rfl, ?_⟩
    intro q hq hpre
    have hdir : (Item.dir { sd := p, sub := f.dir.drop p.length, name := f.name } : List C) = f.dir :=
      List.prefix_iff_eq_append.1 h1
    rw [hdir] at hpre
    rcases prefix_total hpre h1 with h3 | h3
    · exact h3
    · by_cases hqp : q = p
      · subst hqp; exact List.prefix_refl _
      · exfalso
        apply h2 q _ hpre
        simp only [children, List.mem_filter, Bool.and_eq_true, decide_eq_true_eq, List.isPrefixOf_iff_prefix]
        exact ⟨hq, hqp, h3⟩
  have htm := tm_step s.tm s.items (scanDir s p disk).items p h.tm_nodup h.tm_sync (by
    intro it hit
    rcases (mem_scanDir_items s p disk it).1 hit with ⟨h1, _⟩ | h1
    · exact Or.inl h1
    · exact Or.inr (hsc it h1).1)
  refine ⟨h.paths_nodup, ?_, ?_, ?_, htm.1, htm.2⟩
  · intro it hit
    rcases (mem_scanDir_items s p disk it).1 hit with ⟨h1, _⟩ | h1
    · exact h.owner it h1
    · show it.sd ∈ s.paths
      rw [(hsc it h1).1]; exact hp
  · intro it hit q hq hpre
    rcases (mem_scanDir_items s p disk it).1 hit with ⟨h1, _⟩ | h1
    · exact h.innermost it h1 q hq hpre
    · rw [(hsc it h1).1]; exact (hsc it h1).2 q hq hpre
  · exact nodup_setUnion _ _ ((List.filter_sublist).nodup h.items_nodup)

theorem inv_scanAll (disk : List (File C)) (l : List (List C)) (s : St C) (h : Inv s) (hl : ∀ p ∈ l, p ∈ s.paths) :
    Inv (l.foldl (fun s p => scanDir s p disk) s) ∧ (l.foldl (fun s p => scanDir s p disk) s).paths = s.paths := by
  induction l generalizing s with
  | nil => exact ⟨h, rfl⟩
  | cons p l ih =>
    obtain ⟨h1, h2⟩ := inv_scanDir s p disk h (hl p List.mem_cons_self)
    have := ih (scanDir s p disk) h1 (by intro q hq; rw [h2]; exact hl q (List.mem_cons_of_mem _ hq))
    exact ⟨this.1, this.2.trans h2⟩

theorem inv_step (s : St C) (op : Op C) (h : Inv s) : Inv (step s op).1 := by
  cases op with
  | add p => exact inv_add s p h
  | remove p => exact inv_remove s p h
  | update p => simp only [step]; split <;> exact h
  | scan p disk =>
    simp only [step, scan]
    split
    · exact h
    · rename_i hp
      exact (inv_scanDir s p disk h (by simpa using hp)).1
  | scanAll disk => exact (inv_scanAll disk s.paths s h (fun _ hp => hp)).1

theorem inv_run (ops : List (Op C)) : Inv (run ops) := by
  unfold run
  have : ∀ (s : St C), Inv s → Inv (ops.foldl (fun s op => (step s op).1) s) := by
    induction ops with
    | nil => intro s h; exact h
    | cons op ops ih => intro s h; exact ih _ (inv_step s op h)
  exact this _ inv_init

/-! ### consequences of the invariant -/

/-- an absolute file path is indexed at most once -/
theorem abs_inj (s : St C) (h : Inv s) (a b : Item C) (ha : a ∈ s.items) (hb : b ∈ s.items) (hab : a.abs = b.abs) :
    a = b := by
  have hdir : a.dir = b.dir ∧ a.name = b.name := by
    have : a.dir ++ [a.name] = b.dir ++ [b.name] := hab
    have h1 := List.append_inj' this rfl
    exact ⟨h1.1, by simpa using h1.2⟩
  have h1 : b.sd <+: a.sd := h.innermost a ha b.sd (h.owner b hb) (hdir.1 ▸ sd_prefix_dir b)
  have h2 : a.sd <+: b.sd := h.innermost b hb a.sd (h.owner a ha) (hdir.1 ▸ sd_prefix_dir a)
  have hsd : a.sd = b.sd := prefix_antisymm h2 h1
  have hsub : a.sub = b.sub := by
    have : a.sd ++ a.sub = b.sd ++ b.sub := hdir.1
    rw [hsd] at this
    exact List.append_cancel_left this
  cases a; cases b
  simp_all

/-! ### counting -/

theorem sum_map_add {α : Type} (l : List α) (f g : α → Nat) :
    (l.map (fun d => f d + g d)).sum = (l.map f).sum + (l.map g).sum := by
  induction l with
  | nil => rfl
  | cons x l ih => simp only [List.map_cons, List.sum_cons, ih]; omega

theorem sum_indicator_zero (ps : List (List C)) (x : List C) (hx : x ∉ ps) :
    (ps.map (fun d => if x = d then 1 else 0)).sum = 0 := by
  induction ps with
  | nil => rfl
  | cons d ps ih =>
    have h1 : x ≠ d := fun e => hx (e ▸ List.mem_cons_self)
    have h2 : x ∉ ps := fun e => hx (List.mem_cons_of_mem _ e)
    simp [h1, ih h2]

theorem sum_indicator_one (ps : List (List C)) (x : List C) (hn : ps.Nodup) (hx : x ∈ ps) :
    (ps.map (fun d => if x = d then 1 else 0)).sum = 1 := by
  induction ps with
  | nil => simp at hx
  | cons d ps ih =>
    rw [List.nodup_cons] at hn
    by_cases h1 : x = d
    · subst h1
      simp [sum_indicator_zero ps x hn.1]
    · have h2 : x ∈ ps := by
        rcases List.mem_cons.1 hx with h | h
        · exact absurd h h1
        · exact h
      simp [h1, ih hn.2 h2]

/-- the per-directory file counts add up to the number of indexed items -/
theorem sum_dir_lengths (ps : List (List C)) (hn : ps.Nodup) (l : List (Item C)) (hl : ∀ it ∈ l, it.sd ∈ ps) :
    (ps.map (fun d => (l.filter (fun it => decide (it.sd = d))).length)).sum = l.length := by
  induction l with
  | nil =>
    have : ∀ ps : List (List C), (ps.map (fun _ => 0)).sum = 0 := by
      intro ps; induction ps <;> simp_all
    simpa using this ps
  | cons it l ih =>
    have h1 : ∀ d, ((it :: l).filter (fun it => decide (it.sd = d))).length
        = (if it.sd = d then 1 else 0) + (l.filter (fun it => decide (it.sd = d))).length := by
      intro d
      by_cases hd : it.sd = d
      · simp [List.filter, hd]; omega
      · simp [List.filter, hd]
    simp only [h1]
    rw [sum_map_add, sum_indicator_one ps it.sd hn (hl it List.mem_cons_self),
      ih (fun x hx => hl x (List.mem_cons_of_mem _ hx))]
    simp; omega

theorem sum_indicator (ps : List (List C)) (x : List C) (k : Nat) (hn : ps.Nodup) (hx : x ∈ ps) :
    (ps.map (fun d => if x = d then k else 0)).sum = k := by
  have h1 : ∀ d, (if x = d then k else 0) = k * (if x = d then 1 else 0) := by
    intro d; split <;> simp
  have h2 : ∀ (l : List (List C)) (f : List C → Nat), (l.map (fun d => k * f d)).sum = k * (l.map f).sum := by
    intro l f
    induction l with
    | nil => simp
    | cons a l ih => simp only [List.map_cons, List.sum_cons, ih, Nat.mul_add]
  simp only [h1]
  rw [h2, sum_indicator_one ps x hn hx]
  simp

theorem dedup_cons_length {α : Type} [DecidableEq α] (x : α) (l : List α) :
    (dedup (x :: l)).length = (if x ∈ l then 0 else 1) + (dedup l).length := by
  simp only [dedup]
  split <;> simp <;> omega

theorem dedup_map_length_congr {α β γ : Type} [DecidableEq β] [DecidableEq γ] (l : List α) (f : α → β) (g : α → γ)
    (h : ∀ x ∈ l, ∀ y ∈ l, f x = f y ↔ g x = g y) :
    (dedup (l.map f)).length = (dedup (l.map g)).length := by
  induction l with
  | nil => rfl
  | cons x l ih =>
    simp only [List.map_cons, dedup_cons_length]
    have hiff : f x ∈ l.map f ↔ g x ∈ l.map g := by
      simp only [List.mem_map]
      constructor
      · rintro ⟨y, hy, hxy⟩
        exact ⟨y, hy, ((h x List.mem_cons_self y (List.mem_cons_of_mem _ hy)).1 hxy.symm).symm⟩
      · rintro ⟨y, hy, hxy⟩
        exact ⟨y, hy, ((h x List.mem_cons_self y (List.mem_cons_of_mem _ hy)).2 hxy.symm).symm⟩
    rw [ih (fun a ha b hb => h a (List.mem_cons_of_mem _ ha) b (List.mem_cons_of_mem _ hb))]
    by_cases hx : f x ∈ l.map f
    · simp [hx, hiff.1 hx]
    · have : ¬ g x ∈ l.map g := fun e => hx (hiff.2 e)
      simp [hx, this]

/-- the per-directory counts of distinct folders add up to the number of distinct folders, when
items of different shared directories never lie in the same folder -/
theorem sum_dir_folders (ps : List (List C)) (hn : ps.Nodup) (l : List (Item C)) (hl : ∀ it ∈ l, it.sd ∈ ps)
    (hsep : ∀ a ∈ l, ∀ b ∈ l, a.dir = b.dir → a.sd = b.sd) :
    (ps.map (fun d => (dedup ((l.filter (fun it => decide (it.sd = d))).map Item.dir)).length)).sum
      = (dedup (l.map Item.dir)).length := by
  induction l with
  | nil =>
    have : ∀ ps : List (List C), (ps.map (fun _ => 0)).sum = 0 := by
      intro ps; induction ps <;> simp_all
    simpa [dedup] using this ps
  | cons it l ih =>
    have hiff : it.dir ∈ l.map Item.dir ↔ it.dir ∈ (l.filter (fun x => decide (x.sd = it.sd))).map Item.dir := by
      simp only [List.mem_map, List.mem_filter, decide_eq_true_eq]
      constructor
      · rintro ⟨y, hy, hxy⟩
        exact ⟨y, ⟨hy, hsep y (List.mem_cons_of_mem _ hy) it List.mem_cons_self hxy⟩, hxy⟩
      · rintro ⟨y, ⟨hy, _⟩, hxy⟩
        exact ⟨y, hy, hxy⟩
    have h1 : ∀ d, (dedup (((it :: l).filter (fun x => decide (x.sd = d))).map Item.dir)).length
        = (if it.sd = d then (if it.dir ∈ l.map Item.dir then 0 else 1) else 0)
          + (dedup ((l.filter (fun x => decide (x.sd = d))).map Item.dir)).length := by
      intro d
      by_cases hd : it.sd = d
      · subst hd
        simp only [List.filter, decide_true, List.map_cons, dedup_cons_length, if_true]
        by_cases hx : it.dir ∈ l.map Item.dir
        · simp [hx, hiff.1 hx]
        · have : ¬ it.dir ∈ (l.filter (fun x => decide (x.sd = it.sd))).map Item.dir := fun e => hx (hiff.2 e)
          simp [hx, this]
      · simp [List.filter, hd]
    simp only [h1]
    rw [sum_map_add, sum_indicator ps it.sd _ hn (hl it List.mem_cons_self),
      ih (fun x hx => hl x (List.mem_cons_of_mem _ hx))
        (fun a ha b hb => hsep a (List.mem_cons_of_mem _ ha) b (List.mem_cons_of_mem _ hb))]
    rw [List.map_cons, dedup_cons_length]
    by_cases hx : it.dir ∈ l.map Item.dir <;> simp [hx]

theorem dir_sep (s : St C) (h : Inv s) : ∀ a ∈ s.items, ∀ b ∈ s.items, a.dir = b.dir → a.sd = b.sd := by
  intro a ha b hb hab
  have h1 : b.sd <+: a.sd := h.innermost a ha b.sd (h.owner b hb) (hab ▸ sd_prefix_dir b)
  have h2 : a.sd <+: b.sd := h.innermost b hb a.sd (h.owner a ha) (hab ▸ sd_prefix_dir a)
  exact prefix_antisymm h2 h1

/-- `get_stats()` of a state satisfying the invariant: distinct absolute folders, indexed files -/
theorem stats_eq (s : St C) (h : Inv s) :
    stats s = ((dedup (s.items.map Item.dir)).length, s.items.length) := by
  unfold stats dirItems
  rw [sum_dir_lengths s.paths h.paths_nodup s.items h.owner]
  congr 1
  rw [← sum_dir_folders s.paths h.paths_nodup s.items h.owner (dir_sep s h)]
  congr 1
  apply List.map_congr_left
  intro d _
  apply dedup_map_length_congr
  intro x hx y hy
  simp only [List.mem_filter, decide_eq_true_eq] at hx hy
  simp only [Item.dir, hx.2, hy.2]
  constructor
  · intro e; rw [e]
  · exact List.append_cancel_left

end
end AioslskVerif.Shares
