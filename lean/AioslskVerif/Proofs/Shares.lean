import AioslskVerif.Model.Shares
/-! Helper lemmas for C07 (index side): the invariant of the index and its preservation. -/
set_option linter.unusedSectionVars false
namespace AioslskVerif.Shares

section
variable {C : Type} [DecidableEq C]

/-! ### sets as lists -/

theorem mem_dedup {α : Type} [DecidableEq α] (x : α) (l : List α) : x ∈ dedup l ↔ x ∈ l := by
  induction l with
  | nil => simp [dedup]
  | cons y l ih =>
    simp only [dedup]
    split
    · rename_i hy
      rw [ih]
      constructor
      · exact List.mem_cons_of_mem _
      · intro h
        rcases List.mem_cons.1 h with rfl | h
        · exact hy
        · exact h
    · simp [ih]

theorem nodup_dedup {α : Type} [DecidableEq α] (l : List α) : (dedup l).Nodup := by
  induction l with
  | nil => simp [dedup]
  | cons y l ih =>
    simp only [dedup]
    split
    · exact ih
    · rename_i hy
      rw [List.nodup_cons]
      exact ⟨by rwa [mem_dedup], ih⟩

theorem mem_setUnion {α : Type} [DecidableEq α] (a b : List α) (x : α) : x ∈ setUnion a b ↔ x ∈ a ∨ x ∈ b := by
  simp only [setUnion, List.mem_append, List.mem_filter, mem_dedup, decide_eq_true_eq]
  constructor
  · rintro (h | ⟨h, _⟩)
    · exact Or.inl h
    · exact Or.inr h
  · rintro (h | h)
    · exact Or.inl h
    · by_cases hx : x ∈ a
      · exact Or.inl hx
      · exact Or.inr ⟨h, hx⟩

theorem nodup_setUnion {α : Type} [DecidableEq α] (a b : List α) (ha : a.Nodup) : (setUnion a b).Nodup := by
  simp only [setUnion]
  rw [List.nodup_append]
  refine ⟨ha, (List.filter_sublist).nodup (nodup_dedup b), ?_⟩
  intro x hx y hy hxy
  subst hxy
  simp only [List.mem_filter, decide_eq_true_eq] at hy
  exact hy.2 hx

/-! ### innermost parent -/

theorem longest_none (l : List (List C)) (h : longest l = none) : l = [] := by
  cases l with
  | nil => rfl
  | cons p ps =>
    simp only [longest] at h
    split at h
    · simp at h
    · split at h <;> simp at h

theorem longest_some (l : List (List C)) (b : List C) (h : longest l = some b) :
    b ∈ l ∧ ∀ p ∈ l, p.length ≤ b.length := by
  induction l generalizing b with
  | nil => simp [longest] at h
  | cons p ps ih =>
    simp only [longest] at h
    split at h
    · rename_i hn
      have : ps = [] := longest_none ps hn
      subst this
      have : b = p := by simpa using h.symm
      subst this
      simp
    · rename_i b' hb'
      obtain ⟨hmem, hle⟩ := ih b' hb'
      split at h
      · rename_i hgt
        have : b = p := by simpa using h.symm
        subst this
        refine ⟨List.mem_cons_self, ?_⟩
        intro q hq
        rcases List.mem_cons.1 hq with rfl | hq
        · exact Nat.le_refl _
        · have := hle q hq; omega
      · rename_i hgt
        have : b = b' := by simpa using h.symm
        subst this
        refine ⟨List.mem_cons_of_mem _ hmem, ?_⟩
        intro q hq
        rcases List.mem_cons.1 hq with rfl | hq
        · omega
        · exact hle q hq

theorem innermostParent_some (paths : List (List C)) (d par : List C) (h : innermostParent paths d = some par) :
    par ∈ paths ∧ par ≠ d ∧ par <+: d ∧ ∀ p ∈ paths, p ≠ d → p <+: d → p <+: par := by
  obtain ⟨hmem, hle⟩ := longest_some _ _ h
  simp only [List.mem_filter, Bool.and_eq_true, decide_eq_true_eq, List.isPrefixOf_iff_prefix] at hmem hle
  refine ⟨hmem.1, hmem.2.1, hmem.2.2, ?_⟩
  intro p hp hne hpre
  exact List.prefix_of_prefix_length_le hpre hmem.2.2 (hle p ⟨hp, hne, hpre⟩)

theorem innermostParent_none (paths : List (List C)) (d : List C) (h : innermostParent paths d = none) :
    ∀ p ∈ paths, p ≠ d → ¬ p <+: d := by
  have := longest_none _ h
  intro p hp hne hpre
  have hm : p ∈ paths.filter (fun p => decide (p ≠ d) && p.isPrefixOf d) := by
    simp only [List.mem_filter, Bool.and_eq_true, decide_eq_true_eq, List.isPrefixOf_iff_prefix]
    exact ⟨hp, hne, hpre⟩
  rw [this] at hm
  simp at hm

theorem prefix_antisymm {a b : List C} (h1 : a <+: b) (h2 : b <+: a) : a = b :=
  h1.eq_of_length (Nat.le_antisymm h1.length_le h2.length_le)

/-- two prefixes of one list are comparable -/
theorem prefix_total {a b l : List C} (ha : a <+: l) (hb : b <+: l) : a <+: b ∨ b <+: a := by
  rcases Nat.le_total a.length b.length with h | h
  · exact Or.inl (List.prefix_of_prefix_length_le ha hb h)
  · exact Or.inr (List.prefix_of_prefix_length_le hb ha h)

theorem rebase_dir (target : List C) (it : Item C) (h : target <+: it.dir) : (rebase target it).dir = it.dir := by
  simp only [rebase, Item.dir]
  exact List.prefix_iff_eq_append.1 h

@[simp] theorem rebase_sd (target : List C) (it : Item C) : (rebase target it).sd = target := rfl

theorem sd_prefix_dir (it : Item C) : it.sd <+: it.dir := List.prefix_append _ _

/-! ### the invariant -/

structure Inv (s : St C) : Prop where
  paths_nodup : s.paths.Nodup
  owner : ∀ it ∈ s.items, it.sd ∈ s.paths
  innermost : ∀ it ∈ s.items, ∀ p ∈ s.paths, p <+: it.dir → p <+: it.sd
  items_nodup : s.items.Nodup
  tm_nodup : s.tm.Nodup
  tm_sync : ∀ it, it ∈ s.tm ↔ it ∈ s.items

theorem inv_init : Inv ({} : St C) :=
  ⟨by simp, by simp, by simp, by simp, by simp, by simp⟩

/-- `_build_term_map(d)` then `_cleanup_term_map()` re-establishes "term map = index" when every
new item belongs to `d`. -/
theorem tm_step (tm old items : List (Item C)) (d : List C) (hn : tm.Nodup) (hs : ∀ it, it ∈ tm ↔ it ∈ old)
    (hnew : ∀ it ∈ items, it ∈ old ∨ it.sd = d) :
    (tmCleanup (tmBuild tm items d) items).Nodup ∧
      ∀ it, it ∈ tmCleanup (tmBuild tm items d) items ↔ it ∈ items := by
  constructor
  · exact (List.filter_sublist).nodup (nodup_setUnion _ _ hn)
  · intro it
    simp only [tmCleanup, tmBuild, List.mem_filter, mem_setUnion, decide_eq_true_eq]
    constructor
    · exact fun h => h.2
    · intro h
      refine ⟨?_, h⟩
      rcases hnew it h with h1 | h1
      · exact Or.inl ((hs it).2 h1)
      · exact Or.inr ⟨h, h1⟩

theorem inv_add (s : St C) (p : List C) (h : Inv s) : Inv (add s p).1 := by
  unfold add
  split
  · exact h
  · rename_i hp
    split
    · rename_i hnone
      have hno := innermostParent_none _ _ hnone
      refine ⟨?_, ?_, ?_, h.items_nodup, h.tm_nodup, h.tm_sync⟩
      · rw [List.nodup_append]
        refine ⟨h.paths_nodup, by simp, ?_⟩
        intro a ha b hb hab
        simp only [List.mem_singleton] at hb
        subst hb; subst hab
        exact hp ha
      · intro it hit
        exact List.mem_append_left _ (h.owner it hit)
      · intro it hit q hq hpre
        rcases List.mem_append.1 hq with hq | hq
        · exact h.innermost it hit q hq hpre
        · simp only [List.mem_singleton] at hq
          subst hq
          rcases prefix_total hpre (sd_prefix_dir it) with h1 | h1
          · exact h1
          · have hsd := h.owner it hit
            have hne : it.sd ≠ q := fun e => hp (e ▸ hsd)
            exact absurd h1 (hno _ hsd hne)
    · rename_i par hsome
      obtain ⟨hpar, hparne, hparpre, hparmax⟩ := innermostParent_some _ _ _ hsome
      dsimp only
      have hmem : ∀ it, it ∈ setUnion (s.items.filter (fun it => !(decide (it.sd = par) && p.isPrefixOf it.dir)))
          ((s.items.filter (fun it => decide (it.sd = par) && p.isPrefixOf it.dir)).map (rebase p)) ↔
          (it ∈ s.items ∧ ¬ (it.sd = par ∧ p <+: it.dir)) ∨
            ∃ it0 ∈ s.items, it0.sd = par ∧ p <+: it0.dir ∧ rebase p it0 = it := by
        intro it
        simp only [mem_setUnion, List.mem_filter, List.mem_map, Bool.not_eq_true', Bool.and_eq_true,
          decide_eq_true_eq, List.isPrefixOf_iff_prefix, ← Bool.not_eq_true]
        constructor
        · rintro (⟨h1, h2⟩ | ⟨it0, ⟨h1, h2, h3⟩, h4⟩)
          · left; exact ⟨h1, h2⟩
          · right; exact ⟨it0, h1, h2, h3, h4⟩
        · rintro (⟨h1, h2⟩ | ⟨it0, h1, h2, h3, h4⟩)
          · left; exact ⟨h1, h2⟩
          · right; exact ⟨it0, ⟨h1, h2, h3⟩, h4⟩
      have htm := tm_step s.tm s.items
        (setUnion (s.items.filter (fun it => !(decide (it.sd = par) && p.isPrefixOf it.dir)))
          ((s.items.filter (fun it => decide (it.sd = par) && p.isPrefixOf it.dir)).map (rebase p))) p
        h.tm_nodup h.tm_sync (by
          intro it hit
          rcases (hmem it).1 hit with ⟨h1, _⟩ | ⟨it0, _, _, _, h4⟩
          · exact Or.inl h1
          · right; rw [← h4]; rfl)
      refine ⟨?_, ?_, ?_, ?_, htm.1, htm.2⟩
      · rw [List.nodup_append]
        refine ⟨h.paths_nodup, by simp, ?_⟩
        intro a ha b hb hab
        simp only [List.mem_singleton] at hb
        subst hb; subst hab
        exact hp ha
      · intro it hit
        rcases (hmem it).1 hit with ⟨h1, _⟩ | ⟨it0, _, _, _, h4⟩
        · exact List.mem_append_left _ (h.owner it h1)
        · rw [← h4]; simp
      · intro it hit q hq hpre
        rcases (hmem it).1 hit with ⟨h1, h2⟩ | ⟨it0, h1, h2, h3, h4⟩
        · rcases List.mem_append.1 hq with hq | hq
          · exact h.innermost it h1 q hq hpre
          · simp only [List.mem_singleton] at hq
            subst hq
            rcases prefix_total hpre (sd_prefix_dir it) with h5 | h5
            · exact h5
            · exfalso
              have hsd := h.owner it h1
              have hne : it.sd ≠ q := fun e => hp (e ▸ hsd)
              have h6 : it.sd <+: par := hparmax _ hsd hne h5
              have h7 : par <+: it.sd := h.innermost it h1 par hpar (hparpre.trans hpre)
              exact h2 ⟨prefix_antisymm h6 h7, hpre⟩
        · subst h4
          rw [rebase_dir p it0 h3] at hpre
          simp only [rebase_sd]
          rcases List.mem_append.1 hq with hq | hq
          · have := h.innermost it0 h1 q hq hpre
            rw [h2] at this
            exact this.trans hparpre
          · simp only [List.mem_singleton] at hq
            subst hq
            exact List.prefix_refl _
      · exact nodup_setUnion _ _ ((List.filter_sublist).nodup h.items_nodup)

end
end AioslskVerif.Shares
