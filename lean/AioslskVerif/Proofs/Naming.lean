import AioslskVerif.Model.Naming
/-! Helper lemmas for C09 (model: `Model/Naming.lean`). -/
namespace AioslskVerif.Naming

/-! ### splitting -/

theorem splitAux_parts (s : List Char) : ∀ (cur : List Char), (∀ c ∈ cur, isSep c = false) →
    ∀ p ∈ splitAux s cur, p ≠ [] ∧ ∀ c ∈ p, isSep c = false := by
  induction s with
  | nil =>
    intro cur hcur p hp
    unfold splitAux at hp
    split at hp
    · simp at hp
    · rename_i hne
      simp only [List.mem_singleton] at hp
      subst hp
      refine ⟨?_, ?_⟩
      · intro h; apply hne; simpa using h
      · intro c hc; exact hcur c (by simpa using hc)
  | cons a s ih =>
    intro cur hcur p hp
    unfold splitAux at hp
    split at hp
    · split at hp
      · exact ih [] (by simp) p hp
      · rename_i hne
        rcases List.mem_cons.mp hp with h | h
        · subst h
          refine ⟨?_, ?_⟩
          · intro h; apply hne; simpa using h
          · intro c hc; exact hcur c (by simpa using hc)
        · exact ih [] (by simp) p h
    · rename_i hsep
      apply ih (a :: cur) _ p hp
      intro c hc
      rcases List.mem_cons.mp hc with h | h
      · subst h; simpa using hsep
      · exact hcur c h

theorem localParts_regular (r : List Char) : ∀ p ∈ localParts r, Regular p := by
  intro p hp
  unfold localParts at hp
  rw [List.mem_filter] at hp
  obtain ⟨hmem, hf⟩ := hp
  have h := splitAux_parts r [] (by simp) p hmem
  simp only [Bool.and_eq_true, bne_iff_ne, ne_eq] at hf
  exact ⟨h.1, hf.1, hf.2, h.2⟩

/-! ### splitext -/

theorem splitext_append (n : Name) : (splitext n).1 ++ (splitext n).2 = n := by
  unfold splitext
  have key := List.takeWhile_append_dropWhile (p := (· != '.')) (l := n.reverse)
  dsimp only
  split
  · simp
  · rename_i c stemRev hd
    split
    · simp
    · simp only
      rw [hd] at key
      have : n = (List.takeWhile (fun x => x != '.') n.reverse ++ c :: stemRev).reverse := by
        rw [key]; simp
      conv => rhs; rw [this]
      simp

theorem splitext_mem (n : Name) (c : Char) :
    c ∈ (splitext n).1 ∨ c ∈ (splitext n).2 → c ∈ n := by
  intro h
  rw [← splitext_append n]
  exact List.mem_append.mpr h

/-! ### numbering -/

theorem numbered_regular (stem ext : Name) (k : Nat)
    (h : ∀ c, c ∈ stem ∨ c ∈ ext → isSep c = false) : Regular (numbered stem ext k) := by
  have hsp : ' ' ∈ numbered stem ext k := by simp [numbered]
  refine ⟨?_, ?_, ?_, ?_⟩
  · intro h0; rw [h0] at hsp; simp at hsp
  · intro h0; rw [h0] at hsp; simp [dot] at hsp
  · intro h0; rw [h0] at hsp; simp [dotdot] at hsp
  · intro c hc
    simp only [numbered, List.mem_append, List.mem_cons, List.not_mem_nil, or_false] at hc
    rcases hc with (((hc | hc) | hc) | hc) | hc
    · exact h c (Or.inl hc)
    · rcases hc with rfl | rfl <;> decide
    · have := Nat.isDigit_of_mem_toDigits (by decide) (by decide) hc
      simp only [isSep, Bool.or_eq_false_iff, beq_eq_false_iff_ne, ne_eq]
      constructor <;> (intro h0; subst h0; revert this; decide)
    · subst hc; decide
    · exact h c (Or.inr hc)

theorem stripPrefix_append (p s : List Char) : stripPrefix p (p ++ s) = some s := by
  induction p with
  | nil => cases s <;> simp [stripPrefix]
  | cons a p ih => simp [stripPrefix, ih]

theorem takeWhile_digits (ds rest : List Char) (h : ∀ c ∈ ds, c.isDigit = true) :
    (ds ++ ')' :: rest).takeWhile Char.isDigit = ds ∧
    (ds ++ ')' :: rest).dropWhile Char.isDigit = ')' :: rest := by
  induction ds with
  | nil => constructor <;> simp <;> decide
  | cons a ds ih =>
    have ha : a.isDigit = true := h a (by simp)
    have := ih (fun c hc => h c (by simp [hc]))
    simp [ha, this]

theorem matchIndex_numbered (stem ext : Name) (k : Nat) (tail : List Char) :
    matchIndex stem ext (numbered stem ext k ++ tail) = some k := by
  have h1 : numbered stem ext k ++ tail
      = (stem ++ [' ', '(']) ++ (Nat.toDigits 10 k ++ ')' :: (ext ++ tail)) := by
    simp [numbered]
  have hd := takeWhile_digits (Nat.toDigits 10 k) (ext ++ tail)
    (fun c hc => Nat.isDigit_of_mem_toDigits (by decide) (by decide) hc)
  unfold matchIndex
  rw [h1, stripPrefix_append]
  simp only [hd.1, hd.2]
  have hne : (Nat.toDigits 10 k).isEmpty = false := by
    cases h : Nat.toDigits 10 k with
    | nil => exact absurd h Nat.toDigits_ne_nil
    | cons _ _ => rfl
  simp [hne, stripPrefix_append, Nat.ofDigitChars_ten_toDigits]

theorem le_foldl_max (rest : List Nat) : ∀ (i : Nat), i ≤ rest.foldl max i ∧ ∀ x ∈ rest, x ≤ rest.foldl max i := by
  induction rest with
  | nil => intro i; simp
  | cons a rest ih =>
    intro i
    have h := ih (max i a)
    simp only [List.foldl_cons]
    refine ⟨by omega, ?_⟩
    intro x hx
    rcases List.mem_cons.mp hx with rfl | hx
    · omega
    · exact h.2 x hx

theorem firstFree_not_mem (is : List Nat) : ∀ (fuel start : Nat), (∀ x ∈ is, x < start + fuel) →
    firstFree is start fuel ∉ is := by
  intro fuel
  induction fuel with
  | zero =>
    intro start h hm
    have := h _ hm
    simp [firstFree] at this
  | succ f ih =>
    intro start h
    unfold firstFree
    split
    · exact ih (start + 1) (fun x hx => by have := h x hx; omega)
    · rename_i hc; simpa using hc

theorem nextIndex_not_mem (is : List Nat) : nextIndex is ∉ is := by
  unfold nextIndex
  split
  · simp
  · rename_i i rest
    apply firstFree_not_mem
    intro x hx
    have h := le_foldl_max rest i
    have : x ≤ rest.foldl max i := by
      rcases List.mem_cons.mp hx with rfl | hx
      · exact h.1
      · exact h.2 x hx
    omega

/-- the numbered name is not in the listing the indices were taken from -/
theorem numbered_fresh (stem ext : Name) (listing : List Name) :
    numbered stem ext (nextIndex (listing.filterMap (matchIndex stem ext))) ∉ listing := by
  intro hmem
  apply nextIndex_not_mem (listing.filterMap (matchIndex stem ext))
  rw [List.mem_filterMap]
  refine ⟨_, hmem, ?_⟩
  have := matchIndex_numbered stem ext (nextIndex (listing.filterMap (matchIndex stem ext))) []
  simpa using this

/-! ### the file system view -/

theorem pathExists_regular (fs : Fs) (d : Path) (n : Name) (h : Regular n) :
    fs.pathExists d n = fs.has d n := by
  unfold Fs.pathExists
  have : ¬ (n = [] ∨ n = dot ∨ n = dotdot) := by
    rintro (h0 | h0 | h0)
    · exact h.1 h0
    · exact h.2.1 h0
    · exact h.2.2.1 h0
  simp [this]

theorem has_iff_mem_listdir (fs : Fs) (d : Path) (n : Name) :
    fs.has d n = true ↔ n ∈ fs.listdir d := by
  unfold Fs.has Fs.listdir
  simp only [List.any_eq_true, Bool.and_eq_true, beq_iff_eq, List.mem_map, List.mem_filter]
  constructor
  · rintro ⟨e, he, h1, h2⟩; exact ⟨e, ⟨he, h1⟩, h2⟩
  · rintro ⟨e, ⟨he, h1⟩, h2⟩; exact ⟨e, he, h1, h2⟩

/-! ### the chain -/

/-- invariant of the `(path, filename)` pair threaded through `chain_strategies` -/
def Inv (st : Path × Name) : Prop := (∀ c ∈ st.1, Regular c) ∧ (st.2 = [] ∨ Regular st.2)

theorem inv_init : Inv (([], []) : Path × Name) := ⟨by simp, Or.inl rfl⟩

theorem applyStrategy_inv (fs : Fs) (remote : List Char) (st st' : Path × Name) (s : Strategy)
    (hinv : Inv st) (h : applyStrategy fs remote st s = .ok st') : Inv st' := by
  cases s with
  | default =>
    simp only [applyStrategy] at h
    split at h
    · cases h
    · rename_i n hn
      cases h
      exact ⟨hinv.1, Or.inr (localParts_regular remote n (List.mem_of_getLast? hn))⟩
  | keepDir =>
    simp only [applyStrategy] at h
    split at h
    · cases h
    · cases h; exact hinv
    · rename_i a c rest hrev
      split at h
      · cases h; exact hinv
      · cases h
        refine ⟨?_, hinv.2⟩
        intro x hx
        rcases List.mem_append.mp hx with hx | hx
        · exact hinv.1 x hx
        · simp only [List.mem_singleton] at hx
          subst hx
          apply localParts_regular remote
          have : x ∈ (localParts remote).reverse := by rw [hrev]; simp
          simpa using this
  | number =>
    simp only [applyStrategy] at h
    split at h
    · cases h
      refine ⟨hinv.1, Or.inr ?_⟩
      apply numbered_regular
      intro c hc
      have hmem := splitext_mem st.2 c hc
      rcases hinv.2 with h0 | h0
      · rw [h0] at hmem; simp at hmem
      · exact h0.2.2.2 c hmem
    · cases h; exact hinv

theorem chainAux_inv (fs : Fs) (remote : List Char) (ss : List Strategy) : ∀ (st st' : Path × Name),
    Inv st → chainAux fs remote ss st = .ok st' → Inv st' := by
  induction ss with
  | nil => intro st st' hinv h; simp only [chainAux] at h; cases h; exact hinv
  | cons s ss ih =>
    intro st st' hinv h
    simp only [chainAux] at h
    split at h
    · cases h
    · rename_i st1 h1
      exact ih st1 st' (applyStrategy_inv fs remote st st1 s hinv h1) h

theorem chain_ok (fs : Fs) (ss : List Strategy) (remote : List Char) (d : Path) (n : Name)
    (h : chain fs ss remote = .ok (d, n)) :
    chainAux fs remote ss ([], []) = .ok (d, n) ∧ (∀ c ∈ d, Regular c) ∧ Regular n := by
  unfold chain at h
  split at h
  · cases h
  · rename_i st hst
    split at h
    · cases h
    · rename_i hne
      cases h
      have hinv := chainAux_inv fs remote ss _ _ inv_init hst
      refine ⟨hst, hinv.1, ?_⟩
      rcases hinv.2 with h0 | h0
      · exact absurd h0 (by simpa using hne)
      · exact h0

theorem walk_regular (cs : List Name) : ∀ (k : Nat), (∀ c ∈ cs, Regular c) → walk cs k = some (k + cs.length) := by
  induction cs with
  | nil => intro k _; simp [walk]
  | cons c cs ih =>
    intro k h
    have hc := h c (by simp)
    have h1 : ¬ (c = [] ∨ c = dot) := by
      rintro (h0 | h0)
      · exact hc.1 h0
      · exact hc.2.1 h0
    simp only [walk, h1, hc.2.2.1, if_false]
    rw [ih (k + 1) (fun x hx => h x (by simp [hx]))]
    simp only [List.length_cons]
    congr 1
    omega

/-- after a `number` step the result does not exist -/
theorem number_step_fresh (fs : Fs) (remote : List Char) (st st' : Path × Name) (hinv : Inv st)
    (h : applyStrategy fs remote st .number = .ok st') : fs.pathExists st'.1 st'.2 = false := by
  simp only [applyStrategy] at h
  split at h
  · cases h
    have hreg : Regular (numbered (splitext st.2).1 (splitext st.2).2
        (nextIndex ((fs.listdir st.1).filterMap (matchIndex (splitext st.2).1 (splitext st.2).2)))) := by
      apply numbered_regular
      intro c hc
      have hmem := splitext_mem st.2 c hc
      rcases hinv.2 with h0 | h0
      · rw [h0] at hmem; simp at hmem
      · exact h0.2.2.2 c hmem
    simp only
    rw [pathExists_regular _ _ _ hreg]
    have := numbered_fresh (splitext st.2).1 (splitext st.2).2 (fs.listdir st.1)
    rw [← has_iff_mem_listdir] at this
    simpa using this
  · rename_i hne
    cases h
    simpa using hne

theorem chainAux_fresh (fs : Fs) (remote : List Char) (ss : List Strategy) : ∀ (st st' : Path × Name),
    Inv st → ss.getLast? = some .number → chainAux fs remote ss st = .ok st' →
    fs.pathExists st'.1 st'.2 = false := by
  induction ss with
  | nil => intro st st' _ hl; simp at hl
  | cons s ss ih =>
    intro st st' hinv hl h
    simp only [chainAux] at h
    split at h
    · cases h
    · rename_i st1 h1
      cases ss with
      | nil =>
        simp only [List.getLast?_singleton, Option.some.injEq] at hl
        subst hl
        simp only [chainAux] at h
        cases h
        exact number_step_fresh fs remote st _ hinv h1
      | cons s2 ss2 =>
        apply ih st1 st' (applyStrategy_inv fs remote st st1 s hinv h1) _ h
        simpa [List.getLast?_cons_cons] using hl


/-! ### the chain does not refuse without reason -/

theorem applyStrategy_ok (fs : Fs) (remote : List Char) (hp : localParts remote ≠ [])
    (st : Path × Name) (s : Strategy) : ∃ st', applyStrategy fs remote st s = .ok st' := by
  cases s with
  | default =>
    simp only [applyStrategy]
    cases h : (localParts remote).getLast? with
    | none => exact absurd (List.getLast?_eq_none_iff.mp h) hp
    | some n => exact ⟨_, rfl⟩
  | keepDir =>
    simp only [applyStrategy]
    split
    · rename_i h; exact absurd (List.reverse_eq_nil_iff.mp h) hp
    · exact ⟨_, rfl⟩
    · split <;> exact ⟨_, rfl⟩
  | number =>
    simp only [applyStrategy]
    split <;> exact ⟨_, rfl⟩

theorem applyStrategy_regular (fs : Fs) (remote : List Char) (st st' : Path × Name) (s : Strategy)
    (hinv : Inv st) (h : applyStrategy fs remote st s = .ok st')
    (hr : s = .default ∨ Regular st.2) : Regular st'.2 := by
  have hinv' := applyStrategy_inv fs remote st st' s hinv h
  rcases hinv'.2 with h0 | h0
  · exfalso
    cases s with
    | default =>
      simp only [applyStrategy] at h
      split at h
      · cases h
      · rename_i n hn
        cases h
        exact (localParts_regular remote n (List.mem_of_getLast? hn)).1 h0
    | keepDir =>
      have hreg : Regular st.2 := by rcases hr with hr | hr; · cases hr
                                     · exact hr
      simp only [applyStrategy] at h
      split at h
      · cases h
      · cases h; exact hreg.1 h0
      · split at h <;> (cases h; exact hreg.1 h0)
    | number =>
      have hreg : Regular st.2 := by rcases hr with hr | hr; · cases hr
                                     · exact hr
      simp only [applyStrategy] at h
      split at h
      · cases h
        have hsp : ' ' ∈ numbered (splitext st.2).1 (splitext st.2).2
            (nextIndex ((fs.listdir st.1).filterMap (matchIndex (splitext st.2).1 (splitext st.2).2))) := by
          simp [numbered]
        simp only at h0
        rw [h0] at hsp
        simp at hsp
      · cases h; exact hreg.1 h0
  · exact h0

theorem chainAux_ok (fs : Fs) (remote : List Char) (hp : localParts remote ≠ []) (ss : List Strategy) :
    ∀ (st : Path × Name), Inv st → (Regular st.2 ∨ Strategy.default ∈ ss) →
    ∃ st', chainAux fs remote ss st = .ok st' ∧ Regular st'.2 := by
  induction ss with
  | nil =>
    intro st _ hr
    rcases hr with hr | hr
    · exact ⟨st, rfl, hr⟩
    · simp at hr
  | cons s ss ih =>
    intro st hinv hr
    obtain ⟨st1, h1⟩ := applyStrategy_ok fs remote hp st s
    have hinv1 := applyStrategy_inv fs remote st st1 s hinv h1
    simp only [chainAux, h1]
    apply ih st1 hinv1
    by_cases hs : s = .default
    · exact Or.inl (applyStrategy_regular fs remote st st1 s hinv h1 (Or.inl hs))
    · rcases hr with hr | hr
      · exact Or.inl (applyStrategy_regular fs remote st st1 s hinv h1 (Or.inr hr))
      · rcases List.mem_cons.mp hr with hr | hr
        · exact absurd hr.symm hs
        · exact Or.inr hr

/-! ### claiming -/

theorem mkdirs_mono (cs : List Name) : ∀ (fs fs' : Fs) (base : Path), mkdirs fs base cs = some fs' →
    ∀ e ∈ fs, e ∈ fs' := by
  induction cs with
  | nil => intro fs fs' base h e he; simp only [mkdirs] at h; cases h; exact he
  | cons c cs ih =>
    intro fs fs' base h e he
    simp only [mkdirs] at h
    split at h
    · split at h
      · exact ih _ _ _ h e he
      · cases h
    · exact ih _ _ _ h e (by simp [he])

theorem claim_spec (fs fs' : Fs) (d : Path) (n : Name) (h : claim fs d n = some fs') :
    (∀ e ∈ fs, e ∈ fs') ∧ fs'.has d n = true := by
  unfold claim at h
  split at h
  · cases h
  · rename_i fs1 h1
    have hm := mkdirs_mono d fs fs1 [] h1
    split at h
    · rename_i e he
      split at h
      · cases h
      · cases h
        refine ⟨hm, ?_⟩
        have := List.find?_some he
        have hmem := List.mem_of_find?_eq_some he
        unfold Fs.has
        rw [List.any_eq_true]
        exact ⟨e, hmem, this⟩
    · cases h
      refine ⟨fun e he => by simp [hm e he], ?_⟩
      simp [Fs.has]

/-- every active download holds a regular name that exists in the directory -/
def SysInv (s : Sys) : Prop :=
  (∀ a ∈ s.active, Regular a.name ∧ s.fs.has a.dir a.name = true) ∧
  s.active.Pairwise (fun a b => (a.dir, a.name) ≠ (b.dir, b.name))

theorem step_inv (ss : List Strategy) (hl : ss.getLast? = some .number) (s : Sys) (op : Op)
    (hinv : SysInv s) : SysInv (step ss s op).1 := by
  cases op with
  | start id remote =>
    simp only [step]
    split
    · exact hinv
    · split
      · exact hinv
      · rename_i d n hch
        split
        · exact hinv
        · rename_i fs' hcl
          obtain ⟨haux, _, hreg⟩ := chain_ok s.fs ss remote d n hch
          have hfresh := chainAux_fresh s.fs remote ss _ _ inv_init hl haux
          simp only at hfresh
          rw [pathExists_regular _ _ _ hreg] at hfresh
          obtain ⟨hmono, hhas⟩ := claim_spec s.fs fs' d n hcl
          refine ⟨?_, ?_⟩
          · intro a ha
            simp only [List.mem_cons] at ha
            rcases ha with rfl | ha
            · exact ⟨hreg, hhas⟩
            · refine ⟨(hinv.1 a ha).1, ?_⟩
              have h2 := (hinv.1 a ha).2
              unfold Fs.has at h2 ⊢
              rw [List.any_eq_true] at h2 ⊢
              obtain ⟨e, he, hp⟩ := h2
              exact ⟨e, hmono e he, hp⟩
          · simp only [List.pairwise_cons]
            refine ⟨?_, hinv.2⟩
            intro a ha heq
            have h2 := (hinv.1 a ha).2
            simp only [Prod.mk.injEq] at heq
            rw [← heq.1, ← heq.2, hfresh] at h2
            cases h2
  | finish id =>
    simp only [step]
    refine ⟨?_, ?_⟩
    · intro a ha
      exact hinv.1 a (List.mem_filter.mp ha).1
    · exact hinv.2.sublist List.filter_sublist

theorem run_inv (ss : List Strategy) (hl : ss.getLast? = some .number) (ops : List Op) :
    ∀ s, SysInv s → SysInv (run ss s ops) := by
  induction ops with
  | nil => intro s h; exact h
  | cons op ops ih =>
    intro s h
    simp only [run, List.foldl_cons]
    exact ih _ (step_inv ss hl s op h)

end AioslskVerif.Naming
