import AioslskVerif.Model.Naming
/-! Helper lemmas for C09 (model: `Model/Naming.lean`). -/
namespace AioslskVerif.Naming

/-! ### splitting -/

theorem splitAux_parts (s : List Char) : ∀ (cur : List Char), (∀ c ∈ cur, isSep c = false) →
    ∀ p ∈ splitAux s cur, p ≠ [] ∧ ∀ c ∈ p, isSep c = false := by
  induction s with
  | nil =>
    intro cur hcur p hp
    unfold splitAux at hp
    split at hp
    · simp at hp
    · rename_i hne
      simp only [List.mem_singleton] at hp
      subst hp
      refine ⟨?_, ?_⟩
      · intro h; apply hne; simpa using h
      · intro c hc; exact hcur c (by simpa using hc)
  | cons a s ih =>
    intro cur hcur p hp
    unfold splitAux at hp
    split at hp
    · split at hp
      · exact ih [] (by simp) p hp
      · rename_i hne
        rcases List.mem_cons.mp hp with h | h
        · subst h
          refine ⟨?_, ?_⟩
          · intro h; apply hne; simpa using h
          · intro c hc; exact hcur c (by simpa using hc)
        · exact ih [] (by simp) p h
    · rename_i hsep
      apply ih (a :: cur) _ p hp
      intro c hc
      rcases List.mem_cons.mp hc with h | h
      · subst h; simpa using hsep
      · exact hcur c h

theorem localParts_regular (r : List Char) : ∀ p ∈ localParts r, Regular p := by
  intro p hp
  unfold localParts at hp
  rw [List.mem_filter] at hp
  obtain ⟨hmem, hf⟩ := hp
  have h := splitAux_parts r [] (by simp) p hmem
  simp only [Bool.and_eq_true, bne_iff_ne, ne_eq] at hf
  exact ⟨h.1, hf.1, hf.2, h.2⟩

/-! ### splitext -/

theorem splitext_append (n : Name) : (splitext n).1 ++ (splitext n).2 = n := by
  unfold splitext
  have key := List.takeWhile_append_dropWhile (p := (· != '.')) (l := n.reverse)
  dsimp only
  split
  · simp
  · rename_i c stemRev hd
    split
    · simp
    · simp only
      rw [hd] at key
      have : n = (List.takeWhile (fun x => x != '.') n.reverse ++ c :: stemRev).reverse := by
        rw [key]; simp
      conv => rhs; rw [this]
      simp

theorem splitext_mem (n : Name) (c : Char) :
    c ∈ (splitext n).1 ∨ c ∈ (splitext n).2 → c ∈ n := by
  intro h
  rw [← splitext_append n]
  exact List.mem_append.mpr h

/-! ### numbering -/

theorem numbered_regular (stem ext : Name) (k : Nat)
    (h : ∀ c, c ∈ stem ∨ c ∈ ext → isSep c = false) : Regular (numbered stem ext k) := by
  have hsp : ' ' ∈ numbered stem ext k := by simp [numbered]
  refine ⟨?_, ?_, ?_, ?_⟩
  · intro h0; rw [h0] at hsp; simp at hsp
  · intro h0; rw [h0] at hsp; simp [dot] at hsp
  · intro h0; rw [h0] at hsp; simp [dotdot] at hsp
  · intro c hc
    simp only [numbered, List.mem_append, List.mem_cons, List.not_mem_nil, or_false] at hc
    rcases hc with (((hc | hc) | hc) | hc) | hc
    · exact h c (Or.inl hc)
    · rcases hc with rfl | rfl <;> decide
    · have := Nat.isDigit_of_mem_toDigits (by decide) (by decide) hc
      simp only [isSep, Bool.or_eq_false_iff, beq_eq_false_iff_ne, ne_eq]
      constructor <;> (intro h0; subst h0; revert this; decide)
    · subst hc; decide
    · exact h c (Or.inr hc)

theorem stripPrefix_append (p s : List Char) : stripPrefix p (p ++ s) = some s := by
  induction p with
  | nil => cases s <;> simp [stripPrefix]
  | cons a p ih => simp [stripPrefix, ih]

theorem takeWhile_digits (ds rest : List Char) (h : ∀ c ∈ ds, c.isDigit = true) :
    (ds ++ ')' :: rest).takeWhile Char.isDigit = ds ∧
    (ds ++ ')' :: rest).dropWhile Char.isDigit = ')' :: rest := by
  induction ds with
  | nil => constructor <;> simp <;> decide
  | cons a ds ih =>
    have ha : a.isDigit = true := h a (by simp)
    have := ih (fun c hc => h c (by simp [hc]))
    simp [ha, this]

theorem matchIndex_numbered (stem ext : Name) (k : Nat) (tail : List Char) :
    matchIndex stem ext (numbered stem ext k ++ tail) = some k := by
  have h1 : numbered stem ext k ++ tail
      = (stem ++ [' ', '(']) ++ (Nat.toDigits 10 k ++ ')' :: (ext ++ tail)) := by
    simp [numbered]
  have hd := takeWhile_digits (Nat.toDigits 10 k) (ext ++ tail)
    (fun c hc => Nat.isDigit_of_mem_toDigits (by decide) (by decide) hc)
  unfold matchIndex
  rw [h1, stripPrefix_append]
  simp only [hd.1, hd.2]
  have hne : (Nat.toDigits 10 k).isEmpty = false := by
    cases h : Nat.toDigits 10 k with
    | nil => exact absurd h Nat.toDigits_ne_nil
    | cons _ _ => rfl
  simp [hne, stripPrefix_append, Nat.ofDigitChars_ten_toDigits]

theorem le_foldl_max (rest : List Nat) : ∀ (i : Nat), i ≤ rest.foldl max i ∧ ∀ x ∈ rest, x ≤ rest.foldl max i := by
  induction rest with
  | nil => intro i; simp
  | cons a rest ih =>
    intro i
    have h := ih (max i a)
    simp only [List.foldl_cons]
    refine ⟨by omega, ?_⟩
    intro x hx
    rcases List.mem_cons.mp hx with rfl | hx
    · omega
    · exact h.2 x hx

theorem firstFree_not_mem (is : List Nat) : ∀ (fuel start : Nat), (∀ x ∈ is, x < start + fuel) →
    firstFree is start fuel ∉ is := by
  intro fuel
  induction fuel with
  | zero =>
    intro start h hm
    have := h _ hm
    simp [firstFree] at this
  | succ f ih =>
    intro start h
    unfold firstFree
    split
    · exact ih (start + 1) (fun x hx => by have := h x hx; omega)
    · rename_i hc; simpa using hc

theorem nextIndex_not_mem (is : List Nat) : nextIndex is ∉ is := by
  unfold nextIndex
  split
  · simp
  · rename_i i rest
    apply firstFree_not_mem
    intro x hx
    have h := le_foldl_max rest i
    have : x ≤ rest.foldl max i := by
      rcases List.mem_cons.mp hx with rfl | hx
      · exact h.1
      · exact h.2 x hx
    omega

/-- the numbered name is not in the listing the indices were taken from -/
theorem numbered_fresh (stem ext : Name) (listing : List Name) :
    numbered stem ext (nextIndex (listing.filterMap (matchIndex stem ext))) ∉ listing := by
  intro hmem
  apply nextIndex_not_mem (listing.filterMap (matchIndex stem ext))
  rw [List.mem_filterMap]
  refine ⟨_, hmem, ?_⟩
  have := matchIndex_numbered stem ext (nextIndex (listing.filterMap (matchIndex stem ext))) []
  simpa using this

/-! ### the file system view -/

theorem pathExists_regular (fs : Fs) (d : Path) (n : Name) (h : Regular n) :
    fs.pathExists d n = fs.has d n := by
  unfold Fs.pathExists
  have : ¬ (n = [] ∨ n = dot ∨ n = dotdot) := by
    rintro (h0 | h0 | h0)
    · exact h.1 h0
    · exact h.2.1 h0
    · exact h.2.2.1 h0
  simp [this]

theorem has_iff_mem_listdir (fs : Fs) (d : Path) (n : Name) :
    fs.has d n = true ↔ n ∈ fs.listdir d := by
  unfold Fs.has Fs.listdir
  simp only [List.any_eq_true, Bool.and_eq_true, beq_iff_eq, List.mem_map, List.mem_filter]
  constructor
  · rintro ⟨e, he, h1, h2⟩; exact ⟨e, ⟨he, h1⟩, h2⟩
  · rintro ⟨e, ⟨he, h1⟩, h2⟩; exact ⟨e, he, h1, h2⟩

/-! ### the chain -/

/-- invariant of the `(path, filename)` pair threaded through `chain_strategies` -/
def Inv (st : Path × Name) : Prop := (∀ c ∈ st.1, Regular c) ∧ (st.2 = [] ∨ Regular st.2)

theorem inv_init : Inv (([], []) : Path × Name) := ⟨by simp, Or.inl rfl⟩

theorem applyStrategy_inv (fs : Fs) (remote : List Char) (st st' : Path × Name) (s : Strategy)
    (hinv : Inv st) (h : applyStrategy fs remote st s = .ok st') : Inv st' := by
  cases s with
  | default =>
    simp only [applyStrategy] at h
    split at h
    · cases h
    · rename_i n hn
      cases h
      exact ⟨hinv.1, Or.inr (localParts_regular remote n (List.mem_of_getLast? hn))⟩
  | keepDir =>
    simp only [applyStrategy] at h
    split at h
    · cases h
    · cases h; exact hinv
    · rename_i a c rest hrev
      split at h
      · cases h; exact hinv
      · cases h
        refine ⟨?_, hinv.2⟩
        intro x hx
        rcases List.mem_append.mp hx with hx | hx
        · exact hinv.1 x hx
        · simp only [List.mem_singleton] at hx
          subst hx
          apply localParts_regular remote
          have : x ∈ (localParts remote).reverse := by rw [hrev]; simp
          simpa using this
  | number =>
    simp only [applyStrategy] at h
    split at h
    · cases h
      refine ⟨hinv.1, Or.inr ?_⟩
      apply numbered_regular
      intro c hc
      have hmem := splitext_mem st.2 c hc
      rcases hinv.2 with h0 | h0
      · rw [h0] at hmem; simp at hmem
      · exact h0.2.2.2 c hmem
    · cases h; exact hinv

theorem chainAux_inv (fs : Fs) (remote : List Char) (ss : List Strategy) : ∀ (st st' : Path × Name),
    Inv st → chainAux fs remote ss st = .ok st' → Inv st' := by
  induction ss with
  | nil => intro st st' hinv h; simp only [chainAux] at h; cases h; exact hinv
  | cons s ss ih =>
    intro st st' hinv h
    simp only [chainAux] at h
    split at h
    · cases h
    · rename_i st1 h1
      exact ih st1 st' (applyStrategy_inv fs remote st st1 s hinv h1) h

theorem chain_ok (fs : Fs) (ss : List Strategy) (remote : List Char) (d : Path) (n : Name)
    (h : chain fs ss remote = .ok (d, n)) :
    chainAux fs remote ss ([], []) = .ok (d, n) ∧ (∀ c ∈ d, Regular c) ∧ Regular n := by
  unfold chain at h
  split at h
  · cases h
  · rename_i st hst
    split at h
    · cases h
    · rename_i hne
      cases h
      have hinv := chainAux_inv fs remote ss _ _ inv_init hst
      refine ⟨hst, hinv.1, ?_⟩
      rcases hinv.2 with h0 | h0
      · exact absurd h0 (by simpa using hne)
      · exact h0

theorem walk_regular (cs : List Name) : ∀ (k : Nat), (∀ c ∈ cs, Regular c) → walk cs k = some (k + cs.length) := by
  induction cs with
  | nil => intro k _; simp [walk]
  | cons c cs ih =>
    intro k h
    have hc := h c (by simp)
    have h1 : ¬ (c = [] ∨ c = dot) := by
      rintro (h0 | h0)
      · exact hc.1 h0
      · exact hc.2.1 h0
    simp only [walk, h1, hc.2.2.1, if_false]
    rw [ih (k + 1) (fun x hx => h x (by simp [hx]))]
    simp only [List.length_cons]
    congr 1
    omega

/-- after a `number` step the result does not exist -/
theorem number_step_fresh (fs : Fs) (remote : List Char) (st st' : Path × Name) (hinv : Inv st)
    (h : applyStrategy fs remote st .number = .ok st') : fs.pathExists st'.1 st'.2 = false := by
  simp only [applyStrategy] at h
  split at h
  · cases h
    have hreg : Regular (numbered (splitext st.2).1 (splitext st.2).2
        (nextIndex ((fs.listdir st.1).filterMap (matchIndex (splitext st.2).1 (splitext st.2).2)))) := by
      apply numbered_regular
      intro c hc
      have hmem := splitext_mem st.2 c hc
      rcases hinv.2 with h0 | h0
      · rw [h0] at hmem; simp at hmem
      · exact h0.2.2.2 c hmem
    simp only
    rw [pathExists_regular _ _ _ hreg]
    have := numbered_fresh (splitext st.2).1 (splitext st.2).2 (fs.listdir st.1)
    rw [← has_iff_mem_listdir] at this
    simpa using this
  · rename_i hne
    cases h
    simpa using hne

theorem chainAux_fresh (fs : Fs) (remote : List Char) (ss : List Strategy) : ∀ (st st' : Path × Name),
    Inv st → ss.getLast? = some .number → chainAux fs remote ss st = .ok st' →
    fs.pathExists st'.1 st'.2 = false := by
  induction ss with
  | nil => intro st st' _ hl; simp at hl
  | cons s ss ih =>
    intro st st' hinv hl h
    simp only [chainAux] at h
    split at h
    · cases h
    · rename_i st1 h1
      cases ss with
      | nil =>
        simp only [List.getLast?_singleton, Option.some.injEq] at hl
        subst hl
        simp only [chainAux] at h
        cases h
        exact number_step_fresh fs remote st _ hinv h1
      | cons s2 ss2 =>
        apply ih st1 st' (applyStrategy_inv fs remote st st1 s hinv h1) _ h
        simpa [List.getLast?_cons_cons] using hl


/-! ### the chain does not refuse without reason -/

theorem applyStrategy_ok (fs : Fs) (remote : List Char) (hp : localParts remote ≠ [])
    (st : Path × Name) (s : Strategy) : ∃ st', applyStrategy fs remote st s = .ok st' := by
  cases s with
  | default =>
    simp only [applyStrategy]
    cases h : (localParts remote).getLast? with
    | none => exact absurd (List.getLast?_eq_none_iff.mp h) hp
    | some n => exact ⟨_, rfl⟩
  | keepDir =>
    simp only [applyStrategy]
    split
    · rename_i h; exact absurd (List.reverse_eq_nil_iff.mp h) hp
    · exact ⟨_, rfl⟩
    · split <;> exact ⟨_, rfl⟩
  | number =>
    simp only [applyStrategy]
    split <;> exact ⟨_, rfl⟩

theorem applyStrategy_regular (fs : Fs) (remote : List Char) (st st' : Path × Name) (s : Strategy)
    (hinv : Inv st) (h : applyStrategy fs remote st s = .ok st')
    (hr : s = .default ∨ Regular st.2) : Regular st'.2 := by
  have hinv' := applyStrategy_inv fs remote st st' s hinv h
  rcases hinv'.2 with h0 | h0
  · exfalso
    cases s with
    | default =>
      simp only [applyStrategy] at h
      split at h
      · cases h
      · rename_i n hn
        cases h
        exact (localParts_regular remote n (List.mem_of_getLast? hn)).1 h0
    | keepDir =>
      have hreg : Regular st.2 := by rcases hr with hr | hr; · cases hr
                                     · exact hr
      simp only [applyStrategy] at h
      split at h
      · cases h
      · cases h; exact hreg.1 h0
      · split at h <;> (cases h; exact hreg.1 h0)
    | number =>
      have hreg : Regular st.2 := by rcases hr with hr | hr; · cases hr
                                     · exact hr
      simp only [applyStrategy] at h
      split at h
      · cases h
        have hsp : ' ' ∈ numbered (splitext st.2).1 (splitext st.2).2
            (nextIndex ((fs.listdir st.1).filterMap (matchIndex (splitext st.2).1 (splitext st.2).2))) := by
          simp [numbered]
        simp only at h0
        rw [h0] at hsp
        simp at hsp
      · cases h; exact hreg.1 h0
  · exact h0

theorem chainAux_ok (fs : Fs) (remote : List Char) (hp : localParts remote ≠ []) (ss : List Strategy) :
    ∀ (st : Path × Name), Inv st → (Regular st.2 ∨ Strategy.default ∈ ss) →
    ∃ st', chainAux fs remote ss st = .ok st' ∧ Regular st'.2 := by
  induction ss with
  | nil =>
    intro st _ hr
    rcases hr with hr | hr
    · exact ⟨st, rfl, hr⟩
    · simp at hr
  | cons s ss ih =>
    intro st hinv hr
    obtain ⟨st1, h1⟩ := applyStrategy_ok fs remote hp st s
    have hinv1 := applyStrategy_inv fs remote st st1 s hinv h1
    simp only [chainAux, h1]
    apply ih st1 hinv1
    by_cases hs : s = .default
    · exact Or.inl (applyStrategy_regular fs remote st st1 s hinv h1 (Or.inl hs))
    · rcases hr with hr | hr
      · exact Or.inl (applyStrategy_regular fs remote st st1 s hinv h1 (Or.inr hr))
      · rcases List.mem_cons.mp hr with hr | hr
        · exact absurd hr.symm hs
        · exact Or.inr hr

/-! ### the final joined path -/

theorem regular_noSlash {n : Name} (h : Regular n) : ∀ c ∈ n, c ≠ '/' := by
  intro c hc h0
  have := h.2.2.2 c hc
  subst h0
  revert this
  decide

theorem osJoin_regular (a : List Char) (b : Name) (hb : Regular b) (ha : a.getLast? ≠ some '/') :
    osJoin a b = some (a ++ '/' :: b) := by
  unfold osJoin
  have h1 : b.head? ≠ some '/' := by
    intro h0
    obtain ⟨ys, hys⟩ := List.head?_eq_some_iff.mp h0
    exact regular_noSlash hb '/' (by rw [hys]; simp) rfl
  simp [h1, ha]

theorem getLast?_snoc_regular (a : List Char) (b : Name) (hb : Regular b) :
    (a ++ '/' :: b).getLast? ≠ some '/' := by
  intro h0
  have hne : b ≠ [] := hb.1
  have : (a ++ '/' :: b).getLast? = b.getLast? := by
    rw [List.getLast?_append]
    cases b with
    | nil => exact absurd rfl hne
    | cons x xs =>
      rw [List.getLast?_cons_cons]
      cases hg : (x :: xs).getLast? with
      | none => exact absurd (List.getLast?_eq_none_iff.mp hg) (by simp)
      | some v => simp
  rw [this] at h0
  exact regular_noSlash hb '/' (List.mem_of_getLast? h0) rfl

theorem joinAll_regular (cs : List Name) : ∀ (a : List Char), (∀ c ∈ cs, Regular c) →
    a.getLast? ≠ some '/' → joinAll a cs = some (a ++ (cs.map ('/' :: ·)).flatten) := by
  induction cs with
  | nil => intro a _ _; simp [joinAll]
  | cons c cs ih =>
    intro a h ha
    have hc := h c (by simp)
    simp only [joinAll, osJoin_regular a c hc ha]
    rw [ih (a ++ '/' :: c) (fun x hx => h x (by simp [hx])) (getLast?_snoc_regular a c hc)]
    simp

theorem splitSlash_noSlash (p : List Char) : ∀ (cur rest : List Char), (∀ c ∈ p, c ≠ '/') →
    splitSlash (p ++ rest) cur = splitSlash rest (p.reverse ++ cur) := by
  induction p with
  | nil => intro cur rest _; simp
  | cons x p ih =>
    intro cur rest h
    have hx : x ≠ '/' := h x (by simp)
    simp only [List.cons_append, splitSlash, hx, if_false]
    rw [ih (x :: cur) rest (fun c hc => h c (by simp [hc]))]
    simp

theorem splitSlash_flatten (cs : List Name) : ∀ (cur : List Char), (∀ c ∈ cs, ∀ x ∈ c, x ≠ '/') →
    splitSlash ((cs.map ('/' :: ·)).flatten) cur = cur.reverse :: cs := by
  induction cs with
  | nil => intro cur _; simp [splitSlash]
  | cons c cs ih =>
    intro cur h
    simp only [List.map_cons, List.flatten_cons, List.cons_append, splitSlash, if_true]
    rw [splitSlash_noSlash c [] _ (h c (by simp)), ih _ (fun x hx => h x (by simp [hx]))]
    simp

theorem walkUp_regular (cs : List Name) : ∀ (st : List Name), (∀ c ∈ cs, Regular c) →
    walkUp cs st = some (st.reverse ++ cs) := by
  induction cs with
  | nil => intro st _; simp [walkUp]
  | cons c cs ih =>
    intro st h
    have hc := h c (by simp)
    have h1 : ¬ (c = [] ∨ c = dot) := by
      rintro (h0 | h0)
      · exact hc.1 h0
      · exact hc.2.1 h0
    simp only [walkUp, h1, hc.2.2.1, if_false]
    rw [ih (c :: st) (fun x hx => h x (by simp [hx]))]
    simp

/-- the string handed to the operating system for regular components, and where it leads -/
theorem finalPath_regular (cs : List Name) (h : ∀ c ∈ cs, Regular c) :
    joinAll [] cs = some ((cs.map ('/' :: ·)).flatten) ∧
    resolve ((cs.map ('/' :: ·)).flatten) = some cs := by
  refine ⟨by simpa using joinAll_regular cs [] h (by simp), ?_⟩
  unfold resolve
  rw [splitSlash_flatten cs [] (fun c hc => regular_noSlash (h c hc))]
  simp only [List.reverse_nil, walkUp, true_or, if_true]
  simpa using walkUp_regular cs [] h

/-! ### claiming -/

theorem mkdirs_mono (cs : List Name) : ∀ (fs : Fs) (base : Path), ∀ e ∈ fs, e ∈ (mkdirs fs base cs).1 := by
  induction cs with
  | nil => intro fs base e he; simpa [mkdirs] using he
  | cons c cs ih =>
    intro fs base e he
    simp only [mkdirs]
    split
    · split
      · exact ih _ _ e he
      · exact he
    · split
      · exact he
      · exact ih _ _ e (by simp [he])

/-- `makedirs` only adds directories -/
theorem mkdirs_new (cs : List Name) : ∀ (fs : Fs) (base : Path) (e : Entry),
    e ∈ (mkdirs fs base cs).1 → e ∈ fs ∨ e.isDir = true := by
  induction cs with
  | nil => intro fs base e he; left; simpa [mkdirs] using he
  | cons c cs ih =>
    intro fs base e he
    simp only [mkdirs] at he
    split at he
    · split at he
      · exact ih _ _ e he
      · exact Or.inl he
    · split at he
      · exact Or.inl he
      · rcases ih _ _ e he with h | h
        · rcases List.mem_cons.mp h with rfl | h
          · exact Or.inr rfl
          · exact Or.inl h
        · exact Or.inr h

theorem claim_mono (fs : Fs) (d : Path) (n : Name) (fault : Fault) : ∀ e ∈ fs, e ∈ (claim fs d n fault).1 := by
  intro e he
  unfold claim
  split
  · exact he
  · have hm := mkdirs_mono d fs [] e he
    split
    · rename_i fs' heq; rw [heq] at hm; exact hm
    · rename_i fs' heq
      rw [heq] at hm
      split
      · exact hm
      · split
        · exact hm
        · split
          · exact hm
          · simp [hm]

theorem claim_spec (fs : Fs) (d : Path) (n : Name) (fault : Fault) (h : (claim fs d n fault).2 = true) :
    (claim fs d n fault).1.has d n = true := by
  unfold claim at h ⊢
  by_cases hmk : fault = .makedirs
  · simp [hmk] at h
  · simp only [hmk, if_false] at h ⊢
    rcases hm : mkdirs fs [] d with ⟨fs', b⟩
    rw [hm] at h
    cases b with
    | false => simp at h
    | true =>
      simp only at h ⊢
      by_cases hop : fault = .open
      · simp [hop] at h
      · simp only [hop, if_false] at h ⊢
        cases hf : fs'.find? (fun e => e.dir == d && e.name == n) with
        | some e =>
          simp only
          have := List.find?_some hf
          have hmem := List.mem_of_find?_eq_some hf
          unfold Fs.has
          rw [List.any_eq_true]
          exact ⟨_, hmem, this⟩
        | none =>
          rw [hf] at h
          simp only at h ⊢
          by_cases hl : tooLong n = true
          · simp [hl] at h
          · simp [hl, Fs.has]

theorem has_mono (fs fs' : Fs) (d : Path) (n : Name) (hm : ∀ e ∈ fs, e ∈ fs') (h : fs.has d n = true) :
    fs'.has d n = true := by
  unfold Fs.has at h ⊢
  rw [List.any_eq_true] at h ⊢
  obtain ⟨e, he, hp⟩ := h
  exact ⟨e, hm e he, hp⟩

/-- every download that holds a path holds a regular path; unless the user has moved its file away (`gone`) the path
exists in the directory, and no two of those hold the same one -/
def SysInv (s : Sys) : Prop :=
  (∀ a ∈ s.dls, Regular a.name ∧ (∀ c ∈ a.dir, Regular c) ∧ (a.status ≠ .gone → s.fs.has a.dir a.name = true)) ∧
  s.dls.Pairwise (fun a b => a.status ≠ .gone → b.status ≠ .gone → (a.dir, a.name) ≠ (b.dir, b.name))

theorem setStatus_inv (fs : Fs) (dls : List Dl) (id : Nat) (o n : Status) (ho : o ≠ .gone) (h : SysInv ⟨fs, dls⟩) :
    SysInv ⟨fs, setStatus id o n dls⟩ := by
  refine ⟨?_, ?_⟩
  · intro a ha
    simp only [setStatus, List.mem_map] at ha
    obtain ⟨b, hb, rfl⟩ := ha
    have := h.1 b hb
    split
    · rename_i hc
      simp only [Bool.and_eq_true, beq_iff_eq] at hc
      exact ⟨this.1, this.2.1, fun _ => this.2.2 (by rw [hc.2]; exact ho)⟩
    · exact this
  · unfold setStatus
    apply List.Pairwise.map _ _ h.2
    intro a b hab
    have key : ∀ x : Dl, (if x.id == id && x.status == o then { x with status := n } else x).status ≠ .gone →
        x.status ≠ .gone := by
      intro x hx
      split at hx
      · rename_i hc
        simp only [Bool.and_eq_true, beq_iff_eq] at hc
        rw [hc.2]; exact ho
      · exact hx
    intro h1 h2
    have := hab (key a h1) (key b h2)
    split <;> split <;> exact this

theorem choose_inv (ss : List Strategy) (hl : ss.getLast? = some .number) (fs : Fs) (rest : List Dl)
    (id : Nat) (remote : List Char) (fault : Fault) (hinv : SysInv ⟨fs, rest⟩) :
    SysInv (chooseAndClaim ss fs rest id remote fault).1 := by
  unfold chooseAndClaim
  split
  · exact hinv
  · rename_i d n hch
    obtain ⟨haux, hdreg, hreg⟩ := chain_ok fs ss remote d n hch
    have hfresh := chainAux_fresh fs remote ss _ _ inv_init hl haux
    simp only at hfresh
    rw [pathExists_regular _ _ _ hreg] at hfresh
    have hmono := claim_mono fs d n fault
    split
    · rename_i fs' heq
      have hm : ∀ e ∈ fs, e ∈ fs' := by intro e he; have := hmono e he; rw [heq] at this; exact this
      refine ⟨?_, hinv.2⟩
      intro a ha
      have := hinv.1 a ha
      exact ⟨this.1, this.2.1, fun hg => has_mono fs fs' _ _ hm (this.2.2 hg)⟩
    · rename_i fs' heq
      have hm : ∀ e ∈ fs, e ∈ fs' := by intro e he; have := hmono e he; rw [heq] at this; exact this
      have hhas : fs'.has d n = true := by
        have := claim_spec fs d n fault (by rw [heq])
        rw [heq] at this; exact this
      refine ⟨?_, ?_⟩
      · intro a ha
        simp only [List.mem_cons] at ha
        rcases ha with rfl | ha
        · exact ⟨hreg, hdreg, fun _ => hhas⟩
        · have := hinv.1 a ha
          exact ⟨this.1, this.2.1, fun hg => has_mono fs fs' _ _ hm (this.2.2 hg)⟩
      · simp only [List.pairwise_cons]
        refine ⟨?_, hinv.2⟩
        intro a ha _ hg heq2
        have h2 := (hinv.1 a ha).2.2 hg
        simp only [Prod.mk.injEq] at heq2
        rw [← heq2.1, ← heq2.2, hfresh] at h2
        cases h2

theorem drop_inv (s : Sys) (id : Nat) (h : SysInv s) : SysInv ⟨s.fs, s.drop id⟩ :=
  ⟨fun a ha => h.1 a (List.mem_filter.mp ha).1, h.2.sublist List.filter_sublist⟩

/-- a symmetric relation that holds pairwise holds between any two different members -/
theorem pairwise_mem {α : Type} {R : α → α → Prop} (hsym : ∀ a b, R a b → R b a) :
    ∀ (l : List α), l.Pairwise R → ∀ a ∈ l, ∀ b ∈ l, a ≠ b → R a b := by
  intro l
  induction l with
  | nil => intro _ a ha; cases ha
  | cons x xs ih =>
    intro hp a ha b hb hne
    rw [List.pairwise_cons] at hp
    simp only [List.mem_cons] at ha hb
    rcases ha with rfl | ha <;> rcases hb with rfl | hb
    · exact absurd rfl hne
    · exact hp.1 b hb
    · exact hsym _ _ (hp.1 a ha)
    · exact ih hp.2 a ha b hb hne

/-- removing the entries called `(d, n)` leaves every other name where it was -/
theorem has_filter_ne (fs : Fs) (d d' : Path) (n n' : Name) (hne : (d', n') ≠ (d, n)) (h : fs.has d' n' = true) :
    Fs.has (fs.filter (fun e => !(e.dir == d && e.name == n))) d' n' = true := by
  unfold Fs.has at *
  rw [List.any_eq_true] at *
  obtain ⟨e, he, hq⟩ := h
  refine ⟨e, ?_, hq⟩
  rw [List.mem_filter]
  refine ⟨he, ?_⟩
  simp only [Bool.and_eq_true, beq_iff_eq] at hq
  simp only [Bool.not_eq_eq_eq_not, Bool.not_true, Bool.and_eq_false_iff, beq_eq_false_iff_ne, ne_eq]
  by_cases hd : e.dir = d
  · right
    intro hn
    apply hne
    rw [← hq.1, ← hq.2, hd, hn]
  · left; exact hd

theorem remove_inv (s : Sys) (id : Nat) (a : Dl) (hf : s.find id = some a) (hc : a.status = .complete)
    (h : SysInv s) :
    SysInv ⟨s.fs.filter (fun e => !(e.dir == a.dir && e.name == a.name)), setStatus id .complete .gone s.dls⟩ := by
  have hmem : a ∈ s.dls := List.mem_of_find?_eq_some hf
  have hid : a.id = id := by
    have := List.find?_some hf
    simpa using this
  have hsym : ∀ x y : Dl, (x.status ≠ .gone → y.status ≠ .gone → (x.dir, x.name) ≠ (y.dir, y.name)) →
      (y.status ≠ .gone → x.status ≠ .gone → (y.dir, y.name) ≠ (x.dir, x.name)) :=
    fun x y hxy hy hx heq => hxy hx hy heq.symm
  refine ⟨?_, ?_⟩
  · intro b hb
    simp only [setStatus, List.mem_map] at hb
    obtain ⟨c, hcm, rfl⟩ := hb
    have hcinv := h.1 c hcm
    split
    · exact ⟨hcinv.1, hcinv.2.1, fun hg => absurd rfl hg⟩
    · rename_i hnc
      refine ⟨hcinv.1, hcinv.2.1, fun hg => ?_⟩
      have hca : c ≠ a := by
        intro heq
        apply hnc
        rw [heq, hid, hc]
        simp
      have hdiff := pairwise_mem hsym s.dls h.2 c hcm a hmem hca hg (by rw [hc]; decide)
      exact has_filter_ne s.fs a.dir c.dir a.name c.name hdiff (hcinv.2.2 hg)
  · unfold setStatus
    apply List.Pairwise.map _ _ h.2
    intro x y hxy h1 h2
    have key : ∀ z : Dl, (if z.id == id && z.status == Status.complete then { z with status := Status.gone } else z).status
        ≠ .gone → z.status ≠ .gone ∧
        (if z.id == id && z.status == Status.complete then { z with status := Status.gone } else z) = z := by
      intro z hz
      split at hz
      · exact absurd rfl hz
      · rename_i hn
        exact ⟨hz, by rw [if_neg hn]⟩
    obtain ⟨hx, ex⟩ := key x h1
    obtain ⟨hy, ey⟩ := key y h2
    rw [ex, ey]
    exact hxy hx hy

theorem abort_inv (s : Sys) (id : Nat) (a : Dl) (hf : s.find id = some a) (hc : a.status = .broken)
    (h : SysInv s) :
    SysInv ⟨s.fs.filter (fun e => !(e.dir == a.dir && e.name == a.name)), s.drop id⟩ := by
  have hmem : a ∈ s.dls := List.mem_of_find?_eq_some hf
  have hid : a.id = id := by
    have := List.find?_some hf
    simpa using this
  have hsym : ∀ x y : Dl, (x.status ≠ .gone → y.status ≠ .gone → (x.dir, x.name) ≠ (y.dir, y.name)) →
      (y.status ≠ .gone → x.status ≠ .gone → (y.dir, y.name) ≠ (x.dir, x.name)) :=
    fun x y hxy hy hx heq => hxy hx hy heq.symm
  refine ⟨?_, h.2.sublist List.filter_sublist⟩
  intro b hb
  have hbm := (List.mem_filter.mp hb).1
  have hbid : b.id ≠ id := by simpa using (List.mem_filter.mp hb).2
  have hbinv := h.1 b hbm
  refine ⟨hbinv.1, hbinv.2.1, fun hg => ?_⟩
  have hba : b ≠ a := by
    intro heq
    apply hbid
    rw [heq, hid]
  have hdiff := pairwise_mem hsym s.dls h.2 b hbm a hmem hba hg (by rw [hc]; decide)
  exact has_filter_ne s.fs a.dir b.dir a.name b.name hdiff (hbinv.2.2 hg)

theorem step_inv (ss : List Strategy) (hl : ss.getLast? = some .number) (s : Sys) (op : Op)
    (hinv : SysInv s) : SysInv (step ss s op).1 := by
  cases op with
  | start id remote fault =>
    simp only [step]
    split
    · split
      · exact hinv
      · exact setStatus_inv s.fs s.dls id _ _ (by decide) hinv
      · exact choose_inv ss hl s.fs (s.drop id) id remote fault (drop_inv s id hinv)
      · exact choose_inv ss hl s.fs (s.drop id) id remote fault (drop_inv s id hinv)
    · exact choose_inv ss hl s.fs s.dls id remote fault hinv
  | finish id => exact setStatus_inv s.fs s.dls id _ _ (by decide) hinv
  | cut id => exact setStatus_inv s.fs s.dls id _ _ (by decide) hinv
  | remove id =>
    simp only [step]
    split
    · rename_i a hf
      split
      · rename_i hc
        split
        · exact remove_inv s id a hf hc hinv
        · exact hinv
      · exact hinv
    · exact hinv
  | requeue id =>
    simp only [step]
    split
    · split
      · exact drop_inv s id hinv
      · exact hinv
    · exact hinv
  | abort id =>
    simp only [step]
    split
    · rename_i a hf
      split
      · rename_i hc
        exact abort_inv s id a hf hc hinv
      · exact hinv
    · exact hinv

theorem run_inv (ss : List Strategy) (hl : ss.getLast? = some .number) (ops : List Op) :
    ∀ s, SysInv s → SysInv (run ss s ops) := by
  induction ops with
  | nil => intro s h; exact h
  | cons op ops ih =>
    intro s h
    simp only [run, List.foldl_cons]
    exact ih _ (step_inv ss hl s op h)

end AioslskVerif.Naming
