import AioslskVerif.Proofs.ConnBase
/-! The step table of `Proofs/ConnBase.lean` for connections of origin `incoming`, type F, by kernel evaluation. -/
namespace AioslskVerif.Conn

theorem table_incoming_F : tableFor .incoming true = true := by decide +kernel

end AioslskVerif.Conn
