import AioslskVerif.Model.Track
/-! Helper lemmas for C15 about the ghost histories: attempts with repetitions left out (`collapse`), the event
log (`Justified`, `framesOf`) — how they grow when one element is appended. -/
namespace AioslskVerif.Track

/-! ### repetitions left out, the event log -/

/-- "the last attempt before this point was an AddUser" -/
def lastIsAdd (p : Bool) (l : List Frame) : Bool :=
  match l.getLast? with
  | some f => decide (f = .addUser)
  | none => p

theorem lastIsAdd_cons (p : Bool) (a : Frame) (l : List Frame) :
    lastIsAdd p (a :: l) = lastIsAdd (decide (a = .addUser)) l := by
  cases l with
  | nil => simp [lastIsAdd]
  | cons b l =>
    unfold lastIsAdd
    rw [List.getLast?_cons_cons]
    cases h : (b :: l).getLast? with
    | none => simp at h
    | some f => rfl

theorem collapseFrom_append_remove (l : List Frame) : ∀ p : Bool,
    collapseFrom p (l ++ [.removeUser]) = collapseFrom p l ++ [.removeUser] := by
  induction l with
  | nil => intro p; simp [collapseFrom]
  | cons a l ih =>
    intro p
    cases a with
    | addUser => cases p <;> simp [collapseFrom, ih]
    | removeUser => simp [collapseFrom, ih]

theorem collapseFrom_append_add (l : List Frame) : ∀ p : Bool,
    collapseFrom p (l ++ [.addUser]) = collapseFrom p l ++ (if lastIsAdd p l then [] else [.addUser]) := by
  induction l with
  | nil => intro p; cases p <;> simp [collapseFrom, lastIsAdd]
  | cons a l ih =>
    intro p
    rw [lastIsAdd_cons]
    cases a with
    | addUser => cases p <;> simp [collapseFrom, ih]
    | removeUser => simp [collapseFrom, ih]

theorem collapse_append_remove (l : List Frame) : collapse (l ++ [.removeUser]) = collapse l ++ [.removeUser] :=
  collapseFrom_append_remove l false

theorem collapse_append_add_of_last (l : List Frame) (h : l.getLast? = some .addUser) :
    collapse (l ++ [.addUser]) = collapse l := by
  unfold collapse
  rw [collapseFrom_append_add]
  simp [lastIsAdd, h]

theorem collapse_append_add_of_not_last (l : List Frame) (h : l.getLast? ≠ some .addUser) :
    collapse (l ++ [.addUser]) = collapse l ++ [.addUser] := by
  unfold collapse
  rw [collapseFrom_append_add]
  have : lastIsAdd false l = false := by
    unfold lastIsAdd
    cases hl : l.getLast? with
    | none => rfl
    | some f =>
      cases f with
      | addUser => exact (h hl).elim
      | removeUser => simp
  simp [this]

theorem collapseFrom_last (l : List Frame) : ∀ p : Bool,
    ((collapseFrom p l).getLast? = some .addUser ∨ (collapseFrom p l = [] ∧ p = true)) ↔ lastIsAdd p l = true := by
  induction l with
  | nil => intro p; cases p <;> simp [collapseFrom, lastIsAdd]
  | cons a l ih =>
    intro p
    rw [lastIsAdd_cons]
    cases a with
    | addUser =>
      cases p with
      | true => simpa [collapseFrom] using ih true
      | false =>
        have := ih true
        simp only [collapseFrom, decide_true] at this ⊢
        rw [← this]
        cases hc : collapseFrom true l with
        | nil => simp
        | cons b m => simp [List.getLast?_cons_cons]
    | removeUser =>
      have := ih false
      simp only [collapseFrom] at this ⊢
      have hd : decide (Frame.removeUser = Frame.addUser) = false := by decide
      rw [hd, ← this]
      cases hc : collapseFrom false l with
      | nil => simp
      | cons b m => simp [List.getLast?_cons_cons]

/-- leaving the repetitions out does not change what the last attempt was -/
theorem collapse_last (l : List Frame) : (collapse l).getLast? = some .addUser ↔ l.getLast? = some .addUser := by
  have := collapseFrom_last l false
  unfold collapse
  simp only [Bool.false_eq_true, and_false, or_false] at this
  rw [this]
  unfold lastIsAdd
  cases l.getLast? with
  | none => simp
  | some f => cases f <;> simp

def lastOr (p : Option Ev) (l : List Ev) : Option Ev :=
  match l.getLast? with
  | some y => some y
  | none => p

theorem justifiedFrom_append (l : List Ev) (x : Ev) : ∀ p : Option Ev,
    justifiedFrom p (l ++ [x]) = (justifiedFrom p l && x.okAfter (lastOr p l)) := by
  induction l with
  | nil => intro p; simp [justifiedFrom, lastOr]
  | cons a l ih =>
    intro p
    have hl : lastOr p (a :: l) = lastOr (some a) l := by
      cases l with
      | nil => simp [lastOr]
      | cons b m =>
        unfold lastOr
        rw [List.getLast?_cons_cons]
        cases h : (b :: m).getLast? with
        | none => simp at h
        | some f => rfl
    simp only [List.cons_append, justifiedFrom, ih, hl, Bool.and_assoc]

theorem justified_append (l : List Ev) (x : Ev) :
    Justified (l ++ [x]) = (Justified l && x.okAfter l.getLast?) := by
  unfold Justified
  rw [justifiedFrom_append]
  congr 2
  unfold lastOr
  cases l.getLast? <;> rfl

theorem framesOf_append (l m : List Ev) : framesOf (l ++ m) = framesOf l ++ framesOf m := by
  induction l with
  | nil => rfl
  | cons a l ih => cases a <;> simp [framesOf, ih]

@[simp] theorem justified_nil : Justified [] = true := rfl
@[simp] theorem framesOf_nil : framesOf [] = [] := rfl
@[simp] theorem collapse_nil : collapse [] = [] := rfl

end AioslskVerif.Track
