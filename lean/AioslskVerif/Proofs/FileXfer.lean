import AioslskVerif.Model.FileXfer
/-!
Helper lemmas for C04 (model: `Model/FileXfer.lean`).
-/
namespace AioslskVerif.FileXfer
open AioslskVerif.Generated.Rate

theorem chunkOf_pos (lim : Bool) : 0 < chunkOf lim := by
  cases lim <;> decide

/-! ### `finish`, `onRead` -/

@[simp] theorem finish_loc (d : Dl) : (finish d).loc = d.loc := rfl
@[simp] theorem finish_bt (d : Dl) : (finish d).bt = d.bt := rfl
@[simp] theorem finish_filesize (d : Dl) : (finish d).filesize = d.filesize := rfl
@[simp] theorem finish_closed (d : Dl) : (finish d).closed = true := rfl

theorem finish_st (d : Dl) :
    (finish d).st = .complete ∧ d.filesize = d.bt ∨ (finish d).st = .failedCancelled ∧ d.filesize ≠ d.bt := by
  unfold finish
  by_cases h : d.filesize = d.bt <;> simp [h]

theorem finish_st_ne_downloading (d : Dl) : (finish d).st ≠ .downloading := by
  rcases finish_st d with h | h <;> simp [h.1]

theorem finish_st_ne_queued (d : Dl) : (finish d).st ≠ .queued := by
  rcases finish_st d with h | h <;> simp [h.1]

theorem onRead_loc (d : Dl) (data : Bytes) : (onRead d data).loc = d.loc ++ data := by
  unfold onRead; dsimp only; split <;> rfl

theorem onRead_bt (d : Dl) (data : Bytes) : (onRead d data).bt = d.bt + data.length := by
  unfold onRead; dsimp only; split <;> rfl

theorem onRead_filesize (d : Dl) (data : Bytes) : (onRead d data).filesize = d.filesize := by
  unfold onRead; dsimp only; split <;> rfl

/-- bookkeeping invariant — holds against ANY sender -/
structure Inv (d : Dl) : Prop where
  bt_len : d.st ≠ .queued → d.bt = d.loc.length
  complete_size : d.st = .complete → d.filesize = d.bt
  running : d.st = .downloading → 0 < d.chunk ∧ (d.received : Int) < d.remaining ∧
    d.remaining - (d.received : Int) = (d.filesize : Int) - (d.loc.length : Int)

theorem inv_init (pre : Bytes) : Inv (Dl.init pre) :=
  ⟨fun h => absurd rfl h, (fun h => by simp [Dl.init] at h), (fun h => by simp [Dl.init] at h)⟩

theorem inv_finish (d : Dl) (h : d.bt = d.loc.length) : Inv (finish d) := by
  refine ⟨fun _ => by simpa using h, fun hc => ?_, fun hc => absurd hc (finish_st_ne_downloading d)⟩
  rcases finish_st d with h1 | h1
  · simpa using h1.2
  · rw [h1.1] at hc; cases hc

theorem inv_onRead (d : Dl) (data : Bytes) (hst : d.st = .downloading) (hi : Inv d) :
    Inv (onRead d data) := by
  have hb := hi.bt_len (by simp [hst])
  obtain ⟨hc, _, hr⟩ := hi.running hst
  unfold onRead; dsimp only
  split
  · apply inv_finish; simp [hb]
  · rename_i hlt
    refine ⟨fun _ => by simp [hb], (fun hc => by simp [hst] at hc), fun _ => ⟨hc, ?_, ?_⟩⟩
    · dsimp only; omega
    · dsimp only; simp only [List.length_append]; omega

theorem inv_drain (fuel : Nat) : ∀ (d : Dl) (buf : Bytes), Inv d → Inv (drain fuel d buf) := by
  induction fuel with
  | zero => intro d buf h; exact h
  | succ n ih =>
    intro d buf h
    unfold drain
    split
    · exact h
    · rename_i hc
      have hst : d.st = .downloading := by
        by_cases hs : d.st = .downloading
        · exact hs
        · exact absurd (Or.inl hs) hc
      exact ih _ _ (inv_onRead d _ hst h)

theorem inv_begin (d : Dl) (a : Nat) (lim : Bool) : Inv (begin d a lim) := by
  unfold begin; dsimp only
  split
  · apply inv_finish; rfl
  · rename_i hlt
    refine ⟨fun _ => rfl, (fun hc => by cases hc), fun _ => ⟨chunkOf_pos lim, ?_, ?_⟩⟩
    · dsimp only; omega
    · dsimp only; omega

theorem inv_step (d : Dl) (op : Op) (h : Inv d) : Inv (step d op) := by
  cases op with
  | begin a lim => simp only [step]; split; exact inv_begin d a lim; exact h
  | beginCut a =>
    simp only [step]; split
    · exact ⟨fun hq => absurd rfl hq, (fun hc => by cases hc), (fun hc => by cases hc)⟩
    · exact h
  | seg bs => simp only [step]; split; exact inv_drain _ _ _ h; exact h
  | eof =>
    simp only [step]; split
    · rename_i hs; exact inv_finish d (h.bt_len (by simp [hs]))
    · exact h
  | err =>
    simp only [step]; split
    · rename_i hs
      exact ⟨fun _ => h.bt_len (by simp [hs]), (fun hc => by cases hc), (fun hc => by cases hc)⟩
    · exact h

theorem inv_run (ops : List Op) : ∀ d, Inv d → Inv (run d ops) := by
  induction ops with
  | nil => intro d h; exact h
  | cons op ops ih => intro d h; exact ih _ (inv_step d op h)

/-! ### what `drain` writes -/

theorem drain_loc (fuel : Nat) : ∀ (d : Dl) (buf : Bytes),
    ∃ k, (drain fuel d buf).loc = d.loc ++ buf.take k := by
  induction fuel with
  | zero => intro d buf; exact ⟨0, by simp [drain]⟩
  | succ n ih =>
    intro d buf
    unfold drain
    split
    · exact ⟨0, by simp⟩
    · obtain ⟨k, hk⟩ := ih (onRead d (buf.take d.chunk)) (buf.drop d.chunk)
      refine ⟨d.chunk + k, ?_⟩
      rw [hk, onRead_loc, List.take_add, List.append_assoc]

theorem drain_filesize (fuel : Nat) : ∀ (d : Dl) (buf : Bytes),
    (drain fuel d buf).filesize = d.filesize := by
  induction fuel with
  | zero => intro d buf; rfl
  | succ n ih =>
    intro d buf
    unfold drain
    split
    · rfl
    · rw [ih, onRead_filesize]

theorem drain_not_downloading (fuel : Nat) (d : Dl) (buf : Bytes) (h : d.st ≠ .downloading) :
    drain fuel d buf = d := by
  cases fuel with
  | zero => rfl
  | succ n => unfold drain; simp [h]

theorem drain_nil (fuel : Nat) (d : Dl) : drain fuel d [] = d := by
  cases fuel with
  | zero => rfl
  | succ n => unfold drain; simp

/-! ### honest sender -/

/-- invariant of runs against an honest uploader of `F` -/
structure HInv (F : Bytes) (d : Dl) : Prop where
  pre : d.loc <+: F
  size : d.st ≠ .queued → d.filesize = F.length

theorem prefix_drop {F loc : Bytes} (h : loc <+: F) : loc ++ F.drop loc.length = F := by
  obtain ⟨t, rfl⟩ := h
  simp

theorem hinv_step (F : Bytes) (d : Dl) (op : Op) (h : HInv F d)
    (hop : match op with
      | .begin a _ => a = F.length
      | .beginCut a => a = F.length
      | .seg bs => d.st = .downloading → bs <+: F.drop d.loc.length
      | _ => True) : HInv F (step d op) := by
  cases op with
  | begin a lim =>
    simp only at hop
    simp only [step]; split
    · unfold begin; dsimp only
      split
      · exact ⟨h.pre, fun _ => hop⟩
      · exact ⟨h.pre, fun _ => hop⟩
    · exact h
  | beginCut a =>
    simp only [step]; split
    · exact ⟨h.pre, fun hq => absurd rfl hq⟩
    · exact h
  | seg bs =>
    simp only at hop
    simp only [step]; split
    · rename_i hs
      obtain ⟨k, hk⟩ := drain_loc bs.length d bs
      refine ⟨?_, fun _ => ?_⟩
      · rw [hk]
        have h1 : bs.take k <+: F.drop d.loc.length := (List.take_prefix k bs).trans (hop hs)
        have h2 := prefix_drop h.pre
        rw [← h2]
        exact (List.prefix_append_right_inj d.loc).mpr h1
      · rw [drain_filesize]; exact h.size (by simp [hs])
    · exact h
  | eof =>
    simp only [step]; split
    · rename_i hs
      refine ⟨h.pre, fun _ => ?_⟩
      simpa using h.size (by simp [hs])
    · exact h
  | err =>
    simp only [step]; split
    · rename_i hs
      exact ⟨h.pre, fun _ => h.size (by simp [hs])⟩
    · exact h

theorem hinv_run (F : Bytes) (ops : List Op) : ∀ d, HInv F d → Honest F d ops → HInv F (run d ops) := by
  induction ops with
  | nil => intro d h _; exact h
  | cons op ops ih =>
    intro d h hon
    exact ih _ (hinv_step F d op h hon.1) hon.2

theorem hinv_init (F pre : Bytes) (h : pre <+: F) : HInv F (Dl.init pre) :=
  ⟨h, fun hq => absurd rfl hq⟩

/-! ### progress of a fault-free attempt (download side) -/

theorem drain_honest (fuel : Nat) : ∀ (d : Dl) (buf t : Bytes),
    buf.length ≤ fuel → d.st = .downloading → d.bt = d.loc.length → 0 < d.chunk →
    d.remaining - (d.received : Int) = ((buf.length + t.length : Nat) : Int) →
    d.filesize = d.loc.length + buf.length + t.length →
    0 < buf.length + t.length →
    (drain fuel d buf).loc = d.loc ++ buf ∧ (drain fuel d buf).bt = (drain fuel d buf).loc.length ∧
    (drain fuel d buf).filesize = d.filesize ∧ (drain fuel d buf).chunk = d.chunk ∧
    (t = [] → buf ≠ [] → (drain fuel d buf).st = .complete ∧ (drain fuel d buf).closed = true) ∧
    (t ≠ [] → (drain fuel d buf).st = .downloading ∧
      (drain fuel d buf).remaining - ((drain fuel d buf).received : Int) = (t.length : Int)) := by
  induction fuel with
  | zero =>
    intro d buf t hf hst hbt _ hrem _ _
    have hb : buf = [] := List.eq_nil_of_length_eq_zero (by omega)
    subst hb
    rw [drain_nil]
    refine ⟨by simp, hbt, rfl, rfl, fun _ h => absurd rfl h, fun _ => ⟨hst, by simpa using hrem⟩⟩
  | succ n ih =>
    intro d buf t hf hst hbt hch hrem hfs hpos
    by_cases hb : buf = []
    · subst hb
      rw [drain_nil]
      refine ⟨by simp, hbt, rfl, rfl, fun _ h => absurd rfl h, fun _ => ⟨hst, by simpa using hrem⟩⟩
    · have hblen : 0 < buf.length := List.length_pos_iff.mpr hb
      have hstep : drain (n + 1) d buf = drain n (onRead d (buf.take d.chunk)) (buf.drop d.chunk) := by
        rw [drain]; simp [hst, hb]
      rw [hstep]
      have hdl : (buf.take d.chunk).length = min d.chunk buf.length := List.length_take
      have hrl : (buf.drop d.chunk).length = buf.length - d.chunk := List.length_drop
      by_cases hfin : d.remaining ≤ ((d.received + (buf.take d.chunk).length : Nat) : Int)
      · -- the read completes the file
        have ht : t = [] := List.eq_nil_of_length_eq_zero (by omega)
        have hle : buf.length ≤ d.chunk := by omega
        have htake : buf.take d.chunk = buf := List.take_of_length_le hle
        have hdrop : buf.drop d.chunk = [] := List.drop_of_length_le hle
        have hor : onRead d (buf.take d.chunk) =
            finish { d with loc := d.loc ++ buf.take d.chunk, bt := d.bt + (buf.take d.chunk).length,
                            received := d.received + (buf.take d.chunk).length,
                            log := d.log ++ [(buf.take d.chunk).length] } := by
          unfold onRead; dsimp only; rw [if_pos]; exact_mod_cast hfin
        rw [hdrop, drain_nil, hor]
        subst ht
        refine ⟨?_, ?_, ?_, ?_, fun _ _ => ⟨?_, ?_⟩, fun h => absurd rfl h⟩
        · simp [htake]
        · simp [htake, hbt]
        · simp
        · simp [finish]
        · simp only [finish, htake]
          rw [if_pos]
          simp only [List.length_nil] at hfs
          omega
        · simp
      · -- more to come
        have hor : onRead d (buf.take d.chunk) =
            { d with loc := d.loc ++ buf.take d.chunk, bt := d.bt + (buf.take d.chunk).length,
                     received := d.received + (buf.take d.chunk).length,
                     log := d.log ++ [(buf.take d.chunk).length] } := by
          unfold onRead; dsimp only; rw [if_neg]; intro hge; apply hfin; exact_mod_cast hge
        rw [hor]
        have := ih { d with loc := d.loc ++ buf.take d.chunk, bt := d.bt + (buf.take d.chunk).length,
                            received := d.received + (buf.take d.chunk).length,
                            log := d.log ++ [(buf.take d.chunk).length] } (buf.drop d.chunk) t
          (by omega) hst (by simp [hbt]) hch (by dsimp only; omega)
          (by dsimp only; simp only [List.length_append]; omega) (by omega)
        obtain ⟨h1, h2, h3, h4, h5, h6⟩ := this
        refine ⟨?_, h2, h3, h4, fun ht _ => h5 ht ?_, h6⟩
        · rw [h1]; dsimp only; rw [List.append_assoc, List.take_append_drop]
        · subst ht
          apply List.ne_nil_of_length_pos
          simp only [List.length_nil] at hrem hfin ⊢
          omega

theorem run_not_downloading_segs (segs : List Bytes) (d : Dl) (h : d.st ≠ .downloading) :
    run d (segs.map .seg) = d := by
  induction segs with
  | nil => rfl
  | cons s segs ih =>
    simp only [List.map_cons, run, List.foldl_cons, step, h, if_false]
    exact ih

theorem flatten_nil_of_length {segs : List Bytes} (h : segs.flatten.length = 0) : ∀ s ∈ segs, s = [] := by
  intro s hs
  have : segs.flatten = [] := List.eq_nil_of_length_eq_zero h
  exact (List.flatten_eq_nil_iff.mp this) s hs

theorem run_segs_honest (segs : List Bytes) : ∀ (d : Dl) (t : Bytes),
    d.st = .downloading → d.bt = d.loc.length → 0 < d.chunk →
    d.remaining - (d.received : Int) = ((segs.flatten.length + t.length : Nat) : Int) →
    d.filesize = d.loc.length + segs.flatten.length + t.length →
    0 < segs.flatten.length + t.length →
    (run d (segs.map .seg)).loc = d.loc ++ segs.flatten ∧
    (t = [] → (run d (segs.map .seg)).st = .complete ∧ (run d (segs.map .seg)).closed = true) ∧
    (t ≠ [] → (run d (segs.map .seg)).st = .downloading) := by
  induction segs with
  | nil =>
    intro d t hst _ _ _ _ hpos
    simp only [List.flatten_nil, List.length_nil, Nat.zero_add] at hpos
    refine ⟨by simp [run], fun ht => ?_, fun _ => hst⟩
    subst ht; simp at hpos
  | cons s segs ih =>
    intro d t hst hbt hch hrem hfs hpos
    simp only [List.flatten_cons, List.length_append] at hrem hfs hpos
    have hrun : run d ((s :: segs).map .seg) = run (drain s.length d s) (segs.map .seg) := by
      simp only [List.map_cons, run, List.foldl_cons, step, hst, if_true]
    rw [hrun]
    have hd := drain_honest s.length d s (segs.flatten ++ t) (Nat.le_refl _) hst hbt hch
      (by simp only [List.length_append]; omega) (by simp only [List.length_append]; omega)
      (by simp only [List.length_append]; omega)
    obtain ⟨h1, h2, h3, h4, h5, h6⟩ := hd
    by_cases hrest : segs.flatten ++ t = []
    · -- this segment (if non-empty) completes the file; what follows is empty
      have hsf : segs.flatten = [] := (List.append_eq_nil_iff.mp hrest).1
      have ht : t = [] := (List.append_eq_nil_iff.mp hrest).2
      have hs : s ≠ [] := by
        apply List.ne_nil_of_length_pos
        rw [hsf, ht] at hpos; simpa using hpos
      obtain ⟨hc, hcl⟩ := h5 hrest hs
      rw [run_not_downloading_segs _ _ (by simp [hc])]
      refine ⟨by simp [h1, hsf], fun _ => ⟨hc, hcl⟩, fun h => absurd ht h⟩
    · obtain ⟨hst', hrem'⟩ := h6 hrest
      have hpos' : 0 < segs.flatten.length + t.length := by
        have := List.length_pos_iff.mpr hrest
        simpa [List.length_append] using this
      have := ih (drain s.length d s) t hst' h2 (by omega)
        (by rw [hrem']; simp [List.length_append])
        (by rw [h3, h1, hfs]; simp only [List.length_append]; omega) hpos'
      obtain ⟨g1, g2, g3⟩ := this
      refine ⟨by rw [g1, h1]; simp [List.append_assoc], g2, g3⟩

/-! ### upload side -/

structure UInv (F : Bytes) (u : Ul) : Prop where
  fs : u.filesize = F.length
  pos : u.st ≠ .queued → u.pos = u.offset + u.sent.length
  bt : u.st ≠ .queued → u.bt = u.offset + u.sent.length
  sent : u.sent <+: F.drop u.offset
  closed : u.st = .complete → u.peerClosed = true
  complete : u.st = .complete → u.filesize = u.bt
  chunk : 0 < u.chunk

theorem uinv_init (F : Bytes) : UInv F (Ul.init F) :=
  ⟨rfl, fun h => absurd rfl h, fun h => absurd rfl h, by simp [Ul.init], (fun h => by simp [Ul.init] at h),
   (fun h => by simp [Ul.init] at h), chunkOf_pos false⟩

theorem uinv_step (F : Bytes) (u : Ul) (op : UOp) (h : UInv F u) : UInv F (ustep F u op) := by
  cases op with
  | begin off lim =>
    simp only [ustep]; split
    · exact ⟨h.fs, (fun _ => by simp [ubegin]), (fun _ => by simp [ubegin]), (by simp [ubegin]),
             (fun hc => by cases hc), (fun hc => by cases hc), chunkOf_pos lim⟩
    · exact h
  | chunk =>
    simp only [ustep]; split
    · rename_i hs
      have hp := h.pos (by simp [hs])
      have hb := h.bt (by simp [hs])
      split
      · exact ⟨h.fs, fun _ => hp, fun _ => hb, h.sent, (fun hc => by cases hc), (fun hc => by cases hc), h.chunk⟩
      · refine ⟨h.fs, fun _ => ?_, fun _ => ?_, ?_, (fun hc => by simp [hs] at hc),
                (fun hc => by simp [hs] at hc), h.chunk⟩
        · simp only [List.length_append]; omega
        · simp only [List.length_append]; omega
        · obtain ⟨t, ht⟩ := h.sent
          have hd : F.drop u.pos = t := by
            rw [hp, ← List.drop_drop, ← ht]; simp
          rw [hd, ← ht]
          exact (List.prefix_append_right_inj u.sent).mpr (List.take_prefix _ _)
    · exact h
  | werr =>
    simp only [ustep]; split
    · rename_i hs
      exact ⟨h.fs, fun _ => h.pos (by simp [hs]), fun _ => h.bt (by simp [hs]), h.sent,
             (fun hc => by cases hc), (fun hc => by cases hc), h.chunk⟩
    · exact h
  | closed =>
    simp only [ustep]; split
    · rename_i hs
      refine ⟨h.fs, fun _ => h.pos (by simp [hs]), fun _ => h.bt (by simp [hs]), h.sent, fun _ => rfl,
              fun hc => ?_, h.chunk⟩
      by_cases he : u.filesize = u.bt
      · exact he
      · simp [he] at hc
    · exact h

theorem uinv_run (F : Bytes) (ops : List UOp) : ∀ u, UInv F u → UInv F (urun F u ops) := by
  induction ops with
  | nil => intro u h; exact h
  | cons op ops ih => intro u h; exact ih _ (uinv_step F u op h)

theorem urun_chunks_not_sending (F : Bytes) (n : Nat) (u : Ul) (h : u.st ≠ .sending) :
    urun F u (List.replicate n .chunk) = u := by
  induction n with
  | zero => rfl
  | succ n ih =>
    simp only [List.replicate_succ, urun, List.foldl_cons, ustep, h, if_false]
    exact ih

/-- enough `send_file` iterations reach the EOF wait with everything sent -/
theorem urun_chunks (F : Bytes) (n : Nat) : ∀ (u : Ul), u.st = .sending → 0 < u.chunk → u.pos ≤ F.length →
    F.length - u.pos + u.chunk ≤ n * u.chunk →
    (urun F u (List.replicate n .chunk)).st = .awaitEof ∧
    (urun F u (List.replicate n .chunk)).bt = u.bt + (F.length - u.pos) ∧
    (urun F u (List.replicate n .chunk)).filesize = u.filesize ∧
    (urun F u (List.replicate n .chunk)).offset = u.offset := by
  induction n with
  | zero => intro u _ hc _ hn; omega
  | succ n ih =>
    intro u hs hc hp hn
    have hlen : ((F.drop u.pos).take u.chunk).length = min u.chunk (F.length - u.pos) := by
      rw [List.length_take, List.length_drop]
    by_cases hd : (F.drop u.pos).take u.chunk = []
    · have hz : F.length - u.pos = 0 := by
        have : ((F.drop u.pos).take u.chunk).length = 0 := by rw [hd]; rfl
        omega
      have hstep : urun F u (List.replicate (n + 1) .chunk) =
          urun F { u with st := .awaitEof } (List.replicate n .chunk) := by
        simp only [List.replicate_succ, urun, List.foldl_cons, ustep, hs, if_true, hd]
      rw [hstep, urun_chunks_not_sending _ _ _ (by simp)]
      exact ⟨rfl, by simp [hz], rfl, rfl⟩
    · have hstep : urun F u (List.replicate (n + 1) .chunk) =
          urun F { u with sent := u.sent ++ (F.drop u.pos).take u.chunk,
                          pos := u.pos + ((F.drop u.pos).take u.chunk).length,
                          bt := u.bt + ((F.drop u.pos).take u.chunk).length } (List.replicate n .chunk) := by
        simp only [List.replicate_succ, urun, List.foldl_cons, ustep, hs, if_true, hd, if_false]
      rw [hstep]
      have hpos : 0 < ((F.drop u.pos).take u.chunk).length := List.length_pos_iff.mpr hd
      have hn' : F.length - (u.pos + ((F.drop u.pos).take u.chunk).length) + u.chunk ≤ n * u.chunk := by
        rw [Nat.succ_mul] at hn
        by_cases hfull : u.chunk ≤ F.length - u.pos
        · omega
        · cases n with
          | zero => simp at hn; omega
          | succ m => rw [Nat.succ_mul]; omega
      have := ih { u with sent := u.sent ++ (F.drop u.pos).take u.chunk,
                          pos := u.pos + ((F.drop u.pos).take u.chunk).length,
                          bt := u.bt + ((F.drop u.pos).take u.chunk).length } hs hc (by dsimp only; omega) hn'
      obtain ⟨g1, g2, g3, g4⟩ := this
      refine ⟨g1, ?_, g3, g4⟩
      rw [g2]; dsimp only; omega

end AioslskVerif.FileXfer
