import AioslskVerif.Model.FileXfer
/-!
Helper lemmas for C04 (model: `Model/FileXfer.lean`).
-/
namespace AioslskVerif.FileXfer
open AioslskVerif.Generated.Rate

theorem chunkOf_pos (lim : Bool) : 0 < chunkOf lim := by
  cases lim <;> decide

/-! ### `finish`, `onRead` -/

@[simp] theorem finish_loc (d : Dl) : (finish d).loc = d.loc := rfl
@[simp] theorem finish_bt (d : Dl) : (finish d).bt = d.bt := rfl
@[simp] theorem finish_filesize (d : Dl) : (finish d).filesize = d.filesize := rfl
@[simp] theorem finish_closed (d : Dl) : (finish d).closed = true := rfl

theorem finish_st (d : Dl) :
    (finish d).st = .complete ∧ d.filesize = d.bt ∨ (finish d).st = .failedCancelled ∧ d.filesize ≠ d.bt := by
  unfold finish
  by_cases h : d.filesize = d.bt <;> simp [h]

theorem finish_st_ne_downloading (d : Dl) : (finish d).st ≠ .downloading := by
  rcases finish_st d with h | h <;> simp [h.1]

theorem finish_st_ne_queued (d : Dl) : (finish d).st ≠ .queued := by
  rcases finish_st d with h | h <;> simp [h.1]

theorem onRead_loc (d : Dl) (data : Bytes) : (onRead d data).loc = d.loc ++ data := by
  unfold onRead; dsimp only; split <;> rfl

theorem onRead_bt (d : Dl) (data : Bytes) : (onRead d data).bt = d.bt + data.length := by
  unfold onRead; dsimp only; split <;> rfl

theorem onRead_filesize (d : Dl) (data : Bytes) : (onRead d data).filesize = d.filesize := by
  unfold onRead; dsimp only; split <;> rfl

theorem restore_ne_downloading (s : Saved) : s.restore ≠ .downloading := by
  unfold Saved.restore
  split
  · split <;> simp
  · rename_i h; intro h2; exact h (by simpa using h2)

theorem restore_complete (s : Saved) (hr : s.st = .downloading → s.bt < s.filesize)
    (h : s.restore = .complete) : s.st = .complete := by
  unfold Saved.restore at h
  split at h
  · rename_i hs
    have := hr hs
    split at h
    · omega
    · cases h
  · exact h

theorem restore_of_complete (s : Saved) (h : s.st = .complete) : s.restore = .complete := by
  unfold Saved.restore; rw [h]

/-- bookkeeping invariant — holds against ANY sender, under any user action and any restart -/
structure Inv (d : Dl) : Prop where
  bt_len : d.st = .downloading → d.bt = d.loc.length
  size_ann : d.st = .downloading → d.filesize = d.ann
  complete_size : d.st = .complete → d.loc.length = d.ann
  running : d.st = .downloading → 0 < d.chunk ∧ (d.received : Int) < d.remaining ∧
    d.remaining - (d.received : Int) = (d.filesize : Int) - (d.loc.length : Int)
  path : d.st = .downloading ∨ d.st = .complete → d.hasPath = true
  saved_complete : ∀ s, d.saved = some s → s.st = .complete → d.st = .complete
  saved_running : ∀ s, d.saved = some s → s.st = .downloading → s.bt < s.filesize
  saved_path : ∀ s, d.saved = some s → s.st = .complete → s.hasPath = true

theorem inv_init (pre : Bytes) (hp : Bool) : Inv (Dl.init pre hp) := by
  refine ⟨?_, ?_, ?_, ?_, ?_, ?_, ?_, ?_⟩ <;> simp [Dl.init]

/-- `finish` from a running download whose counter equals the file size and whose size is the announced one -/
theorem inv_finish (d : Dl) (hs : d.st = .downloading) (hb : d.bt = d.loc.length) (ha : d.filesize = d.ann)
    (hp : d.hasPath = true)
    (h6 : ∀ s, d.saved = some s → s.st = .complete → d.st = .complete)
    (h7 : ∀ s, d.saved = some s → s.st = .downloading → s.bt < s.filesize)
    (h8 : ∀ s, d.saved = some s → s.st = .complete → s.hasPath = true) : Inv (finish d) := by
  have hnd := finish_st_ne_downloading d
  refine ⟨fun h => absurd h hnd, fun h => absurd h hnd, fun hc => ?_, fun h => absurd h hnd, fun _ => hp,
          fun s hs1 hs2 => ?_, h7, h8⟩
  · rcases finish_st d with h1 | h1
    · have := h1.2; simp only [finish_loc]; show d.loc.length = d.ann; omega
    · rw [h1.1] at hc; cases hc
  · have := h6 s hs1 hs2; rw [hs] at this; cases this

theorem inv_onRead (d : Dl) (data : Bytes) (hst : d.st = .downloading) (hi : Inv d) :
    Inv (onRead d data) := by
  have hb := hi.bt_len hst
  have ha := hi.size_ann hst
  obtain ⟨hc, _, hr⟩ := hi.running hst
  unfold onRead; dsimp only
  split
  · exact inv_finish _ hst (by simp [hb]) ha (hi.path (Or.inl hst)) hi.saved_complete hi.saved_running
      hi.saved_path
  · rename_i hlt
    refine ⟨fun _ => by simp [hb], fun _ => ha, (fun hc => by simp [hst] at hc), fun _ => ⟨hc, ?_, ?_⟩,
            fun _ => hi.path (Or.inl hst), hi.saved_complete, hi.saved_running, hi.saved_path⟩
    · dsimp only; omega
    · dsimp only; simp only [List.length_append]; omega

theorem inv_drain (fuel : Nat) : ∀ (d : Dl) (buf : Bytes), Inv d → Inv (drain fuel d buf) := by
  induction fuel with
  | zero => intro d buf h; exact h
  | succ n ih =>
    intro d buf h
    unfold drain
    split
    · exact h
    · rename_i hc
      have hst : d.st = .downloading := by
        by_cases hs : d.st = .downloading
        · exact hs
        · exact absurd (Or.inl hs) hc
      exact ih _ _ (inv_onRead d _ hst h)

theorem canBegin_not_complete {d : Dl} (h : canBegin d = true) : d.st ≠ .complete := by
  intro hc; simp [canBegin, hc] at h

theorem canBegin_not_downloading {d : Dl} (h : canBegin d = true) : d.st ≠ .downloading := by
  intro hc; simp [canBegin, hc] at h

theorem inv_begin (d : Dl) (a : Nat) (lim : Bool) (hb : canBegin d = true) (hi : Inv d) :
    Inv (begin d a lim) := by
  have hnc := canBegin_not_complete hb
  have h6 : ∀ s, d.saved = some s → s.st = .complete → DState.downloading = .complete :=
    fun s h1 h2 => absurd (hi.saved_complete s h1 h2) hnc
  unfold begin; dsimp only
  split
  · exact inv_finish _ rfl rfl rfl rfl h6 hi.saved_running hi.saved_path
  · rename_i hlt
    refine ⟨fun _ => rfl, fun _ => rfl, (fun hc => by cases hc), fun _ => ⟨chunkOf_pos lim, ?_, ?_⟩,
            fun _ => rfl, h6, hi.saved_running, hi.saved_path⟩
    · dsimp only; omega
    · dsimp only; omega

/-- ops that leave a state which is neither DOWNLOADING nor COMPLETE and keep the cache -/
theorem inv_idle (d d' : Dl) (hi : Inv d) (h1 : d'.st ≠ .downloading) (h2 : d'.st ≠ .complete)
    (hsv : d'.saved = d.saved) (hnc : d.st ≠ .complete) : Inv d' := by
  refine ⟨fun h => absurd h h1, fun h => absurd h h1, fun h => absurd h h2, fun h => absurd h h1,
          fun h => h.elim (fun h => absurd h h1) (fun h => absurd h h2), fun s hs1 hs2 => ?_, ?_, ?_⟩
  · rw [hsv] at hs1; exact absurd (hi.saved_complete s hs1 hs2) hnc
  · rw [hsv]; exact hi.saved_running
  · rw [hsv]; exact hi.saved_path

theorem inv_step (d : Dl) (op : Op) (h : Inv d) : Inv (step d op) := by
  cases op with
  | begin a lim => simp only [step]; split; exact inv_begin d a lim ‹_› h; exact h
  | beginCut a =>
    simp only [step]; split
    · rename_i hb
      exact inv_idle d _ h (by simp [beginCut]) (by simp [beginCut]) rfl (canBegin_not_complete hb)
    · exact h
  | seg bs => simp only [step]; split; exact inv_drain _ _ _ h; exact h
  | eof =>
    simp only [step]; split
    · rename_i hs
      exact inv_finish d hs (h.bt_len hs) (h.size_ann hs) (h.path (Or.inl hs)) h.saved_complete h.saved_running
        h.saved_path
    · exact h
  | err =>
    simp only [step]; split
    · rename_i hs
      exact inv_idle d _ h (by simp) (by simp) rfl (by simp [hs])
    · exact h
  | remote F =>
    simp only [step]; split
    · exact h
    · exact ⟨h.bt_len, h.size_ann, h.complete_size, h.running, h.path, h.saved_complete, h.saved_running,
             h.saved_path⟩
  | pause =>
    simp only [step]; split
    · rename_i hs
      exact inv_idle d _ h (by simp) (by simp) rfl (by simp [hs])
    · split
      · rename_i hs
        exact inv_idle d _ h (by simp) (by simp) rfl (by rcases hs with hs | hs <;> simp [hs])
      · exact h
  | pauseWrite bs =>
    simp only [step]; split
    · rename_i hs
      exact inv_idle d _ h (by simp) (by simp) rfl (by simp [hs])
    · exact h
  | queue =>
    simp only [step]; split
    · rename_i hs
      exact inv_idle d _ h (by simp) (by simp) rfl (by rcases hs with hs | hs | hs <;> simp [hs])
    · exact h
  | save =>
    simp only [step]
    refine ⟨h.bt_len, h.size_ann, h.complete_size, h.running, h.path, ?_, ?_, ?_⟩
    · intro s hs1 hs2
      simp only [Option.some.injEq] at hs1
      subst hs1; exact hs2
    · intro s hs1 hs2
      simp only [Option.some.injEq] at hs1
      subst hs1
      have hs2 : d.st = .downloading := hs2
      obtain ⟨_, h2, h3⟩ := h.running hs2
      have := h.bt_len hs2
      show d.bt < d.filesize
      omega
    · intro s hs1 hs2
      simp only [Option.some.injEq] at hs1
      subst hs1
      exact h.path (Or.inr hs2)
  | crash keep =>
    simp only [step]
    split
    · exact h
    · rename_i s hsv
      have hnd := restore_ne_downloading s
      refine ⟨fun hc => absurd hc hnd, fun hc => absurd hc hnd, fun hc => ?_, fun hc => absurd hc hnd,
              fun hc => ?_, fun s' hs1 hs2 => ?_, ?_, ?_⟩
      · have hsc := restore_complete s (h.saved_running s hsv) hc
        have hdc := h.saved_complete s hsv hsc
        have hp := h.saved_path s hsv hsc
        have := h.complete_size hdc
        simp only [hp, if_true, hdc]
        simpa using this
      · rcases hc with hc | hc
        · exact absurd hc hnd
        · exact h.saved_path s hsv (restore_complete s (h.saved_running s hsv) hc)
      · have : s' = s := by
          have : some s' = some s := hs1.symm.trans hsv
          exact Option.some.inj this
        subst this
        exact restore_of_complete s' hs2
      · exact fun s' hs1 => h.saved_running s' (hs1.trans rfl)
      · exact fun s' hs1 => h.saved_path s' (hs1.trans rfl)

theorem inv_run (ops : List Op) : ∀ d, Inv d → Inv (run d ops) := by
  induction ops with
  | nil => intro d h; exact h
  | cons op ops ih => intro d h; exact ih _ (inv_step d op h)

/-! ### what `drain` writes -/

theorem drain_loc (fuel : Nat) : ∀ (d : Dl) (buf : Bytes),
    ∃ k, (drain fuel d buf).loc = d.loc ++ buf.take k := by
  induction fuel with
  | zero => intro d buf; exact ⟨0, by simp [drain]⟩
  | succ n ih =>
    intro d buf
    unfold drain
    split
    · exact ⟨0, by simp⟩
    · obtain ⟨k, hk⟩ := ih (onRead d (buf.take d.chunk)) (buf.drop d.chunk)
      refine ⟨d.chunk + k, ?_⟩
      rw [hk, onRead_loc, List.take_add, List.append_assoc]

theorem drain_filesize (fuel : Nat) : ∀ (d : Dl) (buf : Bytes),
    (drain fuel d buf).filesize = d.filesize := by
  induction fuel with
  | zero => intro d buf; rfl
  | succ n ih =>
    intro d buf
    unfold drain
    split
    · rfl
    · rw [ih, onRead_filesize]

theorem onRead_ghost (d : Dl) (data : Bytes) :
    (onRead d data).ann = d.ann ∧ (onRead d data).served = d.served ∧ (onRead d data).remote = d.remote ∧
    (onRead d data).offset = d.offset := by
  unfold onRead; dsimp only; split <;> exact ⟨rfl, rfl, rfl, rfl⟩

theorem drain_ghost (fuel : Nat) : ∀ (d : Dl) (buf : Bytes),
    (drain fuel d buf).ann = d.ann ∧ (drain fuel d buf).served = d.served ∧
    (drain fuel d buf).remote = d.remote ∧ (drain fuel d buf).offset = d.offset := by
  induction fuel with
  | zero => intro d buf; exact ⟨rfl, rfl, rfl, rfl⟩
  | succ n ih =>
    intro d buf
    unfold drain
    split
    · exact ⟨rfl, rfl, rfl, rfl⟩
    · obtain ⟨h1, h2, h3, h4⟩ := ih (onRead d (buf.take d.chunk)) (buf.drop d.chunk)
      obtain ⟨g1, g2, g3, g4⟩ := onRead_ghost d (buf.take d.chunk)
      exact ⟨h1.trans g1, h2.trans g2, h3.trans g3, h4.trans g4⟩

theorem drain_ann (fuel : Nat) (d : Dl) (buf : Bytes) : (drain fuel d buf).ann = d.ann := (drain_ghost fuel d buf).1
theorem drain_served (fuel : Nat) (d : Dl) (buf : Bytes) : (drain fuel d buf).served = d.served :=
  (drain_ghost fuel d buf).2.1
theorem drain_remote (fuel : Nat) (d : Dl) (buf : Bytes) : (drain fuel d buf).remote = d.remote :=
  (drain_ghost fuel d buf).2.2.1
theorem drain_offset (fuel : Nat) (d : Dl) (buf : Bytes) : (drain fuel d buf).offset = d.offset :=
  (drain_ghost fuel d buf).2.2.2

theorem drain_not_downloading (fuel : Nat) (d : Dl) (buf : Bytes) (h : d.st ≠ .downloading) :
    drain fuel d buf = d := by
  cases fuel with
  | zero => rfl
  | succ n => unfold drain; simp [h]

theorem drain_nil (fuel : Nat) (d : Dl) : drain fuel d [] = d := by
  cases fuel with
  | zero => rfl
  | succ n => unfold drain; simp

/-! ### honest sender -/

/-- invariant of runs against an honest uploader of a file `F` that does not change -/
structure HInv (F : Bytes) (d : Dl) : Prop where
  pre : d.loc <+: F
  size : d.st = .downloading ∨ d.st = .complete → d.ann = F.length

theorem prefix_drop {F loc : Bytes} (h : loc <+: F) : loc ++ F.drop loc.length = F := by
  obtain ⟨t, rfl⟩ := h
  simp

theorem append_take_prefix {F loc bs : Bytes} (k : Nat) (h : loc <+: F) (hb : bs <+: F.drop loc.length) :
    loc ++ bs.take k <+: F := by
  have h1 : bs.take k <+: F.drop loc.length := (List.take_prefix k bs).trans hb
  have h2 := prefix_drop h
  rw [← h2]
  exact (List.prefix_append_right_inj loc).mpr h1

/-- what a crash leaves of the local file is a prefix of what it held -/
theorem crash_loc_prefix (d : Dl) (s : Saved) (keep : Nat) :
    (if s.hasPath then (if d.st = .downloading then d.loc.take (max keep d.offset) else d.loc) else [])
      <+: d.loc := by
  split
  · split
    · exact List.take_prefix _ _
    · exact List.prefix_refl _
  · exact List.nil_prefix

theorem hinv_step (F : Bytes) (d : Dl) (op : Op) (hi : Inv d) (h : HInv F d)
    (hop : match op with
      | .begin a _ => a = F.length
      | .beginCut a => a = F.length
      | .seg bs => d.st = .downloading → bs <+: F.drop d.loc.length
      | .pauseWrite bs => d.st = .downloading → bs <+: F.drop d.loc.length
      | _ => True) : HInv F (step d op) := by
  cases op with
  | begin a lim =>
    simp only at hop
    simp only [step]; split
    · unfold begin; dsimp only
      split
      · exact ⟨h.pre, fun _ => hop⟩
      · exact ⟨h.pre, fun _ => hop⟩
    · exact h
  | beginCut a =>
    simp only [step]; split
    · exact ⟨h.pre, fun hq => by simp [beginCut] at hq⟩
    · exact h
  | seg bs =>
    simp only at hop
    simp only [step]; split
    · rename_i hs
      obtain ⟨k, hk⟩ := drain_loc bs.length d bs
      refine ⟨?_, fun _ => ?_⟩
      · rw [hk]; exact append_take_prefix k h.pre (hop hs)
      · rw [drain_ann]; exact h.size (Or.inl hs)
    · exact h
  | eof =>
    simp only [step]; split
    · rename_i hs
      exact ⟨h.pre, fun _ => h.size (Or.inl hs)⟩
    · exact h
  | err =>
    simp only [step]; split
    · rename_i hs
      exact ⟨h.pre, fun hq => by simp at hq⟩
    · exact h
  | remote G =>
    simp only [step]; split
    · exact h
    · exact ⟨h.pre, h.size⟩
  | pause =>
    simp only [step]; split
    · exact ⟨h.pre, fun hq => by simp at hq⟩
    · split
      · exact ⟨h.pre, fun hq => by simp at hq⟩
      · exact h
  | pauseWrite bs =>
    simp only at hop
    simp only [step]; split
    · rename_i hs
      exact ⟨append_take_prefix _ h.pre (hop hs), fun hq => by simp at hq⟩
    · exact h
  | queue =>
    simp only [step]; split
    · exact ⟨h.pre, fun hq => by simp at hq⟩
    · exact h
  | save => exact ⟨h.pre, h.size⟩
  | crash keep =>
    simp only [step]
    split
    · exact h
    · rename_i s hsv
      refine ⟨(crash_loc_prefix d s keep).trans h.pre, fun hq => ?_⟩
      rcases hq with hq | hq
      · exact absurd hq (restore_ne_downloading s)
      · have hsc := restore_complete s (hi.saved_running s hsv) hq
        exact h.size (Or.inr (hi.saved_complete s hsv hsc))

theorem hinv_run (F : Bytes) (ops : List Op) :
    ∀ d, Inv d → HInv F d → Honest F d ops → HInv F (run d ops) := by
  induction ops with
  | nil => intro d _ h _; exact h
  | cons op ops ih =>
    intro d hi h hon
    exact ih _ (inv_step d op hi) (hinv_step F d op hi h hon.1) hon.2

theorem hinv_init (F pre : Bytes) (hp : Bool) (h : pre <+: F) : HInv F (Dl.init pre hp) := by
  refine ⟨?_, fun hq => by simp [Dl.init] at hq⟩
  simp only [Dl.init]
  split
  · exact h
  · exact List.nil_prefix

/-! ### honest sender whose file changes between the attempts -/

/-- the attempt that began last: what it appended continues the file it was served from -/
structure AInv (d : Dl) : Prop where
  att : d.st = .downloading ∨ d.st = .complete →
    d.offset ≤ d.loc.length ∧ d.loc.drop d.offset <+: d.served.drop d.offset ∧ d.ann = d.served.length

theorem drop_append_prefix {loc served x : Bytes} {off : Nat} (ho : off ≤ loc.length)
    (h : loc.drop off <+: served.drop off) (hx : x <+: served.drop loc.length) :
    (loc ++ x).drop off <+: served.drop off := by
  rw [List.drop_append_of_le_length ho]
  obtain ⟨t, ht⟩ := h
  have hd : served.drop loc.length = t := by
    have h1 : (served.drop off).drop (loc.drop off).length = t := by rw [← ht]; simp
    rw [List.drop_drop, List.length_drop] at h1
    have : off + (loc.length - off) = loc.length := by omega
    rw [this] at h1; exact h1
  rw [hd] at hx
  rw [← ht]
  exact (List.prefix_append_right_inj _).mpr hx

theorem ainv_step (d : Dl) (op : Op) (hi : Inv d) (h : AInv d)
    (hop : match op with
      | .begin a _ => a = d.remote.length
      | .beginCut a => a = d.remote.length
      | .seg bs => d.st = .downloading → bs <+: d.served.drop d.loc.length
      | .pauseWrite bs => d.st = .downloading → bs <+: d.served.drop d.loc.length
      | _ => True) : AInv (step d op) := by
  cases op with
  | begin a lim =>
    simp only at hop
    simp only [step]; split
    · unfold begin; dsimp only
      split
      · exact ⟨fun _ => ⟨Nat.le_refl _, by simp [finish], hop⟩⟩
      · exact ⟨fun _ => ⟨Nat.le_refl _, by simp, hop⟩⟩
    · exact h
  | beginCut a =>
    simp only [step]; split
    · exact ⟨fun hq => by simp [beginCut] at hq⟩
    · exact h
  | seg bs =>
    simp only at hop
    simp only [step]; split
    · rename_i hs
      obtain ⟨h1, h2, h3⟩ := h.att (Or.inl hs)
      obtain ⟨k, hk⟩ := drain_loc bs.length d bs
      refine ⟨fun _ => ?_⟩
      rw [drain_offset, drain_served, drain_ann, hk]
      refine ⟨by simp only [List.length_append]; omega, ?_, h3⟩
      exact drop_append_prefix h1 h2 ((List.take_prefix k bs).trans (hop hs))
    · exact h
  | eof =>
    simp only [step]; split
    · rename_i hs
      exact ⟨fun _ => h.att (Or.inl hs)⟩
    · exact h
  | err =>
    simp only [step]; split
    · exact ⟨fun hq => by simp at hq⟩
    · exact h
  | remote G =>
    simp only [step]; split
    · exact h
    · exact ⟨h.att⟩
  | pause =>
    simp only [step]; split
    · exact ⟨fun hq => by simp at hq⟩
    · split
      · exact ⟨fun hq => by simp at hq⟩
      · exact h
  | pauseWrite bs =>
    simp only [step]; split
    · exact ⟨fun hq => by simp at hq⟩
    · exact h
  | queue =>
    simp only [step]; split
    · exact ⟨fun hq => by simp at hq⟩
    · exact h
  | save => exact ⟨h.att⟩
  | crash keep =>
    simp only [step]
    split
    · exact h
    · rename_i s hsv
      refine ⟨fun hq => ?_⟩
      rcases hq with hq | hq
      · exact absurd hq (restore_ne_downloading s)
      · have hsc := restore_complete s (hi.saved_running s hsv) hq
        have hdc := hi.saved_complete s hsv hsc
        have hp := hi.saved_path s hsv hsc
        have := h.att (Or.inr hdc)
        simp only [hp, if_true, hdc]
        simpa using this

theorem ainv_run (ops : List Op) : ∀ d, Inv d → AInv d → HonestV d ops → AInv (run d ops) := by
  induction ops with
  | nil => intro d _ h _; exact h
  | cons op ops ih =>
    intro d hi h hon
    exact ih _ (inv_step d op hi) (ainv_step d op hi h hon.1) hon.2

theorem ainv_init (pre : Bytes) (hp : Bool) (F : Bytes) : AInv { Dl.init pre hp with remote := F } :=
  ⟨fun hq => by simp [Dl.init] at hq⟩

/-- … and the shared file only grows at its end: the local file and the file of the last attempt are both
prefixes of the shared file as it is now -/
structure GInv (d : Dl) : Prop where
  pre : d.loc <+: d.remote
  srv : d.st = .downloading ∨ d.st = .complete → d.served <+: d.remote

theorem append_prefix_of_prefixes {loc served R x : Bytes} (h1 : loc <+: R) (h2 : served <+: R)
    (hx : x <+: served.drop loc.length) : loc ++ x <+: R := by
  by_cases hl : loc.length ≤ served.length
  · have hp : loc <+: served := List.prefix_of_prefix_length_le h1 h2 hl
    have : loc ++ x <+: served := by
      have := prefix_drop hp
      rw [← this]
      exact (List.prefix_append_right_inj loc).mpr hx
    exact this.trans h2
  · have : served.drop loc.length = [] := List.drop_of_length_le (by omega)
    rw [this] at hx
    have : x = [] := List.prefix_nil.mp hx
    subst this
    simpa using h1

theorem ginv_step (d : Dl) (op : Op) (hi : Inv d) (h : GInv d)
    (hop : match op with
      | .seg bs => d.st = .downloading → bs <+: d.served.drop d.loc.length
      | .pauseWrite bs => d.st = .downloading → bs <+: d.served.drop d.loc.length
      | .remote F => d.remote <+: F
      | _ => True) : GInv (step d op) := by
  cases op with
  | begin a lim =>
    simp only [step]; split
    · unfold begin; dsimp only
      split <;> exact ⟨h.pre, fun _ => List.prefix_refl _⟩
    · exact h
  | beginCut a =>
    simp only [step]; split
    · exact ⟨h.pre, fun hq => by simp [beginCut] at hq⟩
    · exact h
  | seg bs =>
    simp only at hop
    simp only [step]; split
    · rename_i hs
      obtain ⟨k, hk⟩ := drain_loc bs.length d bs
      refine ⟨?_, fun _ => ?_⟩
      · rw [hk, drain_remote]
        exact append_prefix_of_prefixes h.pre (h.srv (Or.inl hs)) ((List.take_prefix k bs).trans (hop hs))
      · rw [drain_served, drain_remote]; exact h.srv (Or.inl hs)
    · exact h
  | eof =>
    simp only [step]; split
    · rename_i hs
      exact ⟨h.pre, fun _ => h.srv (Or.inl hs)⟩
    · exact h
  | err =>
    simp only [step]; split
    · exact ⟨h.pre, fun hq => by simp at hq⟩
    · exact h
  | remote G =>
    simp only at hop
    simp only [step]; split
    · exact h
    · exact ⟨h.pre.trans hop, fun hq => (h.srv hq).trans hop⟩
  | pause =>
    simp only [step]; split
    · exact ⟨h.pre, fun hq => by simp at hq⟩
    · split
      · exact ⟨h.pre, fun hq => by simp at hq⟩
      · exact h
  | pauseWrite bs =>
    simp only at hop
    simp only [step]; split
    · rename_i hs
      exact ⟨append_prefix_of_prefixes h.pre (h.srv (Or.inl hs)) ((List.take_prefix _ bs).trans (hop hs)),
             fun hq => by simp at hq⟩
    · exact h
  | queue =>
    simp only [step]; split
    · exact ⟨h.pre, fun hq => by simp at hq⟩
    · exact h
  | save => exact ⟨h.pre, h.srv⟩
  | crash keep =>
    simp only [step]
    split
    · exact h
    · rename_i s hsv
      refine ⟨(crash_loc_prefix d s keep).trans h.pre, fun hq => ?_⟩
      rcases hq with hq | hq
      · exact absurd hq (restore_ne_downloading s)
      · have hsc := restore_complete s (hi.saved_running s hsv) hq
        exact h.srv (Or.inr (hi.saved_complete s hsv hsc))

/-- both restrictions of an honest uploader of a growing file, for one op -/
def GrowStep (d : Dl) (op : Op) : Prop :=
  match op with
  | .seg bs => d.st = .downloading → bs <+: d.served.drop d.loc.length
  | .pauseWrite bs => d.st = .downloading → bs <+: d.served.drop d.loc.length
  | .remote F => d.remote <+: F
  | _ => True

theorem growStep_of (d : Dl) (op : Op) (ops : List Op) (h1 : HonestV d (op :: ops)) (h2 : Grows d (op :: ops)) :
    GrowStep d op := by
  cases op <;> simp only [GrowStep] <;> first | exact h1.1 | exact h2.1 | trivial

theorem ginv_run (ops : List Op) : ∀ d, Inv d → GInv d → HonestV d ops → Grows d ops → GInv (run d ops) := by
  induction ops with
  | nil => intro d _ h _ _; exact h
  | cons op ops ih =>
    intro d hi h hon hg
    exact ih _ (inv_step d op hi) (ginv_step d op hi h (growStep_of d op ops hon hg)) hon.2 hg.2

/-! ### progress of a fault-free attempt (download side) -/

theorem drain_honest (fuel : Nat) : ∀ (d : Dl) (buf t : Bytes),
    buf.length ≤ fuel → d.st = .downloading → d.bt = d.loc.length → 0 < d.chunk →
    d.remaining - (d.received : Int) = ((buf.length + t.length : Nat) : Int) →
    d.filesize = d.loc.length + buf.length + t.length →
    0 < buf.length + t.length →
    (drain fuel d buf).loc = d.loc ++ buf ∧ (drain fuel d buf).bt = (drain fuel d buf).loc.length ∧
    (drain fuel d buf).filesize = d.filesize ∧ (drain fuel d buf).chunk = d.chunk ∧
    (t = [] → buf ≠ [] → (drain fuel d buf).st = .complete ∧ (drain fuel d buf).closed = true) ∧
    (t ≠ [] → (drain fuel d buf).st = .downloading ∧
      (drain fuel d buf).remaining - ((drain fuel d buf).received : Int) = (t.length : Int)) := by
  induction fuel with
  | zero =>
    intro d buf t hf hst hbt _ hrem _ _
    have hb : buf = [] := List.eq_nil_of_length_eq_zero (by omega)
    subst hb
    rw [drain_nil]
    refine ⟨by simp, hbt, rfl, rfl, fun _ h => absurd rfl h, fun _ => ⟨hst, by simpa using hrem⟩⟩
  | succ n ih =>
    intro d buf t hf hst hbt hch hrem hfs hpos
    by_cases hb : buf = []
    · subst hb
      rw [drain_nil]
      refine ⟨by simp, hbt, rfl, rfl, fun _ h => absurd rfl h, fun _ => ⟨hst, by simpa using hrem⟩⟩
    · have hblen : 0 < buf.length := List.length_pos_iff.mpr hb
      have hstep : drain (n + 1) d buf = drain n (onRead d (buf.take d.chunk)) (buf.drop d.chunk) := by
        rw [drain]; simp [hst, hb]
      rw [hstep]
      have hdl : (buf.take d.chunk).length = min d.chunk buf.length := List.length_take
      have hrl : (buf.drop d.chunk).length = buf.length - d.chunk := List.length_drop
      by_cases hfin : d.remaining ≤ ((d.received + (buf.take d.chunk).length : Nat) : Int)
      · -- the read completes the file
        have ht : t = [] := List.eq_nil_of_length_eq_zero (by omega)
        have hle : buf.length ≤ d.chunk := by omega
        have htake : buf.take d.chunk = buf := List.take_of_length_le hle
        have hdrop : buf.drop d.chunk = [] := List.drop_of_length_le hle
        have hor : onRead d (buf.take d.chunk) =
            finish { d with loc := d.loc ++ buf.take d.chunk, bt := d.bt + (buf.take d.chunk).length,
                            received := d.received + (buf.take d.chunk).length,
                            log := d.log ++ [(buf.take d.chunk).length] } := by
          unfold onRead; dsimp only; rw [if_pos]; exact_mod_cast hfin
        rw [hdrop, drain_nil, hor]
        subst ht
        refine ⟨?_, ?_, ?_, ?_, fun _ _ => ⟨?_, ?_⟩, fun h => absurd rfl h⟩
        · simp [htake]
        · simp [htake, hbt]
        · simp
        · simp [finish]
        · simp only [finish, htake]
          rw [if_pos]
          simp only [List.length_nil] at hfs
          omega
        · simp
      · -- more to come
        have hor : onRead d (buf.take d.chunk) =
            { d with loc := d.loc ++ buf.take d.chunk, bt := d.bt + (buf.take d.chunk).length,
                     received := d.received + (buf.take d.chunk).length,
                     log := d.log ++ [(buf.take d.chunk).length] } := by
          unfold onRead; dsimp only; rw [if_neg]; intro hge; apply hfin; exact_mod_cast hge
        rw [hor]
        have := ih { d with loc := d.loc ++ buf.take d.chunk, bt := d.bt + (buf.take d.chunk).length,
                            received := d.received + (buf.take d.chunk).length,
                            log := d.log ++ [(buf.take d.chunk).length] } (buf.drop d.chunk) t
          (by omega) hst (by simp [hbt]) hch (by dsimp only; omega)
          (by dsimp only; simp only [List.length_append]; omega) (by omega)
        obtain ⟨h1, h2, h3, h4, h5, h6⟩ := this
        refine ⟨?_, h2, h3, h4, fun ht _ => h5 ht ?_, h6⟩
        · rw [h1]; dsimp only; rw [List.append_assoc, List.take_append_drop]
        · subst ht
          apply List.ne_nil_of_length_pos
          simp only [List.length_nil] at hrem hfin ⊢
          omega

theorem run_not_downloading_segs (segs : List Bytes) (d : Dl) (h : d.st ≠ .downloading) :
    run d (segs.map .seg) = d := by
  induction segs with
  | nil => rfl
  | cons s segs ih =>
    simp only [List.map_cons, run, List.foldl_cons, step, h, if_false]
    exact ih

theorem flatten_nil_of_length {segs : List Bytes} (h : segs.flatten.length = 0) : ∀ s ∈ segs, s = [] := by
  intro s hs
  have : segs.flatten = [] := List.eq_nil_of_length_eq_zero h
  exact (List.flatten_eq_nil_iff.mp this) s hs

theorem run_segs_honest (segs : List Bytes) : ∀ (d : Dl) (t : Bytes),
    d.st = .downloading → d.bt = d.loc.length → 0 < d.chunk →
    d.remaining - (d.received : Int) = ((segs.flatten.length + t.length : Nat) : Int) →
    d.filesize = d.loc.length + segs.flatten.length + t.length →
    0 < segs.flatten.length + t.length →
    (run d (segs.map .seg)).loc = d.loc ++ segs.flatten ∧
    (t = [] → (run d (segs.map .seg)).st = .complete ∧ (run d (segs.map .seg)).closed = true) ∧
    (t ≠ [] → (run d (segs.map .seg)).st = .downloading) := by
  induction segs with
  | nil =>
    intro d t hst _ _ _ _ hpos
    simp only [List.flatten_nil, List.length_nil, Nat.zero_add] at hpos
    refine ⟨by simp [run], fun ht => ?_, fun _ => hst⟩
    subst ht; simp at hpos
  | cons s segs ih =>
    intro d t hst hbt hch hrem hfs hpos
    simp only [List.flatten_cons, List.length_append] at hrem hfs hpos
    have hrun : run d ((s :: segs).map .seg) = run (drain s.length d s) (segs.map .seg) := by
      simp only [List.map_cons, run, List.foldl_cons, step, hst, if_true]
    rw [hrun]
    have hd := drain_honest s.length d s (segs.flatten ++ t) (Nat.le_refl _) hst hbt hch
      (by simp only [List.length_append]; omega) (by simp only [List.length_append]; omega)
      (by simp only [List.length_append]; omega)
    obtain ⟨h1, h2, h3, h4, h5, h6⟩ := hd
    by_cases hrest : segs.flatten ++ t = []
    · -- this segment (if non-empty) completes the file; what follows is empty
      have hsf : segs.flatten = [] := (List.append_eq_nil_iff.mp hrest).1
      have ht : t = [] := (List.append_eq_nil_iff.mp hrest).2
      have hs : s ≠ [] := by
        apply List.ne_nil_of_length_pos
        rw [hsf, ht] at hpos; simpa using hpos
      obtain ⟨hc, hcl⟩ := h5 hrest hs
      rw [run_not_downloading_segs _ _ (by simp [hc])]
      refine ⟨by simp [h1, hsf], fun _ => ⟨hc, hcl⟩, fun h => absurd ht h⟩
    · obtain ⟨hst', hrem'⟩ := h6 hrest
      have hpos' : 0 < segs.flatten.length + t.length := by
        have := List.length_pos_iff.mpr hrest
        simpa [List.length_append] using this
      have := ih (drain s.length d s) t hst' h2 (by omega)
        (by rw [hrem']; simp [List.length_append])
        (by rw [h3, h1, hfs]; simp only [List.length_append]; omega) hpos'
      obtain ⟨g1, g2, g3⟩ := this
      refine ⟨by rw [g1, h1]; simp [List.append_assoc], g2, g3⟩

/-! ### upload side -/

structure UInv (F : Bytes) (u : Ul) : Prop where
  fs : u.filesize = F.length
  pos : u.st ≠ .queued → u.pos = u.offset + u.sent.length
  bt : u.st ≠ .queued → u.bt = u.offset + u.sent.length
  sent : u.sent <+: F.drop u.offset
  closed : u.st = .complete → u.peerClosed = true
  complete : u.st = .complete → u.filesize = u.bt
  chunk : 0 < u.chunk

theorem uinv_init (F : Bytes) : UInv F (Ul.init F) :=
  ⟨rfl, fun h => absurd rfl h, fun h => absurd rfl h, by simp [Ul.init], (fun h => by simp [Ul.init] at h),
   (fun h => by simp [Ul.init] at h), chunkOf_pos false⟩

theorem uinv_step (F : Bytes) (u : Ul) (op : UOp) (h : UInv F u) : UInv F (ustep F u op) := by
  cases op with
  | begin off lim =>
    simp only [ustep]; split
    · exact ⟨h.fs, (fun _ => by simp [ubegin]), (fun _ => by simp [ubegin]), (by simp [ubegin]),
             (fun hc => by cases hc), (fun hc => by cases hc), chunkOf_pos lim⟩
    · exact h
  | chunk =>
    simp only [ustep]; split
    · rename_i hs
      have hp := h.pos (by simp [hs])
      have hb := h.bt (by simp [hs])
      split
      · exact ⟨h.fs, fun _ => hp, fun _ => hb, h.sent, (fun hc => by cases hc), (fun hc => by cases hc), h.chunk⟩
      · refine ⟨h.fs, fun _ => ?_, fun _ => ?_, ?_, (fun hc => by simp [hs] at hc),
                (fun hc => by simp [hs] at hc), h.chunk⟩
        · simp only [List.length_append]; omega
        · simp only [List.length_append]; omega
        · obtain ⟨t, ht⟩ := h.sent
          have hd : F.drop u.pos = t := by
            rw [hp, ← List.drop_drop, ← ht]; simp
          rw [hd, ← ht]
          exact (List.prefix_append_right_inj u.sent).mpr (List.take_prefix _ _)
    · exact h
  | werr =>
    simp only [ustep]; split
    · rename_i hs
      exact ⟨h.fs, fun _ => h.pos (by simp [hs]), fun _ => h.bt (by simp [hs]), h.sent,
             (fun hc => by cases hc), (fun hc => by cases hc), h.chunk⟩
    · exact h
  | closed =>
    simp only [ustep]; split
    · rename_i hs
      refine ⟨h.fs, fun _ => h.pos (by simp [hs]), fun _ => h.bt (by simp [hs]), h.sent, fun _ => rfl,
              fun hc => ?_, h.chunk⟩
      by_cases he : u.filesize = u.bt
      · exact he
      · simp [he] at hc
    · exact h
  | rerr =>
    simp only [ustep]; split
    · rename_i hs
      exact ⟨h.fs, fun _ => h.pos (by simp [hs]), fun _ => h.bt (by simp [hs]), h.sent,
             (fun hc => by cases hc), (fun hc => by cases hc), h.chunk⟩
    · exact h
  | told =>
    simp only [ustep]; split
    · exact ⟨h.fs, h.pos, h.bt, h.sent, h.closed, h.complete, h.chunk⟩
    · exact h
  | untold =>
    simp only [ustep]; split
    · by_cases hf : u.st = .failed
      · simp only [hf, if_true]
        exact ⟨h.fs, fun hq => absurd rfl hq, fun hq => absurd rfl hq, h.sent,
               (fun hc => by cases hc), (fun hc => by cases hc), h.chunk⟩
      · simp only [hf, if_false]
        exact ⟨h.fs, h.pos, h.bt, h.sent, h.closed, h.complete, h.chunk⟩
    · exact h
  | requeue =>
    simp only [ustep]; split
    · exact ⟨h.fs, fun hq => absurd rfl hq, fun hq => absurd rfl hq, h.sent,
             (fun hc => by cases hc), (fun hc => by cases hc), h.chunk⟩
    · exact h

/-- the notification of a failed upload: while `PeerUploadFailed` is being sent the upload has left UPLOADING -/
structure NInv (u : Ul) : Prop where
  off : u.notifying = true → u.st = .failed ∨ u.st = .queued
  run : u.st = .sending ∨ u.st = .awaitEof → u.notifying = false

theorem ninv_init (F : Bytes) : NInv (Ul.init F) :=
  ⟨fun h => by simp [Ul.init] at h, fun _ => rfl⟩

theorem ninv_step (F : Bytes) (u : Ul) (op : UOp) (h : NInv u) : NInv (ustep F u op) := by
  cases op with
  | begin off lim =>
    simp only [ustep]; split
    · rename_i hc
      exact ⟨fun hn => by simp [ubegin, hc.2] at hn, fun _ => by simp [ubegin, hc.2]⟩
    · exact h
  | chunk =>
    simp only [ustep]; split
    · rename_i hs
      have hn := h.run (Or.inl hs)
      split
      · exact ⟨fun x => by simp [hn] at x, fun _ => hn⟩
      · exact ⟨fun x => by simp [hn] at x, fun _ => hn⟩
    · exact h
  | werr =>
    simp only [ustep]; split
    · exact ⟨fun _ => Or.inl rfl, fun x => by simp at x⟩
    · exact h
  | closed =>
    simp only [ustep]; split
    · rename_i hs
      have hn := h.run (Or.inr hs)
      refine ⟨fun x => by simp [hn] at x, fun _ => hn⟩
    · exact h
  | rerr =>
    simp only [ustep]; split
    · exact ⟨fun _ => Or.inl rfl, fun x => by simp at x⟩
    · exact h
  | told =>
    simp only [ustep]; split
    · exact ⟨fun x => by simp at x, fun _ => rfl⟩
    · exact h
  | untold =>
    simp only [ustep]; split
    · exact ⟨fun x => by simp at x, fun _ => rfl⟩
    · exact h
  | requeue =>
    simp only [ustep]; split
    · exact ⟨fun _ => Or.inr rfl, fun x => by simp at x⟩
    · exact h

theorem ninv_run (F : Bytes) (ops : List UOp) : ∀ u, NInv u → NInv (urun F u ops) := by
  induction ops with
  | nil => intro u h; exact h
  | cons op ops ih => intro u h; exact ih _ (ninv_step F u op h)

theorem uinv_run (F : Bytes) (ops : List UOp) : ∀ u, UInv F u → UInv F (urun F u ops) := by
  induction ops with
  | nil => intro u h; exact h
  | cons op ops ih => intro u h; exact ih _ (uinv_step F u op h)

theorem urun_chunks_not_sending (F : Bytes) (n : Nat) (u : Ul) (h : u.st ≠ .sending) :
    urun F u (List.replicate n .chunk) = u := by
  induction n with
  | zero => rfl
  | succ n ih =>
    simp only [List.replicate_succ, urun, List.foldl_cons, ustep, h, if_false]
    exact ih

/-- enough `send_file` iterations reach the EOF wait with everything sent -/
theorem urun_chunks (F : Bytes) (n : Nat) : ∀ (u : Ul), u.st = .sending → 0 < u.chunk → u.pos ≤ F.length →
    F.length - u.pos + u.chunk ≤ n * u.chunk →
    (urun F u (List.replicate n .chunk)).st = .awaitEof ∧
    (urun F u (List.replicate n .chunk)).bt = u.bt + (F.length - u.pos) ∧
    (urun F u (List.replicate n .chunk)).filesize = u.filesize ∧
    (urun F u (List.replicate n .chunk)).offset = u.offset := by
  induction n with
  | zero => intro u _ hc _ hn; omega
  | succ n ih =>
    intro u hs hc hp hn
    have hlen : ((F.drop u.pos).take u.chunk).length = min u.chunk (F.length - u.pos) := by
      rw [List.length_take, List.length_drop]
    by_cases hd : (F.drop u.pos).take u.chunk = []
    · have hz : F.length - u.pos = 0 := by
        have : ((F.drop u.pos).take u.chunk).length = 0 := by rw [hd]; rfl
        omega
      have hstep : urun F u (List.replicate (n + 1) .chunk) =
          urun F { u with st := .awaitEof } (List.replicate n .chunk) := by
        simp only [List.replicate_succ, urun, List.foldl_cons, ustep, hs, if_true, hd]
      rw [hstep, urun_chunks_not_sending _ _ _ (by simp)]
      exact ⟨rfl, by simp [hz], rfl, rfl⟩
    · have hstep : urun F u (List.replicate (n + 1) .chunk) =
          urun F { u with sent := u.sent ++ (F.drop u.pos).take u.chunk,
                          pos := u.pos + ((F.drop u.pos).take u.chunk).length,
                          bt := u.bt + ((F.drop u.pos).take u.chunk).length } (List.replicate n .chunk) := by
        simp only [List.replicate_succ, urun, List.foldl_cons, ustep, hs, if_true, hd, if_false]
      rw [hstep]
      have hpos : 0 < ((F.drop u.pos).take u.chunk).length := List.length_pos_iff.mpr hd
      have hn' : F.length - (u.pos + ((F.drop u.pos).take u.chunk).length) + u.chunk ≤ n * u.chunk := by
        rw [Nat.succ_mul] at hn
        by_cases hfull : u.chunk ≤ F.length - u.pos
        · omega
        · cases n with
          | zero => simp at hn; omega
          | succ m => rw [Nat.succ_mul]; omega
      have := ih { u with sent := u.sent ++ (F.drop u.pos).take u.chunk,
                          pos := u.pos + ((F.drop u.pos).take u.chunk).length,
                          bt := u.bt + ((F.drop u.pos).take u.chunk).length } hs hc (by dsimp only; omega) hn'
      obtain ⟨g1, g2, g3, g4⟩ := this
      refine ⟨g1, ?_, g3, g4⟩
      rw [g2]; dsimp only; omega

/-! ### retry control plane -/

/-! ## hand-shake values on the wire -/
namespace Wire

theorem leBytes_length (w : Nat) : ∀ n, (leBytes w n).length = w := by
  induction w with
  | zero => intro n; rfl
  | succ w ih => intro n; simp [leBytes, ih]

theorem leVal_leBytes (w : Nat) : ∀ n, leVal (leBytes w n) = n % 256 ^ w := by
  induction w with
  | zero => intro n; simp [leBytes, leVal, Nat.mod_one]
  | succ w ih =>
    intro n
    simp only [leBytes, leVal, ih]
    rw [Nat.pow_succ, Nat.mul_comm (256 ^ w) 256, Nat.mod_mul]
    congr 1
    simp

theorem recvValue_send (w n : Nat) (rest : Bytes) (h : n < 256 ^ w) :
    recvValue w w (leBytes w n ++ rest) = some (n, rest) := by
  have hl := leBytes_length w n
  unfold recvValue
  rw [if_neg (by simp only [List.length_append, hl]; omega)]
  have h1 : (leBytes w n ++ rest).take w = leBytes w n := by
    rw [List.take_append_of_le_length (by omega), List.take_of_length_le (by omega)]
  have h2 : (leBytes w n ++ rest).drop w = rest := by
    rw [List.drop_append_of_le_length (by omega), List.drop_of_length_le (by omega), List.nil_append]
  rw [h1, h2, List.take_of_length_le (by omega), leVal_leBytes, Nat.mod_eq_of_lt h]

theorem recvValue_wait (read dec : Nat) (s : Bytes) (h : s.length < read) : recvValue read dec s = none := by
  simp [recvValue, h]

theorem take_leBytes (d : Nat) : ∀ w n, d ≤ w → (leBytes w n).take d = leBytes d n := by
  induction d with
  | zero => intro w n _; simp [leBytes]
  | succ d ih =>
    intro w n h
    cases w with
    | zero => omega
    | succ w => simp only [leBytes, List.take_succ_cons, ih w (n / 256) (by omega)]

/-- decoding fewer bytes than were sent keeps only the low part -/
theorem recvValue_narrow (w d n : Nat) (rest : Bytes) (hd : d ≤ w) :
    recvValue w d (leBytes w n ++ rest) = some (n % 256 ^ d, rest) := by
  have hl := leBytes_length w n
  unfold recvValue
  rw [if_neg (by simp only [List.length_append, hl]; omega)]
  have h1 : (leBytes w n ++ rest).take w = leBytes w n := by
    rw [List.take_append_of_le_length (by omega), List.take_of_length_le (by omega)]
  have h2 : (leBytes w n ++ rest).drop w = rest := by
    rw [List.drop_append_of_le_length (by omega), List.drop_of_length_le (by omega), List.nil_append]
  rw [h1, h2, take_leBytes d w n hd, leVal_leBytes]

end Wire

namespace Ctl


theorem inv_init : invB S.init = true := by decide

theorem settleU_mono (l : List ToU) : ∀ h, settleU false l = true → settleU h l = true := by
  induction l with
  | nil => intro h hh; simp [settleU] at hh
  | cons m r ih =>
    intro h hh
    cases m
    · simpa [settleU] using hh
    · simp only [settleU] at hh ⊢; exact ih _ hh
    · simpa [settleU] using hh

theorem settleU_ptq (l : List ToU) : ∀ h, settleU h (l ++ [.ptq]) = true := by
  induction l with
  | nil => intro h; simp [settleU]
  | cons m r ih => intro h; cases m <;> simp only [List.cons_append, settleU] <;> exact ih _

theorem settleU_replyOk (l : List ToU) : ∀ h, settleU h (l ++ [.replyOk]) = settleU h l := by
  induction l with
  | nil => intro h; simp [settleU]
  | cons m r ih => intro h; cases m <;> simp only [List.cons_append, settleU] <;> exact ih _

/-- Prop form of the invariant -/
structure Inv (s : S) : Prop where
  held : retryable s.d = true → s.rq = true → settleU (uHolds s.u) s.toU = true ∨ .puf ∈ s.toD
  run : s.d = .downloading → s.rq = false

theorem invB_iff (s : S) : invB s = true ↔ Inv s := by
  constructor
  · intro h
    simp only [invB, Bool.and_eq_true, Bool.or_eq_true, List.contains_iff_mem,
      Bool.and_eq_false_iff, Bool.not_eq_eq_eq_not, Bool.not_true, decide_eq_false_iff_not] at h
    refine ⟨fun h1 h2 => ?_, fun h1 => ?_⟩
    · rcases h.1 with (h3 | h3) | h3
      · rcases h3 with h3 | h3 <;> simp_all
      · exact Or.inl h3
      · exact Or.inr h3
    · rcases h.2 with h3 | h3
      · exact absurd h1 h3
      · exact h3
  · intro ⟨h1, h2⟩
    simp only [invB, Bool.and_eq_true, Bool.or_eq_true, List.contains_iff_mem,
      Bool.and_eq_false_iff, Bool.not_eq_eq_eq_not, Bool.not_true, decide_eq_false_iff_not]
    refine ⟨?_, ?_⟩
    · by_cases hr : retryable s.d = true
      · by_cases hq : s.rq = true
        · rcases h1 hr hq with h | h
          · exact Or.inl (Or.inr h)
          · exact Or.inr h
        · exact Or.inl (Or.inl (Or.inr (by simpa using hq)))
      · exact Or.inl (Or.inl (Or.inl (by simpa using hr)))
    · by_cases hd : s.d = .downloading
      · exact Or.inr (h2 hd)
      · exact Or.inl hd


theorem uHolds_or (u : U) : uHolds u = true ∨ (u = .none ∨ u = .failed ∨ u = .refused ∨ u = .complete) := by
  cases u <;> simp [uHolds]

theorem inv_step (s : S) (op : Op) (h : Inv s) : Inv (step s op) := by
  obtain ⟨d, rq, u, toU, toD⟩ := s
  obtain ⟨h1, h2⟩ := h
  simp only at h1 h2
  cases op with
  | dCycle =>
    simp only [step]
    split
    · rename_i hc
      refine ⟨fun _ _ => Or.inl (settleU_ptq _ _), fun hd => ?_⟩
      simp only at hd; subst hd; simp [retryable] at hc
    · exact ⟨h1, h2⟩
  | uRecv =>
    cases toU with
    | nil => exact ⟨h1, h2⟩
    | cons m r =>
      cases m with
      | ptq =>
        simp only [step]
        split
        · exact ⟨fun a b => (h1 a b).imp (fun x => by simpa [settleU, uHolds] using x) id, h2⟩
        · rename_i hu
          refine ⟨fun a b => (h1 a b).imp (fun x => ?_) id, h2⟩
          rcases uHolds_or u with hh | hh
          · simp only [settleU] at x; rw [hh]; exact x
          · exact absurd hh hu
      | replyOk =>
        simp only [step]
        split
        · rename_i hu
          subst hu
          exact ⟨fun a b => (h1 a b).imp (fun x => by simpa [settleU, uHolds] using x) id, h2⟩
        · exact ⟨fun a b => (h1 a b).imp (fun x => by simpa [settleU] using x) id, h2⟩
      | replyNo =>
        simp only [step]
        split
        · rename_i hu
          subst hu
          exact ⟨fun a b => (h1 a b).imp (fun x => by simpa [settleU, uHolds] using x) id, h2⟩
        · exact ⟨fun a b => (h1 a b).imp (fun x => settleU_mono _ _ (by simpa [settleU] using x)) id, h2⟩
  | uCycle =>
    simp only [step]
    split
    · rename_i hu
      subst hu
      refine ⟨fun a b => (h1 a b).imp (fun x => by simpa [uHolds] using x) (fun x => ?_), h2⟩
      exact List.mem_append_left _ x
    · exact ⟨h1, h2⟩
  | dRecv =>
    cases toD with
    | nil => exact ⟨h1, h2⟩
    | cons m r =>
      cases m with
      | ptr =>
        simp only [step]
        split
        · exact ⟨fun a => by simp [retryable] at a, fun a => by simp at a⟩
        · rename_i hr
          split
          · exact ⟨fun a => absurd a hr, h2⟩
          · refine ⟨fun a b => (h1 a b).imp id (fun x => ?_), h2⟩
            simpa using x
      | puf =>
        simp only [step]
        exact ⟨fun _ b => by simp at b, fun _ => rfl⟩
  | fUp =>
    simp only [step]
    split
    · exact ⟨fun a => by simp [retryable] at a, fun _ => rfl⟩
    · exact ⟨h1, h2⟩
  | estFailD =>
    simp only [step]
    split
    · exact ⟨fun _ b => by simp at b, fun a => by simp at a⟩
    · exact ⟨h1, h2⟩
  | estFailU =>
    simp only [step]
    split
    · rename_i hu
      refine ⟨fun a b => (h1 a b).imp (fun x => ?_) id, h2⟩
      rcases hu with hu | hu <;> subst hu <;> simpa [uHolds] using x
    · exact ⟨h1, h2⟩
  | uWroteAll =>
    simp only [step]
    split
    · rename_i hu; subst hu
      exact ⟨fun a b => (h1 a b).imp (fun x => by simpa [uHolds] using x) id, h2⟩
    · exact ⟨h1, h2⟩
  | dDone =>
    simp only [step]
    split
    · exact ⟨fun a => by simp [retryable] at a, fun a => by simp at a⟩
    · exact ⟨h1, h2⟩
  | uEof =>
    simp only [step]
    split
    · rename_i hu
      obtain ⟨_, hd⟩ := hu
      subst hd
      exact ⟨fun a => by simp [retryable] at a, fun a => by simp at a⟩
    · exact ⟨h1, h2⟩
  | dLearn =>
    simp only [step]
    split
    · rename_i hd
      have hq := h2 hd
      exact ⟨fun _ b => (by simp only at b; rw [hq] at b; exact absurd b (by simp)), fun a => by simp at a⟩
    · exact ⟨h1, h2⟩
  | uLearn =>
    simp only [step]
    split
    · exact ⟨fun _ _ => Or.inr (by simp), h2⟩
    · exact ⟨h1, h2⟩
  | uLearnMute =>
    simp only [step]
    split
    · rename_i hu
      refine ⟨fun a b => (h1 a b).imp (fun x => ?_) id, h2⟩
      rcases hu with hu | hu <;> subst hu <;> simpa [uHolds] using x
    · exact ⟨h1, h2⟩
  | dCycleFail =>
    simp only [step]
    split
    · rename_i hc
      have hq : rq = false := by
        cases rq
        · rfl
        · simp at hc
      refine ⟨fun _ b => ?_, fun a => by simp at a⟩
      simp only at b; rw [hq] at b; exact absurd b (by simp)
    · exact ⟨h1, h2⟩
  | dRecvFail =>
    cases toD with
    | nil => exact ⟨h1, h2⟩
    | cons m r =>
      cases m with
      | ptr =>
        simp only [step]
        split
        · exact ⟨fun _ b => by simp at b, fun a => by simp at a⟩
        · refine ⟨fun a b => (h1 a b).imp id (fun x => ?_), h2⟩
          simpa using x
      | puf => exact ⟨h1, h2⟩
  | dUser =>
    simp only [step]
    split
    · exact ⟨h1, h2⟩
    · exact ⟨fun a => by simp [retryable] at a, fun a => by simp at a⟩
  | dQueue =>
    simp only [step]
    split
    · exact ⟨fun _ b => by simp at b, fun a => by simp at a⟩
    · exact ⟨h1, h2⟩


theorem inv_run (ops : List Op) : ∀ s, Inv s → Inv (run s ops) := by
  induction ops with
  | nil => intro s h; exact h
  | cons op ops ih => intro s h; exact ih _ (inv_step s op h)

theorem round_completes (s : S) (hi : Inv s) (hq : quiescent s = true) (hr : retryable s.d = true) :
    (run s round).d = .complete ∧ (run s round).u = .complete ∧ quiescent (run s round) = true := by
  obtain ⟨d, rq, u, toU, toD⟩ := s
  have h1 := hi.held
  have e1 : toU = [] := by
    cases toU with
    | nil => rfl
    | cons a b => simp [quiescent] at hq
  have e2 : toD = [] := by
    cases toD with
    | nil => rfl
    | cons a b => simp [quiescent] at hq
  subst e1; subst e2
  cases d <;> cases u <;> cases rq <;> first
    | decide
    | (exfalso; revert hr; decide)
    | (exfalso; revert hq; decide)
    | (exfalso; have := h1 (by decide) rfl; revert this; decide)


end Ctl

end AioslskVerif.FileXfer
