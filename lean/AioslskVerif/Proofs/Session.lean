import AioslskVerif.Model.Session
/-! Helper lemmas for Props/C16.lean. -/
namespace AioslskVerif.Session

/-! ## counting frames of the burst -/

theorem count_map_inj {α β} [DecidableEq α] [DecidableEq β] (f : α → β)
    (hf : ∀ a b, f a = f b → a = b) (a : α) (l : List α) :
    (l.map f).count (f a) = l.count a := by
  induction l with
  | nil => rfl
  | cons x xs ih =>
    by_cases h : x = a
    · subst h; simp [ih]
    · have : f x ≠ f a := fun e => h (hf _ _ e)
      simp [ih, h, this]

theorem count_map_ne {α β} [DecidableEq β] (f : α → β) (b : β) (hf : ∀ a, f a ≠ b) (l : List α) :
    (l.map f).count b = 0 := by
  induction l with
  | nil => rfl
  | cons x xs ih => simp [ih, hf x]

theorem nodup_count {α} [DecidableEq α] (a : α) (l : List α) (h : l.Nodup) :
    l.count a = if a ∈ l then 1 else 0 := by
  induction l with
  | nil => simp
  | cons x xs ih =>
    have hx := (List.nodup_cons.mp h)
    by_cases e : x = a
    · subst e; simp [List.count_eq_zero_of_not_mem hx.1]
    · have e' : ¬ a = x := fun h => e h.symm
      simp [ih hx.2, e, e']

theorem count_filter_ne (a own : String) (l : List String) (h : l.Nodup) :
    (l.filter (fun f => f != own)).count a = if a ∈ l ∧ a ≠ own then 1 else 0 := by
  have hn : (l.filter (fun f => f != own)).Nodup := h.filter _
  rw [nodup_count _ _ hn]
  simp [List.mem_filter]

theorem burst_count (c : Config) (e : Env) (h : c.WF) (f : Frame) :
    (burst c e).count f = mustTell c e f := by
  obtain ⟨hf, hl, hh, hv⟩ := h
  cases f <;> cases hA : c.autoJoin <;>
    simp [burst, hNetwork, hDistributed, hUsers, hRooms, hInterests, hShares, mustTell, trackSet, hA,
      List.count_cons, List.count_append, count_map_ne, count_map_inj, nodup_count _ _ hl, nodup_count _ _ hh,
      nodup_count _ _ hv, count_filter_ne _ _ _ hf]
  all_goals
    rename_i u
    by_cases h1 : c.username = u
    · subst h1; simp
    · have h1' : ¬ u = c.username := fun e => h1 e.symm
      by_cases h2 : u ∈ c.friends <;> simp [h1, h1', h2]

/-! ## invariant of reachable states -/

/-- ping / reader / session only with a connected server connection; the watchdog is in its reconnect delay
    only while the connection is closed; the transient states are never observed between operations; a connection
    or a watchdog exists only on a started client -/
def Inv (st : State) : Prop :=
  (st.conn ≠ .connected → st.ping = false ∧ st.reader = false ∧ st.session = false) ∧
  (∀ n, st.wd = .sleeping n → st.conn = .closed) ∧ st.conn ≠ .closing ∧ st.conn ≠ .connecting ∧
  (st.conn = .connected → st.started = true) ∧ (st.wd ≠ .off → st.started = true)

theorem inv_init : Inv init := by
  simp [Inv, init]

theorem closeServer_wd_ne_off (r : Reason) (st : State) (h : (closeServer r st).1.wd ≠ .off) : st.wd ≠ .off := by
  unfold closeServer at h
  split at h
  · exact h
  · by_cases hr : r = .requested ∨ r = .eof
    · simp [hr] at h
    · simpa [hr] using h

theorem closeServer_started (r : Reason) (st : State) : (closeServer r st).1.started = st.started := by
  unfold closeServer; split <;> rfl

theorem inv_closeServer (r : Reason) (st : State) (h : Inv st) : Inv (closeServer r st).1 := by
  have hw := closeServer_wd_ne_off r st
  have hs := closeServer_started r st
  obtain ⟨h1, h2, h3, h4, h5, h6⟩ := h
  refine ⟨?_, ?_, ?_, ?_, ?_, ?_⟩
  · unfold closeServer; split
    · exact h1
    · simp
  · unfold closeServer; split
    · exact h2
    · simp
  · unfold closeServer; split
    · exact h3
    · simp
  · unfold closeServer; split
    · exact h4
    · simp
  · unfold closeServer; split
    · exact h5
    · simp
  · intro hne; rw [hs]; exact h6 (hw hne)

/-- the same for a state in the transient CONNECTING (failed connect attempt) -/
theorem inv_closeServer_connecting (r : Reason) (st : State) (hs : st.started = true) :
    Inv (closeServer r { st with conn := .connecting }).1 := by
  simp [closeServer, Inv, hs]

theorem inv_doLogin (c : Config) (st : State) (h : Inv st) (hc : st.conn = .connected) :
    Inv (doLogin c st).1 := by
  unfold doLogin
  split
  · obtain ⟨h1, h2, h3, h4, h5, h6⟩ := h
    exact ⟨by simp [hc], h2, h3, h4, h5, h6⟩
  · exact h
  · exact h
  · exact inv_closeServer _ _ h

theorem inv_reconnect (c : Config) (st : State) (_h : Inv st) (hs : st.started = true) :
    Inv (reconnect c st).1 := by
  unfold reconnect
  split
  · split
    · exact inv_doLogin _ _ (by simp [Inv, hs]) (by simp)
    · simp [Inv, hs]
  · exact inv_closeServer_connecting _ { st with wd := .idle } hs

theorem inv_tickWd (c : Config) (st : State) (h : Inv st) : Inv (tickWd c st).1 := by
  unfold tickWd
  split
  · exact h
  · split
    · rename_i hc
      obtain ⟨h1, h2, h3, h4, h5, h6⟩ := h
      refine ⟨by simpa using h1, ?_, h3, h4, h5, ?_⟩
      · intro n _; exact hc.1
      · intro _; exact h6 (by simp_all)
    · exact h
  · split
    · rename_i n hw _
      exact inv_reconnect _ _ h (h.2.2.2.2.2 (by simp [hw]))
    · rename_i n hw _
      obtain ⟨h1, h2, h3, h4, h5, h6⟩ := h
      refine ⟨by simpa using h1, ?_, h3, h4, h5, ?_⟩
      · intro m _; exact h2 n hw
      · intro _; exact h6 (by simp [hw])

theorem inv_doStart (c : Config) (st : State) (h : Inv st) (hu : st.conn = .uninit) : Inv (doStart c st).1 := by
  unfold doStart
  obtain ⟨h1, h2, h3, h4, h5, h6⟩ := h
  have h1' := h1 (by simp [hu])
  simp only []
  split
  · simp [Inv, hu, h1']
    intro n hn; have := h2 n hn; simp [hu] at this
  · split
    · simp [Inv]
      cases c.reconnectAuto <;> simp
    · simp [closeServer, Inv]

theorem inv_doStop (c : Config) (st : State) (h : Inv st) : Inv (doStop c st).1 := by
  have hA : Inv { st with wd := if covered .watchdog then .off else st.wd
                          logConn := st.logConn && !covered .logConnections } := by
    obtain ⟨h1, h2, h3, h4, h5, h6⟩ := h
    refine ⟨h1, ?_, h3, h4, h5, ?_⟩
    · intro n hn
      by_cases hc : covered .watchdog = true
      · simp [hc] at hn
      · simp [hc] at hn; exact h2 n hn
    · intro hn
      by_cases hc : covered .watchdog = true
      · simp [hc] at hn
      · simp [hc] at hn; exact h6 hn
  have hB := inv_closeServer .requested _ hA
  unfold doStop
  simpa [Inv] using hB

theorem inv_applyBreak (c : Config) (b : Break) (st : State) (h : Inv st) : Inv (applyBreak c b st).1 := by
  cases b with
  | writeFail => exact inv_closeServer _ _ h
  | close r => exact inv_closeServer _ _ h
  | stop => exact inv_doStop _ _ h
  | srvEof => exact inv_closeServer _ _ h

/-- the state in which `login()` has created the session and the listeners are running -/
theorem inv_inBurst (st : State) (h : Inv st) (hc : st.conn = .connected) :
    Inv { st with session := true, users := true } := by
  obtain ⟨h1, h2, h3, h4, h5, h6⟩ := h
  exact ⟨by simp [hc], h2, h3, h4, h5, h6⟩

/-- the state after a complete accepted login (the server's answering mode is the scenario's again) -/
theorem inv_loginDone (c : Config) (st : State) (h : Inv st) (hc : st.conn = .connected) :
    Inv { (doLogin c { st with srvReply := .accepted }).1 with srvReply := st.srvReply } := by
  have := inv_doLogin c { st with srvReply := .accepted } (by simpa [Inv] using h) (by simpa using hc)
  simpa [Inv] using this

theorem inv_doLoginBreak (c : Config) (pos : Option Nat) (d : Nat) (b : Break) (st : State) (h : Inv st)
    (hc : st.conn = .connected) : Inv (doLoginBreak c pos d b st).1 := by
  unfold doLoginBreak
  cases pos with
  | none => exact inv_applyBreak _ _ _ h
  | some j =>
    simp only []
    split
    · cases b with
      | writeFail => exact inv_loginDone c st h hc
      | close r => exact inv_applyBreak _ _ _ (inv_loginDone c st h hc)
      | stop => exact inv_applyBreak _ _ _ (inv_loginDone c st h hc)
      | srvEof => exact inv_applyBreak _ _ _ (inv_loginDone c st h hc)
    · cases b with
      | writeFail => exact inv_applyBreak _ _ _ (inv_inBurst st h hc)
      | close r => exact inv_applyBreak _ _ _ (inv_inBurst st h hc)
      | stop => exact inv_applyBreak _ _ _ (inv_inBurst st h hc)
      | srvEof => exact inv_closeServer _ _ (inv_loginDone c st h hc)

theorem inv_doConnect (c : Config) (st : State) (h : Inv st) (hs : st.started = true)
    (hw : st.wd.isSleeping = false) : Inv (doConnect c st).1 := by
  unfold doConnect
  split
  · obtain ⟨h1, h2, h3, h4, h5, h6⟩ := h
    refine ⟨by simp, ?_, by simp, by simp, fun _ => hs, fun _ => hs⟩
    intro n hn
    by_cases ha : c.reconnectAuto = true
    · simp [ha] at hn
    · simp [ha] at hn; simp [hn, Wd.isSleeping] at hw
  · exact inv_closeServer_connecting _ _ hs

/-! ### telling the server the branch position changes nothing but the ghost `told` -/

theorem inv_tellPosition (c : Config) (st : State) (h : Inv st) : Inv (tellPosition c st).1 := by
  unfold tellPosition; split
  · simpa [Inv] using h
  · exact h

theorem inv_step (c : Config) (st : State) (op : Op) (h : Inv st) : Inv (step c st op).1 := by
  cases op with
  | start =>
    simp only [step]; split
    · exact h
    · rename_i hc
      exact inv_doStart _ _ h (by
        cases hu : st.conn <;> simp_all)
  | login => simp only [step]; split
             · rename_i hc; exact inv_doLogin _ _ h hc.1
             · exact h
  | loginBreak pos d b =>
    simp only [step]; split
    · rename_i hc; exact inv_doLoginBreak _ _ _ _ _ h hc.1
    · exact h
  | exec => simp only [step]; split <;> exact h
  | populate => simp only [step]; split
                · simpa [Inv] using h
                · exact h
  | search => simp only [step]; split
              · simpa [Inv] using h
              · exact h
  | wishlistInterval => simp only [step]; split
                        · simpa [Inv] using h
                        · exact h
  | potentialParents => simp only [step]; split
                        · simpa [Inv] using h
                        · exact h
  | searchRequest => simp only [step]; split
                     · simpa [Inv] using h
                     · exact h
  | loss r => simp only [step]; split
              · exact inv_closeServer _ _ h
              · exact h
  | lossHeld r =>
    simp only [step]; split
    · have := inv_closeServer r st h
      simpa [Inv] using this
    · exact h
  | release => simp only [step]; split
               · simpa [Inv] using h
               · exact h
  | connect =>
    simp only [step]; split
    · rename_i hc; exact inv_doConnect _ _ h hc.1 hc.2.2.2
    · exact h
  | parentAdopt name root level =>
    simp only [step]; split
    · exact inv_tellPosition c _ (by simpa [Inv] using h)
    · exact h
  | parentLevel level =>
    simp only [step]; split
    · exact inv_tellPosition c _ (by simpa [Inv] using h)
    · exact h
  | parentRoot root =>
    simp only [step]; split
    · split
      · exact h
      · exact inv_tellPosition c _ (by simpa [Inv] using h)
    · exact h
  | parentLoss =>
    simp only [step]; split
    · exact inv_tellPosition c _ (by simpa [Inv] using h)
    · exact h
  | childJoin => simp only [step]; split
                 · simpa [Inv] using h
                 · exact h
  | childLoss => simp only [step]; split
                 · simpa [Inv] using h
                 · exact h
  | rescan d f => simp only [step]; split
                  · simpa [Inv] using h
                  · exact h
  | tick => simp only [step]; exact inv_tickWd _ _ (by simpa [Inv, ageAll] using h)
  | setSrvUp b => simpa [step, Inv] using h
  | setSrvReply r => simpa [step, Inv] using h
  | stop => simp only [step]; split
            · exact inv_doStop c _ h
            · exact h

theorem inv_run (c : Config) (ops : List Op) : ∀ st, Inv st → Inv (run c st ops).1 := by
  induction ops with
  | nil => intro st h; exact h
  | cons op ops ih =>
    intro st h
    simp only [run]
    exact ih _ (inv_step c st op h)

/-! ## sessions initialised / destroyed -/

def nInit (o : List Obs) : Nat := o.count .sessionInit
def nDestr (o : List Obs) : Nat := o.count .sessionDestroyed
def b2n (b : Bool) : Nat := if b then 1 else 0

theorem nInit_append (a b : List Obs) : nInit (a ++ b) = nInit a + nInit b := by simp [nInit]
theorem nDestr_append (a b : List Obs) : nDestr (a ++ b) = nDestr a + nDestr b := by simp [nDestr]

theorem count_closeServer (r : Reason) (st : State) :
    nDestr (closeServer r st).2 + b2n (closeServer r st).1.session = b2n st.session ∧
    nInit (closeServer r st).2 = 0 := by
  unfold closeServer
  split
  · simp [nDestr, nInit]
  · cases hs : st.session <;> simp [nDestr, nInit, b2n]

theorem count_doLogin (c : Config) (st : State) (hs : st.session = false) :
    nDestr (doLogin c st).2 + b2n (doLogin c st).1.session = nInit (doLogin c st).2 := by
  unfold doLogin
  split
  · simp [nDestr, nInit, b2n]
  · simp [nDestr, nInit, b2n, hs]
  · simp [nDestr, nInit, b2n, hs]
  · have := count_closeServer .eof st
    simp only [nDestr, nInit, List.count_append, hs, b2n] at this ⊢
    simp at this ⊢
    obtain ⟨⟨h1, h2⟩, h3⟩ := this
    simp [h1, h2, h3]

theorem count_doStop (c : Config) (st : State) :
    nDestr (doStop c st).2 + b2n (doStop c st).1.session = b2n st.session ∧ nInit (doStop c st).2 = 0 := by
  have := count_closeServer .requested { st with wd := if covered .watchdog then .off else st.wd
                                                 logConn := st.logConn && !covered .logConnections }
  unfold doStop
  simpa using this

theorem count_applyBreak (c : Config) (b : Break) (st : State) :
    nDestr (applyBreak c b st).2 + b2n (applyBreak c b st).1.session = b2n st.session ∧
    nInit (applyBreak c b st).2 = 0 := by
  cases b with
  | writeFail => exact count_closeServer _ st
  | close r => exact count_closeServer _ st
  | stop => exact count_doStop c st
  | srvEof => exact count_closeServer _ st

theorem count_then_break (c : Config) (b : Break) (s : State) (o : List Obs) (k : Nat)
    (h : nDestr o + b2n s.session = nInit o + k) :
    nDestr (o ++ (applyBreak c b s).2) + b2n (applyBreak c b s).1.session =
      nInit (o ++ (applyBreak c b s).2) + k := by
  have := count_applyBreak c b s
  simp only [nDestr_append, nInit_append]
  omega

theorem count_then_close (r : Reason) (s : State) (o : List Obs) (k : Nat)
    (h : nDestr o + b2n s.session = nInit o + k) :
    nDestr (o ++ (closeServer r s).2) + b2n (closeServer r s).1.session =
      nInit (o ++ (closeServer r s).2) + k := by
  have := count_closeServer r s
  simp only [nDestr_append, nInit_append]
  omega

theorem count_loginDone (c : Config) (st : State) (hs : st.session = false) :
    nDestr (doLogin c { st with srvReply := .accepted }).2 +
      b2n ({ (doLogin c { st with srvReply := .accepted }).1 with srvReply := st.srvReply } : State).session =
      nInit (doLogin c { st with srvReply := .accepted }).2 + 0 :=
  count_doLogin c { st with srvReply := .accepted } (by simpa using hs)

theorem count_doLoginBreak (c : Config) (pos : Option Nat) (d : Nat) (b : Break) (st : State)
    (hs : st.session = false) :
    nDestr (doLoginBreak c pos d b st).2 + b2n (doLoginBreak c pos d b st).1.session =
      nInit (doLoginBreak c pos d b st).2 := by
  unfold doLoginBreak
  cases pos with
  | none =>
    have h0 : nDestr (if b = Break.writeFail then [] else [Obs.loginSent]) + b2n st.session =
        nInit (if b = Break.writeFail then [] else [Obs.loginSent]) + 0 := by
      rw [hs]; split <;> simp [nDestr, nInit, b2n]
    have := count_then_break c b st _ 0 h0
    simp only [nDestr_append, nInit_append] at this ⊢
    have e3 : nDestr [Obs.loginResult LoginResult.error] = 0 := by simp [nDestr]
    have e4 : nInit [Obs.loginResult LoginResult.error] = 0 := by simp [nInit]
    omega
  | some j =>
    simp only []
    have hd := count_loginDone c st hs
    split
    · cases b with
      | writeFail => simpa using hd
      | close r => simpa using count_then_break c (.close r) _ _ 0 hd
      | stop => simpa using count_then_break c .stop _ _ 0 hd
      | srvEof => simpa using count_then_break c .srvEof _ _ 0 hd
    · have h0 : nDestr [Obs.loginSent, Obs.sessionInit,
            Obs.frames ((burst c (envOf c st)).take (min (j + 1) d))] +
          b2n ({ st with session := true, users := true } : State).session =
          nInit [Obs.loginSent, Obs.sessionInit,
            Obs.frames ((burst c (envOf c st)).take (min (j + 1) d))] + 0 := by
        simp [nDestr, nInit, b2n]
      have hb : ∀ b' : Break,
          nDestr ([Obs.loginSent, Obs.sessionInit, Obs.frames ((burst c (envOf c st)).take (min (j + 1) d))] ++
              (applyBreak c b' { st with session := true, users := true }).2 ++ [Obs.loginResult LoginResult.ok]) +
            b2n (applyBreak c b' { st with session := true, users := true }).1.session =
          nInit ([Obs.loginSent, Obs.sessionInit, Obs.frames ((burst c (envOf c st)).take (min (j + 1) d))] ++
              (applyBreak c b' { st with session := true, users := true }).2 ++ [Obs.loginResult LoginResult.ok]) := by
        intro b'
        have := count_then_break c b' _ _ 0 h0
        have e3 : nDestr [Obs.loginResult LoginResult.ok] = 0 := by simp [nDestr]
        have e4 : nInit [Obs.loginResult LoginResult.ok] = 0 := by simp [nInit]
        rw [nDestr_append, nInit_append]
        omega
      cases b with
      | writeFail => exact hb _
      | close r => exact hb _
      | stop => exact hb _
      | srvEof => simpa using count_then_close .eof _ _ 0 hd

theorem count_reconnect (c : Config) (st : State) (hs : st.session = false) :
    nDestr (reconnect c st).2 + b2n (reconnect c st).1.session = nInit (reconnect c st).2 := by
  unfold reconnect
  split
  · split
    · have := count_doLogin c { st with conn := .connected, ping := true, wd := .idle } (by simpa using hs)
      simp only [nDestr, nInit, List.count_append] at this ⊢
      simpa using this
    · simp [nDestr, nInit, b2n, hs]
  · simp [closeServer, nDestr, nInit, b2n, hs]

theorem count_tickWd (c : Config) (st : State) (h : Inv st) :
    nDestr (tickWd c st).2 + b2n (tickWd c st).1.session = nInit (tickWd c st).2 + b2n st.session := by
  unfold tickWd
  split
  · simp [nDestr, nInit]
  · split <;> simp [nDestr, nInit]
  · rename_i n hw
    split
    · have hcl := h.2.1 n hw
      have hs : st.session = false := (h.1 (by simp [hcl])).2.2
      rw [count_reconnect c st hs, hs]; simp [b2n]
    · simp [nDestr, nInit]

theorem count_doStart (c : Config) (st : State) (hs : st.session = false) :
    nDestr (doStart c st).2 + b2n (doStart c st).1.session = nInit (doStart c st).2 := by
  unfold doStart
  simp only []
  split
  · simp [nDestr, nInit, b2n, hs]
  · split
    · simp [nDestr, nInit, b2n, hs]
    · simp [closeServer, nDestr, nInit, b2n, hs]

theorem nDestr_tellPosition (c : Config) (st : State) : nDestr (tellPosition c st).2 = 0 := by
  unfold tellPosition; split <;> simp [nDestr]

theorem nInit_tellPosition (c : Config) (st : State) : nInit (tellPosition c st).2 = 0 := by
  unfold tellPosition; split <;> simp [nInit]

theorem session_tellPosition (c : Config) (st : State) : (tellPosition c st).1.session = st.session := by
  unfold tellPosition; split <;> rfl

theorem count_step (c : Config) (st : State) (op : Op) (h : Inv st) :
    nDestr (step c st op).2 + b2n (step c st op).1.session = nInit (step c st op).2 + b2n st.session := by
  cases op with
  | start =>
    simp only [step]; split
    · simp [nDestr, nInit]
    · rename_i hc
      have hu : st.conn ≠ .connected := by
        cases hu : st.conn <;> simp_all
      have hs := (h.1 hu).2.2
      rw [count_doStart c st hs, hs]; simp [b2n]
  | login =>
    simp only [step]; split
    · rename_i hc; rw [count_doLogin c st hc.2.1, hc.2.1]; simp [b2n]
    · simp [nDestr, nInit]
  | loginBreak pos d b =>
    simp only [step]; split
    · rename_i hc; rw [count_doLoginBreak c pos d b st hc.2.1, hc.2.1]; simp [b2n]
    · simp [nDestr, nInit]
  | exec => simp only [step]; split <;> simp [nDestr, nInit]
  | populate => simp only [step]; split <;> simp [nDestr, nInit]
  | search => simp only [step]; split <;> simp [nDestr, nInit]
  | wishlistInterval => simp only [step]; split <;> simp [nDestr, nInit]
  | potentialParents => simp only [step]; split <;> simp [nDestr, nInit]
  | searchRequest => simp only [step]; split <;> simp [nDestr, nInit]
  | loss r =>
    simp only [step]; split
    · have := count_closeServer r st; omega
    · simp [nDestr, nInit]
  | lossHeld r =>
    simp only [step]; split
    · have := count_closeServer r st; simp only []; omega
    · simp [nDestr, nInit]
  | release => simp only [step]; split <;> simp [nDestr, nInit]
  | connect =>
    simp only [step]; split
    · unfold doConnect
      split
      · simp [nDestr, nInit]
      · have := count_closeServer .connectFailed { st with conn := .connecting }
        simp only [nDestr_append, nInit_append] at this ⊢
        have e1 : nDestr [Obs.attempt] = 0 := by simp [nDestr]
        have e2 : nInit [Obs.attempt] = 0 := by simp [nInit]
        have e3 : nDestr [Obs.startFailed] = 0 := by simp [nDestr]
        have e4 : nInit [Obs.startFailed] = 0 := by simp [nInit]
        have e5 : b2n ({ st with conn := Conn.connecting } : State).session = b2n st.session := rfl
        omega
    · simp [nDestr, nInit]
  | parentAdopt name root level =>
    simp only [step]; split
    · simp only [nDestr_tellPosition, nInit_tellPosition, session_tellPosition]
    · simp [nDestr, nInit]
  | parentLevel level =>
    simp only [step]; split
    · simp only [nDestr_tellPosition, nInit_tellPosition, session_tellPosition]
    · simp [nDestr, nInit]
  | parentRoot root =>
    simp only [step]; split
    · split
      · simp [nDestr, nInit]
      · simp only [nDestr_tellPosition, nInit_tellPosition, session_tellPosition]
    · simp [nDestr, nInit]
  | parentLoss =>
    simp only [step]; split
    · simp only [nDestr_tellPosition, nInit_tellPosition, session_tellPosition]
    · simp [nDestr, nInit]
  | childJoin => simp only [step]; split <;> simp [nDestr, nInit]
  | childLoss => simp only [step]; split <;> simp [nDestr, nInit]
  | rescan d f =>
    simp only [step]; split
    · split <;> simp [nDestr, nInit]
    · simp [nDestr, nInit]
  | tick =>
    simp only [step]
    have := count_tickWd c (ageAll st) (by simpa [Inv, ageAll] using h)
    simpa [ageAll] using this
  | setSrvUp b => simp [step, nDestr, nInit]
  | setSrvReply r => simp [step, nDestr, nInit]
  | stop =>
    simp only [step]; split
    · have := count_doStop c st; omega
    · simp [nDestr, nInit]

theorem count_run (c : Config) (ops : List Op) : ∀ st, Inv st →
    nDestr (run c st ops).2 + b2n (run c st ops).1.session = nInit (run c st ops).2 + b2n st.session := by
  induction ops with
  | nil => intro st _; simp [run, nDestr, nInit]
  | cons op ops ih =>
    intro st h
    simp only [run, nDestr_append, nInit_append]
    have h1 := count_step c st op h
    have h2 := ih _ (inv_step c st op h)
    omega

/-! ## loss resets -/

/-- the step reported the server connection CLOSED -/
def obsClosed (o : List Obs) : Bool := o.any (fun x => match x with | .closed _ => true | _ => false)

theorem obsClosed_append (a b : List Obs) : obsClosed (a ++ b) = (obsClosed a || obsClosed b) := by
  simp [obsClosed]

theorem reset_closeServer (r : Reason) (st : State) (h : obsClosed (closeServer r st).2 = true) :
    cleared (closeServer r st).1 := by
  unfold closeServer at h ⊢
  split
  · rename_i hc; simp [hc, obsClosed] at h
  · simp [cleared]

theorem reset_doLogin (c : Config) (st : State) (h : obsClosed (doLogin c st).2 = true) :
    cleared (doLogin c st).1 := by
  unfold doLogin at h ⊢
  split
  · rename_i hr; simp [hr, obsClosed] at h
  · rename_i hr; simp [hr, obsClosed] at h
  · rename_i hr; simp [hr, obsClosed] at h
  · rename_i hr
    simp only [hr, obsClosed_append] at h
    apply reset_closeServer
    simpa [obsClosed] using h

theorem reset_reconnect (c : Config) (st : State) (h : obsClosed (reconnect c st).2 = true) :
    cleared (reconnect c st).1 := by
  unfold reconnect at h ⊢
  by_cases hu : st.srvUp = true
  · by_cases ha : c.reconnectAuto = true
    · simp only [hu, ha, if_true] at h ⊢
      simp only [obsClosed_append] at h
      apply reset_doLogin
      simpa [obsClosed] using h
    · simp [hu, ha, obsClosed] at h
  · simp only [hu] at h ⊢
    apply reset_closeServer
    simpa [obsClosed] using h

theorem reset_tickWd (c : Config) (st : State) (h : obsClosed (tickWd c st).2 = true) :
    cleared (tickWd c st).1 := by
  unfold tickWd at h ⊢
  split
  · rename_i hw; simp [hw, obsClosed] at h
  · rename_i hw
    split
    · rename_i hc; simp [hw, hc, obsClosed] at h
    · rename_i hc; simp [hw, hc, obsClosed] at h
  · rename_i n hw
    split
    · rename_i hn
      simp only [hw, hn, if_true] at h
      exact reset_reconnect c st h
    · rename_i hn; simp [hw, hn, obsClosed] at h

theorem reset_doStart (c : Config) (st : State) (h : obsClosed (doStart c st).2 = true) :
    cleared (doStart c st).1 := by
  unfold doStart at h ⊢
  simp only [] at h ⊢
  cases hl : listenResult c with
  | none => simp [hl, obsClosed] at h
  | some n =>
    by_cases hu : st.srvUp = true
    · simp [hl, hu, obsClosed] at h
    · simp only [hl, hu] at h ⊢
      apply reset_closeServer
      simpa [obsClosed] using h

theorem reset_doStop (c : Config) (st : State) (h : obsClosed (doStop c st).2 = true) : cleared (doStop c st).1 := by
  unfold doStop at h ⊢
  simp only [] at h ⊢
  have := reset_closeServer _ _ h
  obtain ⟨h1, h2, h3, h4, h5⟩ := this
  refine ⟨?_, ?_, h3, h4, h5⟩
  · simp [h1]
  · simp [h2]

theorem reset_applyBreak (c : Config) (b : Break) (st : State) (h : obsClosed (applyBreak c b st).2 = true) :
    cleared (applyBreak c b st).1 := by
  cases b with
  | writeFail => exact reset_closeServer _ st h
  | close r => exact reset_closeServer _ st h
  | stop => exact reset_doStop c st h
  | srvEof => exact reset_closeServer _ st h

theorem obsClosed_doLogin_accepted (c : Config) (st : State) (ha : st.srvReply = .accepted) :
    obsClosed (doLogin c st).2 = false := by
  simp [doLogin, ha, obsClosed]

theorem reset_doLoginBreak (c : Config) (pos : Option Nat) (d : Nat) (b : Break) (st : State)
    (h : obsClosed (doLoginBreak c pos d b st).2 = true) : cleared (doLoginBreak c pos d b st).1 := by
  unfold doLoginBreak at h ⊢
  cases pos with
  | none =>
    simp only [obsClosed_append] at h
    apply reset_applyBreak
    have e1 : obsClosed (if b = Break.writeFail then [] else [Obs.loginSent]) = false := by
      split <;> simp [obsClosed]
    have e2 : obsClosed [Obs.loginResult LoginResult.error] = false := by simp [obsClosed]
    simpa [e1, e2] using h
  | some j =>
    simp only [] at h ⊢
    have hf := obsClosed_doLogin_accepted c { st with srvReply := .accepted } rfl
    split
    · rename_i hj
      rw [if_pos hj] at h
      cases b with
      | writeFail => simp [hf] at h
      | close r =>
        simp only [obsClosed_append, hf, Bool.false_or] at h
        exact reset_applyBreak _ _ _ h
      | stop =>
        simp only [obsClosed_append, hf, Bool.false_or] at h
        exact reset_applyBreak _ _ _ h
      | srvEof =>
        simp only [obsClosed_append, hf, Bool.false_or] at h
        exact reset_applyBreak _ _ _ h
    · rename_i hj
      rw [if_neg hj] at h
      have e1 : obsClosed [Obs.loginSent, Obs.sessionInit,
          Obs.frames ((burst c (envOf c st)).take (min (j + 1) d))] = false := by simp [obsClosed]
      have e2 : obsClosed [Obs.loginResult LoginResult.ok] = false := by simp [obsClosed]
      cases b with
      | writeFail =>
        simp only [obsClosed_append, e1, e2, Bool.false_or, Bool.or_false] at h
        exact reset_applyBreak _ _ _ h
      | close r =>
        simp only [obsClosed_append, e1, e2, Bool.false_or, Bool.or_false] at h
        exact reset_applyBreak _ _ _ h
      | stop =>
        simp only [obsClosed_append, e1, e2, Bool.false_or, Bool.or_false] at h
        exact reset_applyBreak _ _ _ h
      | srvEof =>
        simp only [obsClosed_append, hf, Bool.false_or] at h
        exact reset_closeServer _ _ h

theorem obsClosed_tellPosition (c : Config) (st : State) : obsClosed (tellPosition c st).2 = false := by
  unfold tellPosition; split <;> simp [obsClosed]

theorem reset_step (c : Config) (st : State) (op : Op)
    (h : obsClosed (step c st op).2 = true) : cleared (step c st op).1 := by
  cases op with
  | start =>
    simp only [step] at h ⊢; split at h
    · simp [obsClosed] at h
    · rename_i hc; rw [if_neg hc]; exact reset_doStart c st h
  | login =>
    simp only [step] at h ⊢; split at h
    · rename_i hc; rw [if_pos hc]; exact reset_doLogin c st h
    · simp [obsClosed] at h
  | loginBreak pos d b =>
    simp only [step] at h ⊢; split at h
    · rename_i hc; rw [if_pos hc]; exact reset_doLoginBreak c pos d b st h
    · simp [obsClosed] at h
  | exec => simp only [step] at h; split at h <;> simp [obsClosed] at h
  | populate => simp only [step] at h; split at h <;> simp [obsClosed] at h
  | search => simp only [step] at h; split at h <;> simp [obsClosed] at h
  | wishlistInterval => simp only [step] at h; split at h <;> simp [obsClosed] at h
  | potentialParents => simp only [step] at h; split at h <;> simp [obsClosed] at h
  | searchRequest => simp only [step] at h; split at h <;> simp [obsClosed] at h
  | loss r =>
    simp only [step] at h ⊢; split at h
    · rename_i hc; rw [if_pos hc]; exact reset_closeServer r st h
    · simp [obsClosed] at h
  | lossHeld r =>
    simp only [step] at h ⊢; split at h
    · rename_i hc; rw [if_pos hc]
      have := reset_closeServer r st h
      simpa [cleared] using this
    · simp [obsClosed] at h
  | release => simp only [step] at h; split at h <;> simp [obsClosed] at h
  | connect =>
    simp only [step] at h ⊢; split at h
    · rename_i hc; rw [if_pos hc]
      unfold doConnect at h ⊢
      by_cases hu : st.srvUp = true
      · rw [if_pos hu] at h; simp [obsClosed] at h
      · rw [if_neg hu] at h ⊢
        simp only [obsClosed_append] at h
        apply reset_closeServer
        simpa [obsClosed] using h
    · simp [obsClosed] at h
  | parentAdopt name root level =>
    simp only [step] at h; split at h
    · simp [obsClosed_tellPosition] at h
    · simp [obsClosed] at h
  | parentLevel level =>
    simp only [step] at h; split at h
    · simp [obsClosed_tellPosition] at h
    · simp [obsClosed] at h
  | parentRoot root =>
    simp only [step] at h; split at h
    · split at h
      · simp [obsClosed] at h
      · simp [obsClosed_tellPosition] at h
    · simp [obsClosed] at h
  | parentLoss =>
    simp only [step] at h; split at h
    · simp [obsClosed_tellPosition] at h
    · simp [obsClosed] at h
  | childJoin => simp only [step] at h; split at h <;> simp [obsClosed] at h
  | childLoss => simp only [step] at h; split at h <;> simp [obsClosed] at h
  | rescan d f =>
    simp only [step] at h; split at h
    · split at h <;> simp [obsClosed] at h
    · simp [obsClosed] at h
  | tick => simp only [step] at h ⊢; exact reset_tickWd c _ h
  | setSrvUp b => simp [step, obsClosed] at h
  | setSrvReply r => simp [step, obsClosed] at h
  | stop =>
    simp only [step] at h ⊢; split at h
    · rename_i hc; rw [if_pos hc]; exact reset_doStop c st h
    · simp [obsClosed] at h

/-! ## stop is final -/

theorem covered_all (k : Site) : covered k = true := by
  cases k <;> decide

/-- nothing of the library is left: no task, no socket, no session, and `stop()` has run -/
def Quiet (st : State) : Prop :=
  st.wd = .off ∧ st.ping = false ∧ st.reader = false ∧ st.userMgmt = false ∧ st.transferMgmt = false ∧
  st.transferProgress = false ∧ st.logConn = false ∧ st.scan = false ∧ st.wishlist = false ∧ st.tracked = [] ∧
  st.searchTimers = 0 ∧ st.wishlistTimers = 0 ∧ st.pp = [] ∧ st.conn ≠ .connected ∧ st.listening = 0 ∧
  st.session = false ∧ st.started = true ∧ st.stopped = true ∧ st.sr = [] ∧ st.orphans = [] ∧
  st.parent = none ∧ st.children = 0

theorem quiet_alive (c : Config) (st : State) (h : Quiet st) :
    alive c st = List.replicate st.heldReaders .reader ∧ openSockets st = 0 := by
  obtain ⟨h1, h2, h3, h4, h5, h6, h7, h8, h9, h10, h11, h12, h13, h14, h15, _, _, _, h19, h20, h21, h22⟩ := h
  simp [alive, raceChildren, openSockets, peerConns, h1, h2, h3, h4, h5, h6, h7, h8, h9, h10, h11, h12, h13, h14, h15,
    h19, h20, h21, h22]

theorem quiet_doStop (c : Config) (st : State) (h : Inv st) (hs : st.started = true) : Quiet (doStop c st).1 := by
  have c1 := covered_all .watchdog
  have c2 := covered_all .logConnections
  have c3 := covered_all .sharesScan
  have c4 := covered_all .userMgmt
  have c5 := covered_all .tracking
  have c6 := covered_all .transferMgmt
  have c7 := covered_all .transferProgress
  have c8 := covered_all .wishlist
  have c9 := covered_all .searchTimer
  have c10 := covered_all .wishlistTimer
  have c11 := covered_all .potentialParent
  have c12 := covered_all .searchReply
  have c13 := covered_all .directConnect
  have c14 := covered_all .indirectConnect
  have c15 := covered_all .reader
  obtain ⟨h1, h2, h3, h4, _, _⟩ := h
  unfold doStop closeServer
  simp only [c1, c2, c3, c4, c5, c6, c7, c8, c9, c10, c11, c12, c13, c14, c15]
  by_cases hc : st.conn = .closed ∨ st.conn = .closing
  · have hn : st.conn ≠ .connected := by rcases hc with hc | hc <;> simp [hc]
    obtain ⟨p1, p2, p3⟩ := h1 hn
    simp [Quiet, hc, p1, p2, p3, hn, hs]
  · simp [Quiet, hc, hs]

theorem quiet_step (c : Config) (st : State) (op : Op) (h : Quiet st) :
    Quiet (step c st op).1 ∧ (∀ o ∈ (step c st op).2, o = .invalid ∨ o = .refused) ∧
    (step c st op).1.heldReaders ≤ st.heldReaders := by
  obtain ⟨h1, h2, h3, h4, h5, h6, h7, h8, h9, h10, h11, h12, h13, h14, h15, h16, h17, h18, h19, h20, h21, h22⟩ := h
  have hq : Quiet st :=
    ⟨h1, h2, h3, h4, h5, h6, h7, h8, h9, h10, h11, h12, h13, h14, h15, h16, h17, h18, h19, h20, h21, h22⟩
  cases op with
  | start => simp [step, h17, hq]
  | login => simp [step, h14, hq]
  | loginBreak pos d b => simp [step, h14, hq]
  | exec => simp [step, h16, hq]
  | populate => simp [step, h3, hq]
  | search => simp [step, h18, hq]
  | wishlistInterval => simp [step, h3, hq]
  | potentialParents => simp [step, h3, hq]
  | searchRequest => simp [step, h3, hq]
  | loss r => simp [step, h14, hq]
  | lossHeld r => simp [step, h14, hq]
  | release =>
    simp only [step]
    split
    · exact ⟨by simpa [Quiet] using hq, by simp, by simp [State.heldReaders]⟩
    · exact ⟨hq, by simp, Nat.le_refl _⟩
  | connect => simp [step, h18, hq]
  | parentAdopt name root level => simp [step, h3, hq]
  | parentLevel level => simp [step, h21, hq]
  | parentRoot root => simp [step, h21, hq]
  | parentLoss => simp [step, h21, hq]
  | childJoin => simp [step, clearOpen, h15, hq]
  | childLoss => simp [step, h22, hq]
  | rescan d f => simp [step, h18, hq]
  | tick =>
    simp only [step, ageAll, h13, h19, h20, agePP, tickWd, h1, List.filter_nil, List.map_nil]
    refine ⟨?_, by simp, Nat.le_refl _⟩
    exact ⟨rfl, h2, h3, h4, h5, h6, h7, h8, h9, h10, h11, h12, rfl, h14, h15, h16, h17, h18, rfl, rfl, h21, h22⟩
  | setSrvUp b => simp only [step]; exact ⟨by simpa [Quiet] using hq, by simp, Nat.le_refl _⟩
  | setSrvReply r => simp only [step]; exact ⟨by simpa [Quiet] using hq, by simp, Nat.le_refl _⟩
  | stop => simp [step, h18, hq]

theorem quiet_run (c : Config) (ops : List Op) : ∀ st, Quiet st →
    Quiet (run c st ops).1 ∧ (∀ o ∈ (run c st ops).2, o = .invalid ∨ o = .refused) ∧
    (run c st ops).1.heldReaders ≤ st.heldReaders := by
  induction ops with
  | nil => intro st h; simp [run, h]
  | cons op ops ih =>
    intro st h
    have h1 := quiet_step c st op h
    have h2 := ih _ h1.1
    simp only [run]
    refine ⟨h2.1, ?_, Nat.le_trans h2.2.2 h1.2.2⟩
    intro o ho
    rcases List.mem_append.mp ho with ho | ho
    · exact h1.2.1 o ho
    · exact h2.2.1 o ho

/-! ### `stopped` is set by `stop()` only, wherever it is called — also inside a login in progress -/

theorem stopped_closeServer (r : Reason) (st : State) : (closeServer r st).1.stopped = st.stopped := by
  unfold closeServer; split <;> rfl

theorem stopped_doLogin (c : Config) (st : State) : (doLogin c st).1.stopped = st.stopped := by
  unfold doLogin; split
  · rfl
  · rfl
  · rfl
  · exact stopped_closeServer _ _

theorem stopped_reconnect (c : Config) (st : State) : (reconnect c st).1.stopped = st.stopped := by
  unfold reconnect; split
  · split
    · exact stopped_doLogin _ _
    · rfl
  · exact stopped_closeServer _ _

theorem stopped_tickWd (c : Config) (st : State) : (tickWd c st).1.stopped = st.stopped := by
  unfold tickWd; split
  · rfl
  · split <;> rfl
  · split
    · exact stopped_reconnect _ _
    · rfl

theorem stopped_doStart (c : Config) (st : State) : (doStart c st).1.stopped = st.stopped := by
  unfold doStart; simp only []; split
  · rfl
  · split
    · rfl
    · exact stopped_closeServer _ _

theorem stopped_tellPosition (c : Config) (st : State) : (tellPosition c st).1.stopped = st.stopped := by
  unfold tellPosition; split <;> rfl

theorem stopped_doConnect (c : Config) (st : State) : (doConnect c st).1.stopped = st.stopped := by
  unfold doConnect; split
  · rfl
  · exact stopped_closeServer _ _

/-- an interrupted login ends quiet when the interruption is `stop()`, and is not stopped otherwise -/
theorem stopquiet_applyBreak (c : Config) (b : Break) (st : State) (h : Inv st) (hs : st.started = true)
    (hp : st.stopped = false) :
    (applyBreak c b st).1.stopped = true → Quiet (applyBreak c b st).1 := by
  cases b with
  | writeFail => intro hx; simp [applyBreak, stopped_closeServer, hp] at hx
  | close r => intro hx; simp [applyBreak, stopped_closeServer, hp] at hx
  | stop => intro _; exact quiet_doStop c st h hs
  | srvEof => intro hx; simp [applyBreak, stopped_closeServer, hp] at hx

theorem stopquiet_doLoginBreak (c : Config) (pos : Option Nat) (d : Nat) (b : Break) (st : State) (h : Inv st)
    (hc : st.conn = .connected) (hp : st.stopped = false) :
    (doLoginBreak c pos d b st).1.stopped = true → Quiet (doLoginBreak c pos d b st).1 := by
  have hs : st.started = true := h.2.2.2.2.1 hc
  have hdone : ({ (doLogin c { st with srvReply := .accepted }).1 with srvReply := st.srvReply } : State).stopped
      = false := by
    show (doLogin c { st with srvReply := .accepted }).1.stopped = false
    rw [stopped_doLogin]; exact hp
  have hdstart : ({ (doLogin c { st with srvReply := .accepted }).1 with srvReply := st.srvReply } : State).started
      = true := by
    have := inv_loginDone c st h hc
    by_cases hcc : ({ (doLogin c { st with srvReply := .accepted }).1 with srvReply := st.srvReply } : State).conn
        = .connected
    · exact this.2.2.2.2.1 hcc
    · -- the login closed the connection: impossible for an accepted login, but `started` is kept anyway
      show (doLogin c { st with srvReply := .accepted }).1.started = true
      simp [doLogin, hs]
  unfold doLoginBreak
  cases pos with
  | none => exact stopquiet_applyBreak c b st h hs hp
  | some j =>
    simp only []
    split
    · cases b with
      | writeFail => intro hx; rw [hdone] at hx; cases hx
      | close r => exact stopquiet_applyBreak c _ _ (inv_loginDone c st h hc) hdstart hdone
      | stop => exact stopquiet_applyBreak c _ _ (inv_loginDone c st h hc) hdstart hdone
      | srvEof => exact stopquiet_applyBreak c _ _ (inv_loginDone c st h hc) hdstart hdone
    · cases b with
      | writeFail => exact stopquiet_applyBreak c _ _ (inv_inBurst st h hc) hs hp
      | close r => exact stopquiet_applyBreak c _ _ (inv_inBurst st h hc) hs hp
      | stop => exact stopquiet_applyBreak c _ _ (inv_inBurst st h hc) hs hp
      | srvEof => intro hx; rw [stopped_closeServer, hdone] at hx; cases hx

/-- INVARIANT: whenever `stop()` has been called — at a quiescent point or inside a login in progress — nothing of
    the library is left. -/
def StopInv (st : State) : Prop := st.stopped = true → Quiet st

theorem stopinv_init : StopInv init := by
  intro h; simp [init] at h

theorem stopinv_step (c : Config) (st : State) (op : Op) (hi : Inv st) (h : StopInv st) :
    StopInv (step c st op).1 := by
  by_cases hp : st.stopped = true
  · intro _; exact (quiet_step c st op (h hp)).1
  · have hp' : st.stopped = false := by simpa using hp
    intro hx
    cases op with
    | start =>
      simp only [step] at hx ⊢; split at hx
      · rw [hp'] at hx; cases hx
      · rw [stopped_doStart, hp'] at hx; cases hx
    | login =>
      simp only [step] at hx ⊢; split at hx
      · rw [stopped_doLogin, hp'] at hx; cases hx
      · rw [hp'] at hx; cases hx
    | loginBreak pos d b =>
      simp only [step] at hx ⊢; split at hx
      · rename_i hc; rw [if_pos hc]
        exact stopquiet_doLoginBreak c pos d b st hi hc.1 hp' hx
      · rw [hp'] at hx; cases hx
    | exec => simp only [step] at hx; split at hx <;> (rw [hp'] at hx; cases hx)
    | populate => simp only [step] at hx; split at hx <;> (simp [hp'] at hx)
    | search => simp only [step] at hx; split at hx <;> (simp [hp'] at hx)
    | wishlistInterval => simp only [step] at hx; split at hx <;> (simp [hp'] at hx)
    | potentialParents => simp only [step] at hx; split at hx <;> (simp [hp'] at hx)
    | searchRequest => simp only [step] at hx; split at hx <;> (simp [hp'] at hx)
    | loss r =>
      simp only [step] at hx; split at hx
      · rw [stopped_closeServer, hp'] at hx; cases hx
      · rw [hp'] at hx; cases hx
    | lossHeld r =>
      simp only [step] at hx; split at hx
      · have : (closeServer r st).1.stopped = true := hx
        rw [stopped_closeServer, hp'] at this; cases this
      · rw [hp'] at hx; cases hx
    | release => simp only [step] at hx; split at hx <;> (simp [hp'] at hx)
    | connect =>
      simp only [step] at hx; split at hx
      · rw [stopped_doConnect, hp'] at hx; cases hx
      · rw [hp'] at hx; cases hx
    | parentAdopt name root level =>
      simp only [step] at hx; split at hx
      · rw [stopped_tellPosition] at hx; simp [hp'] at hx
      · rw [hp'] at hx; cases hx
    | parentLevel level =>
      simp only [step] at hx; split at hx
      · rw [stopped_tellPosition] at hx; simp [hp'] at hx
      · rw [hp'] at hx; cases hx
    | parentRoot root =>
      simp only [step] at hx; split at hx
      · split at hx
        · rw [hp'] at hx; cases hx
        · rw [stopped_tellPosition] at hx; simp [hp'] at hx
      · rw [hp'] at hx; cases hx
    | parentLoss =>
      simp only [step] at hx; split at hx
      · rw [stopped_tellPosition] at hx; simp [hp'] at hx
      · rw [hp'] at hx; cases hx
    | childJoin => simp only [step] at hx; split at hx <;> (simp [hp'] at hx)
    | childLoss => simp only [step] at hx; split at hx <;> (simp [hp'] at hx)
    | rescan d f => simp only [step] at hx; split at hx <;> (simp [hp'] at hx)
    | tick =>
      simp only [step] at hx
      rw [stopped_tickWd] at hx
      have : (ageAll st).stopped = st.stopped := rfl
      rw [this, hp'] at hx; cases hx
    | setSrvUp b => simp [step, hp'] at hx
    | setSrvReply r => simp [step, hp'] at hx
    | stop =>
      simp only [step] at hx ⊢; split at hx
      · rename_i hc; rw [if_pos hc]; exact quiet_doStop c st hi hc.1
      · rw [hp'] at hx; cases hx

theorem stopinv_run (c : Config) (ops : List Op) : ∀ st, Inv st → StopInv st → StopInv (run c st ops).1 := by
  induction ops with
  | nil => intro st _ h; exact h
  | cons op ops ih =>
    intro st hi h
    simp only [run]
    exact ih _ (inv_step c st op hi) (stopinv_step c st op hi h)

/-! ## the reconnect watchdog -/

theorem ageAll_wd (st : State) : (ageAll st).wd = st.wd := rfl
theorem ageAll_srvUp (st : State) : (ageAll st).srvUp = st.srvUp := rfl

theorem off_step (c : Config) (st : State) (op : Op) (he : op.isEnv = true) (h : st.wd = .off) :
    (step c st op).1.wd = .off ∧ (step c st op).2 = [] := by
  cases op <;> simp [Op.isEnv] at he <;> simp [step, tickWd, ageAll, h]

theorem off_run (c : Config) (ops : List Op) : ∀ st, (∀ op ∈ ops, op.isEnv = true) → st.wd = .off →
    (run c st ops).2 = [] := by
  induction ops with
  | nil => intro st _ _; rfl
  | cons op ops ih =>
    intro st he h
    have h1 := off_step c st op (he op (by simp)) h
    have h2 := ih _ (fun o ho => he o (by simp [ho])) h1.1
    simp [run, h1.2, h2]

/-- no credentials: the watchdog polls but never reconnects (network.py:386-392) -/
theorem nocreds_step (c : Config) (st : State) (hc : c.credsOk = false) (h : st.wd = .idle) :
    (step c st .tick).1.wd = .idle ∧ (step c st .tick).2 = [] := by
  simp [step, tickWd, ageAll, h, hc]

theorem sleeping_ticks (c : Config) : ∀ (n : Nat) (st : State), st.wd = .sleeping (n + 1) →
    (run c st (List.replicate n .tick)).2 = [] ∧ (run c st (List.replicate n .tick)).1.wd = .sleeping 1 ∧
    (run c st (List.replicate n .tick)).1.srvUp = st.srvUp := by
  intro n
  induction n with
  | zero => intro st h; simp [run, h]
  | succ n ih =>
    intro st h
    have hs : step c st .tick = ({ ageAll st with wd := .sleeping (n + 1) }, []) := by
      simp [step, tickWd, ageAll, h]
    have := ih { ageAll st with wd := .sleeping (n + 1) } rfl
    simp only [List.replicate_succ, run, hs]
    simpa [show (ageAll st).srvUp = st.srvUp from rfl] using this

theorem reconnect_attempt (c : Config) (st : State) : Obs.attempt ∈ (reconnect c st).2 := by
  unfold reconnect
  split
  · split <;> simp
  · simp

theorem run_append (c : Config) (a b : List Op) : ∀ st,
    run c st (a ++ b) = ((run c (run c st a).1 b).1, (run c st a).2 ++ (run c (run c st a).1 b).2) := by
  induction a with
  | nil => intro st; simp [run]
  | cons op a ih => intro st; simp [run, ih, List.append_assoc]

theorem idle_reconnects (c : Config) (st : State) (hw : st.wd = .idle) (hc : st.conn = .closed)
    (hk : c.credsOk = true) :
    Obs.attempt ∈ (run c st (List.replicate (reconnectTicks + 1) .tick)).2 := by
  have h1 : step c st .tick = ({ ageAll st with wd := .sleeping reconnectTicks }, []) := by
    simp [step, tickWd, ageAll, hw, hc, hk]
  have hrep : List.replicate (reconnectTicks + 1) Op.tick =
      Op.tick :: (List.replicate (reconnectTicks - 1) Op.tick ++ [Op.tick]) := by
    simp [reconnectTicks, List.replicate]
  rw [hrep]
  simp only [run, h1, run_append]
  have hs := sleeping_ticks c (reconnectTicks - 1) { ageAll st with wd := .sleeping reconnectTicks }
    (by simp [reconnectTicks])
  obtain ⟨_, hs2, _⟩ := hs
  apply List.mem_append_right
  apply List.mem_append_right
  apply List.mem_append_left
  simp only [step, tickWd, ageAll_wd, hs2]
  simp only [Nat.le_refl, if_true]
  exact reconnect_attempt c _

/-! ## the watchdog runs while connected iff `reconnect.auto` -/

/-- the watchdog is only ever started with `reconnect.auto`, and on a connected server connection it is running
    (polling) whenever `reconnect.auto` is on -/
def WInv (c : Config) (st : State) : Prop :=
  (st.wd ≠ .off → c.reconnectAuto = true) ∧ (st.conn = .connected → c.reconnectAuto = true → st.wd = .idle)

theorem winv_init (c : Config) : WInv c init := by simp [WInv, init]

theorem winv_closeServer' (c : Config) (r : Reason) (st : State) (h : st.wd ≠ .off → c.reconnectAuto = true) :
    WInv c (closeServer r st).1 := by
  unfold closeServer
  split
  · rename_i hc
    refine ⟨h, ?_⟩
    intro hcc; rcases hc with hc | hc <;> simp [hc] at hcc
  · refine ⟨?_, by simp⟩
    intro hw; apply h
    by_cases hr : r = .requested ∨ r = .eof <;> simp [hr] at hw
    exact hw

theorem winv_doLogin (c : Config) (st : State) (h : WInv c st) : WInv c (doLogin c st).1 := by
  unfold doLogin
  split
  · exact ⟨h.1, h.2⟩
  · exact h
  · exact h
  · exact winv_closeServer' c _ st h.1

theorem winv_reconnect (c : Config) (st : State) (h : st.wd ≠ .off → c.reconnectAuto = true)
    (hw : st.wd ≠ .off) : WInv c (reconnect c st).1 := by
  have ha := h hw
  unfold reconnect
  split
  · exact winv_doLogin c _ ⟨fun _ => ha, fun _ _ => rfl⟩
  · exact winv_closeServer' c _ _ (fun _ => ha)

theorem winv_tickWd (c : Config) (st : State) (h : WInv c st) (hi : Inv st) : WInv c (tickWd c st).1 := by
  unfold tickWd
  split
  · exact h
  · rename_i hw
    split
    · rename_i hc
      refine ⟨fun _ => h.1 (by simp [hw]), ?_⟩
      intro hcc; simp [hc.1] at hcc
    · exact h
  · rename_i n hw
    split
    · exact winv_reconnect c st h.1 (by simp [hw])
    · refine ⟨fun _ => h.1 (by simp [hw]), ?_⟩
      intro hcc
      have := hi.2.1 n hw
      simp [this] at hcc

theorem winv_doStart (c : Config) (st : State) (h : WInv c st) : WInv c (doStart c st).1 := by
  unfold doStart
  simp only []
  split
  · exact ⟨h.1, h.2⟩
  · split
    · cases ha : c.reconnectAuto <;> simp [WInv, ha]
    · exact winv_closeServer' c _ _ h.1

theorem winv_doStop (c : Config) (st : State) (h : WInv c st) : WInv c (doStop c st).1 := by
  have hA : ({ st with wd := if covered .watchdog then .off else st.wd
                       logConn := st.logConn && !covered .logConnections } : State).wd ≠ .off →
      c.reconnectAuto = true := by
    intro hw; apply h.1
    by_cases hc : covered .watchdog = true <;> simp [hc] at hw
    exact hw
  have hB := winv_closeServer' c .requested _ hA
  unfold doStop
  simpa [WInv] using hB

theorem winv_applyBreak (c : Config) (b : Break) (st : State) (h : WInv c st) : WInv c (applyBreak c b st).1 := by
  cases b with
  | writeFail => exact winv_closeServer' c _ st h.1
  | close r => exact winv_closeServer' c _ st h.1
  | stop => exact winv_doStop c st h
  | srvEof => exact winv_closeServer' c _ st h.1

theorem winv_loginDone (c : Config) (st : State) (h : WInv c st) :
    WInv c { (doLogin c { st with srvReply := .accepted }).1 with srvReply := st.srvReply } := by
  have := winv_doLogin c { st with srvReply := .accepted } (by simpa [WInv] using h)
  simpa [WInv] using this

theorem winv_doLoginBreak (c : Config) (pos : Option Nat) (d : Nat) (b : Break) (st : State) (h : WInv c st) :
    WInv c (doLoginBreak c pos d b st).1 := by
  have hb : WInv c { st with session := true, users := true } := by simpa [WInv] using h
  unfold doLoginBreak
  cases pos with
  | none => exact winv_applyBreak c b st h
  | some j =>
    simp only []
    split
    · cases b with
      | writeFail => exact winv_loginDone c st h
      | close r => exact winv_applyBreak c _ _ (winv_loginDone c st h)
      | stop => exact winv_applyBreak c _ _ (winv_loginDone c st h)
      | srvEof => exact winv_applyBreak c _ _ (winv_loginDone c st h)
    · cases b with
      | writeFail => exact winv_applyBreak c _ _ hb
      | close r => exact winv_applyBreak c _ _ hb
      | stop => exact winv_applyBreak c _ _ hb
      | srvEof => exact winv_closeServer' c _ _ (winv_loginDone c st h).1

theorem winv_doConnect (c : Config) (st : State) (h : WInv c st) : WInv c (doConnect c st).1 := by
  unfold doConnect
  split
  · refine ⟨?_, ?_⟩
    · intro hw
      by_cases ha : c.reconnectAuto = true
      · exact ha
      · simp [ha] at hw; exact h.1 hw
    · intro _ ha; simp [ha]
  · exact winv_closeServer' c _ _ h.1

theorem winv_tellPosition (c : Config) (st : State) (h : WInv c st) : WInv c (tellPosition c st).1 := by
  unfold tellPosition; split
  · simpa [WInv] using h
  · exact h

theorem winv_step (c : Config) (st : State) (op : Op) (h : WInv c st) (hi : Inv st) :
    WInv c (step c st op).1 := by
  cases op with
  | start => simp only [step]; split
             · exact h
             · exact winv_doStart c st h
  | login => simp only [step]; split
             · exact winv_doLogin c st h
             · exact h
  | loginBreak pos d b =>
    simp only [step]; split
    · exact winv_doLoginBreak c pos d b st h
    · exact h
  | exec => simp only [step]; split <;> exact h
  | populate => simp only [step]; split
                · simpa [WInv] using h
                · exact h
  | search => simp only [step]; split
              · simpa [WInv] using h
              · exact h
  | wishlistInterval => simp only [step]; split
                        · simpa [WInv] using h
                        · exact h
  | potentialParents => simp only [step]; split
                        · simpa [WInv] using h
                        · exact h
  | searchRequest => simp only [step]; split
                     · simpa [WInv] using h
                     · exact h
  | loss r => simp only [step]; split
              · exact winv_closeServer' c r st h.1
              · exact h
  | lossHeld r =>
    simp only [step]; split
    · have := winv_closeServer' c r st h.1
      simpa [WInv] using this
    · exact h
  | release => simp only [step]; split
               · simpa [WInv] using h
               · exact h
  | connect =>
    simp only [step]; split
    · exact winv_doConnect c st h
    · exact h
  | parentAdopt name root level =>
    simp only [step]; split
    · exact winv_tellPosition c _ (by simpa [WInv] using h)
    · exact h
  | parentLevel level =>
    simp only [step]; split
    · exact winv_tellPosition c _ (by simpa [WInv] using h)
    · exact h
  | parentRoot root =>
    simp only [step]; split
    · split
      · exact h
      · exact winv_tellPosition c _ (by simpa [WInv] using h)
    · exact h
  | parentLoss =>
    simp only [step]; split
    · exact winv_tellPosition c _ (by simpa [WInv] using h)
    · exact h
  | childJoin => simp only [step]; split
                 · simpa [WInv] using h
                 · exact h
  | childLoss => simp only [step]; split
                 · simpa [WInv] using h
                 · exact h
  | rescan d f => simp only [step]; split
                  · simpa [WInv] using h
                  · exact h
  | tick => simp only [step]
            exact winv_tickWd c _ (by simpa [WInv, ageAll] using h) (by simpa [Inv, ageAll] using hi)
  | setSrvUp b => simpa [step, WInv] using h
  | setSrvReply r => simpa [step, WInv] using h
  | stop => simp only [step]; split
            · exact winv_doStop c st h
            · exact h

theorem winv_run (c : Config) (ops : List Op) : ∀ st, WInv c st → Inv st →
    WInv c (run c st ops).1 := by
  induction ops with
  | nil => intro st h _; exact h
  | cons op ops ih =>
    intro st h hi
    simp only [run]
    exact ih _ (winv_step c st op h hi) (inv_step c st op hi)

/-! ## what a run of ticks after a loss shows -/

theorem nocreds_run (c : Config) (hc : c.credsOk = false) : ∀ (n : Nat) (st : State), st.wd = .idle →
    (run c st (List.replicate n .tick)).2 = [] := by
  intro n
  induction n with
  | zero => intro st _; rfl
  | succ n ih =>
    intro st h
    have h1 := nocreds_step c st hc h
    have h2 := ih _ h1.1
    simp [List.replicate_succ, run, h1.2, h2]

theorem sleeping_ticks' (c : Config) : ∀ (n : Nat) (st : State), st.wd = .sleeping (n + 1) →
    (run c st (List.replicate n .tick)).2 = [] ∧ (run c st (List.replicate n .tick)).1.wd = .sleeping 1 ∧
    (run c st (List.replicate n .tick)).1.srvUp = st.srvUp := sleeping_ticks c

/-- observations of the reconnect delay followed by the attempt: exactly those of one `reconnect` on a state with
    the same server availability -/
theorem idle_reconnect_obs (c : Config) (st : State) (hw : st.wd = .idle) (hc : st.conn = .closed)
    (hk : c.credsOk = true) :
    ∃ s2 : State, (run c st (List.replicate (reconnectTicks + 1) .tick)).2 = (reconnect c s2).2 ∧
      s2.srvUp = st.srvUp := by
  have h1 : step c st .tick = ({ ageAll st with wd := .sleeping reconnectTicks }, []) := by
    simp [step, tickWd, ageAll, hw, hc, hk]
  have hrep : List.replicate (reconnectTicks + 1) Op.tick =
      Op.tick :: (List.replicate (reconnectTicks - 1) Op.tick ++ [Op.tick]) := by
    simp [reconnectTicks, List.replicate]
  have hs := sleeping_ticks c (reconnectTicks - 1) { ageAll st with wd := .sleeping reconnectTicks }
    (by simp [reconnectTicks])
  obtain ⟨hs1, hs2, hs3⟩ := hs
  refine ⟨ageAll (run c { ageAll st with wd := .sleeping reconnectTicks }
              (List.replicate (reconnectTicks - 1) .tick)).1, ?_, ?_⟩
  · rw [hrep]
    simp only [run, h1, run_append, hs1, List.nil_append, List.append_nil]
    simp only [step, tickWd, ageAll_wd, hs2]
    simp
  · simpa [ageAll_srvUp] using hs3

theorem reconnect_obs_attempt (c : Config) (st : State) :
    Obs.attempt ∈ (reconnect c st).2 ∧
    (Obs.loginSent ∈ (reconnect c st).2 ↔ (st.srvUp = true ∧ c.reconnectAuto = true)) := by
  refine ⟨reconnect_attempt c st, ?_⟩
  unfold reconnect
  by_cases hu : st.srvUp = true
  · by_cases ha : c.reconnectAuto = true
    · simp only [hu, ha, if_true, true_and, iff_true]
      apply List.mem_append_right
      unfold doLogin
      split <;> simp
    · simp [hu, ha]
  · simp only [hu]
    simp [closeServer]

theorem loss_ticks_obs (c : Config) (st : State) (r : Reason) (n : Nat) (hc : st.conn = .connected)
    (hv : r ≠ .connectFailed) (hr : (r = .eof ∨ r = .readError) → st.reader = true) :
    (run c st (.loss r :: List.replicate n .tick)).2 =
      (closeServer r st).2 ++ (run c (closeServer r st).1 (List.replicate n .tick)).2 := by
  simp only [run, step]
  rw [if_pos ⟨hc, hv, hr⟩]

theorem closeServer_connected (r : Reason) (st : State) (hc : st.conn = .connected) :
    (closeServer r st).1.conn = .closed ∧
    (closeServer r st).1.wd = (if r = .requested ∨ r = .eof then .off else st.wd) ∧
    (closeServer r st).1.srvUp = st.srvUp ∧
    Obs.attempt ∉ (closeServer r st).2 ∧ Obs.loginSent ∉ (closeServer r st).2 := by
  simp [closeServer, hc]

theorem lossHeld_ticks_obs (c : Config) (st : State) (r : Reason) (n : Nat) (hc : st.conn = .connected)
    (hv : r ≠ .connectFailed) (hr : (r = .eof ∨ r = .readError) → st.reader = true) :
    (run c st (.lossHeld r :: List.replicate n .tick)).2 =
      (closeServer r st).2 ++
        (run c { (closeServer r st).1 with held := decide (r = .eof ∨ r = .readError) :: (closeServer r st).1.held }
          (List.replicate n .tick)).2 := by
  simp only [run, step]
  rw [if_pos ⟨hc, hv, hr⟩]

/-- The reconnect law for any state `s1` left by a loss with reason `r` of the connected state `s0`: after the
    reconnect delay (+ one poll) a new connection has been attempted iff `reconnect.auto` ∧ `r ∉ {REQUESTED, EOF}` ∧
    credentials, and a new Login was sent iff moreover the server accepts the connection. -/
theorem reconnect_law (c : Config) (s0 s1 : State) (o1 : List Obs) (r : Reason)
    (hw : WInv c s0) (hc : s0.conn = .connected)
    (k1 : s1.conn = .closed) (k2 : s1.wd = (if r = .requested ∨ r = .eof then .off else s0.wd))
    (k3 : s1.srvUp = s0.srvUp) (k4 : Obs.attempt ∉ o1) (k5 : Obs.loginSent ∉ o1) :
    (Obs.attempt ∈ o1 ++ (run c s1 (List.replicate (reconnectTicks + 1) .tick)).2 ↔
      (c.reconnectAuto = true ∧ r ≠ .requested ∧ r ≠ .eof ∧ c.credsOk = true)) ∧
    (Obs.loginSent ∈ o1 ++ (run c s1 (List.replicate (reconnectTicks + 1) .tick)).2 ↔
      (c.reconnectAuto = true ∧ r ≠ .requested ∧ r ≠ .eof ∧ c.credsOk = true ∧ s0.srvUp = true)) := by
  by_cases cond : c.reconnectAuto = true ∧ r ≠ .requested ∧ r ≠ .eof ∧ c.credsOk = true
  · obtain ⟨ha, hq, he, hk⟩ := cond
    have hidle : s1.wd = .idle := by
      rw [k2]; simp [hq, he, hw.2 hc ha]
    obtain ⟨s2, hs2, hs3⟩ := idle_reconnect_obs c s1 hidle k1 hk
    have hro := reconnect_obs_attempt c s2
    rw [hs2]
    refine ⟨?_, ?_⟩
    · simp [ha, hq, he, hk, hro.1]
    · simp only [List.mem_append, k5, false_or, hro.2, hs3, k3]
      simp [ha, hq, he, hk]
  · have hquiet : (run c s1 (List.replicate (reconnectTicks + 1) .tick)).2 = [] := by
      by_cases ha : c.reconnectAuto = true
      · by_cases hre : r = .requested ∨ r = .eof
        · apply off_run
          · intro op hop; simp [List.mem_replicate] at hop; subst hop; rfl
          · rw [k2]; simp [hre]
        · have hk : c.credsOk = false := by
            cases hcr : c.credsOk with
            | false => rfl
            | true => exact absurd ⟨ha, fun e => hre (Or.inl e), fun e => hre (Or.inr e), hcr⟩ cond
          apply nocreds_run c hk
          rw [k2]; simp [hre, hw.2 hc ha]
      · have hoff : s0.wd = .off := by
          cases hwd : s0.wd with
          | off => rfl
          | idle => exact absurd (hw.1 (by simp [hwd])) ha
          | sleeping n => exact absurd (hw.1 (by simp [hwd])) ha
        apply off_run
        · intro op hop; simp [List.mem_replicate] at hop; subst hop; rfl
        · rw [k2, hoff]; simp
    rw [hquiet]
    simp only [List.append_nil]
    refine ⟨⟨fun h => absurd h k4, fun h => absurd h cond⟩,
            ⟨fun h => absurd h k5, fun h => absurd ⟨h.1, h.2.1, h.2.2.1, h.2.2.2.1⟩ cond⟩⟩

/-! ## the server knows the branch position (round 5) -/

/-- whenever a session exists, the last branch position the CURRENT server connection was told is the position the
    client has -/
def PInv (c : Config) (st : State) : Prop := st.session = true → st.told = some (position c st)

theorem envOf_congr (c : Config) (a b : State) (h : a.parent = b.parent) (hs : a.stats = b.stats) :
    envOf c a = envOf c b := by
  simp [envOf, h, hs]

theorem position_congr (c : Config) (a b : State) (h : a.parent = b.parent) : position c a = position c b := by
  simp [position, positionOf, branchValues, envOf, h]

theorem pinv_init (c : Config) : PInv c init := by
  intro h; simp [init] at h

/-- a state that differs only in fields the position does not read -/
theorem pinv_of_same (c : Config) (a b : State) (h : PInv c a) (hs : b.session = a.session) (ht : b.told = a.told)
    (hp : b.parent = a.parent) : PInv c b := by
  intro hb
  rw [ht, position_congr c b a hp]
  exact h (by rw [← hs]; exact hb)

theorem pinv_of_no_session (c : Config) (st : State) (h : st.session = false) : PInv c st := by
  intro hs; rw [h] at hs; cases hs

theorem pinv_tellPosition (c : Config) (st : State) : PInv c (tellPosition c st).1 := by
  unfold tellPosition
  split
  · intro _
    exact congrArg some (position_congr c st _ rfl)
  · rename_i hs
    exact pinv_of_no_session c st (by simpa using hs)

theorem pinv_closeServer (c : Config) (r : Reason) (st : State) (h : PInv c st) : PInv c (closeServer r st).1 := by
  unfold closeServer
  split
  · exact h
  · exact pinv_of_no_session c _ rfl

theorem session_closeServer_connected (r : Reason) (st : State) (hc : st.conn = .connected) :
    (closeServer r st).1.session = false := by
  simp [closeServer, hc]

theorem pinv_doLogin (c : Config) (st : State) (h : PInv c st) : PInv c (doLogin c st).1 := by
  unfold doLogin
  split
  · intro _
    exact congrArg some (position_congr c st _ rfl)
  · exact h
  · exact h
  · exact pinv_closeServer c _ st h

theorem pinv_reconnect (c : Config) (st : State) (h : PInv c st) : PInv c (reconnect c st).1 := by
  unfold reconnect
  split
  · split
    · exact pinv_doLogin c _ (pinv_of_same c st _ h rfl rfl rfl)
    · exact pinv_of_same c st _ h rfl rfl rfl
  · exact pinv_closeServer c _ _ (pinv_of_same c st _ h rfl rfl rfl)

theorem pinv_tickWd (c : Config) (st : State) (h : PInv c st) : PInv c (tickWd c st).1 := by
  unfold tickWd
  split
  · exact h
  · split
    · exact pinv_of_same c st _ h rfl rfl rfl
    · exact h
  · split
    · exact pinv_reconnect c st h
    · exact pinv_of_same c st _ h rfl rfl rfl

theorem pinv_doStart (c : Config) (st : State) (h : PInv c st) : PInv c (doStart c st).1 := by
  unfold doStart
  simp only []
  split
  · exact pinv_of_same c st _ h rfl rfl rfl
  · split
    · exact pinv_of_same c st _ h rfl rfl rfl
    · exact pinv_closeServer c _ _ (pinv_of_same c st _ h rfl rfl rfl)

theorem session_doStop (c : Config) (st : State) (hi : Inv st) : (doStop c st).1.session = false := by
  unfold doStop closeServer
  by_cases hc : st.conn = .closed ∨ st.conn = .closing
  · have hn : st.conn ≠ .connected := by rcases hc with hc | hc <;> simp [hc]
    simp [hc, (hi.1 hn).2.2]
  · simp [hc]

theorem session_applyBreak (c : Config) (b : Break) (st : State) (hi : Inv st) (hc : st.conn = .connected) :
    (applyBreak c b st).1.session = false := by
  cases b with
  | writeFail => exact session_closeServer_connected _ st hc
  | close r => exact session_closeServer_connected _ st hc
  | stop => exact session_doStop c st hi
  | srvEof => exact session_closeServer_connected _ st hc

theorem conn_loginDone (c : Config) (st : State) (hc : st.conn = .connected) :
    ({ (doLogin c { st with srvReply := .accepted }).1 with srvReply := st.srvReply } : State).conn = .connected := by
  simp [doLogin, hc]

theorem pinv_loginDone (c : Config) (st : State) (h : PInv c st) :
    PInv c { (doLogin c { st with srvReply := .accepted }).1 with srvReply := st.srvReply } := by
  have := pinv_doLogin c { st with srvReply := .accepted } (pinv_of_same c st _ h rfl rfl rfl)
  exact pinv_of_same c _ _ this rfl rfl rfl

theorem pinv_doLoginBreak (c : Config) (pos : Option Nat) (d : Nat) (b : Break) (st : State) (hi : Inv st)
    (h : PInv c st) (hc : st.conn = .connected) : PInv c (doLoginBreak c pos d b st).1 := by
  have hdi := inv_loginDone c st hi hc
  have hdc := conn_loginDone c st hc
  unfold doLoginBreak
  cases pos with
  | none => exact pinv_of_no_session c _ (session_applyBreak c b st hi hc)
  | some j =>
    simp only []
    split
    · cases b with
      | writeFail => exact pinv_loginDone c st h
      | close r => exact pinv_of_no_session c _ (session_applyBreak c _ _ hdi hdc)
      | stop => exact pinv_of_no_session c _ (session_applyBreak c _ _ hdi hdc)
      | srvEof => exact pinv_of_no_session c _ (session_applyBreak c _ _ hdi hdc)
    · cases b with
      | writeFail => exact pinv_of_no_session c _ (session_applyBreak c _ _ (inv_inBurst st hi hc) hc)
      | close r => exact pinv_of_no_session c _ (session_applyBreak c _ _ (inv_inBurst st hi hc) hc)
      | stop => exact pinv_of_no_session c _ (session_applyBreak c _ _ (inv_inBurst st hi hc) hc)
      | srvEof => exact pinv_closeServer c _ _ (pinv_loginDone c st h)

theorem pinv_step (c : Config) (st : State) (op : Op) (hi : Inv st) (h : PInv c st) : PInv c (step c st op).1 := by
  cases op with
  | start => simp only [step]; split
             · exact h
             · exact pinv_doStart c st h
  | login => simp only [step]; split
             · exact pinv_doLogin c st h
             · exact h
  | loginBreak pos d b =>
    simp only [step]; split
    · rename_i hc; exact pinv_doLoginBreak c pos d b st hi h hc.1
    · exact h
  | exec => simp only [step]; split <;> exact h
  | populate => simp only [step]; split
                · exact pinv_of_same c st _ h rfl rfl rfl
                · exact h
  | search => simp only [step]; split
              · exact pinv_of_same c st _ h rfl rfl rfl
              · exact h
  | wishlistInterval => simp only [step]; split
                        · exact pinv_of_same c st _ h rfl rfl rfl
                        · exact h
  | potentialParents => simp only [step]; split
                        · exact pinv_of_same c st _ h rfl rfl rfl
                        · exact h
  | searchRequest => simp only [step]; split
                     · exact pinv_of_same c st _ h rfl rfl rfl
                     · exact h
  | loss r => simp only [step]; split
              · exact pinv_closeServer c r st h
              · exact h
  | lossHeld r =>
    simp only [step]; split
    · exact pinv_of_same c _ _ (pinv_closeServer c r st h) rfl rfl rfl
    · exact h
  | release => simp only [step]; split
               · exact pinv_of_same c st _ h rfl rfl rfl
               · exact h
  | connect =>
    simp only [step]; split
    · unfold doConnect
      split
      · exact pinv_of_same c st _ h rfl rfl rfl
      · exact pinv_closeServer c _ _ (pinv_of_same c st _ h rfl rfl rfl)
    · exact h
  | parentAdopt name root level =>
    simp only [step]; split
    · exact pinv_tellPosition c _
    · exact h
  | parentLevel level =>
    simp only [step]; split
    · exact pinv_tellPosition c _
    · exact h
  | parentRoot root =>
    simp only [step]; split
    · split
      · exact h
      · exact pinv_tellPosition c _
    · exact h
  | parentLoss =>
    simp only [step]; split
    · exact pinv_tellPosition c _
    · exact h
  | childJoin => simp only [step]; split
                 · exact pinv_of_same c st _ h rfl rfl rfl
                 · exact h
  | childLoss => simp only [step]; split
                 · exact pinv_of_same c st _ h rfl rfl rfl
                 · exact h
  | rescan d f => simp only [step]; split
                  · exact pinv_of_same c st _ h rfl rfl rfl
                  · exact h
  | tick => simp only [step]; exact pinv_tickWd c _ (pinv_of_same c st _ h rfl rfl rfl)
  | setSrvUp b => simp only [step]; exact pinv_of_same c st _ h rfl rfl rfl
  | setSrvReply r => simp only [step]; exact pinv_of_same c st _ h rfl rfl rfl
  | stop => simp only [step]; split
            · exact pinv_of_no_session c _ (session_doStop c st hi)
            · exact h

theorem pinv_run (c : Config) (ops : List Op) : ∀ st, Inv st → PInv c st → PInv c (run c st ops).1 := by
  induction ops with
  | nil => intro st _ h; exact h
  | cons op ops ih =>
    intro st hi h
    simp only [run]
    exact ih _ (inv_step c st op hi) (pinv_step c st op hi h)

/-! ### the distributed peers survive a loss of the server connection -/

theorem closeServer_keeps_peers (r : Reason) (st : State) :
    (closeServer r st).1.parent = st.parent ∧ (closeServer r st).1.children = st.children ∧
    (closeServer r st).1.stats = st.stats := by
  unfold closeServer; split <;> exact ⟨rfl, rfl, rfl⟩

/-- what the ticks of the reconnect delay leave alone -/
theorem sleeping_ticks_keep (c : Config) : ∀ (n : Nat) (st : State), st.wd = .sleeping (n + 1) →
    (run c st (List.replicate n .tick)).2 = [] ∧ (run c st (List.replicate n .tick)).1.wd = .sleeping 1 ∧
    (run c st (List.replicate n .tick)).1.srvUp = st.srvUp ∧
    (run c st (List.replicate n .tick)).1.srvReply = st.srvReply ∧
    (run c st (List.replicate n .tick)).1.parent = st.parent ∧
    (run c st (List.replicate n .tick)).1.stats = st.stats := by
  intro n
  induction n with
  | zero => intro st h; simp [run, h]
  | succ n ih =>
    intro st h
    have hs : step c st .tick = ({ ageAll st with wd := .sleeping (n + 1) }, []) := by
      simp [step, tickWd, ageAll, h]
    have := ih { ageAll st with wd := .sleeping (n + 1) } rfl
    simp only [List.replicate_succ, run, hs]
    simpa [show (ageAll st).srvUp = st.srvUp from rfl, show (ageAll st).srvReply = st.srvReply from rfl,
      show (ageAll st).parent = st.parent from rfl, show (ageAll st).stats = st.stats from rfl] using this

/-- the reconnect delay followed by the attempt, as ONE `reconnect` on a state with the same server behaviour and
    the same distributed parent: observations and final state -/
theorem idle_reconnect_run (c : Config) (st : State) (hw : st.wd = .idle) (hc : st.conn = .closed)
    (hk : c.credsOk = true) :
    ∃ s2 : State, run c st (List.replicate (reconnectTicks + 1) .tick) = reconnect c s2 ∧
      s2.srvUp = st.srvUp ∧ s2.srvReply = st.srvReply ∧ s2.parent = st.parent ∧ s2.stats = st.stats := by
  have h1 : step c st .tick = ({ ageAll st with wd := .sleeping reconnectTicks }, []) := by
    simp [step, tickWd, ageAll, hw, hc, hk]
  have hrep : List.replicate (reconnectTicks + 1) Op.tick =
      Op.tick :: (List.replicate (reconnectTicks - 1) Op.tick ++ [Op.tick]) := by
    simp [reconnectTicks, List.replicate]
  have hs := sleeping_ticks_keep c (reconnectTicks - 1) { ageAll st with wd := .sleeping reconnectTicks }
    (by simp [reconnectTicks])
  obtain ⟨hs1, hs2, hs3, hs4, hs5, hs6⟩ := hs
  refine ⟨ageAll (run c { ageAll st with wd := .sleeping reconnectTicks }
              (List.replicate (reconnectTicks - 1) .tick)).1, ?_, ?_, ?_, ?_, ?_⟩
  · rw [hrep]
    simp only [run, h1, run_append, hs1, List.nil_append, List.append_nil]
    simp only [step, tickWd, ageAll_wd, hs2]
    simp
  · simpa [ageAll_srvUp] using hs3
  · simpa [show ∀ s : State, (ageAll s).srvReply = s.srvReply from fun _ => rfl] using hs4
  · simpa [show ∀ s : State, (ageAll s).parent = s.parent from fun _ => rfl] using hs5
  · simpa [show ∀ s : State, (ageAll s).stats = s.stats from fun _ => rfl] using hs6

/-- a successful automatic reconnect: the whole burst for the position the client has, the session, and the new
    connection knows the position -/
theorem reconnect_relogin (c : Config) (st : State) (hup : st.srvUp = true) (ha : c.reconnectAuto = true)
    (hr : st.srvReply = .accepted) :
    Obs.frames (burst c (envOf c st)) ∈ (reconnect c st).2 ∧ (reconnect c st).1.session = true ∧
    (reconnect c st).1.parent = st.parent ∧ (reconnect c st).1.told = some (position c st) := by
  simp [reconnect, doLogin, hup, ha, hr, envOf, position]

theorem run_cons (c : Config) (st : State) (op : Op) (ops : List Op) :
    run c st (op :: ops) =
      ((run c (step c st op).1 ops).1, (step c st op).2 ++ (run c (step c st op).1 ops).2) := by
  simp [run]

end AioslskVerif.Session
