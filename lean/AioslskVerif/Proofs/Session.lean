import AioslskVerif.Model.Session
/-! Helper lemmas for Props/C16.lean. -/
namespace AioslskVerif.Session

/-! ## counting frames of the burst -/

theorem count_map_inj {α β} [DecidableEq α] [DecidableEq β] (f : α → β)
    (hf : ∀ a b, f a = f b → a = b) (a : α) (l : List α) :
    (l.map f).count (f a) = l.count a := by
  induction l with
  | nil => rfl
  | cons x xs ih =>
    by_cases h : x = a
    · subst h; simp [ih]
    · have : f x ≠ f a := fun e => h (hf _ _ e)
      simp [ih, h, this]

theorem count_map_ne {α β} [DecidableEq β] (f : α → β) (b : β) (hf : ∀ a, f a ≠ b) (l : List α) :
    (l.map f).count b = 0 := by
  induction l with
  | nil => rfl
  | cons x xs ih => simp [ih, hf x]

theorem nodup_count {α} [DecidableEq α] (a : α) (l : List α) (h : l.Nodup) :
    l.count a = if a ∈ l then 1 else 0 := by
  induction l with
  | nil => simp
  | cons x xs ih =>
    have hx := (List.nodup_cons.mp h)
    by_cases e : x = a
    · subst e; simp [List.count_eq_zero_of_not_mem hx.1]
    · have e' : ¬ a = x := fun h => e h.symm
      simp [ih hx.2, e, e']

theorem count_filter_ne (a own : String) (l : List String) (h : l.Nodup) :
    (l.filter (fun f => f != own)).count a = if a ∈ l ∧ a ≠ own then 1 else 0 := by
  have hn : (l.filter (fun f => f != own)).Nodup := h.filter _
  rw [nodup_count _ _ hn]
  simp [List.mem_filter]

theorem burst_count (c : Config) (e : Env) (h : c.WF) (f : Frame) :
    (burst c e).count f = mustTell c e f := by
  obtain ⟨hf, hl, hh, hv⟩ := h
  cases f <;> cases hA : c.autoJoin <;>
    simp [burst, hNetwork, hDistributed, hUsers, hRooms, hInterests, hShares, mustTell, trackSet, hA,
      List.count_cons, List.count_append, count_map_ne, count_map_inj, nodup_count _ _ hl, nodup_count _ _ hh,
      nodup_count _ _ hv, count_filter_ne _ _ _ hf]
  all_goals
    rename_i u
    by_cases h1 : c.username = u
    · subst h1; simp
    · have h1' : ¬ u = c.username := fun e => h1 e.symm
      by_cases h2 : u ∈ c.friends <;> simp [h1, h1', h2]

/-! ## invariant of reachable states -/

/-- ping / reader / session only with a connected server connection; the watchdog is in its reconnect delay
    only while the connection is closed; the transient states are never observed between operations -/
def Inv (st : State) : Prop :=
  (st.conn ≠ .connected → st.ping = false ∧ st.reader = false ∧ st.session = false) ∧
  (∀ n, st.wd = .sleeping n → st.conn = .closed) ∧ st.conn ≠ .closing ∧ st.conn ≠ .connecting

theorem inv_init : Inv init := by
  simp [Inv, init]

theorem inv_closeServer (r : Reason) (st : State) (h : Inv st) : Inv (closeServer r st).1 := by
  unfold closeServer
  split
  · exact h
  · obtain ⟨h1, h2, h3, h4⟩ := h
    refine ⟨?_, ?_, ?_, ?_⟩ <;> simp

theorem inv_doLogin (c : Config) (st : State) (h : Inv st) (hc : st.conn = .connected) :
    Inv (doLogin c st).1 := by
  unfold doLogin
  obtain ⟨h1, h2, h3, h4⟩ := h
  split
  · refine ⟨?_, ?_, ?_, ?_⟩ <;> simp_all
  · exact ⟨h1, h2, h3, h4⟩
  · exact ⟨h1, h2, h3, h4⟩
  · exact inv_closeServer _ _ ⟨h1, h2, h3, h4⟩

end AioslskVerif.Session
