import AioslskVerif.Model.Wire
/-!
# Specification-side predicates for C01 / C02

* `MsgSchema.wf` / `tableWf`: decidable well-formedness of a schema table (checked by `decide` on the
  table regenerated from the source);
* `inDomain`: the explicit, decidable wire domain of a message value (DESIGN.md, C01 "Reading");
* `tableBeq`: structural equality of schema tables (to pin the layout).
-/
namespace AioslskVerif.Wire

/-! ## In-domain values -/

/-- was field `f` with value `v` written by the encoder? -/
def emitted (all : List Val) (f : Field) (v : Val) : Bool := !(v.isAbsent || !guardEnc f.cond all)

/-- what the decoder is expected to have parsed for a prefix of the fields -/
def expParsed (all : List Val) : List Field → List Val → List (Option Val)
  | f :: fs, v :: vs => (if emitted all f v then some v else none) :: expParsed all fs vs
  | _, _ => []

def isOkWith : Except DErr Bool → Bool → Bool
  | .ok b, b' => b == b'
  | .error _, _ => false

def isSomeNil : Option Bytes → Bool
  | some [] => true
  | _ => false

/-- types allowed for optional top-level fields: their encodings are never empty -/
def Ty.primOrArr : Ty → Bool
  | .prim _ => true
  | .arr _ => true
  | .record _ => false

def Ty.isTicket : Ty → Bool
  | .prim .ticket => true
  | _ => false

/-- **The wire domain** of a message value `all` for the field list, checked field by field
(`fsP`/`vsP`: the fields already passed):
* the guard can be evaluated by the decoder and agrees with the encoder's (the guard field is an
  earlier field that was written);
* a field whose guard does not hold is `None` and its dataclass default is `None`;
* a field whose guard holds is present, unless it is `optional`, its default is `None`, and nothing
  after it is written (optional fields form a present-prefix);
* a present field of a type containing the `ticket32or64` hack is the last thing written. -/
def domFrom (all : List Val) : List Field → List Val → List Field → List Val → Bool
  | _, _, [], [] => true
  | fsP, vsP, f :: fs, v :: vs =>
    let g := guardEnc f.cond all
    isOkWith (guardDec f.cond (expParsed all fsP vsP)) g &&
    (if !g then v.isAbsent && f.dflt == .none
     else if v.isAbsent then f.optional && f.dflt == .none && isSomeNil (encTop all fs vs)
     else (f.ty.noTicket || (f.ty.isTicket && isSomeNil (encTop all fs vs))) && (!f.optional || f.ty.primOrArr)) &&
    domFrom all (fsP ++ [f]) (vsP ++ [v]) fs vs
  | _, _, _, _ => false

def inDomain (s : MsgSchema) (vs : List Val) : Bool := domFrom vs [] [] s.fields vs

/-! ## The same domain in plain words (bridged to `inDomain` by `C01_domain_plain`) -/

/-- nothing of these fields is written by the encoder -/
def noneEmitted (all : List Val) : List Field → List Val → Bool
  | [], [] => true
  | f :: fs, v :: vs => !emitted all f v && noneEmitted all fs vs
  | _, _ => false

/-- **Plain wire domain**: one value per field; a field whose guard does not hold is `None`; a field
whose guard holds is present — except that an `optional` field whose dataclass default is `None`
may be `None` when nothing after it is written (the optional fields form a present-prefix). Integer
ranges, string / array lengths are whatever the encoder accepts (`encodeFrame … = some _`). -/
def plainDom (all : List Val) : List Field → List Val → Bool
  | [], [] => true
  | f :: fs, v :: vs =>
    (if !guardEnc f.cond all then v.isAbsent
     else if v.isAbsent then f.optional && f.dflt == .none && noneEmitted all fs vs
     else true) && plainDom all fs vs
  | _, _ => false

/-! ## Schema well-formedness (about the table, independent of values) -/

def Field.guardOk (fs : List Field) (pos : Nat) (f : Field) : Bool :=
  match f.cond with
  | .always => true
  | .ifTrue i | .ifFalse i =>
    i < pos && (match fs[i]? with
      | some g => g.cond == .always && !g.optional && (match g.ty with | .prim .bool => true | _ => false)
      | none => false) && f.dflt == .none

def fieldsWf (all : List Field) : Nat → List Field → Bool
  | _, [] => true
  | pos, f :: fs =>
    f.guardOk all pos &&
    (!f.optional || (f.dflt != .missing && f.ty.primOrArr)) &&
    (f.ty.noTicket || (f.ty.isTicket && fs.isEmpty)) &&
    f.ty.pos && f.ty.arrOk &&
    fieldsWf all (pos + 1) fs

def MsgSchema.wf (s : MsgSchema) : Bool :=
  (s.idWidth == 1 && s.id < 256 || s.idWidth == 4 && s.id < 4294967296) &&
  (s.idWidth == s.family.idWidth || s.family.idWidth == 1 && s.id < 256) &&
  s.compress == s.decompress &&
  fieldsWf s.fields 0 s.fields

def sameKey (a b : MsgSchema) : Bool := a.family == b.family && a.dir == b.dir && a.id == b.id

/-- ids are unique per family × direction -/
def uniqueKeys : List MsgSchema → Bool
  | [] => true
  | s :: r => r.all (fun t => !sameKey s t) && uniqueKeys r

def tableWf (t : List MsgSchema) : Bool := t.all MsgSchema.wf && uniqueKeys t

/-! ## Structural equality of tables -/

mutual
def Ty.beq : Ty → Ty → Bool
  | .prim p, .prim q => p == q
  | .arr a, .arr b => Ty.beq a b
  | .record as, .record bs => Ty.beqL as bs
  | _, _ => false
def Ty.beqL : List Ty → List Ty → Bool
  | [], [] => true
  | a :: as, b :: bs => Ty.beq a b && Ty.beqL as bs
  | _, _ => false
end

def Field.beq (a b : Field) : Bool :=
  Ty.beq a.ty b.ty && a.cond == b.cond && a.optional == b.optional && a.dflt == b.dflt

def fieldsBeq : List Field → List Field → Bool
  | [], [] => true
  | a :: as, b :: bs => a.beq b && fieldsBeq as bs
  | _, _ => false

def MsgSchema.beq (a b : MsgSchema) : Bool :=
  a.family == b.family && a.dir == b.dir && a.idWidth == b.idWidth && a.id == b.id &&
  a.compress == b.compress && a.decompress == b.decompress && fieldsBeq a.fields b.fields

def tableBeq : List MsgSchema → List MsgSchema → Bool
  | [], [] => true
  | a :: as, b :: bs => a.beq b && tableBeq as bs
  | _, _ => false

end AioslskVerif.Wire
