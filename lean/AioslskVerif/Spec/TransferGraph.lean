import AioslskVerif.Model.TransferBase
/-!
# The documented transfer state graph (FROZEN — never regenerated)

Our reading of "documented graph" (DESIGN.md, C03): the edge relation realised by the per-state
classes of `transfer/state.py` at the pinned commit (ddacc78), which agrees with

* the docstring of `TransferManager.queue` (manager.py:274-292): queue is possible from
  `ABORTED, PAUSED, COMPLETE, INCOMPLETE, FAILED`;
* USAGE.rst "Managing Transfer States": pause → queue resumes, abort → queue restarts, queue on a
  completed or failed download re-downloads / retries;
* USAGE.rst "Possible States": `INCOMPLETE` only for downloads, `DOWNLOADING`/`UPLOADING` by direction;
* the log text of the refusing base-class methods (state.py:99-138), which names the one target state
  of every method.

32 `(from, to)` pairs; the only direction-dependent ones are `INITIALIZING → UPLOADING` (uploads) and
`INITIALIZING → DOWNLOADING` (downloads). In particular: `ABORTED`, `COMPLETE`, `FAILED` can only
become `QUEUED`; nothing leaves towards `VIRGIN`; no state has an edge to itself.
-/
namespace AioslskVerif.Spec.Transfer
open AioslskVerif.Transfer

/-- successors of a state in the documented graph -/
def succs : Dir → St → List St
  | _, .virgin => [.queued, .paused]
  | _, .queued => [.initializing, .failed, .aborted, .paused]
  | .upload, .initializing => [.queued, .failed, .aborted, .paused, .uploading]
  | .download, .initializing => [.queued, .failed, .aborted, .paused, .downloading]
  | _, .downloading => [.failed, .complete, .aborted, .paused, .incomplete]
  | _, .uploading => [.failed, .complete, .aborted, .paused]
  | _, .complete => [.queued]
  | _, .incomplete => [.failed, .queued, .initializing, .aborted, .paused]
  | _, .failed => [.queued]
  | _, .paused => [.queued, .aborted, .failed]
  | _, .aborted => [.queued]

/-- `edge d a b`: a transfer of direction `d` may be observed to change from `a` to `b`. -/
def edge (d : Dir) (a b : St) : Bool := (succs d a).contains b

/-- the one state a method leads to (state.py:99-138: "attempted to make undefined state transition
from X to <target>"). -/
def target : Dir → Meth → St
  | _, .fail => .failed
  | _, .abort => .aborted
  | _, .queue => .queued
  | _, .initialize => .initializing
  | _, .complete => .complete
  | _, .incomplete => .incomplete
  | .upload, .start => .uploading
  | .download, .start => .downloading
  | _, .pause => .paused

/-- number of `(from, to)` pairs, both directions merged -/
def edgeCount : Nat :=
  (allSt.map fun a => (allSt.filter fun b => edge .upload a b || edge .download a b).length).sum

end AioslskVerif.Spec.Transfer
