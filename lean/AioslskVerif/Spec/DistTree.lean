import AioslskVerif.Model.Dist
/-!
The position in the distributed tree *as the property C13 states it* (our reading, DESIGN.md C13):
(parent's level + 1, parent's root, parent search off) when there is a parent, (0, own name, parent search on)
otherwise. Independent of the code's `_get_advertised_branch_values` (`DState.adv`).
-/
namespace AioslskVerif.Dist

/-- `(a, search)` is the position derived from the current parent, as the property states it -/
def Derived (s : DState) (me : Name) (a : Adv) (search : Bool) : Prop :=
  match s.parent with
  | none => a = ⟨0, me⟩ ∧ search = true
  | some c => ∃ l r, s.level c = some l ∧ s.root c = some r ∧ a = ⟨l + 1, r⟩ ∧ search = false

/-- the parent announced our own name as its root (describes a cycle, not a position) -/
def Degenerate (s : DState) (me : Name) : Prop := ∃ c, s.parent = some c ∧ s.root c = some me

end AioslskVerif.Dist
