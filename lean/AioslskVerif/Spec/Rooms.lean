import AioslskVerif.Model.Rooms
/-!
# What the server announced, folded (C19 specification)

The replica the property talks about, stated extensionally: a room is a record of *predicates*
(who is in it, who is a member, who is an operator), a partial map of tickers and three flags;
the managers' state is a partial map of rooms and a total map of users.  `Spec.apply` says what
one notification implies — join adds, leave removes, grant adds, revoke removes, lists replace —
with no reference to containers, object creation or the order in which the code touches things.

Reading of the points the property text leaves open (taken from the code, never demanded beyond it):
* a room becomes *known* when any message mentions it (chat from a blocked user is dropped whole
  and mentions nothing); a room first heard of through a private-room notification starts private;
* revoking a membership also revokes the operator role;
* `RoomList` forgets every room it does not list (operated-only rooms are not listed), sets the own
  roles (owner / member / operator) of the listed rooms to exactly what it says, and makes a room
  public iff it is in the public list; joined flag, users and tickers of listed rooms are kept;
* leaving a room empties its user list and keeps tickers and roles.
-/
namespace AioslskVerif.Rooms.Spec
open AioslskVerif.Rooms

structure Room where
  joined : Bool
  priv : Bool
  users : Nat → Bool
  owner : Option Nat
  members : Nat → Bool
  operators : Nat → Bool
  tickers : Nat → Option Nat

/-- a room nobody said anything about yet -/
def Room.new (p : Bool) : Room :=
  { joined := false, priv := p, users := fun _ => false, owner := none, members := fun _ => false,
    operators := fun _ => false, tickers := fun _ => none }

structure State where
  room : Nat → Option Room          -- `none`: not known
  user : Nat → User
  timeLeft : Nat

def init : State := { room := fun _ => none, user := fun _ => {}, timeLeft := 0 }

/-- message about room `r` (private-room notification iff `p`): the room is known afterwards and `g` happened to it -/
def State.touch (s : State) (r : Nat) (p : Bool) (g : Room → Room) : State :=
  { s with room := fun r' => if r' = r then some (g ((s.room r).getD (Room.new p))) else s.room r' }

/-- message about user `u` -/
def State.upd (s : State) (u : Nat) (h : User → User) : State :=
  { s with user := fun u' => if u' = u then h (s.user u) else s.user u' }

def ins (u : Nat) (f : Nat → Bool) : Nat → Bool := fun v => v == u || f v
def del (u : Nat) (f : Nat → Bool) : Nat → Bool := fun v => v != u && f v
def ofList (l : List Nat) : Nat → Bool := fun v => l.contains v

/-- the last entry of a list for a key wins -/
def lastFor (ts : List (Nat × Nat)) : Nat → Option Nat := fun u => AL.find u ts.reverse

def lastEntry (es : List Entry) (u : Nat) : Option Entry := es.reverse.find? (fun e => e.name == u)

def apply (env : Env) (s : State) : Msg → State
  | .roomChat r u _ => if env.blockedRoom.contains u then s else s.touch r false id
  | .publicChat r u _ => if env.blockedRoom.contains u then s else s.touch r false id
  | .userJoined r u status stats slots country =>
    (s.upd u (fun x => { (({ x with status := some status } : User).withStats stats) with
                          slotsFree := some slots, country := some country })).touch r false
      (fun x => { x with users := ins u x.users })
  | .userLeft r u => s.touch r false (fun x => { x with users := del u x.users })
  | .joinRoom r entries owner ops =>
    let s' := s.touch r false (fun x =>
      { x with joined := true, priv := owner.isSome, users := ofList (entries.map (·.name)), owner := owner,
               operators := ofList ops })
    { s' with user := fun u => (lastEntry entries u).elim (s.user u) (fun e => e.apply (s.user u)) }
  | .leaveRoom r => s.touch r false (fun x => { x with joined := false, users := fun _ => false })
  | .tickers r ts => s.touch r false (fun x => { x with tickers := lastFor ts })
  | .tickerAdded r u t => s.touch r false (fun x => { x with tickers := fun v => if v = u then some t else x.tickers v })
  | .tickerRemoved r u => s.touch r false (fun x => { x with tickers := fun v => if v = u then none else x.tickers v })
  | .toggleInvites _ => s
  | .grantMembership r u => s.touch r true (fun x => { x with members := ins u x.members })
  | .membershipGranted r => s.touch r true (fun x => { x with members := ins env.me x.members })
  | .revokeMembership r u =>
    s.touch r true (fun x => { x with members := del u x.members, operators := del u x.operators })
  | .membershipRevoked r =>
    s.touch r true (fun x => { x with members := del env.me x.members, operators := del env.me x.operators })
  | .members r us => s.touch r true (fun x => { x with members := ofList us })
  | .operators r us => s.touch r true (fun x => { x with operators := ofList us })
  | .operatorGranted r => s.touch r true (fun x => { x with operators := ins env.me x.operators })
  | .operatorRevoked r => s.touch r true (fun x => { x with operators := del env.me x.operators })
  | .grantOperator r u => s.touch r true (fun x => { x with operators := ins u x.operators })
  | .revokeOperator r u => s.touch r true (fun x => { x with operators := del u x.operators })
  | .roomList pub owned priv oper =>
    { s with room := fun r =>
        if pub.contains r || priv.contains r || owned.contains r then
          let x := (s.room r).getD (Room.new (!pub.contains r))
          some { x with
            owner := if owned.contains r then some env.me else if x.owner = some env.me then none else x.owner
            operators := if oper.contains r then ins env.me x.operators else del env.me x.operators
            members := if priv.contains r then ins env.me x.members else del env.me x.members
            priv := !pub.contains r }
        else none }
  | .admin _ => s
  | .kicked => s
  | .privateChat _ _ _ _ _ => s
  | .checkPrivileges t => { s with timeLeft := t }
  | .privilegedUsers us => { s with user := fun u => { s.user u with privileged := us.contains u } }
  | .addPrivileged u => s.upd u (fun x => { x with privileged := true })
  | .addUser u ex status stats country =>
    if !ex then s
    else s.upd u (fun x =>
      let x := { x with status := status }
      let x := match stats with | some k => x.withStats k | none => x
      { x with country := country })
  | .userStatus u status privileged => s.upd u (fun x => { x with status := some status, privileged := privileged })
  | .userStats u stats => s.upd u (·.withStats stats)
  | .peerInfo conn descr picture slots queue free perms =>
    match conn with
    | none => s
    | some u => s.upd u (fun x => { x with descr := some descr, picture := picture, uploadSlots := some slots,
                                            queueLength := some queue, hasSlotsFree := some free, uploadPerms := perms })
  | .peerSearch u free speed queue =>
    s.upd u (fun x => { x with avgSpeed := some speed, queueLength := some queue, hasSlotsFree := some free })

/-- the fold -/
def replay (env : Env) (msgs : List Msg) : State := msgs.foldl (apply env) init

/-! ## What each notification must be reported as

`(kind, room, user)` the event of a notification carries; `none` = no event is due. -/
inductive Kind where
  | roomMessage | publicMessage | roomJoined | roomLeft | tickers | tickerAdded | tickerRemoved
  | membershipGranted | membershipRevoked | members | operators | operatorGranted | operatorRevoked
  | roomList | admin | kicked | privateMessage | privilegesUpdate | privilegedUsers | privilegedUserAdded
  | userStatusUpdate | userStatsUpdate | userInfoUpdate | ack
deriving DecidableEq, Repr

structure Tag where
  kind : Kind
  room : Option Nat := none
  user : Option Nat := none
deriving DecidableEq, Repr

/-- the event a (well-formed, not blocked) notification is reported as -/
def announces : Msg → Option Tag
  | .roomChat r u _ => some { kind := .roomMessage, room := some r, user := some u }
  | .publicChat r u _ => some { kind := .publicMessage, room := some r, user := some u }
  | .userJoined r u _ _ _ _ => some { kind := .roomJoined, room := some r, user := some u }
  | .userLeft r u => some { kind := .roomLeft, room := some r, user := some u }
  | .joinRoom r _ _ _ => some { kind := .roomJoined, room := some r }
  | .leaveRoom r => some { kind := .roomLeft, room := some r }
  | .tickers r _ => some { kind := .tickers, room := some r }
  | .tickerAdded r u _ => some { kind := .tickerAdded, room := some r, user := some u }
  | .tickerRemoved r u => some { kind := .tickerRemoved, room := some r, user := some u }
  | .toggleInvites _ => none
  | .grantMembership r u => some { kind := .membershipGranted, room := some r, user := some u }
  | .membershipGranted r => some { kind := .membershipGranted, room := some r }
  | .revokeMembership r u => some { kind := .membershipRevoked, room := some r, user := some u }
  | .membershipRevoked r => some { kind := .membershipRevoked, room := some r }
  | .members r _ => some { kind := .members, room := some r }
  | .operators r _ => some { kind := .operators, room := some r }
  | .operatorGranted r => some { kind := .operatorGranted, room := some r }
  | .operatorRevoked r => some { kind := .operatorRevoked, room := some r }
  | .grantOperator r u => some { kind := .operatorGranted, room := some r, user := some u }
  | .revokeOperator r u => some { kind := .operatorRevoked, room := some r, user := some u }
  | .roomList _ _ _ _ => some { kind := .roomList }
  | .admin _ => some { kind := .admin }
  | .kicked => some { kind := .kicked }
  | .privateChat _ _ u _ _ => some { kind := .privateMessage, user := some u }
  | .checkPrivileges _ => some { kind := .privilegesUpdate }
  | .privilegedUsers _ => some { kind := .privilegedUsers }
  | .addPrivileged u => some { kind := .privilegedUserAdded, user := some u }
  | .addUser _ _ _ _ _ => none
  | .userStatus u _ _ => some { kind := .userStatusUpdate, user := some u }
  | .userStats u _ => some { kind := .userStatsUpdate, user := some u }
  | .peerInfo conn _ _ _ _ _ _ => conn.map (fun u => { kind := .userInfoUpdate, user := some u })
  | .peerSearch _ _ _ _ => none

/-- is the sender of this chat message blocked for its kind? -/
def blocked (env : Env) : Msg → Bool
  | .roomChat _ u _ => env.blockedRoom.contains u
  | .publicChat _ u _ => env.blockedRoom.contains u
  | .privateChat _ _ u _ _ => env.blockedPriv.contains u
  | _ => false

/-- kind / room / user an emitted event carries -/
def tagOf : Ev → Tag
  | .roomMessage r u _ => { kind := .roomMessage, room := some r, user := some u }
  | .publicMessage r u _ => { kind := .publicMessage, room := some r, user := some u }
  | .roomJoined r u => { kind := .roomJoined, room := some r, user := u }
  | .roomLeft r u => { kind := .roomLeft, room := some r, user := u }
  | .tickers r _ => { kind := .tickers, room := some r }
  | .tickerAdded r u _ => { kind := .tickerAdded, room := some r, user := some u }
  | .tickerRemoved r u => { kind := .tickerRemoved, room := some r, user := some u }
  | .membershipGranted r u => { kind := .membershipGranted, room := some r, user := u }
  | .membershipRevoked r u => { kind := .membershipRevoked, room := some r, user := u }
  | .members r _ => { kind := .members, room := some r }
  | .operators r _ => { kind := .operators, room := some r }
  | .operatorGranted r u => { kind := .operatorGranted, room := some r, user := u }
  | .operatorRevoked r u => { kind := .operatorRevoked, room := some r, user := u }
  | .roomList _ => { kind := .roomList }
  | .admin _ => { kind := .admin }
  | .kicked => { kind := .kicked }
  | .ack _ => { kind := .ack }
  | .privateMessage _ _ u _ _ => { kind := .privateMessage, user := some u }
  | .privilegesUpdate _ => { kind := .privilegesUpdate }
  | .privilegedUsers _ => { kind := .privilegedUsers }
  | .privilegedUserAdded u => { kind := .privilegedUserAdded, user := some u }
  | .userStatusUpdate u _ _ => { kind := .userStatusUpdate, user := some u }
  | .userStatsUpdate u _ _ => { kind := .userStatsUpdate, user := some u }
  | .userInfoUpdate u _ _ => { kind := .userInfoUpdate, user := some u }

end AioslskVerif.Rooms.Spec

/-! ## The abstraction function: what an observer of the managers sees -/
namespace AioslskVerif.Rooms
open Spec

def roomView (x : Room) : Spec.Room :=
  { joined := x.joined, priv := x.priv, users := fun u => x.users.contains u, owner := x.owner,
    members := fun u => x.members.contains u, operators := fun u => x.operators.contains u,
    tickers := fun u => AL.find u x.tickers }

/-- rooms by name (`RoomManager.rooms`), the user object `get_user_object` hands out for each name,
and the session's remaining privilege time -/
def view (s : State) : Spec.State :=
  { room := fun r => (AL.find r s.rooms).map roomView,
    user := fun u => s.getUser u,
    timeLeft := s.timeLeft }

end AioslskVerif.Rooms
