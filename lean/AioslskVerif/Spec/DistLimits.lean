import AioslskVerif.Model.DistSusp
/-!
The child admission limits *as the property C13 states them* (our reading, DESIGN.md C13): "child acceptance" and
"the current maximum" are a function of the statistics of the own user handled so far and of the `ParentMinSpeed` /
`ParentSpeedRatio` in force when they were handled — **a new limit binds from the step that handles the
`GetUserStats` response**, not from the moment `AcceptChildren` has been flushed to the server, and no other step
(in particular no resumption of a suspended handler) changes it.

This is a small machine of its own over the op alphabet (it does not look at the tree state);
`Props/C13.lean: C13_limits_bind_at_stats` shows that the model's `accept` / `maxChildren` are its state after every
history, and `C13_admission_by_last_stats` judges every admission against it.
-/
namespace AioslskVerif.Dist
open AioslskVerif.Generated.Dist

structure Lim where
  session : Option Name
  minSpeed : Option Nat
  ratio : Option Nat
  accept : Bool
  max : Nat
deriving Repr, DecidableEq

def Lim.init : Lim := ⟨none, none, none, initAccept, initMaxChildren⟩

/-- statistics of user `n` with upload speed `speed` are handled -/
def limStats (l : Lim) (n : Name) (speed : Nat) : Lim :=
  if l.session = some n then
    let ms := l.minSpeed.getD defaultMinSpeed
    let r := l.ratio.getD defaultSpeedRatio
    if speed < ms * minSpeedUnit then { l with accept := false, max := 0 }
    else if r = 0 then { l with accept := true }                 -- the maximum is not defined; the old one stays
    else { l with accept := true, max := speed * ratioDiv / (r * speedUnit) }
  else l

def limStep (l : Lim) : XOp → Lim
  | .base (.userStats n sp) => limStats l n sp
  | .base (.minSpeed n) => { l with minSpeed := some n }
  | .base (.speedRatio n) => { l with ratio := some n }
  | .base (.sessionInit me) => { l with session := some me }
  | .base .sessionDestroyed => { l with session := none }
  | .base .serverStateChange => { l with minSpeed := none, ratio := none }
  | _ => l

/-- the limits after a history -/
def limits (ops : List XOp) : Lim := ops.foldl limStep Lim.init

/-- the limit part of the model state -/
def DState.lim (d : DState) : Lim := ⟨d.session, d.minSpeed, d.ratio, d.accept, d.maxChildren⟩

end AioslskVerif.Dist
