import AioslskVerif.Model.DistSusp
/-!
What every distributed connection has **announced**, by the protocol's own rule — *as the property C13 reads
"the parent's level and root"* (DESIGN.md C13; docs/source/SOULSEEK.rst, DESIGN.rst "except when branch level sent is 0"):

* a `DistributedBranchLevel v` sets the level to `v`; `v = 0` says "I am the root of my branch": the root is then the
  peer's own user name, whatever root it announced before, and no `DistributedBranchRoot` need follow;
* a `DistributedBranchRoot r` sets the root to `r`;
* a new connection has announced nothing.

A fold over the history that looks only at the events (connection ids are creation order) — independent of the
handlers of `Model/Dist.lean` / `Model/DistSusp.lean`, of their bookkeeping (`DState.level / root`) and of which
connections they keep.
-/
namespace AioslskVerif.Dist

structure Ann where
  /-- number of distributed connections initialised so far (= the id of the next one) -/
  next : ConnId
  /-- user of the connection (`PeerInit`) -/
  name : ConnId → Name
  level : ConnId → Option Nat
  root : ConnId → Option Name

def Ann.init : Ann := ⟨0, fun _ => 0, fun _ => none, fun _ => none⟩

def annStep (a : Ann) : XOp → Ann
  | .base (.initialized n _) =>
    { a with next := a.next + 1, name := upd a.name a.next n, level := upd a.level a.next none,
             root := upd a.root a.next none }
  | .base (.level c v) =>
    { a with level := upd a.level c (some v), root := if v = 0 then upd a.root c (some (a.name c)) else a.root }
  | .base (.root c r) => { a with root := upd a.root c (some r) }
  | _ => a

/-- the announcements of a history -/
def announced (ops : List XOp) : Ann := ops.foldl annStep Ann.init

/-- `(a, search)` is the position derived from what the current parent ANNOUNCED (by the rule above) -/
def DerivedAnn (s : DState) (an : Ann) (me : Name) (a : Adv) (search : Bool) : Prop :=
  match s.parent with
  | none => a = ⟨0, me⟩ ∧ search = true
  | some c => ∃ l r, an.level c = some l ∧ an.root c = some r ∧ a = ⟨l + 1, r⟩ ∧ search = false

/-- the parent announced our own name as its root (describes a cycle, not a position) -/
def DegenerateAnn (s : DState) (an : Ann) (me : Name) : Prop := ∃ c, s.parent = some c ∧ an.root c = some me

end AioslskVerif.Dist
