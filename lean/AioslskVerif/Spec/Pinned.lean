-- FROZEN wire layout of the pinned commit (ddacc78), written once by translate/schemas.py. Never regenerated.
import AioslskVerif.Model.Wire
namespace AioslskVerif.Spec.Pinned
open AioslskVerif.Wire

def schemas : List MsgSchema := [
  -- server Login.request
  ⟨.server, .request, 4, 1, false, false,
    [⟨.prim .str, .always, false, .missing⟩,
     ⟨.prim .str, .always, false, .missing⟩,
     ⟨.prim .u32, .always, false, .missing⟩,
     ⟨.prim .str, .always, false, .missing⟩,
     ⟨.prim .u32, .always, false, .missing⟩]⟩,
  -- server Login.response
  ⟨.server, .response, 4, 1, false, false,
    [⟨.prim .bool, .always, false, .missing⟩,
     ⟨.prim .str, .ifTrue 0, false, .none⟩,
     ⟨.prim .ip, .ifTrue 0, false, .none⟩,
     ⟨.prim .str, .ifTrue 0, false, .none⟩,
     ⟨.prim .bool, .ifTrue 0, false, .none⟩,
     ⟨.prim .str, .ifFalse 0, false, .none⟩]⟩,
  -- server SetListenPort.request
  ⟨.server, .request, 4, 2, false, false,
    [⟨.prim .u32, .always, false, .missing⟩,
     ⟨.prim .u32, .always, true, .none⟩,
     ⟨.prim .u32, .always, true, .none⟩]⟩,
  -- server GetPeerAddress.request
  ⟨.server, .request, 4, 3, false, false,
    [⟨.prim .str, .always, false, .missing⟩]⟩,
  -- server GetPeerAddress.response
  ⟨.server, .response, 4, 3, false, false,
    [⟨.prim .str, .always, false, .missing⟩,
     ⟨.prim .ip, .always, false, .missing⟩,
     ⟨.prim .u32, .always, false, .missing⟩,
     ⟨.prim .u32, .always, true, .none⟩,
     ⟨.prim .u16, .always, true, .none⟩]⟩,
  -- server AddUser.request
  ⟨.server, .request, 4, 5, false, false,
    [⟨.prim .str, .always, false, .missing⟩]⟩,
  -- server AddUser.response
  ⟨.server, .response, 4, 5, false, false,
    [⟨.prim .str, .always, false, .missing⟩,
     ⟨.prim .bool, .always, false, .missing⟩,
     ⟨.prim .u32, .ifTrue 1, false, .none⟩,
     ⟨.record [.prim .u32, .prim .u64, .prim .u32, .prim .u32], .ifTrue 1, false, .none⟩,
     ⟨.prim .str, .ifTrue 1, true, .none⟩]⟩,
  -- server RemoveUser.request
  ⟨.server, .request, 4, 6, false, false,
    [⟨.prim .str, .always, false, .missing⟩]⟩,
  -- server GetUserStatus.request
  ⟨.server, .request, 4, 7, false, false,
    [⟨.prim .str, .always, false, .missing⟩]⟩,
  -- server GetUserStatus.response
  ⟨.server, .response, 4, 7, false, false,
    [⟨.prim .str, .always, false, .missing⟩,
     ⟨.prim .u32, .always, false, .missing⟩,
     ⟨.prim .bool, .always, false, .missing⟩]⟩,
  -- server IgnoreUser.request
  ⟨.server, .request, 4, 11, false, false,
    [⟨.prim .str, .always, false, .missing⟩]⟩,
  -- server IgnoreUser.response
  ⟨.server, .response, 4, 11, false, false,
    [⟨.prim .str, .always, false, .missing⟩]⟩,
  -- server UnignoreUser.request
  ⟨.server, .request, 4, 12, false, false,
    [⟨.prim .str, .always, false, .missing⟩]⟩,
  -- server UnignoreUser.response
  ⟨.server, .response, 4, 12, false, false,
    [⟨.prim .str, .always, false, .missing⟩]⟩,
  -- server RoomChatMessage.request
  ⟨.server, .request, 4, 13, false, false,
    [⟨.prim .str, .always, false, .missing⟩,
     ⟨.prim .str, .always, false, .missing⟩]⟩,
  -- server RoomChatMessage.response
  ⟨.server, .response, 4, 13, false, false,
    [⟨.prim .str, .always, false, .missing⟩,
     ⟨.prim .str, .always, false, .missing⟩,
     ⟨.prim .str, .always, false, .missing⟩]⟩,
  -- server JoinRoom.request
  ⟨.server, .request, 4, 14, false, false,
    [⟨.prim .str, .always, false, .missing⟩,
     ⟨.prim .u32, .always, true, .nat 0⟩]⟩,
  -- server JoinRoom.response
  ⟨.server, .response, 4, 14, false, false,
    [⟨.prim .str, .always, false, .missing⟩,
     ⟨.arr (.prim .str), .always, false, .missing⟩,
     ⟨.arr (.prim .u32), .always, false, .missing⟩,
     ⟨.arr (.record [.prim .u32, .prim .u64, .prim .u32, .prim .u32]), .always, false, .missing⟩,
     ⟨.arr (.prim .u32), .always, false, .missing⟩,
     ⟨.arr (.prim .str), .always, false, .missing⟩,
     ⟨.prim .str, .always, true, .none⟩,
     ⟨.arr (.prim .str), .always, true, .none⟩]⟩,
  -- server LeaveRoom.request
  ⟨.server, .request, 4, 15, false, false,
    [⟨.prim .str, .always, false, .missing⟩]⟩,
  -- server LeaveRoom.response
  ⟨.server, .response, 4, 15, false, false,
    [⟨.prim .str, .always, false, .missing⟩]⟩,
  -- server UserJoinedRoom.response
  ⟨.server, .response, 4, 16, false, false,
    [⟨.prim .str, .always, false, .missing⟩,
     ⟨.prim .str, .always, false, .missing⟩,
     ⟨.prim .u32, .always, false, .missing⟩,
     ⟨.record [.prim .u32, .prim .u64, .prim .u32, .prim .u32], .always, false, .missing⟩,
     ⟨.prim .u32, .always, false, .missing⟩,
     ⟨.prim .str, .always, false, .missing⟩]⟩,
  -- server UserLeftRoom.response
  ⟨.server, .response, 4, 17, false, false,
    [⟨.prim .str, .always, false, .missing⟩,
     ⟨.prim .str, .always, false, .missing⟩]⟩,
  -- server ConnectToPeer.request
  ⟨.server, .request, 4, 18, false, false,
    [⟨.prim .u32, .always, false, .missing⟩,
     ⟨.prim .str, .always, false, .missing⟩,
     ⟨.prim .str, .always, false, .missing⟩]⟩,
  -- server ConnectToPeer.response
  ⟨.server, .response, 4, 18, false, false,
    [⟨.prim .str, .always, false, .missing⟩,
     ⟨.prim .str, .always, false, .missing⟩,
     ⟨.prim .ip, .always, false, .missing⟩,
     ⟨.prim .u32, .always, false, .missing⟩,
     ⟨.prim .u32, .always, false, .missing⟩,
     ⟨.prim .bool, .always, false, .missing⟩,
     ⟨.prim .u32, .always, true, .none⟩,
     ⟨.prim .u32, .always, true, .none⟩]⟩,
  -- server PrivateChatMessage.request
  ⟨.server, .request, 4, 22, false, false,
    [⟨.prim .str, .always, false, .missing⟩,
     ⟨.prim .str, .always, false, .missing⟩]⟩,
  -- server PrivateChatMessage.response
  ⟨.server, .response, 4, 22, false, false,
    [⟨.prim .u32, .always, false, .missing⟩,
     ⟨.prim .u32, .always, false, .missing⟩,
     ⟨.prim .str, .always, false, .missing⟩,
     ⟨.prim .str, .always, false, .missing⟩,
     ⟨.prim .bool, .always, true, .bool false⟩]⟩,
  -- server PrivateChatMessageAck.request
  ⟨.server, .request, 4, 23, false, false,
    [⟨.prim .u32, .always, false, .missing⟩]⟩,
  -- server FileSearchRoom.request
  ⟨.server, .request, 4, 25, false, false,
    [⟨.prim .u32, .always, false, .missing⟩,
     ⟨.prim .u32, .always, false, .missing⟩,
     ⟨.prim .str, .always, false, .missing⟩]⟩,
  -- server FileSearch.request
  ⟨.server, .request, 4, 26, false, false,
    [⟨.prim .u32, .always, false, .missing⟩,
     ⟨.prim .str, .always, false, .missing⟩]⟩,
  -- server FileSearch.response
  ⟨.server, .response, 4, 26, false, false,
    [⟨.prim .str, .always, false, .missing⟩,
     ⟨.prim .u32, .always, false, .missing⟩,
     ⟨.prim .str, .always, false, .missing⟩]⟩,
  -- server SetStatus.request
  ⟨.server, .request, 4, 28, false, false,
    [⟨.prim .u32, .always, false, .missing⟩]⟩,
  -- server Ping.request
  ⟨.server, .request, 4, 32, false, false,
    []⟩,
  -- server Ping.response
  ⟨.server, .response, 4, 32, false, false,
    []⟩,
  -- server SendConnectTicket.request
  ⟨.server, .request, 4, 33, false, false,
    [⟨.prim .str, .always, false, .missing⟩,
     ⟨.prim .u32, .always, false, .missing⟩]⟩,
  -- server SendConnectTicket.response
  ⟨.server, .response, 4, 33, false, false,
    [⟨.prim .str, .always, false, .missing⟩,
     ⟨.prim .u32, .always, false, .missing⟩]⟩,
  -- server SendDownloadSpeed.request
  ⟨.server, .request, 4, 34, false, false,
    [⟨.prim .str, .always, false, .missing⟩,
     ⟨.prim .u32, .always, false, .missing⟩]⟩,
  -- server SharedFoldersFiles.request
  ⟨.server, .request, 4, 35, false, false,
    [⟨.prim .u32, .always, false, .missing⟩,
     ⟨.prim .u32, .always, false, .missing⟩]⟩,
  -- server GetUserStats.request
  ⟨.server, .request, 4, 36, false, false,
    [⟨.prim .str, .always, false, .missing⟩]⟩,
  -- server GetUserStats.response
  ⟨.server, .response, 4, 36, false, false,
    [⟨.prim .str, .always, false, .missing⟩,
     ⟨.record [.prim .u32, .prim .u64, .prim .u32, .prim .u32], .always, false, .missing⟩]⟩,
  -- server Kicked.response
  ⟨.server, .response, 4, 41, false, false,
    []⟩,
  -- server UserSearch.request
  ⟨.server, .request, 4, 42, false, false,
    [⟨.prim .str, .always, false, .missing⟩,
     ⟨.prim .u32, .always, false, .missing⟩,
     ⟨.prim .str, .always, false, .missing⟩]⟩,
  -- server DeprecatedGetItemRecommendations.request
  ⟨.server, .request, 4, 50, false, false,
    [⟨.prim .str, .always, false, .missing⟩]⟩,
  -- server DeprecatedGetItemRecommendations.response
  ⟨.server, .response, 4, 50, false, false,
    [⟨.prim .str, .always, false, .missing⟩,
     ⟨.arr (.prim .str), .always, false, .missing⟩]⟩,
  -- server AddInterest.request
  ⟨.server, .request, 4, 51, false, false,
    [⟨.prim .str, .always, false, .missing⟩]⟩,
  -- server RemoveInterest.request
  ⟨.server, .request, 4, 52, false, false,
    [⟨.prim .str, .always, false, .missing⟩]⟩,
  -- server GetRecommendations.request
  ⟨.server, .request, 4, 54, false, false,
    []⟩,
  -- server GetRecommendations.response
  ⟨.server, .response, 4, 54, false, false,
    [⟨.arr (.record [.prim .str, .prim .i32]), .always, false, .missing⟩,
     ⟨.arr (.record [.prim .str, .prim .i32]), .always, false, .missing⟩]⟩,
  -- server GetInterests.request
  ⟨.server, .request, 4, 55, false, false,
    []⟩,
  -- server GetInterests.response
  ⟨.server, .response, 4, 55, false, false,
    [⟨.arr (.prim .str), .always, false, .missing⟩]⟩,
  -- server GetGlobalRecommendations.request
  ⟨.server, .request, 4, 56, false, false,
    []⟩,
  -- server GetGlobalRecommendations.response
  ⟨.server, .response, 4, 56, false, false,
    [⟨.arr (.record [.prim .str, .prim .i32]), .always, false, .missing⟩,
     ⟨.arr (.record [.prim .str, .prim .i32]), .always, false, .missing⟩]⟩,
  -- server GetUserInterests.request
  ⟨.server, .request, 4, 57, false, false,
    [⟨.prim .str, .always, false, .missing⟩]⟩,
  -- server GetUserInterests.response
  ⟨.server, .response, 4, 57, false, false,
    [⟨.prim .str, .always, false, .missing⟩,
     ⟨.arr (.prim .str), .always, false, .missing⟩,
     ⟨.arr (.prim .str), .always, false, .missing⟩]⟩,
  -- server ExecuteCommand.request
  ⟨.server, .request, 4, 58, false, false,
    [⟨.prim .str, .always, false, .missing⟩,
     ⟨.arr (.prim .str), .always, false, .missing⟩]⟩,
  -- server RoomList.request
  ⟨.server, .request, 4, 64, false, false,
    []⟩,
  -- server RoomList.response
  ⟨.server, .response, 4, 64, false, false,
    [⟨.arr (.prim .str), .always, false, .missing⟩,
     ⟨.arr (.prim .u32), .always, false, .missing⟩,
     ⟨.arr (.prim .str), .always, false, .missing⟩,
     ⟨.arr (.prim .u32), .always, false, .missing⟩,
     ⟨.arr (.prim .str), .always, false, .missing⟩,
     ⟨.arr (.prim .u32), .always, false, .missing⟩,
     ⟨.arr (.prim .str), .always, false, .missing⟩]⟩,
  -- server ExactFileSearch.request
  ⟨.server, .request, 4, 65, false, false,
    [⟨.prim .u32, .always, false, .missing⟩,
     ⟨.prim .str, .always, false, .missing⟩,
     ⟨.prim .str, .always, false, .missing⟩,
     ⟨.prim .u64, .always, false, .missing⟩,
     ⟨.prim .u32, .always, false, .missing⟩,
     ⟨.prim .u8, .always, false, .missing⟩]⟩,
  -- server ExactFileSearch.response
  ⟨.server, .response, 4, 65, false, false,
    [⟨.prim .str, .always, false, .missing⟩,
     ⟨.prim .u32, .always, false, .missing⟩,
     ⟨.prim .str, .always, false, .missing⟩,
     ⟨.prim .str, .always, false, .missing⟩,
     ⟨.prim .u64, .always, false, .missing⟩,
     ⟨.prim .u32, .always, false, .missing⟩]⟩,
  -- server AdminMessage.response
  ⟨.server, .response, 4, 66, false, false,
    [⟨.prim .str, .always, false, .missing⟩]⟩,
  -- server GetUserList.request
  ⟨.server, .request, 4, 67, false, false,
    []⟩,
  -- server GetUserList.response
  ⟨.server, .response, 4, 67, false, false,
    [⟨.arr (.prim .str), .always, false, .missing⟩,
     ⟨.arr (.prim .u32), .always, false, .missing⟩,
     ⟨.arr (.record [.prim .u32, .prim .u64, .prim .u32, .prim .u32]), .always, false, .missing⟩,
     ⟨.arr (.prim .u32), .always, false, .missing⟩,
     ⟨.arr (.prim .str), .always, false, .missing⟩]⟩,
  -- server TunneledMessage.request
  ⟨.server, .request, 4, 68, false, false,
    [⟨.prim .str, .always, false, .missing⟩,
     ⟨.prim .u32, .always, false, .missing⟩,
     ⟨.prim .u32, .always, false, .missing⟩,
     ⟨.prim .str, .always, false, .missing⟩]⟩,
  -- server TunneledMessage.response
  ⟨.server, .response, 4, 68, false, false,
    [⟨.prim .str, .always, false, .missing⟩,
     ⟨.prim .u32, .always, false, .missing⟩,
     ⟨.prim .u32, .always, false, .missing⟩,
     ⟨.prim .ip, .always, false, .missing⟩,
     ⟨.prim .u32, .always, false, .missing⟩,
     ⟨.prim .str, .always, false, .missing⟩]⟩,
  -- server PrivilegedUsers.response
  ⟨.server, .response, 4, 69, false, false,
    [⟨.arr (.prim .str), .always, false, .missing⟩]⟩,
  -- server ToggleParentSearch.request
  ⟨.server, .request, 4, 71, false, false,
    [⟨.prim .bool, .always, false, .missing⟩]⟩,
  -- server ParentIP.request
  ⟨.server, .request, 4, 73, false, false,
    [⟨.prim .ip, .always, false, .missing⟩]⟩,
  -- server Unknown80.request
  ⟨.server, .request, 4, 80, false, false,
    []⟩,
  -- server ParentMinSpeed.response
  ⟨.server, .response, 4, 83, false, false,
    [⟨.prim .u32, .always, false, .missing⟩]⟩,
  -- server ParentSpeedRatio.response
  ⟨.server, .response, 4, 84, false, false,
    [⟨.prim .u32, .always, false, .missing⟩]⟩,
  -- server ParentInactivityTimeout.response
  ⟨.server, .response, 4, 86, false, false,
    [⟨.prim .u32, .always, false, .missing⟩]⟩,
  -- server SearchInactivityTimeout.response
  ⟨.server, .response, 4, 87, false, false,
    [⟨.prim .u32, .always, false, .missing⟩]⟩,
  -- server MinParentsInCache.response
  ⟨.server, .response, 4, 88, false, false,
    [⟨.prim .u32, .always, false, .missing⟩]⟩,
  -- server DistributedDistributeInterval.response
  ⟨.server, .response, 4, 89, false, false,
    [⟨.prim .u32, .always, false, .missing⟩]⟩,
  -- server DistributedAliveInterval.response
  ⟨.server, .response, 4, 90, false, false,
    [⟨.prim .u32, .always, false, .missing⟩]⟩,
  -- server AddPrivilegedUser.response
  ⟨.server, .response, 4, 91, false, false,
    [⟨.prim .str, .always, false, .missing⟩]⟩,
  -- server CheckPrivileges.request
  ⟨.server, .request, 4, 92, false, false,
    []⟩,
  -- server CheckPrivileges.response
  ⟨.server, .response, 4, 92, false, false,
    [⟨.prim .u32, .always, false, .missing⟩]⟩,
  -- server ServerSearchRequest.response
  ⟨.server, .response, 4, 93, false, false,
    [⟨.prim .u8, .always, false, .missing⟩,
     ⟨.prim .u32, .always, false, .missing⟩,
     ⟨.prim .str, .always, false, .missing⟩,
     ⟨.prim .u32, .always, false, .missing⟩,
     ⟨.prim .str, .always, false, .missing⟩]⟩,
  -- server AcceptChildren.request
  ⟨.server, .request, 4, 100, false, false,
    [⟨.prim .bool, .always, false, .missing⟩]⟩,
  -- server PotentialParents.response
  ⟨.server, .response, 4, 102, false, false,
    [⟨.arr (.record [.prim .str, .prim .ip, .prim .u32]), .always, false, .missing⟩]⟩,
  -- server WishlistSearch.request
  ⟨.server, .request, 4, 103, false, false,
    [⟨.prim .u32, .always, false, .missing⟩,
     ⟨.prim .str, .always, false, .missing⟩]⟩,
  -- server WishlistInterval.response
  ⟨.server, .response, 4, 104, false, false,
    [⟨.prim .u32, .always, false, .missing⟩]⟩,
  -- server GetSimilarUsers.request
  ⟨.server, .request, 4, 110, false, false,
    []⟩,
  -- server GetSimilarUsers.response
  ⟨.server, .response, 4, 110, false, false,
    [⟨.arr (.record [.prim .str, .prim .u32]), .always, false, .missing⟩]⟩,
  -- server GetItemRecommendations.request
  ⟨.server, .request, 4, 111, false, false,
    [⟨.prim .str, .always, false, .missing⟩]⟩,
  -- server GetItemRecommendations.response
  ⟨.server, .response, 4, 111, false, false,
    [⟨.prim .str, .always, false, .missing⟩,
     ⟨.arr (.record [.prim .str, .prim .i32]), .always, false, .missing⟩]⟩,
  -- server GetItemSimilarUsers.request
  ⟨.server, .request, 4, 112, false, false,
    [⟨.prim .str, .always, false, .missing⟩]⟩,
  -- server GetItemSimilarUsers.response
  ⟨.server, .response, 4, 112, false, false,
    [⟨.prim .str, .always, false, .missing⟩,
     ⟨.arr (.prim .str), .always, false, .missing⟩]⟩,
  -- server RoomTickers.response
  ⟨.server, .response, 4, 113, false, false,
    [⟨.prim .str, .always, false, .missing⟩,
     ⟨.arr (.record [.prim .str, .prim .str]), .always, false, .missing⟩]⟩,
  -- server RoomTickerAdded.response
  ⟨.server, .response, 4, 114, false, false,
    [⟨.prim .str, .always, false, .missing⟩,
     ⟨.prim .str, .always, false, .missing⟩,
     ⟨.prim .str, .always, false, .missing⟩]⟩,
  -- server RoomTickerRemoved.response
  ⟨.server, .response, 4, 115, false, false,
    [⟨.prim .str, .always, false, .missing⟩,
     ⟨.prim .str, .always, false, .missing⟩]⟩,
  -- server SetRoomTicker.request
  ⟨.server, .request, 4, 116, false, false,
    [⟨.prim .str, .always, false, .missing⟩,
     ⟨.prim .str, .always, false, .missing⟩]⟩,
  -- server AddHatedInterest.request
  ⟨.server, .request, 4, 117, false, false,
    [⟨.prim .str, .always, false, .missing⟩]⟩,
  -- server RemoveHatedInterest.request
  ⟨.server, .request, 4, 118, false, false,
    [⟨.prim .str, .always, false, .missing⟩]⟩,
  -- server RoomSearch.request
  ⟨.server, .request, 4, 120, false, false,
    [⟨.prim .str, .always, false, .missing⟩,
     ⟨.prim .u32, .always, false, .missing⟩,
     ⟨.prim .str, .always, false, .missing⟩]⟩,
  -- server SendUploadSpeed.request
  ⟨.server, .request, 4, 121, false, false,
    [⟨.prim .u32, .always, false, .missing⟩]⟩,
  -- server GetUserPrivileges.request
  ⟨.server, .request, 4, 122, false, false,
    [⟨.prim .str, .always, false, .missing⟩]⟩,
  -- server GetUserPrivileges.response
  ⟨.server, .response, 4, 122, false, false,
    [⟨.prim .str, .always, false, .missing⟩,
     ⟨.prim .bool, .always, false, .missing⟩]⟩,
  -- server GiveUserPrivileges.request
  ⟨.server, .request, 4, 123, false, false,
    [⟨.prim .str, .always, false, .missing⟩,
     ⟨.prim .u32, .always, false, .missing⟩]⟩,
  -- server PrivilegesNotification.request
  ⟨.server, .request, 4, 124, false, false,
    [⟨.prim .u32, .always, false, .missing⟩,
     ⟨.prim .str, .always, false, .missing⟩]⟩,
  -- server PrivilegesNotificationAck.request
  ⟨.server, .request, 4, 125, false, false,
    [⟨.prim .u32, .always, false, .missing⟩]⟩,
  -- server BranchLevel.request
  ⟨.server, .request, 4, 126, false, false,
    [⟨.prim .u32, .always, false, .missing⟩]⟩,
  -- server BranchRoot.request
  ⟨.server, .request, 4, 127, false, false,
    [⟨.prim .str, .always, false, .missing⟩]⟩,
  -- server ChildDepth.request
  ⟨.server, .request, 4, 129, false, false,
    [⟨.prim .u32, .always, false, .missing⟩]⟩,
  -- server ResetDistributed.response
  ⟨.server, .response, 4, 130, false, false,
    []⟩,
  -- server PrivateRoomMembers.response
  ⟨.server, .response, 4, 133, false, false,
    [⟨.prim .str, .always, false, .missing⟩,
     ⟨.arr (.prim .str), .always, false, .missing⟩]⟩,
  -- server PrivateRoomGrantMembership.request
  ⟨.server, .request, 4, 134, false, false,
    [⟨.prim .str, .always, false, .missing⟩,
     ⟨.prim .str, .always, false, .missing⟩]⟩,
  -- server PrivateRoomGrantMembership.response
  ⟨.server, .response, 4, 134, false, false,
    [⟨.prim .str, .always, false, .missing⟩,
     ⟨.prim .str, .always, false, .missing⟩]⟩,
  -- server PrivateRoomRevokeMembership.request
  ⟨.server, .request, 4, 135, false, false,
    [⟨.prim .str, .always, false, .missing⟩,
     ⟨.prim .str, .always, false, .missing⟩]⟩,
  -- server PrivateRoomRevokeMembership.response
  ⟨.server, .response, 4, 135, false, false,
    [⟨.prim .str, .always, false, .missing⟩,
     ⟨.prim .str, .always, false, .missing⟩]⟩,
  -- server PrivateRoomDropMembership.request
  ⟨.server, .request, 4, 136, false, false,
    [⟨.prim .str, .always, false, .missing⟩]⟩,
  -- server PrivateRoomDropOwnership.request
  ⟨.server, .request, 4, 137, false, false,
    [⟨.prim .str, .always, false, .missing⟩]⟩,
  -- server PrivateRoomMembershipGranted.response
  ⟨.server, .response, 4, 139, false, false,
    [⟨.prim .str, .always, false, .missing⟩]⟩,
  -- server PrivateRoomMembershipRevoked.response
  ⟨.server, .response, 4, 140, false, false,
    [⟨.prim .str, .always, false, .missing⟩]⟩,
  -- server TogglePrivateRoomInvites.request
  ⟨.server, .request, 4, 141, false, false,
    [⟨.prim .bool, .always, false, .missing⟩]⟩,
  -- server TogglePrivateRoomInvites.response
  ⟨.server, .response, 4, 141, false, false,
    [⟨.prim .bool, .always, false, .missing⟩]⟩,
  -- server NewPassword.request
  ⟨.server, .request, 4, 142, false, false,
    [⟨.prim .str, .always, false, .missing⟩]⟩,
  -- server PrivateRoomGrantOperator.request
  ⟨.server, .request, 4, 143, false, false,
    [⟨.prim .str, .always, false, .missing⟩,
     ⟨.prim .str, .always, false, .missing⟩]⟩,
  -- server PrivateRoomGrantOperator.response
  ⟨.server, .response, 4, 143, false, false,
    [⟨.prim .str, .always, false, .missing⟩,
     ⟨.prim .str, .always, false, .missing⟩]⟩,
  -- server PrivateRoomRevokeOperator.request
  ⟨.server, .request, 4, 144, false, false,
    [⟨.prim .str, .always, false, .missing⟩,
     ⟨.prim .str, .always, false, .missing⟩]⟩,
  -- server PrivateRoomRevokeOperator.response
  ⟨.server, .response, 4, 144, false, false,
    [⟨.prim .str, .always, false, .missing⟩,
     ⟨.prim .str, .always, false, .missing⟩]⟩,
  -- server PrivateRoomOperatorGranted.response
  ⟨.server, .response, 4, 145, false, false,
    [⟨.prim .str, .always, false, .missing⟩]⟩,
  -- server PrivateRoomOperatorRevoked.response
  ⟨.server, .response, 4, 146, false, false,
    [⟨.prim .str, .always, false, .missing⟩]⟩,
  -- server PrivateRoomOperators.response
  ⟨.server, .response, 4, 148, false, false,
    [⟨.prim .str, .always, false, .missing⟩,
     ⟨.arr (.prim .str), .always, false, .missing⟩]⟩,
  -- server PrivateChatMessageUsers.request
  ⟨.server, .request, 4, 149, false, false,
    [⟨.arr (.prim .str), .always, false, .missing⟩,
     ⟨.prim .str, .always, false, .missing⟩]⟩,
  -- server EnablePublicChat.request
  ⟨.server, .request, 4, 150, false, false,
    []⟩,
  -- server DisablePublicChat.request
  ⟨.server, .request, 4, 151, false, false,
    []⟩,
  -- server PublicChatMessage.response
  ⟨.server, .response, 4, 152, false, false,
    [⟨.prim .str, .always, false, .missing⟩,
     ⟨.prim .str, .always, false, .missing⟩,
     ⟨.prim .str, .always, false, .missing⟩]⟩,
  -- server GetRelatedSearches.request
  ⟨.server, .request, 4, 153, false, false,
    [⟨.prim .str, .always, false, .missing⟩]⟩,
  -- server GetRelatedSearches.response
  ⟨.server, .response, 4, 153, false, false,
    [⟨.prim .str, .always, false, .missing⟩,
     ⟨.arr (.prim .str), .always, false, .missing⟩]⟩,
  -- server ExcludedSearchPhrases.response
  ⟨.server, .response, 4, 160, false, false,
    [⟨.arr (.prim .str), .always, false, .missing⟩]⟩,
  -- server CannotConnect.request
  ⟨.server, .request, 4, 1001, false, false,
    [⟨.prim .u32, .always, false, .missing⟩,
     ⟨.prim .str, .always, false, .missing⟩]⟩,
  -- server CannotConnect.response
  ⟨.server, .response, 4, 1001, false, false,
    [⟨.prim .u32, .always, false, .missing⟩]⟩,
  -- server CannotCreateRoom.response
  ⟨.server, .response, 4, 1003, false, false,
    [⟨.prim .str, .always, false, .missing⟩]⟩,
  -- peerinit PeerPierceFirewall.request
  ⟨.peerinit, .request, 1, 0, false, false,
    [⟨.prim .u32, .always, false, .missing⟩]⟩,
  -- peerinit PeerInit.request
  ⟨.peerinit, .request, 1, 1, false, false,
    [⟨.prim .str, .always, false, .missing⟩,
     ⟨.prim .str, .always, false, .missing⟩,
     ⟨.prim .ticket, .always, false, .missing⟩]⟩,
  -- peer PeerSharesRequest.request
  ⟨.peer, .request, 4, 4, false, false,
    [⟨.prim .u32, .always, true, .none⟩]⟩,
  -- peer PeerSharesReply.request
  ⟨.peer, .request, 4, 5, true, true,
    [⟨.arr (.record [.prim .str, .arr (.record [.prim .u8, .prim .str, .prim .u64, .prim .str, .arr (.record [.prim .u32, .prim .u32])])]), .always, false, .missing⟩,
     ⟨.prim .u32, .always, false, .nat 0⟩,
     ⟨.arr (.record [.prim .str, .arr (.record [.prim .u8, .prim .str, .prim .u64, .prim .str, .arr (.record [.prim .u32, .prim .u32])])]), .always, true, .none⟩]⟩,
  -- peer PeerSearchReply.request
  ⟨.peer, .request, 4, 9, true, true,
    [⟨.prim .str, .always, false, .missing⟩,
     ⟨.prim .u32, .always, false, .missing⟩,
     ⟨.arr (.record [.prim .u8, .prim .str, .prim .u64, .prim .str, .arr (.record [.prim .u32, .prim .u32])]), .always, false, .missing⟩,
     ⟨.prim .bool, .always, false, .missing⟩,
     ⟨.prim .u32, .always, false, .missing⟩,
     ⟨.prim .u32, .always, false, .missing⟩,
     ⟨.prim .u32, .always, false, .nat 0⟩,
     ⟨.arr (.record [.prim .u8, .prim .str, .prim .u64, .prim .str, .arr (.record [.prim .u32, .prim .u32])]), .always, true, .none⟩]⟩,
  -- peer PeerUserInfoRequest.request
  ⟨.peer, .request, 4, 15, false, false,
    []⟩,
  -- peer PeerUserInfoReply.request
  ⟨.peer, .request, 4, 16, false, false,
    [⟨.prim .str, .always, false, .missing⟩,
     ⟨.prim .bool, .always, false, .missing⟩,
     ⟨.prim .bytes, .ifTrue 1, false, .none⟩,
     ⟨.prim .u32, .always, false, .nat 0⟩,
     ⟨.prim .u32, .always, false, .nat 0⟩,
     ⟨.prim .bool, .always, false, .bool false⟩,
     ⟨.prim .u32, .always, true, .none⟩]⟩,
  -- peer PeerDirectoryContentsRequest.request
  ⟨.peer, .request, 4, 36, false, false,
    [⟨.prim .u32, .always, false, .missing⟩,
     ⟨.prim .str, .always, false, .missing⟩]⟩,
  -- peer PeerDirectoryContentsReply.request
  ⟨.peer, .request, 4, 37, true, true,
    [⟨.prim .u32, .always, false, .missing⟩,
     ⟨.prim .str, .always, false, .missing⟩,
     ⟨.arr (.record [.prim .str, .arr (.record [.prim .u8, .prim .str, .prim .u64, .prim .str, .arr (.record [.prim .u32, .prim .u32])])]), .always, false, .missing⟩]⟩,
  -- peer PeerTransferRequest.request
  ⟨.peer, .request, 4, 40, false, false,
    [⟨.prim .u32, .always, false, .missing⟩,
     ⟨.prim .u32, .always, false, .missing⟩,
     ⟨.prim .str, .always, false, .missing⟩,
     ⟨.prim .u64, .always, true, .none⟩]⟩,
  -- peer PeerTransferReply.request
  ⟨.peer, .request, 4, 41, false, false,
    [⟨.prim .u32, .always, false, .missing⟩,
     ⟨.prim .bool, .always, false, .missing⟩,
     ⟨.prim .u64, .ifTrue 1, true, .none⟩,
     ⟨.prim .str, .ifFalse 1, true, .none⟩]⟩,
  -- peer PeerTransferQueue.request
  ⟨.peer, .request, 4, 43, false, false,
    [⟨.prim .str, .always, false, .missing⟩]⟩,
  -- peer PeerPlaceInQueueReply.request
  ⟨.peer, .request, 4, 44, false, false,
    [⟨.prim .str, .always, false, .missing⟩,
     ⟨.prim .u32, .always, false, .missing⟩]⟩,
  -- peer PeerUploadFailed.request
  ⟨.peer, .request, 4, 46, false, false,
    [⟨.prim .str, .always, false, .missing⟩]⟩,
  -- peer PeerTransferQueueFailed.request
  ⟨.peer, .request, 4, 50, false, false,
    [⟨.prim .str, .always, false, .missing⟩,
     ⟨.prim .str, .always, false, .missing⟩]⟩,
  -- peer PeerPlaceInQueueRequest.request
  ⟨.peer, .request, 4, 51, false, false,
    [⟨.prim .str, .always, false, .missing⟩]⟩,
  -- peer PeerUploadQueueNotification.request
  ⟨.peer, .request, 4, 52, false, false,
    []⟩,
  -- distributed DistributedPing.request
  ⟨.distributed, .request, 1, 0, false, false,
    []⟩,
  -- distributed DistributedInit.request
  ⟨.distributed, .request, 1, 1, false, false,
    [⟨.prim .u32, .always, false, .missing⟩,
     ⟨.prim .u32, .always, false, .missing⟩,
     ⟨.prim .u8, .always, false, .missing⟩,
     ⟨.prim .u32, .always, false, .missing⟩]⟩,
  -- distributed DistributedSearchRequest.request
  ⟨.distributed, .request, 1, 3, false, false,
    [⟨.prim .u32, .always, false, .missing⟩,
     ⟨.prim .str, .always, false, .missing⟩,
     ⟨.prim .u32, .always, false, .missing⟩,
     ⟨.prim .str, .always, false, .missing⟩]⟩,
  -- distributed DistributedBranchLevel.request
  ⟨.distributed, .request, 1, 4, false, false,
    [⟨.prim .u32, .always, false, .missing⟩]⟩,
  -- distributed DistributedBranchRoot.request
  ⟨.distributed, .request, 1, 5, false, false,
    [⟨.prim .str, .always, false, .missing⟩]⟩,
  -- distributed DistributedChildDepth.request
  ⟨.distributed, .request, 1, 7, false, false,
    [⟨.prim .u32, .always, false, .missing⟩]⟩,
  -- distributed DistributedServerSearchRequest.request
  ⟨.distributed, .request, 4, 93, false, false,
    [⟨.prim .u8, .always, false, .missing⟩,
     ⟨.prim .u32, .always, false, .missing⟩,
     ⟨.prim .str, .always, false, .missing⟩,
     ⟨.prim .u32, .always, false, .missing⟩,
     ⟨.prim .str, .always, false, .missing⟩]⟩
]

end AioslskVerif.Spec.Pinned
