import AioslskVerif.Model.Entitle
/-!
The property's vocabulary for C08 (our reading of the statement, see DESIGN.md "### C08"): who is
entitled to a remote path, what an upload entry point must guarantee, what a settled management
cycle must have done to one upload, which operations are the user's own re-queue.
-/
namespace AioslskVerif.Entitle
open AioslskVerif AioslskVerif.Transfer

/-- `u` is entitled to the remote path `p`: it is exactly the remote path of an indexed item whose
shared directory is not locked for `u`. -/
def Entitled (c : Cfg) (sh : Shares.St Comp) (u : Name) (p : List Ch) : Prop :=
  ∃ it ∈ sh.items, remotePath c it = p ∧ locked c it.sd u = false

/-- no two indexed items have the same remote path (no alias collision) -/
def UniquePaths (c : Cfg) (sh : Shares.St Comp) : Prop :=
  ∀ a ∈ sh.items, ∀ b ∈ sh.items, remotePath c a = remotePath c b → a = b

/-- what both entry points guarantee about their result `r` -/
def AdmitSound (c : Cfg) (sh : Shares.St Comp) (xs : List Xfer) (u : Name) (p : List Ch) (r : List Xfer × Option FailR) : Prop :=
  -- an upload that is QUEUED afterwards and was not there as such before: the user is not blocked
  -- for uploads and is entitled to exactly the requested path; it is an upload of that path to that user
  (∀ x' ∈ r.1, x' ∉ xs → x'.state = .queued →
      isBlocked c u 32 = false ∧ Entitled c sh u p ∧ x'.user = u ∧ x'.path = p) ∧
  -- an upload object is created only under the same condition; none is ever dropped
  (xs.length < r.1.length → isBlocked c u 32 = false ∧ Entitled c sh u p) ∧ xs.length ≤ r.1.length ∧
  -- a blocked or not entitled user is told "File not shared."
  ((isBlocked c u 32 = true ∨ ¬ Entitled c sh u p) → r.2 = some .notShared)

/-- what the property demands of one upload across a settled management cycle -/
def Reconciled (c : Cfg) (sh : Shares.St Comp) (x x' : Xfer) : Prop :=
  x'.user = x.user ∧ x'.path = x.path ∧
  -- aborted on the user's request: stays
  (x.state = .aborted → x.reason = some .requested → x' = x) ∧
  (x.reason ≠ some .requested →
    -- no longer permitted: ABORTED with the matching reason, Blocked first
    (isBlocked c x.user 32 = true → x'.state = .aborted ∧ x'.reason = some .blocked) ∧
    (isBlocked c x.user 32 = false → ¬ Entitled c sh x.user x.path →
        x'.state = .aborted ∧ x'.reason = some .notShared) ∧
    -- permitted: queued again if it was aborted (only for such a reason), else untouched
    (isBlocked c x.user 32 = false → Entitled c sh x.user x.path → x.state = .aborted →
        x'.state = .queued ∧ x'.reason = none) ∧
    (isBlocked c x.user 32 = false → Entitled c sh x.user x.path → x.state ≠ .aborted → x' = x))

/-- ops by which the user himself takes upload `k` out of ABORTED -/
def Op.requeues (k : Nat) : Op → Bool
  | .userQueue k' => k' = k
  | .meth k' m => k' = k && m = .queue
  | .beginCall k' c _ => k' = k && c.m = .queue
  | _ => false


/-- ops that neither call a state method of upload `k` nor release its lock (a peer's request may
name any upload: left out) -/
def Op.leaves (k : Nat) : Op → Bool
  | .meth k' _ => k' ≠ k
  | .userAbort k' => k' ≠ k
  | .userQueue k' => k' ≠ k
  | .beginCall k' _ _ => k' ≠ k
  | .endCall k' => k' ≠ k
  | .queueReq _ _ => false
  | .xferReq _ _ => false
  | _ => true

/-- everything `Entitled` and "blocked for uploads" depend on: friends, block list, the shared
directories (alias, share mode, users) and the indexed items -/
def entitlementInputs (s : S) : List Name × List (Name × Nat) × List DirInfo × List SItem :=
  (s.cfg.friends, s.cfg.blocked, s.cfg.dirs, s.sh.items)

/-- the same with the friends / block list **as announced**: the two settings are polled by the user
manager (every second), what the rest of the client has been told of them is the copy the polling
job took when it last emitted its events -/
def announcedInputs (s : S) : List Name × List (Name × Nat) × List DirInfo × List SItem :=
  (s.seenFriends, s.seenBlocked, s.cfg.dirs, s.sh.items)

/-- a change no management cycle has seen yet: announced (the shares-changed flag is set) or still to
be announced by the next poll (a polled setting differs from the user manager's copy) -/
def pending (s : S) : Bool :=
  s.sharesChanged || s.cfg.friends != s.seenFriends || s.cfg.blocked != s.seenBlocked

/-- Known finding `C08-settings-flip-within-poll-interval`: the op puts a polled setting back to the
value the user manager last saw, while nothing else is pending — the excursion is never announced,
whatever was admitted or reconciled against the transient value is not evaluated again. -/
def flipsBack (s : S) : Op → Bool
  | .mutFriends l =>
    !s.sharesChanged && s.cfg.blocked == s.seenBlocked && l == s.seenFriends && s.cfg.friends != l
  | .mutBlocked l =>
    !s.sharesChanged && s.cfg.friends == s.seenFriends && l == s.seenBlocked && s.cfg.blocked != l
  | _ => false

/-- no op of the list is such a flip-back in the state in which it runs -/
def noFlipBack (s : S) : List Op → Bool
  | [] => true
  | o :: l => !flipsBack s o && noFlipBack (step s o).1 l

end AioslskVerif.Entitle
