import AioslskVerif.Model.Dist
/-!
Line protocol for K_C13 (names are numbers, 0 = the logged-in user; connection ids = creation order).
  `new`                 fresh manager                                             → `ok`
  `session`             (re)connect the server connection + SessionInitialized    → status `ok` | `already`
  `lost`                server connection CLOSED + SessionDestroyed               → `ok` | `no-server`
  `pp n…`               PotentialParents, every entry reachable (one requested connection each)
  `in n`                incoming distributed connection of user n
  `level c v` `root c n` `close c`                                                → `ok` | `no-conn`
  `minspeed v` `ratio v` `stats n speed` `reset`                                  → `ok` | `no-server`
Every op line answers `<status> <state>`; the state rendering must match `props/c13.py:_canon_line`.
-/
open AioslskVerif.Dist

def optS (o : Option Nat) : String := match o with | some n => toString n | none => "-"
def boolS (b : Bool) : String := if b then "1" else "0"
def optB (o : Option Bool) : String := match o with | some b => boolS b | none => "-"

def render (s : DState) : String :=
  let peers := s.live.map fun c =>
    s!"{c}:{s.name c}:{optS (s.level c)}:{optS (s.root c)}:{optS (s.toldL c)}:{optS (s.toldR c)}:{s.nL c}:{s.nR c}"
  let ts := match s.toldServer with
    | some (a, b) => s!"{a.level},{a.root},{boolS b}"
    | none => "-,-,-"
  s!"S={boolS s.session.isSome} P={optS s.parent} C=[{",".intercalate (s.children.map toString)}] " ++
  s!"D=[{" ".intercalate peers}] pot=[{",".intercalate (s.potential.map toString)}] " ++
  s!"A={boolS s.accept} M={s.maxChildren} ms={optS s.minSpeed} r={optS s.ratio} TS={ts} " ++
  s!"nN={s.nNotify},{s.nNotify},{s.nNotify} AC={optB s.lastAccept} nAC={s.nAccept} nGUS={s.nStatsReq}"

def nats (ws : List String) : Option (List Nat) := ws.mapM String.toNat?

def withServer (s : DState) (ops : List Op) : DState × String :=
  if s.session.isSome then (ops.foldl step s, "ok") else (s, "no-server")

def withConn (s : DState) (c : Nat) (op : Op) : DState × String :=
  if c ∈ s.live then (step s op, "ok") else (s, "no-conn")

def handle (s : DState) (line : String) : DState × String :=
  match (line.splitOn " ").filter (· ≠ "") with
  | ["new"] => (init, "new")
  | ["session"] =>
    if s.session.isSome then (s, "already")
    else ([Op.serverStateChange, Op.sessionInit 0].foldl step s, "ok")
  | ["lost"] => withServer s [.serverStateChange, .sessionDestroyed]
  | "pp" :: ws =>
    match nats ws with
    | some ns => withServer s (Op.potentialParents ns :: ns.map (fun n => Op.initialized n true))
    | none => (s, "bad-op")
  | ["in", n] =>
    match n.toNat? with
    | some n => (step s (.initialized n false), "ok")
    | none => (s, "bad-op")
  | ["level", c, v] =>
    match c.toNat?, v.toNat? with
    | some c, some v => withConn s c (.level c v)
    | _, _ => (s, "bad-op")
  | ["root", c, n] =>
    match c.toNat?, n.toNat? with
    | some c, some n => withConn s c (.root c n)
    | _, _ => (s, "bad-op")
  | ["close", c] =>
    match c.toNat? with
    | some c => withConn s c (.closed c)
    | none => (s, "bad-op")
  | ["minspeed", v] =>
    match v.toNat? with
    | some v => withServer s [.minSpeed v]
    | none => (s, "bad-op")
  | ["ratio", v] =>
    match v.toNat? with
    | some v => withServer s [.speedRatio v]
    | none => (s, "bad-op")
  | ["stats", n, v] =>
    match n.toNat?, v.toNat? with
    | some n, some v => withServer s [.userStats n v]
    | _, _ => (s, "bad-op")
  | ["reset"] => withServer s [.resetDistributed]
  | _ => (s, "bad-op")

partial def loop (h : IO.FS.Stream) (s : DState) : IO Unit := do
  let line ← h.getLine
  if line.isEmpty then return ()
  let (s', st) := handle s line.trimAscii.toString
  if st == "new" then IO.println "ok" else IO.println s!"{st} {render s'}"
  loop h s'

def main : IO Unit := do
  loop (← IO.getStdin) init
