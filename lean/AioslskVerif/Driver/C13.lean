import AioslskVerif.Model.DistSusp
/-!
Line protocol for K_C13 (names are numbers, 0 = the logged-in user; connection ids = creation order).
  `new`                 fresh manager                                             → `ok`
  `session`             (re)connect the server connection + SessionInitialized    → status `ok` | `already`
  `lost`                server connection CLOSED + SessionDestroyed, then the old server socket lets go of the
                        handlers suspended in it                                  → `ok` | `no-server` | `busy`
  `pp n…`               PotentialParents, every entry reachable (one requested connection each)
  `in n`                incoming distributed connection of user n
  `ine n [L<v>|R<n>]…`  the same, the listed branch values announced right behind the PeerInit (= `in n`, then the
                        announcements in order); not while the server socket is blocked      → `ok` | `unsupported`
  `ppe n [L<v>|R<n>]…`  PotentialParents with the single entry n whose remote end announces the listed branch values
                        by itself as soon as the connection stands (= `pp n`, then the announcements in order on the new
                        connection); not while the server socket is blocked                → `ok` | `no-server` | `unsupported`
  `level c v` `root c n` `close c`                                                → `ok` | `no-conn` | `busy`
  `minspeed v` `ratio v` `stats n speed` `reset`                                  → `ok` | `no-server` | `busy`
  `sblock`              the server socket stops draining (`XOp.srvBlock`)         → `ok` | `no-server`
  `srelease`            it drains again (`XOp.srvRelease`)                        → `ok` | `no-gate`
  `arm c`               the socket of connection c is dead, the next write fails  → `ok` | `no-conn`
  `cblock c` `crelease c`  the socket of connection c stops / resumes draining    → `ok` | `no-conn`
Every op line answers `<status> <state>`; the state rendering must match `props/c13.py:_canon_line`.

`busy`: the events of one connection (and of the server) are handled one after the other by that connection's reader
task. While a handler it started is suspended in a send to the server, the source delivers nothing: the harness does
not issue such an op (it sees that the reader is not waiting for data), the driver answers `busy` in the same
situations — a handler is suspended exactly when it wrote to the server while the server socket did not drain.
-/
open AioslskVerif.Dist

def optS (o : Option Nat) : String := match o with | some n => toString n | none => "-"
def boolS (b : Bool) : String := if b then "1" else "0"
def optB (o : Option Bool) : String := match o with | some b => boolS b | none => "-"

def render (s : DState) : String :=
  let peers := s.live.map fun c =>
    s!"{c}:{s.name c}:{optS (s.level c)}:{optS (s.root c)}:{optS (s.toldL c)}:{optS (s.toldR c)}:{s.nL c}:{s.nR c}"
  let ts := match s.toldServer with
    | some (a, b) => s!"{a.level},{a.root},{boolS b}"
    | none => "-,-,-"
  s!"S={boolS s.session.isSome} P={optS s.parent} C=[{",".intercalate (s.children.map toString)}] " ++
  s!"D=[{" ".intercalate peers}] pot=[{",".intercalate (s.potential.map toString)}] " ++
  s!"A={boolS s.accept} M={s.maxChildren} ms={optS s.minSpeed} r={optS s.ratio} TS={ts} " ++
  s!"nN={s.nNotify},{s.nNotify},{s.nNotify} AC={optB s.lastAccept} nAC={s.nAccept} nGUS={s.nStatsReq}"

def nats (ws : List String) : Option (List Nat) := ws.mapM String.toNat?

structure Drv where
  x : XState := XState.init
  /-- the server connection's reader is inside a suspended handler -/
  busySrv : Bool := false
  /-- distributed connections whose reader is inside a suspended handler -/
  busy : List ConnId := []

/-- did the handler(s) just run get suspended? (they wrote to the server while its socket does not drain) -/
def suspended (x x' : XState) : Bool := x.srvBlocked && decide (x'.d.serverFrames > x.d.serverFrames)

def withServer (s : Drv) (ops : List Op) : Drv × String :=
  if s.x.d.session.isNone then (s, "no-server")
  else if s.busySrv then (s, "busy")
  else
    let x' := ops.foldl (fun x op => xstep x (.base op)) s.x
    ({ s with x := x', busySrv := suspended s.x x' }, "ok")

def aliveB (x : XState) (c : Nat) : Bool := decide (c ∈ x.d.live ∧ c ∉ x.closing)

def withConn (s : Drv) (c : Nat) (op : Op) : Drv × String :=
  if !aliveB s.x c then (s, "no-conn")
  else if c ∈ s.busy then (s, "busy")
  else
    let x' := xstep s.x (.base op)
    ({ s with x := x', busy := if suspended s.x x' then c :: s.busy else s.busy }, "ok")

def onConn (s : Drv) (c : Nat) (op : XOp) : Drv × String :=
  if aliveB s.x c then ({ s with x := xstep s.x op }, "ok") else (s, "no-conn")

/-- `L<v>` = DistributedBranchLevel(v), `R<n>` = DistributedBranchRoot(name n), sent on connection `c` -/
def anns (c : Nat) (ws : List String) : Option (List Op) :=
  ws.mapM fun w =>
    match w.toList with
    | 'L' :: r => (String.ofList r).toNat?.map (Op.level c ·)
    | 'R' :: r => (String.ofList r).toNat?.map (Op.root c ·)
    | _ => none

def handle (s : Drv) (line : String) : Drv × String :=
  match (line.splitOn " ").filter (· ≠ "") with
  | ["new"] => ({}, "new")
  | ["session"] =>
    if s.x.d.session.isSome then (s, "already")
    else ({ s with x := [Op.serverStateChange, Op.sessionInit 0].foldl (fun x op => xstep x (.base op)) s.x }, "ok")
  | ["lost"] =>
    if s.x.d.session.isNone then (s, "no-server")
    else if s.busySrv then (s, "busy")
    else
      ({ x := [XOp.base .serverStateChange, .base .sessionDestroyed, .srvRelease].foldl xstep s.x }, "ok")
  | "pp" :: ws =>
    match nats ws with
    | some ns => withServer s (Op.potentialParents ns :: ns.map (fun n => Op.initialized n true))
    | none => (s, "bad-op")
  | "ppe" :: n :: ws =>
    -- one proposed parent that announces itself as soon as the connection stands: the same handlers, one after the
    -- other (what happens inside the connection request meanwhile is not part of this model)
    match n.toNat?, anns s.x.d.nextConn ws with
    | some n, some as =>
      if s.x.d.session.isNone then (s, "no-server")
      else if s.x.srvBlocked then (s, "unsupported")
      else
        let (s1, st) := withServer s [Op.potentialParents [n], Op.initialized n true]
        if st != "ok" then (s1, st)
        else ({ s1 with x := as.foldl (fun x op => xstep x (.base op)) s1.x }, "ok")
    | _, _ => (s, "bad-op")
  | "ine" :: n :: ws =>
    -- an incoming connection whose announcements lie in the socket right behind its PeerInit
    match n.toNat?, anns s.x.d.nextConn ws with
    | some n, some as =>
      if s.x.srvBlocked then (s, "unsupported")
      else ({ s with x := as.foldl (fun x op => xstep x (.base op)) (xstep s.x (.base (.initialized n false))) }, "ok")
    | _, _ => (s, "bad-op")
  | ["in", n] =>
    match n.toNat? with
    | some n => ({ s with x := xstep s.x (.base (.initialized n false)) }, "ok")
    | none => (s, "bad-op")
  | ["level", c, v] =>
    match c.toNat?, v.toNat? with
    | some c, some v => withConn s c (.level c v)
    | _, _ => (s, "bad-op")
  | ["root", c, n] =>
    match c.toNat?, n.toNat? with
    | some c, some n => withConn s c (.root c n)
    | _, _ => (s, "bad-op")
  | ["close", c] =>
    match c.toNat? with
    | some c => withConn s c (.closed c)
    | none => (s, "bad-op")
  | ["minspeed", v] =>
    match v.toNat? with
    | some v => withServer s [.minSpeed v]
    | none => (s, "bad-op")
  | ["ratio", v] =>
    match v.toNat? with
    | some v => withServer s [.speedRatio v]
    | none => (s, "bad-op")
  | ["stats", n, v] =>
    match n.toNat?, v.toNat? with
    | some n, some v => withServer s [.userStats n v]
    | _, _ => (s, "bad-op")
  | ["reset"] => withServer s [.resetDistributed]
  | ["sblock"] =>
    if s.x.d.session.isNone then (s, "no-server") else ({ s with x := xstep s.x .srvBlock }, "ok")
  | ["srelease"] =>
    if s.x.srvBlocked then ({ x := xstep s.x .srvRelease }, "ok") else (s, "no-gate")
  | ["arm", c] =>
    match c.toNat? with
    | some c => onConn s c (.arm c)
    | none => (s, "bad-op")
  | ["cblock", c] =>
    match c.toNat? with
    | some c => onConn s c (.childBlock c)
    | none => (s, "bad-op")
  | ["crelease", c] =>
    match c.toNat? with
    | some c => onConn s c (.childRelease c)
    | none => (s, "bad-op")
  | _ => (s, "bad-op")

partial def loop (h : IO.FS.Stream) (s : Drv) : IO Unit := do
  let line ← h.getLine
  if line.isEmpty then return ()
  let (s', st) := handle s line.trimAscii.toString
  if st == "new" then IO.println "ok" else IO.println s!"{st} {render s'.x.d}"
  loop h s'

def main : IO Unit := do
  loop (← IO.getStdin) {}
