import AioslskVerif.Model.Rooms
/-!
Line protocol for K_C19 (all names / texts are natural-number ids; `-` = none / empty list).

  `env <me> <blockedRoom,…> <blockedPriv,…>`   fresh managers, logged in as `me`          → `ok`
  `hold <u,…>`                                 the application takes a reference to these users
                                               (their views are printed from now on)        → state line
  `<message> <args…>`                          one notification through `Rooms.handle`      → `<err> | <events> | <state>`

State line: `R<id>:j<b>p<b>u[…]o<…>m[…]op[…]t[u=t,…]` per room (sorted), `U<id>:<14 fields>` per held user,
`PS[…]` (privileged-users set), `TL<n>`.
-/
open AioslskVerif.Rooms

def insSortBy {α : Type} (key : α → Nat) : List α → List α
  | [] => []
  | a :: t => ins a (insSortBy key t)
where ins (a : α) : List α → List α
  | [] => [a]
  | b :: t => if key a ≤ key b then a :: b :: t else b :: ins a t

def sortNat (l : List Nat) : List Nat := insSortBy id l
def sortDedup (l : List Nat) : List Nat := (sortNat l).eraseDups

def showList (l : List Nat) : String := "[" ++ ",".intercalate (l.map toString) ++ "]"
def showOpt : Option Nat → String
  | none => "-"
  | some n => toString n
def showOptB : Option Bool → String
  | none => "-"
  | some true => "1"
  | some false => "0"
def showB (b : Bool) : String := if b then "1" else "0"
def showPairs (l : List (Nat × Nat)) : String :=
  "[" ++ ",".intercalate ((insSortBy (·.1) l).map (fun p => s!"{p.1}={p.2}")) ++ "]"

def showUser (x : User) : String :=
  ",".intercalate [showOpt x.status, showB x.privileged, showOpt x.country, showOpt x.avgSpeed, showOpt x.uploads,
    showOpt x.files, showOpt x.dirs, showOpt x.slotsFree, showOptB x.hasSlotsFree, showOpt x.uploadSlots,
    showOpt x.queueLength, showOpt x.uploadPerms, showOpt x.descr, showOpt x.picture]

def showRoom (p : Nat × Room) : String :=
  let x := p.2
  s!"R{p.1}:j{showB x.joined}p{showB x.priv}u{showList (sortNat x.users)}o{showOpt x.owner}" ++
  s!"m{showList (sortDedup x.members)}op{showList (sortDedup x.operators)}t{showPairs x.tickers}"

def showState (s : State) (held : List Nat) : String :=
  " ".intercalate ((insSortBy (·.1) s.rooms).map showRoom ++ held.map (fun u => s!"U{u}:{showUser (s.getUser u)}") ++
    [s!"PS{showList (sortDedup s.privSet)}", s!"TL{s.timeLeft}"])

def showEv : Ev → String
  | .roomMessage r u t => s!"roomMessage:{r},{u},{t}"
  | .publicMessage r u t => s!"publicMessage:{r},{u},{t}"
  | .roomJoined r u => s!"roomJoined:{r},{showOpt u}"
  | .roomLeft r u => s!"roomLeft:{r},{showOpt u}"
  | .tickers r ts => s!"tickers:{r},{showPairs ts}"
  | .tickerAdded r u t => s!"tickerAdded:{r},{u},{t}"
  | .tickerRemoved r u => s!"tickerRemoved:{r},{u}"
  | .membershipGranted r u => s!"membershipGranted:{r},{showOpt u}"
  | .membershipRevoked r u => s!"membershipRevoked:{r},{showOpt u}"
  | .members r us => s!"members:{r},{showList (sortDedup us)}"
  | .operators r us => s!"operators:{r},{showList (sortDedup us)}"
  | .operatorGranted r u => s!"operatorGranted:{r},{showOpt u}"
  | .operatorRevoked r u => s!"operatorRevoked:{r},{showOpt u}"
  | .roomList rs => s!"roomList:{showList (sortNat rs)}"
  | .admin t => s!"admin:{t}"
  | .kicked => "kicked:"
  | .ack id => s!"ack:{id}"
  | .privateMessage id ts u t d => s!"privateMessage:{id},{ts},{u},{t},{showB d}"
  | .privilegesUpdate t => s!"privilegesUpdate:{t}"
  | .privilegedUsers us => s!"privilegedUsers:{showList (sortDedup us)}"
  | .privilegedUserAdded u => s!"privilegedUserAdded:{u}"
  | .userStatusUpdate u b c => s!"userStatusUpdate:{u};{showUser b};{showUser c}"
  | .userStatsUpdate u b c => s!"userStatsUpdate:{u};{showUser b};{showUser c}"
  | .userInfoUpdate u b c => s!"userInfoUpdate:{u};{showUser b};{showUser c}"

def showErr : Option Err → String
  | none => "ok"
  | some .badStatus => "bad-status"
  | some .badPerms => "bad-perms"

/-! parsing -/
def pList (s : String) : Option (List Nat) :=
  if s = "-" then some [] else (s.splitOn ",").mapM (·.toNat?)
def pOpt (s : String) : Option (Option Nat) :=
  if s = "-" then some none else s.toNat?.map some
def pBool (s : String) : Option Bool :=
  if s = "1" then some true else if s = "0" then some false else none
def pPairs (s : String) : Option (List (Nat × Nat)) :=
  if s = "-" then some [] else (s.splitOn ",").mapM (fun t =>
    match t.splitOn "=" with
    | [a, b] => do pure ((← a.toNat?), (← b.toNat?))
    | _ => none)
def pStats (a b c d : String) : Option Stats := do
  pure { avgSpeed := ← a.toNat?, uploads := ← b.toNat?, files := ← c.toNat?, dirs := ← d.toNat? }
def pEntries (s : String) : Option (List Entry) :=
  if s = "-" then some [] else (s.splitOn ",").mapM (fun t =>
    match t.splitOn ":" with
    | [n, st, a, b, c, d, sl, co] => do
      pure { name := ← n.toNat?, status := ← st.toNat?, stats := ← pStats a b c d, slots := ← sl.toNat?, country := ← co.toNat? }
    | _ => none)

def pMsg : List String → Option Msg
  | ["roomChat", r, u, t] => do pure (.roomChat (← r.toNat?) (← u.toNat?) (← t.toNat?))
  | ["publicChat", r, u, t] => do pure (.publicChat (← r.toNat?) (← u.toNat?) (← t.toNat?))
  | ["userJoined", r, u, st, a, b, c, d, sl, co] => do
    pure (.userJoined (← r.toNat?) (← u.toNat?) (← st.toNat?) (← pStats a b c d) (← sl.toNat?) (← co.toNat?))
  | ["userLeft", r, u] => do pure (.userLeft (← r.toNat?) (← u.toNat?))
  | ["joinRoom", r, es, o, ops] => do pure (.joinRoom (← r.toNat?) (← pEntries es) (← pOpt o) (← pList ops))
  | ["leaveRoom", r] => do pure (.leaveRoom (← r.toNat?))
  | ["tickers", r, ts] => do pure (.tickers (← r.toNat?) (← pPairs ts))
  | ["tickerAdded", r, u, t] => do pure (.tickerAdded (← r.toNat?) (← u.toNat?) (← t.toNat?))
  | ["tickerRemoved", r, u] => do pure (.tickerRemoved (← r.toNat?) (← u.toNat?))
  | ["toggleInvites", b] => do pure (.toggleInvites (← pBool b))
  | ["grantMembership", r, u] => do pure (.grantMembership (← r.toNat?) (← u.toNat?))
  | ["membershipGranted", r] => do pure (.membershipGranted (← r.toNat?))
  | ["revokeMembership", r, u] => do pure (.revokeMembership (← r.toNat?) (← u.toNat?))
  | ["membershipRevoked", r] => do pure (.membershipRevoked (← r.toNat?))
  | ["members", r, us] => do pure (.members (← r.toNat?) (← pList us))
  | ["operators", r, us] => do pure (.operators (← r.toNat?) (← pList us))
  | ["operatorGranted", r] => do pure (.operatorGranted (← r.toNat?))
  | ["operatorRevoked", r] => do pure (.operatorRevoked (← r.toNat?))
  | ["grantOperator", r, u] => do pure (.grantOperator (← r.toNat?) (← u.toNat?))
  | ["revokeOperator", r, u] => do pure (.revokeOperator (← r.toNat?) (← u.toNat?))
  | ["roomList", a, b, c, d] => do pure (.roomList (← pList a) (← pList b) (← pList c) (← pList d))
  | ["admin", t] => do pure (.admin (← t.toNat?))
  | ["kicked"] => some .kicked
  | ["privateChat", i, ts, u, t, d] => do
    pure (.privateChat (← i.toNat?) (← ts.toNat?) (← u.toNat?) (← t.toNat?) (← pBool d))
  | ["checkPrivileges", t] => do pure (.checkPrivileges (← t.toNat?))
  | ["privilegedUsers", us] => do pure (.privilegedUsers (← pList us))
  | ["addPrivileged", u] => do pure (.addPrivileged (← u.toNat?))
  | ["addUser", u, "0"] => do pure (.addUser (← u.toNat?) false none none none)
  | ["addUser", u, "1", st, "-", co] => do pure (.addUser (← u.toNat?) true (← pOpt st) none (← pOpt co))
  | ["addUser", u, "1", st, a, b, c, d, co] => do
    pure (.addUser (← u.toNat?) true (← pOpt st) (some (← pStats a b c d)) (← pOpt co))
  | ["userStatus", u, st, pv] => do pure (.userStatus (← u.toNat?) (← st.toNat?) (← pBool pv))
  | ["userStats", u, a, b, c, d] => do pure (.userStats (← u.toNat?) (← pStats a b c d))
  | ["peerInfo", cu, de, pic, sl, q, f, pm] => do
    pure (.peerInfo (← pOpt cu) (← de.toNat?) (← pOpt pic) (← sl.toNat?) (← q.toNat?) (← pBool f) (← pOpt pm))
  | ["peerSearch", u, f, sp, q] => do pure (.peerSearch (← u.toNat?) (← pBool f) (← sp.toNat?) (← q.toNat?))
  | _ => none

structure D where
  env : Env := { me := 0, blockedRoom := [], blockedPriv := [] }
  st : State := {}
  held : List Nat := []

def step (d : D) (line : String) : D × String :=
  match (line.splitOn " ").filter (· ≠ "") with
  | ["env", me, br, bp] =>
    match me.toNat?, pList br, pList bp with
    | some me, some br, some bp => ({ env := { me := me, blockedRoom := br, blockedPriv := bp } }, "ok")
    | _, _, _ => (d, "bad-op")
  | ["hold", us] =>
    match pList us with
    | some us =>
      let st := us.foldl (fun s u => s.touchUser u) d.st
      ({ d with st := st, held := us }, showState st us)
    | none => (d, "bad-op")
  | toks =>
    match pMsg toks with
    | some m =>
      let o := handle d.env d.st m
      ({ d with st := o.st }, s!"{showErr o.err} | {";".intercalate (o.evs.map showEv)} | {showState o.st d.held}")
    | none => (d, "bad-op")

partial def loop (h : IO.FS.Stream) (d : D) : IO Unit := do
  let line ← h.getLine
  if line.isEmpty then return ()
  let (d', out) := step d line.trimAscii.toString
  IO.println out
  loop h d'

def main : IO Unit := do
  loop (← IO.getStdin) {}
