import AioslskVerif.Model.Search
/-!
Line protocol for K_C18 (one input line → one output line).

  `new <request_timeout> <wishlist_request_timeout> <store 0|1> <initial> <items>`   → `ok`
  `search net|room|user`      `wlmsg <n>`      `wlclose`      `remove <tk>`      `reply <tk>`
  `tcancel <tk>`              `tresched <tk> <n>`             `jump <d>`         `sleep <d>`
      → `<events> | live=<tickets> armed=<tickets> res=<tk:n,…> pend=<k> now=<t>`
  events (sorted): `<t>:S:<tk>` sent, `<t>:X:<tk>` removed, `<t>:R:<tk>` result, `<t>:E:<tk>` KeyError in a timer
  task, `KeyError` raised to the caller, `noreq` / `notimer`, `clobber`.
`sleep d` is executed as `Search.sleepOps d` with the same `step` the theorems are about.
-/
open AioslskVerif.Search

def obsKey : Obs → (Nat × Nat × Nat)
  | .sent t _ tk => (t, 2, tk)
  | .removed t _ tk _ _ => (t, 3, tk)
  | .result t _ tk => (t, 1, tk)
  | .loopErr t _ tk _ => (t, 0, tk)
  | .callerErr => (0, 4, 0)
  | .noReq => (0, 5, 0)
  | .noTimer => (0, 6, 0)
  | .clobber _ _ => (0, 7, 0)

def obsStr : Obs → String
  | .sent t _ tk => s!"{t}:S:{tk}"
  | .removed t _ tk _ _ => s!"{t}:X:{tk}"
  | .result t _ tk => s!"{t}:R:{tk}"
  | .loopErr t _ tk _ => s!"{t}:E:{tk}"
  | .callerErr => "KeyError"
  | .noReq => "noreq"
  | .noTimer => "notimer"
  | .clobber _ _ => "clobber"

def keyLe (a b : Nat × Nat × Nat) : Bool :=
  a.1 < b.1 || (a.1 == b.1 && (a.2.1 < b.2.1 || (a.2.1 == b.2.1 && a.2.2 ≤ b.2.2)))

def insertSorted (le : α → α → Bool) (x : α) : List α → List α
  | [] => [x]
  | y :: ys => if le x y then x :: y :: ys else y :: insertSorted le x ys

def sortBy (le : α → α → Bool) (l : List α) : List α := l.foldr (insertSorted le) []

def natsStr (l : List Nat) : String := ",".intercalate ((sortBy (fun a b => decide (a ≤ b)) l).map toString)

def summary (s : State) (obs : List Obs) : String :=
  -- several clobbers in one op print once
  let clob := obs.any (fun o => match o with | .clobber _ _ => true | _ => false)
  let obs := obs.filter (fun o => match o with | .clobber _ _ => false | _ => true)
  let evs := " ".intercalate ((sortBy (fun a b => keyLe (obsKey a) (obsKey b)) obs).map obsStr ++
    (if clob then ["clobber"] else []))
  let live := natsStr (s.requests.map (·.ticket))
  let armed := natsStr ((s.requests.filter (·.handle.isSome)).map (·.ticket))
  let res := ",".intercalate ((sortBy (fun (a b : Req) => decide (a.ticket ≤ b.ticket)) s.requests).map
    (fun r => s!"{r.ticket}:{r.results}"))
  s!"{evs} | live={live} armed={armed} res={res} pend={s.tasks.length} now={s.now}"

def parseInt (x : String) : Option Int :=
  if x.startsWith "-" then (x.drop 1).toNat?.map (fun n => - (n : Int)) else x.toNat?.map (fun n => (n : Int))

def ops (line : String) : Option (List Op) :=
  match (line.splitOn " ").filter (· ≠ "") with
  | ["search", "net"] => some [.search .network]
  | ["search", "room"] => some [.search .room]
  | ["search", "user"] => some [.search .user]
  | ["wlmsg", n] => match n.toNat? with
    | some (n + 1) => some [.wlInterval (n + 1)]
    | _ => none                 -- interval 0 makes the real wishlist task spin; outside the model
  | ["wlclose"] => some [.serverClosing]
  | ["remove", t] => t.toNat?.map fun t => [.remove t]
  | ["reply", t] => t.toNat?.map fun t => [.reply t]
  | ["tcancel", t] => t.toNat?.map fun t => [.timerCancel t]
  | ["tresched", t, n] => match t.toNat?, n.toNat? with
    | some t, some n => some [.timerReschedule t n]
    | _, _ => none
  | ["jump", d] => d.toNat?.map fun d => [.jump d]
  | ["sleep", d] => d.toNat?.map sleepOps
  | _ => none

def handle (s : State) (line : String) : State × String :=
  match (line.splitOn " ").filter (· ≠ "") with
  | ["new", rt, wt, st, ini, items] =>
    match parseInt rt, parseInt wt, st.toNat?, ini.toNat?, items.toNat? with
    | some rt, some wt, some st, some ini, some items =>
      (init { requestTimeout := rt, wishlistTimeout := wt, storeResults := st != 0, initial := ini, items := items }, "ok")
    | _, _, _, _, _ => (s, "bad-op")
  | _ =>
    match ops line with
    | none => (s, "unsupported")
    | some l => let r := run s l; (r.1, summary r.1 r.2)

partial def loop (h : IO.FS.Stream) (s : State) : IO Unit := do
  let line ← h.getLine
  if line.isEmpty then return ()
  let (s', out) := handle s line.trimAscii.toString
  IO.println out
  loop h s'

def main : IO Unit := do
  loop (← IO.getStdin) (init { requestTimeout := 0, wishlistTimeout := -1, storeResults := true, initial := 1, items := 0 })
