import AioslskVerif.Model.Search
/-!
Line protocol for K_C18 (one input line → one output line).

  `new <request_timeout> <wishlist_request_timeout> <store 0|1> <initial> <items> [<removal listeners>]`   → `ok`
  `search net|room|user`      `wlmsg <n>`      `wlclose`      `remove <tk>`      `reply <tk>`
  `tcancel <tk>`              `tresched <tk> <n>`             `jump <d>`         `sleep <d>`
  `stop`                      `resume <tk>`       `tick [<n>]`    `gate 0|1`
  `sendok <tk>`               `sendfail <tk>`     `ccancel <tk>`          `sessdown`      `sessup`
      → `<events> | live=<tickets> armed=<tickets> res=<tk:n,…> pend=<k> [rep=<tk:told,…>] setup=<tickets> sess=<0|1> now=<t>`
  events (sorted): `<t>:S:<tk>` sent, `<t>:X:<tk>` removed, `<t>:R:<tk>` result, `<t>:E:<tk>` KeyError in a timer
  task, `<t>:T<i>:<tk>` removal listener `i` called, `<t>:A<i>:<tk>` report aborted after `i` listeners,
  `KeyError` raised to the caller, `noreq` / `notimer` / `noemit` / `nosetup`, `clobber`.
`setup` lists the tickets of the set-ups whose send is still blocked; `sess` is `_session is not None`.
`sleep d` is executed as `Search.sleepOps d`, `stop` as `Search.stopOps`, with the same `step` / `nstep` the theorems
are about; `resume tk` = `NOp.resume` of the report for that ticket, then the loop runs (`settle`).
`pend` counts the timer tasks that have not finished: the pending ones and those still reporting a removal.
-/
open AioslskVerif.Search

/-- sort key of an event token: (time, class, ticket); `none` = not an event (printed after the events) -/
def obsKey : NObs → Option (Nat × Nat × Nat)
  | .base (.sent t _ tk) => some (t, 2, tk)
  | .base (.removed t _ tk _ _) => some (t, 3, tk)
  | .base (.result t _ tk) => some (t, 1, tk)
  | .base (.loopErr t _ tk _) => some (t, 0, tk)
  | .told t _ tk _ => some (t, 4, tk)
  | .aborted t _ tk _ => some (t, 5, tk)
  | _ => none

def obsStr : NObs → String
  | .base (.sent t _ tk) => s!"{t}:S:{tk}"
  | .base (.removed t _ tk _ _) => s!"{t}:X:{tk}"
  | .base (.result t _ tk) => s!"{t}:R:{tk}"
  | .base (.loopErr t _ tk _) => s!"{t}:E:{tk}"
  | .told t _ tk i => s!"{t}:T{i}:{tk}"
  | .aborted t _ tk i => s!"{t}:A{i}:{tk}"
  | .finished _ _ _ => ""
  | .base .callerErr => "KeyError"
  | .base .noReq => "noreq"
  | .base .noTimer => "notimer"
  | .base .noSetup => "nosetup"
  | .noEmission => "noemit"
  | .base (.clobber _ _) => "clobber"

def keyLe (a b : Nat × Nat × Nat) : Bool :=
  a.1 < b.1 || (a.1 == b.1 && (a.2.1 < b.2.1 || (a.2.1 == b.2.1 && a.2.2 ≤ b.2.2)))

def insertSorted (le : α → α → Bool) (x : α) : List α → List α
  | [] => [x]
  | y :: ys => if le x y then x :: y :: ys else y :: insertSorted le x ys

def sortBy (le : α → α → Bool) (l : List α) : List α := l.foldr (insertSorted le) []

def natsStr (l : List Nat) : String := ",".intercalate ((sortBy (fun a b => decide (a ≤ b)) l).map toString)

def summary (ns : NState) (obs : List NObs) : String :=
  let s := ns.base
  -- several clobbers in one op print once; `finished` is seen through `pend` / `rep` only
  let clob := obs.any (fun o => match o with | .base (.clobber _ _) => true | _ => false)
  let obs := obs.filter (fun o => match o with | .base (.clobber _ _) => false | .finished _ _ _ => false | _ => true)
  let evs := obs.filter (fun o => (obsKey o).isSome)
  let rest := obs.filter (fun o => (obsKey o).isNone)
  let toks := (sortBy (fun a b => keyLe ((obsKey a).getD (0, 0, 0)) ((obsKey b).getD (0, 0, 0))) evs).map obsStr ++
    rest.map obsStr ++ (if clob then ["clobber"] else [])
  let live := natsStr (s.requests.map (·.ticket))
  let armed := natsStr ((s.requests.filter (·.handle.isSome)).map (·.ticket))
  let res := ",".intercalate ((sortBy (fun (a b : Req) => decide (a.ticket ≤ b.ticket)) s.requests).map
    (fun r => s!"{r.ticket}:{r.results}"))
  let rep := if ns.listeners = 0 then "" else
    " rep=" ++ ",".intercalate ((sortBy (fun (a b : Emission) => decide (a.ticket ≤ b.ticket)) ns.reporting).map
      (fun e => s!"{e.ticket}:{e.told}"))
  let setup := natsStr ((s.pending.filter (·.outcome.isNone)).map (·.ticket))
  s!"{" ".intercalate toks} | live={live} armed={armed} res={res} pend={s.tasks.length + ns.reporting.length}{rep} setup={setup} sess={if s.session then 1 else 0} now={s.now}"

def parseInt (x : String) : Option Int :=
  if x.startsWith "-" then (x.drop 1).toNat?.map (fun n => - (n : Int)) else x.toNat?.map (fun n => (n : Int))

def ops (s : NState) (line : String) : Option (List NOp) :=
  match (line.splitOn " ").filter (· ≠ "") with
  | ["search", "net"] => some [.base (.search .network)]
  | ["search", "room"] => some [.base (.search .room)]
  | ["search", "user"] => some [.base (.search .user)]
  | ["wlmsg", n] => match n.toNat? with
    | some (n + 1) => some [.base (.wlInterval (n + 1))]
    | _ => none                 -- interval 0 makes the real wishlist task spin; outside the model
  | ["wlclose"] => some [.base .serverClosing]
  | ["remove", t] => t.toNat?.map fun t => [.base (.remove t)]
  | ["reply", t] => t.toNat?.map fun t => [.base (.reply t)]
  | ["tcancel", t] => t.toNat?.map fun t => [.base (.timerCancel t)]
  | ["tresched", t, n] => match t.toNat?, n.toNat? with
    | some t, some n => some [.base (.timerReschedule t n)]
    | _, _ => none
  | ["jump", d] => d.toNat?.map fun d => [.base (.jump d)]
  | ["sleep", d] => d.toNat?.map fun d => (sleepOps d).map .base
  | ["stop"] => some ((stopOps s.base).map .base)
  | ["tick"] => some [.base .tick]
  | ["tick", n] => n.toNat?.map fun n => List.replicate n (.base .tick)
  | ["gate", "0"] => some [.base (.gate false)]
  | ["gate", "1"] => some [.base (.gate true)]
  | ["sendok", t] => t.toNat?.map fun t => [.base (.sendDone t true)]
  | ["sendfail", t] => t.toNat?.map fun t => [.base (.sendDone t false)]
  | ["ccancel", t] => t.toNat?.map fun t => [.base (.cancelCall t)]
  | ["sessdown"] => some [.base .sessionDestroyed]
  | ["sessup"] => some [.base .sessionInitialized]
  | ["resume", t] => t.toNat?.map fun t =>
    -- the report for the request announced with ticket `t`; an unknown one resumes nothing (`noemit`)
    [.resume (((s.reporting.find? (·.ticket = t)).map (·.rid)).getD 0), .base .settle]
  | _ => none

def mkCfg (rt wt st ini items : String) : Option Cfg :=
  match parseInt rt, parseInt wt, st.toNat?, ini.toNat?, items.toNat? with
  | some rt, some wt, some st, some ini, some items =>
    some { requestTimeout := rt, wishlistTimeout := wt, storeResults := st != 0, initial := ini, items := items }
  | _, _, _, _, _ => none

def handle (s : NState) (line : String) : NState × String :=
  match (line.splitOn " ").filter (· ≠ "") with
  | ["new", rt, wt, st, ini, items] =>
    match mkCfg rt wt st ini items with
    | some c => (ninit c 0, "ok")
    | none => (s, "bad-op")
  | ["new", rt, wt, st, ini, items, nl] =>
    match mkCfg rt wt st ini items, nl.toNat? with
    | some c, some nl => (ninit c nl, "ok")
    | _, _ => (s, "bad-op")
  | _ =>
    match ops s line with
    | none => (s, "unsupported")
    | some l => let r := nrun s l; (r.1, summary r.1 r.2)

partial def loop (h : IO.FS.Stream) (s : NState) : IO Unit := do
  let line ← h.getLine
  if line.isEmpty then return ()
  let (s', out) := handle s line.trimAscii.toString
  IO.println out
  loop h s'

def main : IO Unit := do
  loop (← IO.getStdin)
    (ninit { requestTimeout := 0, wishlistTimeout := -1, storeResults := true, initial := 1, items := 0 } 0)
