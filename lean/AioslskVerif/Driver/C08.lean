import AioslskVerif.Model.Entitle
/-!
Line protocol for K_C08 (characters = code points, user names = numbers, path components = lists of
code points; paths: components joined by `/`, a component = code points joined by `,`, root = `.`).

  `new <cap>`                                    fresh state, `max_results = cap`                         → `ok`
  `cls <cp> <isWord> <fold> <isSpace>`           what Python says about a character                       → `ok`
  `friends <u,u,…|->`  `blocked <u:bits,…|->`    settings replaced + change event                          → `ok`
  `share <path> <alias> <mode> <files>`          add_shared_directory + scan_directory_files               → result enum
  `unshare <path>`   `mode <path> <mode>`        mode = `everyone` | `friends` | `users:<u,u,…|->`        → result enum
  `phrases <cps;cps;…|->`                        `_` = the empty phrase                                    → `ok`
  `search <u> <cps>`                             → `none` | `n=<size of the capped reply>|vis=<all visible>|locked=<all locked>`
  `shares <u>`                                   → `none` | `vis=<listing>|locked=<listing>`
  `dir <u> <cps>`                                → `none` | `empty` | `<files of the directory>`
  `queue <u> <cps>`  `treq <u> <cps>`            → `reply=<-|REASON>|<uploads>`
  `cycle`                                        → `<uploads>`
  `meth <k> <method>`  `abort <k>`  `requeue <k>` → `<changed|refused|no-such-upload>|<uploads>`
  `sfriends <u,u,…|->`  `sblocked <u:bits,…|->`  settings changed (assigned / mutated in place), nothing emitted → `<uploads>`
  `poll`                                         one run of the user manager's polling job                → `<uploads>`
  `reload <files> (<path> <alias> <mode>)*`      settings.shares.directories := the entries, load_from_settings(),
                                                 scan_directory_files of each                              → result enum | `outside`
  `scan <files>`                                 SharesManager.scan()                                      → `<uploads>`
  `show`                                         → `<uploads>`
  `begin <k> <method|abort|requeue> <cancel|notify>`  the call made and suspended while it holds the upload's state lock
                                                 → `<suspended|changed|refused|waiting|no-such-upload>|<uploads>`
  `end <k>`                                      the suspended call goes on, the waiting calls follow
                                                 → `ended:<c|r per call of the user / the task, in order>|<uploads>` | `not-in-flight|<uploads>`
with a state lock held: `meth` / `abort` / `requeue` → `waiting|<uploads>`, `cycle` → `busy|<uploads>` while the job waits,
`queue` / `treq` naming that upload → `reply=busy|<uploads>`.
Lists of users / blocked entries must be strictly increasing (canonical form of the Python set / dict), else `bad-op`.
uploads = `flag=<0|1>|job=<0|1>|` (shares-changed flag, `_management_job` suspended in `manage_shares_changed`) then
`<user>:<path cps>:<STATE>:<abort reason|->` per upload, in list order.
-/
open AioslskVerif AioslskVerif.Shares AioslskVerif.Entitle AioslskVerif.Transfer

structure DSt where
  tab : List (Nat × (Bool × Nat × Bool)) := []
  s : S := { cls := { isWord := fun _ => false, fold := id, isSpace := fun _ => false, star := 42, dash := 45 } }

def mkCls (tab : List (Nat × (Bool × Nat × Bool))) : Query.Cls Nat where
  isWord c := match tab.lookup c with | some (w, _, _) => w | none => false
  fold c := match tab.lookup c with | some (_, f, _) => f | none => c
  isSpace c := match tab.lookup c with | some (_, _, s) => s | none => false
  star := 42
  dash := 45

def parseCps (s : String) : Option (List Nat) :=
  if s.isEmpty then some [] else (s.splitOn ",").mapM (·.toNat?)

def parsePath (s : String) : Option (List Comp) :=
  if s == "." then some [] else (s.splitOn "/").mapM parseCps

def parseFiles (s : String) : Option (List (File Comp)) :=
  if s == "-" then some [] else
  (s.splitOn ";").mapM fun f => do
    let comps ← parsePath f
    match comps.reverse with
    | [] => none
    | n :: d => some { dir := d.reverse, name := n }

def increasing : List Nat → Bool
  | a :: b :: l => a < b && increasing (b :: l)
  | _ => true

def parseNats (s : String) : Option (List Nat) := if s == "-" then some [] else parseCps s

/-- a user list in canonical form -/
def parseSet (s : String) : Option (List Nat) :=
  match parseNats s with
  | some l => if increasing l then some l else none
  | none => none

def parseBlocked (s : String) : Option (List (Nat × Nat)) :=
  if s == "-" then some [] else
  (s.splitOn ",").mapM fun e =>
    match e.splitOn ":" with
    | [u, f] => do pure ((← u.toNat?), (← f.toNat?))
    | _ => none

/-- the block list in canonical form: user names strictly increasing -/
def parseBlockedC (s : String) : Option (List (Nat × Nat)) :=
  match parseBlocked s with
  | some l => if increasing (l.map (·.1)) then some l else none
  | none => none

def parseMode (s : String) : Option Mode :=
  if s == "everyone" then some .everyone
  else if s == "friends" then some .friends
  else match s.splitOn ":" with
    | ["users", us] => (parseNats us).map .users
    | _ => none

/-- `<path> <alias> <mode>` triples -/
def parseEntries : List String → Option (List DirInfo)
  | [] => some []
  | p :: a :: m :: rest => do
    let p ← parsePath p
    let a ← parseCps a
    let m ← parseMode m
    let l ← parseEntries rest
    pure ({ path := p, alias := a, mode := m } :: l)
  | _ => none

def parsePhrases (s : String) : Option (List (List Nat)) :=
  if s == "-" then some [] else
  (s.splitOn ";").mapM fun p => if p == "_" then some [] else parseCps p

def showCps (l : List Nat) : String := ",".intercalate (l.map toString)
def showPath (p : List Comp) : String := if p.isEmpty then "." else "/".intercalate (p.map showCps)
def showItem (it : Item Comp) : String := s!"{showPath it.sd}:{showPath it.sub}:{showCps it.name}"
def sortStr (l : List String) : List String := l.mergeSort (fun a b => !(b < a))
def showItems (l : List (Item Comp)) : String := " ".intercalate (sortStr (l.map showItem))
def showRes : Res → String
  | .ok => "ok" | .alreadyShared => "already-shared" | .notShared => "not-shared"

def showListing (l : List (List Comp × List Comp)) : String :=
  " ".intercalate (sortStr (l.map fun (d, fs) => s!"{showPath d}={";".intercalate (sortStr (fs.map showCps))}"))

def showReason : Option Reason → String
  | none => "-"
  | some r => r.name

def showUploads (s : S) : String :=
  s!"flag={if s.sharesChanged then 1 else 0}|job={if jobWaiting s.flights then 1 else 0}|" ++
    " ".intercalate (s.xs.map fun x => s!"{x.user}:{showCps x.path}:{x.state.name}:{showReason x.reason}")

def showObs (s : S) : Obs → String
  | .none => showUploads s
  | .res r => showRes r
  | .search none => "none"
  | .search (some _) => "unreachable"
  | .shares none => "none"
  | .shares (some (v, l)) => s!"vis={showListing v}|locked={showListing l}"
  | .dir none => "none"
  | .dir (some []) => "empty"
  | .dir (some l) => " ".intercalate (l.map fun (_, its) => ";".intercalate (sortStr (its.map (fun it => showCps it.name))))
  | .refusal none => s!"reply=-|{showUploads s}"
  | .refusal (some r) => s!"reply={r.name}|{showUploads s}"
  | .changed true => s!"changed|{showUploads s}"
  | .changed false => s!"refused|{showUploads s}"
  | .noSuchUpload => s!"no-such-upload|{showUploads s}"
  | .outside => "outside"
  | .waiting => s!"waiting|{showUploads s}"
  | .suspended => s!"suspended|{showUploads s}"
  | .busy => s!"busy|{showUploads s}"
  | .ended rs => s!"ended:{",".intercalate (rs.map fun b => if b then "c" else "r")}|{showUploads s}"
  | .notInFlight => s!"not-in-flight|{showUploads s}"

def doStep (d : DSt) (op : Op) : DSt × String :=
  let r := step d.s op
  ({ d with s := r.1 }, showObs r.1 r.2)

/-- `step s (.search u q)` shown together with the same reply computed with the cap out of the way:
which of the matching items a capped reply keeps is up to Python's set order -/
def doSearch (s : S) (u : Nat) (q : List Nat) : String :=
  match (step s (.search u q)).2 with
  | .search none => "none"
  | .search (some (v, l)) =>
    let big : S := { s with cfg := { s.cfg with cap := s.sh.tm.length + 1 } }
    match (step big (.search u q)).2 with
    | .search (some (fv, fl)) => s!"n={v.length + l.length}|vis={showItems fv}|locked={showItems fl}"
    | _ => "model-inconsistent"
  | _ => "model-inconsistent"

/-- the methods a transfer task (or `pause` by the user) calls; `abort` / `queue` have their own ops -/
def taskMeth : String → Option Meth
  | "initialize" => some .initialize | "start_transferring" => some .start | "complete" => some .complete
  | "fail" => some .fail | "pause" => some .pause | _ => none

/-- the calls the harness can make: a task method / `pause`, the user's abort, the user's re-queue -/
def userCall : String → Option Call
  | "abort" => some { m := .abort, r := some .requested }
  | "requeue" => some { m := .queue }
  | m => (taskMeth m).map fun m => { m := m }

def parsePhase : String → Option Phase
  | "cancel" => some .cancelling | "notify" => some .notifying | _ => none

def handle (d : DSt) (line : String) : DSt × String :=
  match (line.splitOn " ").filter (· ≠ "") with
  | ["new", c] =>
    match c.toNat? with
    | some c => ({ s := { cls := mkCls [], cfg := { cap := c } } }, "ok")
    | none => (d, "bad-op")
  | ["cls", cp, w, f, sp] =>
    match cp.toNat?, w.toNat?, f.toNat?, sp.toNat? with
    | some cp, some w, some f, some sp =>
      let tab := (cp, (w != 0, f, sp != 0)) :: d.tab
      ({ tab := tab, s := { d.s with cls := mkCls tab } }, "ok")
    | _, _, _, _ => (d, "bad-op")
  | ["friends", l] =>
    match parseSet l with
    | some l => let r := doStep d (.setFriends l); (r.1, "ok")
    | none => (d, "bad-op")
  | ["blocked", l] =>
    match parseBlockedC l with
    | some l => let r := doStep d (.setBlocked l); (r.1, "ok")
    | none => (d, "bad-op")
  | ["sfriends", l] =>
    match parseSet l with
    | some l => doStep d (.mutFriends l)
    | none => (d, "bad-op")
  | ["sblocked", l] =>
    match parseBlockedC l with
    | some l => doStep d (.mutBlocked l)
    | none => (d, "bad-op")
  | ["poll"] => doStep d .poll
  | ["show"] => (d, showUploads d.s)
  | ["scan", fs] =>
    match parseFiles fs with
    | some fs => doStep d (.scanAll fs)
    | none => (d, "bad-op")
  | "reload" :: fs :: rest =>
    match parseFiles fs, parseEntries rest with
    | some fs, some es => doStep d (.reload es fs)
    | _, _ => (d, "bad-op")
  | ["share", p, a, m, fs] =>
    match parsePath p, parseCps a, parseMode m, parseFiles fs with
    | some p, some a, some m, some fs => doStep d (.share { path := p, alias := a, mode := m } fs)
    | _, _, _, _ => (d, "bad-op")
  | ["unshare", p] =>
    match parsePath p with
    | some p => doStep d (.unshare p)
    | none => (d, "bad-op")
  | ["mode", p, m] =>
    match parsePath p, parseMode m with
    | some p, some m => doStep d (.setMode p m)
    | _, _ => (d, "bad-op")
  | ["phrases", l] =>
    match parsePhrases l with
    | some l => let r := doStep d (.phrases l); (r.1, "ok")
    | none => (d, "bad-op")
  | ["search", u, q] =>
    match u.toNat?, parseCps q with
    | some u, some q => (d, doSearch d.s u q)
    | _, _ => (d, "bad-op")
  | ["search", u] =>
    match u.toNat? with
    | some u => (d, doSearch d.s u [])
    | none => (d, "bad-op")
  | ["shares", u] =>
    match u.toNat? with
    | some u => doStep d (.sharesReq u)
    | none => (d, "bad-op")
  | ["dir", u, q] =>
    match u.toNat?, parseCps q with
    | some u, some q => doStep d (.dirReq u q)
    | _, _ => (d, "bad-op")
  | ["dir", u] =>
    match u.toNat? with
    | some u => doStep d (.dirReq u [])
    | none => (d, "bad-op")
  | ["queue", u, p] =>
    match u.toNat?, parseCps p with
    | some u, some p => doStep d (.queueReq u p)
    | _, _ => (d, "bad-op")
  | ["treq", u, p] =>
    match u.toNat?, parseCps p with
    | some u, some p => doStep d (.xferReq u p)
    | _, _ => (d, "bad-op")
  | ["cycle"] => doStep d .cycle
  | ["meth", k, m] =>
    match k.toNat?, taskMeth m with
    | some k, some m => doStep d (.meth k m)
    | _, _ => (d, "bad-op")
  | ["abort", k] =>
    match k.toNat? with
    | some k => doStep d (.userAbort k)
    | none => (d, "bad-op")
  | ["requeue", k] =>
    match k.toNat? with
    | some k => doStep d (.userQueue k)
    | none => (d, "bad-op")
  | ["begin", k, m, ph] =>
    match k.toNat?, userCall m, parsePhase ph with
    | some k, some c, some ph => doStep d (.beginCall k c ph)
    | _, _, _ => (d, "bad-op")
  | ["end", k] =>
    match k.toNat? with
    | some k => doStep d (.endCall k)
    | none => (d, "bad-op")
  | _ => (d, "bad-op")

partial def loop (h : IO.FS.Stream) (d : DSt) : IO Unit := do
  let line ← h.getLine
  if line.isEmpty then return ()
  let (d', out) := handle d line.trimAscii.toString
  IO.println out
  loop h d'

def main : IO Unit := do
  loop (← IO.getStdin) {}
