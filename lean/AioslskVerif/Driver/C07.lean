import AioslskVerif.Model.Query
import AioslskVerif.Model.Shares
/-!
Line protocol for K_C07 (characters = code points, path components = lists of code points).
  `new <cap>`                                  fresh manager, `max_results = cap`, empty class table → `ok`
  `cls <cp> <isWord> <fold> <isSpace>`         what Python says about a character                    → `ok`
  `add <path>` / `remove <path>` / `update <path>`                                                    → result enum
  `scan <path> <files>` / `scanall <files>`    files = `;`-separated paths (last component = name), `-` = none
  `dump`                                       → `paths=…|items=…|tm=…|stats=<folders> <files>`
  `query <cp,cp,…>`                            → `incl=…|excl=…|wild=…|n=<size of the capped result>|full=<all matches>`
Paths: components joined by `/`, a component = code points joined by `,`, the root = `.`.
-/
open AioslskVerif AioslskVerif.Shares

abbrev Ch := Nat
abbrev Comp := List Nat

structure DSt where
  cap : Nat := 1
  tab : List (Nat × (Bool × Nat × Bool)) := []
  st : St Comp := {}

def DSt.cls (d : DSt) : Query.Cls Ch where
  isWord c := match d.tab.lookup c with | some (w, _, _) => w | none => false
  fold c := match d.tab.lookup c with | some (_, f, _) => f | none => c
  isSpace c := match d.tab.lookup c with | some (_, _, s) => s | none => false
  star := 42
  dash := 45

def parseCps (s : String) : Option (List Nat) :=
  if s.isEmpty then some [] else (s.splitOn ",").mapM (·.toNat?)

def parsePath (s : String) : Option (List Comp) :=
  if s == "." then some [] else (s.splitOn "/").mapM parseCps

def parseFiles (s : String) : Option (List (File Comp)) :=
  if s == "-" then some [] else
  (s.splitOn ";").mapM fun f => do
    let comps ← parsePath f
    match comps.reverse with
    | [] => none
    | n :: d => some { dir := d.reverse, name := n }

def showCps (l : List Nat) : String := ",".intercalate (l.map toString)
def showPath (p : List Comp) : String := if p.isEmpty then "." else "/".intercalate (p.map showCps)
def showItem (it : Item Comp) : String := s!"{showPath it.sd}:{showPath it.sub}:{showCps it.name}"
def sortStr (l : List String) : List String := l.mergeSort (fun a b => !(b < a))
def showItems (l : List (Item Comp)) : String := " ".intercalate (sortStr (l.map showItem))
def showTerms (l : List (List Nat)) : String := " ".intercalate (sortStr (l.map showCps))
def showRes : Res → String
  | .ok => "ok" | .alreadyShared => "already-shared" | .notShared => "not-shared"

def handle (d : DSt) (line : String) : DSt × String :=
  match (line.splitOn " ").filter (· ≠ "") with
  | ["new", c] =>
    match c.toNat? with
    | some c => ({ cap := c }, "ok")
    | none => (d, "bad-op")
  | ["cls", cp, w, f, sp] =>
    match cp.toNat?, w.toNat?, f.toNat?, sp.toNat? with
    | some cp, some w, some f, some sp => ({ d with tab := (cp, (w != 0, f, sp != 0)) :: d.tab }, "ok")
    | _, _, _, _ => (d, "bad-op")
  | ["add", p] =>
    match parsePath p with
    | some p => let r := add d.st p; ({ d with st := r.1 }, showRes r.2)
    | none => (d, "bad-op")
  | ["remove", p] =>
    match parsePath p with
    | some p => let r := remove d.st p; ({ d with st := r.1 }, showRes r.2)
    | none => (d, "bad-op")
  | ["update", p] =>
    match parsePath p with
    | some p => let r := step d.st (.update p); ({ d with st := r.1 }, showRes r.2)
    | none => (d, "bad-op")
  | ["scan", p, fs] =>
    match parsePath p, parseFiles fs with
    | some p, some fs => let r := scan d.st p fs; ({ d with st := r.1 }, showRes r.2)
    | _, _ => (d, "bad-op")
  | ["scanall", fs] =>
    match parseFiles fs with
    | some fs => let r := step d.st (.scanAll fs); ({ d with st := r.1 }, showRes r.2)
    | none => (d, "bad-op")
  | ["dump"] =>
    let s := d.st
    let st := stats s
    (d, s!"paths={" ".intercalate (s.paths.map showPath)}|items={showItems s.items}|tm={showItems s.tm}|stats={st.1} {st.2}")
  | ["query", q] =>
    match parseCps q with
    | some cps =>
      let K := d.cls
      let pq := Query.parse K cps
      let qp := qpath (92 : Nat)
      let capped := Query.query K qp d.cap (fun _ => true) d.st.tm pq
      let full := Query.query K qp (d.st.tm.length + 1) (fun _ => true) d.st.tm pq
      (d, s!"incl={showTerms pq.incl}|excl={showTerms pq.excl}|wild={showTerms pq.wild}|n={capped.length}|full={showItems full}")
    | none => (d, "bad-op")
  | _ => (d, "bad-op")

partial def loop (h : IO.FS.Stream) (d : DSt) : IO Unit := do
  let line ← h.getLine
  if line.isEmpty then return ()
  let (d', out) := handle d line.trimAscii.toString
  IO.println out
  loop h d'

def main : IO Unit := do
  loop (← IO.getStdin) {}
