import AioslskVerif.Model.DistSearch
/-!
Line protocol for K_C14. Tree ops are those of `Driver/C13.lean` (names are numbers, 0 = the logged-in user;
connection ids = creation order); queries and files are opaque tokens (the harness hex-encodes the strings).

  `new`                                  fresh managers, empty answer table, nobody blocked      → `ok`
  `ans u q v,v…|l,l…`                    the shares' answer for (asking user u, query q): visible | locked
                                         (`-` for an empty list); unlisted pairs answer ([], [])  → `ok`
  `blocked n…`                           search-blocked users                                     → `ok`
  `session` `lost` `pp n…` `in n` `level c v` `root c n` `close c` `minspeed v` `ratio v` `stats n speed` `reset`
  `search src carrier code unknown user ticket q`
        src = `s` (server connection) | connection id;  carrier = `server` | `dist` | `legacy`
        status `ok` | `no-server` | `no-conn` | `bad-op` (carrier/source mismatch, unparsable)
  `addbegin n`   peer n connects as a would-be child, `_add_child` runs up to its suspension (`SOp.addBegin`)
  `addend`       every suspended add resumes (`SOp.addEnd`)
  `addtimeout`   the sends of every suspended add hit the write time-out: the library closes the connection
                 (`Op.closed`), then the add resumes with the error (`SOp.addEnd`)
  `pconn n`      user n opens a peer connection to us: no effect on the tree or on what is written     → `ok`
  `creds n`      `settings.credentials.username := n` during the session (`SOp.credentials`): the session's name, and
                 with it what is forwarded / answered, is unchanged                                     → `ok`
  `closebegin c` connection c is reported CLOSING (`SOp.closeBegin`); its CLOSED notification is a later `close c`.
                 status `ok` | `no-conn` (not registered, or closing already). While a connection is closing its remote
                 end delivers nothing: `search c …`, `level c …`, `root c …` answer `no-conn`
The `F=` field of a `search` lists the frames WRITTEN (`SState.sent`: nothing to a closing connection).
Every op line answers
  `<status> F=<conn:unknown:user:ticket:q;…> R=<to:ticket:username:v,v…:l,l…;…> E=<user:q:count;…> P=<parent> C=<children> L=<live>`
(`-` for empty); `props/c14.py:_canon` renders the implementation's observations the same way.
-/
open AioslskVerif.Dist
open AioslskVerif.DistSearch

structure DS where
  s : SState
  table : List ((Nat × String) × (List String × List String))
  blockedL : List Nat

def DS.env (d : DS) : Env where
  answer := fun u q => ((d.table.find? (fun e => e.1.1 == u && e.1.2 == q)).map (·.2)).getD ([], [])
  blocked := fun u => d.blockedL.contains u

def optS (o : Option Nat) : String := match o with | some n => toString n | none => "-"
def listS (sep : String) (l : List String) : String := if l.isEmpty then "-" else sep.intercalate l

def renderOut : Out → String
  | .fwd c unk u t q => s!"{c}:{unk}:{u}:{t}:{q}"
  | .reply to t me v l => s!"{to}:{t}:{me}:{listS "," v}:{listS "," l}"

def isFwd : Out → Bool
  | .fwd .. => true
  | _ => false

def render (s : DState) (outs : List Out) (ev : Option (Nat × String × Nat)) : String :=
  let f := (outs.filter isFwd).map renderOut
  let r := (outs.filter (fun o => !isFwd o)).map renderOut
  let e := match ev with
    | some (u, q, n) => s!"{u}:{q}:{n}"
    | none => "-"
  s!"F={listS ";" f} R={listS ";" r} E={e} P={optS s.parent} C={listS "," (s.children.map toString)} " ++
  s!"L={listS "," (s.live.map toString)}"

def nats (ws : List String) : Option (List Nat) := ws.mapM String.toNat?

/-- tree ops of one line and the status; an empty list with a status other than `ok` = refused -/
def withServer (s : DState) (ops : List Op) : List Op × String :=
  if s.session.isSome then (ops, "ok") else ([], "no-server")

def withConn (s : DState) (c : Nat) (op : Op) : List Op × String :=
  if c ∈ s.live then ([op], "ok") else ([], "no-conn")

/-- tree ops: identical to `Driver/C13.lean` -/
def treeLine (s : DState) (ws : List String) : List Op × String :=
  match ws with
  | ["session"] =>
    if s.session.isSome then ([], "already")
    else ([Op.serverStateChange, Op.sessionInit 0], "ok")
  | ["lost"] => withServer s [.serverStateChange, .sessionDestroyed]
  | "pp" :: ws =>
    match nats ws with
    | some ns => withServer s (Op.potentialParents ns :: ns.map (fun n => Op.initialized n true))
    | none => ([], "bad-op")
  | ["in", n] =>
    match n.toNat? with
    | some n => ([.initialized n false], "ok")
    | none => ([], "bad-op")
  | ["level", c, v] =>
    match c.toNat?, v.toNat? with
    | some c, some v => withConn s c (.level c v)
    | _, _ => ([], "bad-op")
  | ["root", c, n] =>
    match c.toNat?, n.toNat? with
    | some c, some n => withConn s c (.root c n)
    | _, _ => ([], "bad-op")
  | ["close", c] =>
    match c.toNat? with
    | some c => withConn s c (.closed c)
    | none => ([], "bad-op")
  | ["minspeed", v] =>
    match v.toNat? with
    | some v => withServer s [.minSpeed v]
    | none => ([], "bad-op")
  | ["ratio", v] =>
    match v.toNat? with
    | some v => withServer s [.speedRatio v]
    | none => ([], "bad-op")
  | ["stats", n, v] =>
    match n.toNat?, v.toNat? with
    | some n, some v => withServer s [.userStats n v]
    | _, _ => ([], "bad-op")
  | ["reset"] => withServer s [.resetDistributed]
  | _ => ([], "bad-op")

def applyS (env : Env) (st : SState) (ops : List SOp) : SState := ops.foldl (stepS env) st

def parseCarrier (src carrier : String) (code unk : Nat) : Option Carrier :=
  match carrier, src with
  | "server", "s" => some (.server code unk)
  | "dist", c => if c.toNat?.isSome then some (.distributed unk) else none
  | "legacy", c => if c.toNat?.isSome then some (.legacy code unk) else none
  | _, _ => none

def files (w : String) : List String := if w == "-" then [] else w.splitOn ","

def handleLine (d : DS) (line : String) : DS × String :=
  match (line.splitOn " ").filter (· ≠ "") with
  | ["new"] => (⟨SState.init, [], []⟩, "new")
  | ["ans", u, q, vl] =>
    match u.toNat?, vl.splitOn "|" with
    | some u, [v, l] => ({ d with table := ((u, q), (files v, files l)) :: d.table }, "ok")
    | _, _ => (d, "bad-op")
  | "blocked" :: ws =>
    match nats ws with
    | some ns => ({ d with blockedL := ns }, "ok")
    | none => (d, "bad-op")
  | ["search", src, carrier, code, unk, user, ticket, q] =>
    match code.toNat?, unk.toNat?, user.toNat?, ticket.toNat? with
    | some code, some unk, some user, some ticket =>
      match parseCarrier src carrier code unk with
      | some car =>
        let up : Bool := match src.toNat? with
          | some c => decide (c ∈ d.s.d.live) && !d.s.closing.contains c
          | none => d.s.d.session.isSome
        if up then
          let r : Req := ⟨car, user, ticket, q⟩
          let ev := (received d.env d.s.d r).map (fun n => (user, q, n))
          let s' := stepS d.env d.s (.search r)
          -- what was written for this carrier: the entry `stepS` just logged
          let outs := match s'.sent.getLast? with
            | some e => e.2
            | none => []
          ({ d with s := { s' with log := [], sent := [] } }, s!"ok {render s'.d outs ev}")
        else (d, (if src == "s" then "no-server " else "no-conn ") ++ render d.s.d [] none)
      | none => (d, s!"bad-op {render d.s.d [] none}")
    | _, _, _, _ => (d, s!"bad-op {render d.s.d [] none}")
  | ["addbegin", n] =>
    match n.toNat? with
    | some n =>
      let s' := stepS d.env d.s (.addBegin n)
      ({ d with s := s' }, s!"ok {render s'.d [] none}")
    | none => (d, s!"bad-op {render d.s.d [] none}")
  | ["addend"] =>
    let s' := applyS d.env d.s (d.s.adding.map SOp.addEnd)
    ({ d with s := s' }, s!"ok {render s'.d [] none}")
  | ["addtimeout"] =>
    let s' := applyS d.env d.s (d.s.adding.flatMap (fun c => [SOp.tree (.closed c), SOp.addEnd c]))
    ({ d with s := s' }, s!"ok {render s'.d [] none}")
  | ["closebegin", c] =>
    match c.toNat? with
    | some c =>
      if c ∈ d.s.d.live ∧ c ∉ d.s.closing then
        let s' := stepS d.env d.s (.closeBegin c)
        ({ d with s := s' }, s!"ok {render s'.d [] none}")
      else (d, s!"no-conn {render d.s.d [] none}")
    | none => (d, s!"bad-op {render d.s.d [] none}")
  | ["pconn", n] =>
    (d, (if n.toNat?.isSome then "ok " else "bad-op ") ++ render d.s.d [] none)
  | ["creds", n] =>
    match n.toNat? with
    | some n =>
      let s' := stepS d.env d.s (.credentials n)
      ({ d with s := s' }, s!"ok {render s'.d [] none}")
    | none => (d, s!"bad-op {render d.s.d [] none}")
  | ws =>
    -- the remote end of a closing connection is gone: it announces nothing any more
    let silent : Bool := match ws with
      | ["level", c, _] => (c.toNat?.map d.s.closing.contains).getD false
      | ["root", c, _] => (c.toNat?.map d.s.closing.contains).getD false
      | _ => false
    if silent then (d, s!"no-conn {render d.s.d [] none}") else
    let (ops, st) := treeLine d.s.d ws
    let s' := applyS d.env d.s (ops.map SOp.tree)
    ({ d with s := s' }, s!"{st} {render s'.d [] none}")

partial def loop (h : IO.FS.Stream) (d : DS) : IO Unit := do
  let line ← h.getLine
  if line.isEmpty then return ()
  let (d', out) := handleLine d line.trimAscii.toString
  IO.println (if out == "new" then "ok" else out)
  loop h d'

def main : IO Unit := do
  loop (← IO.getStdin) ⟨SState.init, [], []⟩
