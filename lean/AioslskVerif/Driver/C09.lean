import AioslskVerif.Model.Naming
/-!
Line protocol for K_C09. A name is its code points in decimal joined by `.` (`-` = empty name);
a directory is names joined by `/` (`~` = the download directory itself).

  `fs <e>*`  with `e = d:<dir>:<name>` | `f:<dir>:<name>`   reset: directory content, no downloads → `ok`
             (`f` = anything that is not a directory: regular file or (dangling) symbolic link)
  `chain <S> <remote>`   `S` over `D K N` (`-` = empty chain); `chain_strategies` on the current content
                         → `ok <dir> <name> <final>` | `err noName` | `err emptyName`
                         (`<final>` = the joined path string below the download directory, as a name;
                          `ABS` when a component is absolute)
  `start <id> <S> <remote> <fault>`  the download task runs up to its first suspension;
                         `<fault>`: `-` none, `m` os.makedirs raises, `o` the claiming open() raises
                         → `chosen <dir> <name> <final>` | `resumed <dir> <name> <final>` | `err …`
                           | `oserror <dir> <name>` | `busy`
  `finish <id>`          the task ends, complete → `done`
  `cut <id>`             the task ends, connection lost → `done`
  `remove <id>`          the user moves the file of the completed download away → `removed` | `noop`
  `requeue <id>`         `queue()` on the ended download, not started yet → `done`
  `abort <id>`           `abort()` on a download that ended early: partial file deleted, path forgotten → `removed` | `noop`
  `dump`                 → `held <id>:<dir>:<name>:<r|c|b>,… fs <entry>,…` (both sorted)
-/
open AioslskVerif.Naming

def decName (t : String) : Option Name :=
  if t = "-" then some [] else
  (t.splitOn ".").mapM (fun x => x.toNat?.map Char.ofNat)

def decPath (t : String) : Option Path :=
  if t = "~" then some [] else (t.splitOn "/").mapM decName

def encName (n : Name) : String :=
  if n.isEmpty then "-" else ".".intercalate (n.map (fun c => toString c.toNat))

def encPath (p : Path) : String :=
  if p.isEmpty then "~" else "/".intercalate (p.map encName)

def decStrategies (t : String) : Option (List Strategy) :=
  if t = "-" then some [] else
  t.toList.mapM (fun c => if c = 'D' then some .default else if c = 'K' then some .keepDir
                          else if c = 'N' then some .number else none)

def decEntry (t : String) : Option Entry :=
  match t.splitOn ":" with
  | [k, d, n] =>
    match decPath d, decName n with
    | some d, some n =>
      if k = "d" then some { dir := d, name := n, isDir := true }
      else if k = "f" then some { dir := d, name := n, isDir := false } else none
    | _, _ => none
  | _ => none

def encEntry (e : Entry) : String :=
  (if e.isDir then "d:" else "f:") ++ encPath e.dir ++ ":" ++ encName e.name

def encErr : Err → String
  | .noName => "err noName"
  | .emptyName => "err emptyName"

def encFinal (d : Path) (n : Name) : String :=
  match finalPath d n with
  | some s => encName s
  | none => "ABS"

def decFault (t : String) : Option Fault :=
  if t = "-" then some .none else if t = "m" then some .makedirs else if t = "o" then some .open else none

def encStatus : Status → String
  | .running => "r"
  | .complete => "c"
  | .broken => "b"
  | .gone => "g"

def sorted (l : List String) : List String := (l.toArray.qsort (· < ·)).toList

def handle (s : Sys) (line : String) : Sys × String :=
  match (line.splitOn " ").filter (· ≠ "") with
  | "fs" :: es =>
    match es.mapM decEntry with
    | some es => ({ fs := es, dls := [] }, "ok")
    | none => (s, "bad-op")
  | ["chain", ss, r] =>
    match decStrategies ss, decName r with
    | some ss, some r =>
      match chain s.fs ss r with
      | .ok (d, n) => (s, s!"ok {encPath d} {encName n} {encFinal d n}")
      | .error e => (s, encErr e)
    | _, _ => (s, "bad-op")
  | ["start", id, ss, r, f] =>
    match id.toNat?, decStrategies ss, decName r, decFault f with
    | some id, some ss, some r, some f =>
      let res := step ss s (.start id r f)
      (res.1, match res.2 with
        | .chosen d n => s!"chosen {encPath d} {encName n} {encFinal d n}"
        | .resumed d n => s!"resumed {encPath d} {encName n} {encFinal d n}"
        | .refused e => encErr e
        | .oserror d n => s!"oserror {encPath d} {encName n}"
        | .busy => "busy"
        | _ => "done")
    | _, _, _, _ => (s, "bad-op")
  | ["finish", id] =>
    match id.toNat? with
    | some id => ((step [] s (.finish id)).1, "done")
    | none => (s, "bad-op")
  | ["cut", id] =>
    match id.toNat? with
    | some id => ((step [] s (.cut id)).1, "done")
    | none => (s, "bad-op")
  | ["remove", id] =>
    match id.toNat? with
    | some id =>
      let res := step [] s (.remove id)
      (res.1, match res.2 with | .removed => "removed" | _ => "noop")
    | none => (s, "bad-op")
  | ["abort", id] =>
    match id.toNat? with
    | some id =>
      let res := step [] s (.abort id)
      (res.1, match res.2 with | .removed => "removed" | _ => "noop")
    | none => (s, "bad-op")
  | ["requeue", id] =>
    match id.toNat? with
    | some id => ((step [] s (.requeue id)).1, "done")
    | none => (s, "bad-op")
  | ["dump"] =>
    let held := sorted (s.dls.map (fun a => s!"{a.id}:{encPath a.dir}:{encName a.name}:{encStatus a.status}"))
    let ents := sorted (s.fs.map encEntry)
    (s, "held " ++ ",".intercalate held ++ " fs " ++ ",".intercalate ents)
  | _ => (s, "bad-op")

partial def loop (h : IO.FS.Stream) (s : Sys) : IO Unit := do
  let line ← h.getLine
  if line.isEmpty then return ()
  let (s', out) := handle s line.trimAscii.toString
  IO.println out
  loop h s'

def main : IO Unit := do
  loop (← IO.getStdin) { fs := [], dls := [] }
