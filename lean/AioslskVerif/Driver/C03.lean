import AioslskVerif.Model.Transfer
import AioslskVerif.Spec.TransferGraph
/-!
Line protocol for K_C03 (one op per line → one output line).

  `cfg <upload|download> <slowCancel 0|1> <slowFs 0|1> <listeners> <current|captured> <stubborn 0|1>`  → `ok`
     `<listeners>` = one digit per entry of `transfer.state_listeners`, in registration order:
     `1` = that listener suspends until a `resume`, `0` = it does not; `-` = no listener
     `<stubborn>` = cancelled tasks do not end sooner when they are cancelled again
  `spec`   the frozen graph: `<dir>:<FROM>><TO>` for every documented edge, `<dir>:<method>=<TARGET>`
  `init <STATE> <fr> <ar> <rq> <piq> <qa> <ua> <st> <ct> <lp> <fx> <fs> <b> <tl>`  (`-` = None) → `ok`
  `create <id> <method> <reason|-> <remotely 0|1>`   evaluate `transfer.state.<method>(…)`     → `ok`
  `start <id>`                                        schedule it                               → `ok`
  `call <id> <method> <reason|-> <remotely 0|1>`      create + start                            → `ok`
  `mcall <id> <abort|queue|pause>`                    `TransferManager.<method>(transfer)`      → `ok`
  `pcall <id> <reason|->`       the manager handles the peer's `PeerTransferQueueFailed` (downloads)  → `ok`
  `load <whole 0|1>`            (directly after `init`) the record `init` describes is what the cache holds; it is
                                read back by `read_cache` (`whole` = `filesize == bytes_transfered`)   → `ok`
  `cancel <id>`                 the task awaiting invocation `id` is cancelled                         → `ok`
  `resume` | `spawn` | `setfile` | `reload`                                                    → `ok`
  `fsfault <0|1>`               the file system starts / stops refusing removals (`os.remove` raises `OSError`) → `ok`
  `obs`        what is observable now (and since the last `obs`); then the clock ticks
     → `<STATE> lock=<0|1> w=<waiters> ev=<listener>:<OLD>NEW,…|- ret=<id>:<T|F|R>,…|- <fields>`
        (`R` = `InvalidStateTransition` raised by a manager call, `C` = the caller got `CancelledError`,
         `P` = a peer-message handler returned — it does not say whether the request was refused)
Errors: `err <enum>` (bad-op, bad-arg, no-such-call, duplicate-id, not-a-manager-method, not-a-download,
not-settled — the invocation was issued since the last `obs` —, not-in-flight).
-/
open AioslskVerif.Transfer

structure DState where
  cfg : Cfg := { dir := .download, slowCancel := false, slowFs := false }
  x : XState := init .virgin {}
  seen : Nat := 0               -- trace length at the last `obs`
  ids : List Nat := []          -- ids used so far
  mgrIds : List Nat := []
  peerIds : List Nat := []
  fresh : List Nat := []        -- ids scheduled since the last `obs`

def optNat? (s : String) : Option (Option Nat) :=
  if s = "-" then some none else s.toNat?.map some

def bool? (s : String) : Option Bool :=
  if s = "0" then some false else if s = "1" then some true else none

def listeners? (s : String) : Option (List Bool) :=
  if s = "-" then some [] else s.toList.mapM fun c => bool? c.toString

def showOpt : Option Nat → String
  | none => "-"
  | some n => toString n

def showB (b : Bool) : String := if b then "1" else "0"

def showFields (f : Fields) : String :=
  s!"fr={showOpt f.failReason} ar={showOpt f.abortReason} rq={showB f.remotelyQueued} " ++
  s!"piq={showOpt f.placeInQueue} qa={f.queueAttempts} ua={f.uploadAttempts} " ++
  s!"st={showOpt f.startTime} ct={showOpt f.completeTime} lp={showB f.localPath} " ++
  s!"fx={showB f.fileExists} fs={showB f.filesizeSet} b={f.bytes} tl={showB f.tasksLive}"

def joinOr (xs : List String) : String := if xs.isEmpty then "-" else ",".intercalate xs

def observe (d : DState) : String :=
  let x := d.x
  let fresh := (x.trace.take (x.trace.length - d.seen)).reverse
  let evs := fresh.filterMap fun
    | .event _ li a b => some s!"{li}:{a.name}>{b.name}"
    | _ => none
  let rets := fresh.filterMap fun
    | .ret id ok => some s!"{id}:{if d.peerIds.contains id then "P" else if ok then "T" else if d.mgrIds.contains id then "R" else "F"}"
    | .cancelled id => some s!"{id}:C"
    | _ => none
  s!"{x.cur.name} lock={showB x.holder.isSome} w={x.waiters.length} ev={joinOr evs} ret={joinOr rets} " ++
    showFields x.f

def mkCall (d : DState) (id m r q : String) : Except String Call :=
  match id.toNat?, Meth.ofName? m, optNat? r, bool? q with
  | some id, some m, some r, some q =>
    if d.ids.contains id then .error "duplicate-id"
    else .ok { id := id, meth := m, reason := r, remotely := q }
  | _, _, _, _ => .error "bad-arg"

def handle (d : DState) (line : String) : DState × String :=
  match (line.splitOn " ").filter (· ≠ "") with
  | ["cfg", dir, sc, sf, sl, mode, stub] =>
    match Dir.ofName? dir, bool? sc, bool? sf, listeners? sl, bool? stub with
    | some dir, some sc, some sf, some sl, some stub =>
      let mk (m : Mode) : Cfg :=
        { dir := dir, slowCancel := sc, slowFs := sf, listeners := sl, mode := m, stubborn := stub }
      if mode = "current" then ({ d with cfg := mk .current }, "ok")
      else if mode = "captured" then ({ d with cfg := mk .captured }, "ok")
      else (d, "err bad-arg")
    | _, _, _, _, _ => (d, "err bad-arg")
  | ["spec"] =>
    let dn (x : Dir) : String := match x with | .upload => "upload" | .download => "download"
    let es := allDir.flatMap fun dd => allSt.flatMap fun a => (allSt.filter fun b =>
      AioslskVerif.Spec.Transfer.edge dd a b).map fun b => s!"{dn dd}:{a.name}>{b.name}"
    let ts := allDir.flatMap fun dd => allMeth.map fun m =>
      s!"{dn dd}:{repr m}={(AioslskVerif.Spec.Transfer.target dd m).name}"
    (d, " ".intercalate (es ++ ts))
  | ["init", s, fr, ar, rq, piq, qa, ua, st, ct, lp, fx, fs, b, tl] =>
    match St.ofName? s, optNat? fr, optNat? ar, bool? rq, optNat? piq, qa.toNat?, ua.toNat? with
    | some s, some fr, some ar, some rq, some piq, some qa, some ua =>
      match optNat? st, optNat? ct, bool? lp, bool? fx, bool? fs, b.toNat?, bool? tl with
      | some st, some ct, some lp, some fx, some fs, some b, some tl =>
        let f : Fields := { failReason := fr, abortReason := ar, remotelyQueued := rq, placeInQueue := piq,
                            queueAttempts := qa, uploadAttempts := ua, startTime := st, completeTime := ct,
                            localPath := lp, fileExists := fx, filesizeSet := fs, bytes := b, tasksLive := tl }
        ({ d with x := init s f, seen := 0, ids := [], mgrIds := [], peerIds := [], fresh := [] }, "ok")
      | _, _, _, _, _, _, _ => (d, "err bad-arg")
    | _, _, _, _, _, _, _ => (d, "err bad-arg")
  | ["create", id, m, r, q] =>
    match mkCall d id m r q with
    | .ok c => ({ d with x := step d.cfg d.x (.create c), ids := c.id :: d.ids }, "ok")
    | .error e => (d, "err " ++ e)
  | ["call", id, m, r, q] =>
    match mkCall d id m r q with
    | .ok c => ({ d with x := step d.cfg d.x (.call c), ids := c.id :: d.ids, fresh := c.id :: d.fresh }, "ok")
    | .error e => (d, "err " ++ e)
  | ["pcall", id, r] =>
    match id.toNat?, optNat? r with
    | some id, some r =>
      if d.ids.contains id then (d, "err duplicate-id")
      else if d.cfg.dir != .download then (d, "err not-a-download")
      else
        -- manager.py:1572-1583: `await transfer.state.fail(reason=message.reason)`, looked up when the handler runs
        let c : Call := { id := id, meth := .fail, reason := r, mgr := true }
        ({ d with x := step d.cfg d.x (.call c), ids := id :: d.ids, peerIds := id :: d.peerIds,
                  fresh := id :: d.fresh }, "ok")
    | _, _ => (d, "err bad-arg")
  | ["load", w] =>
    match bool? w with
    | some w => ({ d with x := load d.cfg d.x.cur d.x.f w, seen := 0 }, "ok")
    | none => (d, "err bad-arg")
  | ["cancel", id] =>
    match id.toNat? with
    | some id =>
      if d.fresh.contains id then (d, "err not-settled")
      else
        let inFlight := (match d.x.holder with | some p => p.call.id == id | none => false) ||
          d.x.waiters.any (·.id == id)
        if !inFlight then (d, "err not-in-flight")
        else ({ d with x := step d.cfg d.x (.cancelCaller id) }, "ok")
    | none => (d, "err bad-arg")
  | ["reload"] => ({ d with x := step d.cfg d.x .reload }, "ok")
  | ["mcall", id, m] =>
    match id.toNat?, Meth.ofName? m with
    | some id, some m =>
      if d.ids.contains id then (d, "err duplicate-id")
      else match Call.manager id m with
        | some c => ({ d with x := step d.cfg d.x (.call c), ids := id :: d.ids, mgrIds := id :: d.mgrIds,
                                fresh := id :: d.fresh }, "ok")
        | none => (d, "err not-a-manager-method")
    | _, _ => (d, "err bad-arg")
  | ["start", id] =>
    match id.toNat? with
    | some id =>
      if (findCall id d.x.created).isNone then (d, "err no-such-call")
      else ({ d with x := step d.cfg d.x (.start id), fresh := id :: d.fresh }, "ok")
    | none => (d, "err bad-arg")
  | ["resume"] => ({ d with x := step d.cfg d.x .resume }, "ok")
  | ["spawn"] => ({ d with x := step d.cfg d.x .spawn }, "ok")
  | ["setfile"] => ({ d with x := step d.cfg d.x .setFile }, "ok")
  | ["fsfault", b] =>
    match bool? b with
    | some b => ({ d with x := step d.cfg d.x (.fsFault b) }, "ok")
    | none => (d, "err bad-arg")
  | ["obs"] =>
    let out := observe d
    ({ d with x := step d.cfg d.x .tick, seen := d.x.trace.length, fresh := [] }, out)
  | _ => (d, "err bad-op")

partial def loop (h : IO.FS.Stream) (d : DState) : IO Unit := do
  let line ← h.getLine
  if line.isEmpty then return ()
  let (d', out) := handle d line.trimAscii.toString
  IO.println out
  loop h d'

def main : IO Unit := do
  loop (← IO.getStdin) {}
