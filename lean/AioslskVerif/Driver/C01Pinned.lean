import AioslskVerif.Driver.CodecCommon
import AioslskVerif.Spec.Pinned
/-! Same driver over the FROZEN pinned layout: the oracle for "bytes identical to the pinned layout". -/
def main : IO Unit := do
  AioslskVerif.CodecDriver.loop AioslskVerif.Spec.Pinned.schemas (← IO.getStdin)
