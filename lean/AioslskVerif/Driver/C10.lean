import AioslskVerif.Model.Conn
/-!
Line protocol for K_C10.

  reset
  new <direct|back|incoming|server> <typF:0|1> <slow:0|1>      fine-grained: stops at the first notification
  at <i> <op>                                                   fine-grained: stops at the next notification
       op = connectOk <ok|block|fail> | connectFail | connectTimeout | cancelAttempt
       | firstFrame <initP|initF|pierceP|pierceF|pierceUnknown|undecodable> | frame <0|1> | partialEof | eof | reset
       | readTimeout | disconnect [<REASON>] | closeDone | send <ok|block|fail> | drainOk | sendTimeout <0|1> | restart
       | queue <ok|block|fail> | queueTimeout | sendData <ok|block|fail> | recvData | data
  at <i> noteA <ok|block|fail> | noteC       the listeners of the outstanding notification of the attempt / of the closing
                                             task are done (noteA: what the write of the init message does, if that follows)
  at <i> parkA | parkC                       a listener of that notification suspends
  anew <origin> <typF> <slow> | aat <i> <op> the same when no listener suspends (every notification passes at once)
  (REASON = UNKNOWN | CONNECT_FAILED | REQUESTED | READ_ERROR | WRITE_ERROR | TIMEOUT | EOF; default REQUESTED)

Every line answers with what the op made observable and the state at that point:
  ev=<state/msg/init/wrote events of connection i, in order> res=<results, sorted> reg=<registered ids> st=<state per connection> open=<socket open per connection>
or `rejected` when the op is not enabled in the model state (the harness never generates such an op), `bad-op` when unparsable.
-/
open AioslskVerif.Conn

def showReason : Reason → String
  | .unknown => "UNKNOWN" | .connectFailed => "CONNECT_FAILED" | .requested => "REQUESTED"
  | .readError => "READ_ERROR" | .writeError => "WRITE_ERROR" | .timeout => "TIMEOUT" | .eof => "EOF"

def showState : CState → String
  | .uninit => "UNINITIALIZED" | .connecting => "CONNECTING" | .connected => "CONNECTED"
  | .closing => "CLOSING" | .closed => "CLOSED"

def ordered : Ev → Option String
  | .st .closing r => some s!"CLOSING:{showReason r}"
  | .st s _ => some (showState s)
  | .delivered => some "msg"
  | .init true => some "init:req"
  | .init false => some "init:unreq"
  | .wrote => some "wrote"
  | .wroteRaw => some "wrote"
  | _ => none

def result : Ev → Option String
  | .cc => some "cc"
  | .attRes .ok => some "att:ok"
  | .attRes .fail => some "att:fail"
  | .attRes .cancelled => some "att:cancelled"
  | .sendRes true => some "send:ret"
  | .sendRes false => some "send:err"
  | .queueRes .ret => some "q:ret"
  | .queueRes .err => some "q:err"
  | .queueRes .cancelled => some "q:cancelled"
  | .recvData => some "recv:data"
  | _ => none

def insertS (x : String) : List String → List String
  | [] => [x]
  | y :: ys => if x ≤ y then x :: y :: ys else y :: insertS x ys

def snapshot (n : Net) (out : List Ev) : String :=
  let ev := out.filterMap ordered
  let res := (out.filterMap result).foldl (fun acc x => insertS x acc) []
  let reg := n.registry.map toString
  let st := n.conns.map fun c => showState c.k.st
  let op := n.conns.map fun c => if c.k.sock then "1" else "0"
  s!"ev={",".intercalate ev} res={",".intercalate res} reg={",".intercalate reg} st={",".intercalate st} open={",".intercalate op}"

def parseBool : String → Option Bool
  | "0" => some false | "1" => some true | _ => none

def parseMode : String → Option SendMode
  | "ok" => some .ok | "block" => some .block | "fail" => some .fail | _ => none

def parseFirst : String → Option First
  | "initP" => some .initP | "initF" => some .initF | "pierceP" => some .pierceP | "pierceF" => some .pierceF
  | "pierceUnknown" => some .pierceUnknown | "undecodable" => some .undecodable | _ => none

def parseOrigin : String → Option Origin
  | "direct" => some .direct | "back" => some .back | "incoming" => some .incoming | "server" => some .server
  | _ => none

def parseReason : String → Option Reason
  | "UNKNOWN" => some .unknown | "CONNECT_FAILED" => some .connectFailed | "REQUESTED" => some .requested
  | "READ_ERROR" => some .readError | "WRITE_ERROR" => some .writeError | "TIMEOUT" => some .timeout
  | "EOF" => some .eof | _ => none

def parseCOp : List String → Option COp
  | ["connectOk", m] => (parseMode m).map .connectOk
  | ["connectFail"] => some .connectFail
  | ["connectTimeout"] => some .connectTimeout
  | ["cancelAttempt"] => some .cancelAttempt
  | ["firstFrame", f] => (parseFirst f).map .firstFrame
  | ["frame", g] => (parseBool g).map .frame
  | ["partialEof"] => some .partialEof
  | ["eof"] => some .eof
  | ["reset"] => some .reset
  | ["readTimeout"] => some .readTimeout
  | ["disconnect"] => some (.disconnect .requested)
  | ["disconnect", r] => (parseReason r).map .disconnect
  | ["queue", m] => (parseMode m).map .queue
  | ["queueTimeout"] => some .queueTimeout
  | ["closeDone"] => some .closeDone
  | ["send", m] => (parseMode m).map .send
  | ["drainOk"] => some .drainOk
  | ["sendTimeout", a] => (parseBool a).map .sendTimeout
  | ["restart"] => some .restart
  | ["sendData", m] => (parseMode m).map .sendData
  | ["recvData"] => some .recvData
  | ["data"] => some .data
  | _ => none

def parseFOp : List String → Option FOp
  | ["noteA", m] => (parseMode m).map .noteA
  | ["noteA"] => some (.noteA .ok)
  | ["noteC"] => some .noteC
  | ["parkA"] => some .parkA
  | ["parkC"] => some .parkC
  | l => (parseCOp l).map .op

def handle (n : Net) (line : String) : Net × String :=
  match (line.splitOn " ").filter (· ≠ "") with
  | ["reset"] => ({}, "ok")
  | ["new", o, t, s] =>
    match parseOrigin o, parseBool t, parseBool s with
    | some o, some t, some s =>
      let n' := n.step (.newF o t s)
      (n', snapshot n' (newK o t s).2)
    | _, _, _ => (n, "bad-op")
  | ["anew", o, t, s] =>
    match parseOrigin o, parseBool t, parseBool s with
    | some o, some t, some s =>
      let n' := n.step (.new o t s)
      (n', snapshot n' (settle .ok 8 (newK o t s)).2)
    | _, _, _ => (n, "bad-op")
  | "at" :: i :: rest =>
    match i.toNat?, parseFOp rest with
    | some i, some op =>
      match n.conns[i]? with
      | none => (n, "bad-op")
      | some c =>
        match stepF c.k op with
        | none => (n, "rejected")
        | some (_, out) => let n' := n.step (.atF i op); (n', snapshot n' out)
    | _, _ => (n, "bad-op")
  | "aat" :: i :: rest =>
    match i.toNat?, parseCOp rest with
    | some i, some op =>
      match n.conns[i]? with
      | none => (n, "bad-op")
      | some c =>
        match stepK c.k op with
        | none => (n, "rejected")
        | some (_, out) => let n' := n.step (.at i op); (n', snapshot n' out)
    | _, _ => (n, "bad-op")
  | _ => (n, "bad-op")

partial def loop (h : IO.FS.Stream) (n : Net) : IO Unit := do
  let line ← h.getLine
  if line.isEmpty then return ()
  let (n', out) := handle n line.trimAscii.toString
  IO.println out
  loop h n'

def main : IO Unit := do
  loop (← IO.getStdin) {}
