import AioslskVerif.Model.PeerConnect
/-!
Line protocol for K_C11.

  new <fallback|race> <lookup:0|1> <srvFail:0|1> <typ:P|D|F> <dialObf:0|1>
  addrReply <valid|noAddr|noPort> | connectOk <0|1> | connectRefused | connectTimeout | pierce <obfuscatedPort:0|1>
    | cannotConnect | indirectTimeout | cancelRequest
  probe                                                      -> the state + ` use=<rx><tx>` (rejected unless returned)
  back <typ:P|D|F> <portObf:0|1>                             -> `enc=<c|o> use=<rx><tx>` (connect-back, wire level)
  backreq <typ:P|D|F> <prefer:0|1> <port> <obfuscatedPort|-> <ok|refused|write-fails>
                                                             -> `dial=<port> obf=<0|1> ans=<p|s> reg=<n> enc=<-|c|o>[ use=<rx><tx>]`
                                                                (connect-back from the ConnectToPeer message up; `-`: the
                                                                obfuscated-port fields are absent; `rejected`: a dial of port 0
                                                                that does not fail)
  note <d:CONNECTING|d:CONNECTED|d:INIT|d:CLOSING|d:CLOSED|a:CONNECTED|a:INIT|a:CLOSING|a:CLOSED|w:CLOSING|w:CLOSED>
  show                                                       -> the current state again
  selectPort <prefer:0|1> <port> <obfuscatedPort>            -> `<port> <0|1>`
Answer: `res=<pending|D|I|raised|cancelled> reg=<d,i> tw=<0|1> rw=<0|1> aw=<0|1> open=<d,i> ctp=<0|1> init=<0|1>
enc=<-|c|o> held=<labels>` (`ctp`: ConnectToPeer reached the server; `init`: PeerInit reached the peer; `enc`: in clear /
obfuscated; `held`: the notifications whose listeners have not returned) or `rejected` / `bad-op`.
-/
open AioslskVerif.PeerConnect

def b01 (b : Bool) : String := if b then "1" else "0"

def showRes : Res → String
  | .pending => "pending" | .returnedD => "D" | .returnedI => "I" | .raised => "raised" | .cancelled => "cancelled"

def heldD : DPh → List String
  | .nConnecting => ["d:CONNECTING"] | .nConnectedOk | .nConnectedBad => ["d:CONNECTED"] | .nInit => ["d:INIT"]
  | .fClosing | .cClosing => ["d:CLOSING"] | .fClosed | .cClosed => ["d:CLOSED"] | _ => []

def heldA : APh → List String
  | .none => [] | .nConnected => ["a:CONNECTED"] | .nInit => ["a:INIT"] | .nClosing => ["a:CLOSING"]
  | .nClosed => ["a:CLOSED"]

def heldW : IPh → List String
  | .wClosing => ["w:CLOSING"] | .wClosed => ["w:CLOSED"] | _ => []

def showEnc : Option Bool → String
  | none => "-" | some false => "c" | some true => "o"

def snapshot (x : X) : String :=
  let s := x.s
  -- an accepted connection is registered when CONNECTED is reported, before its listeners run
  let aReg := s.a = .nConnected ∨ s.a = .nInit ∨ s.a = .nClosing
  let aOpen := aReg
  let reg := (if s.dc ≠ .none then ["d"] else []) ++ (if s.ic then ["i"] else []) ++ (if aReg then ["i"] else [])
  let op := (if s.dc = .open then ["d"] else []) ++ (if s.ic then ["i"] else []) ++ (if aOpen then ["i"] else [])
  let held := heldA s.a ++ heldD s.d ++ heldW s.i
  s!"res={showRes s.res} reg={",".intercalate reg} tw={b01 s.tw} rw={b01 s.rw} aw={b01 s.aw} open={",".intercalate op} ctp={b01 (s.i ≠ .notStarted && !s.srvFail)} init={b01 s.ps} enc={showEnc x.initEnc} held={",".intercalate held}"

def parseBool : String → Option Bool
  | "0" => some false | "1" => some true | _ => none

def parseNote : String → Option Note
  | "d:CONNECTING" => some .dConnecting | "d:CONNECTED" => some .dConnected | "d:INIT" => some .dInit
  | "d:CLOSING" => some .dClosing | "d:CLOSED" => some .dClosed
  | "a:CONNECTED" => some .aConnected | "a:INIT" => some .aInit | "a:CLOSING" => some .aClosing
  | "a:CLOSED" => some .aClosed | "w:CLOSING" => some .wClosing | "w:CLOSED" => some .wClosed
  | _ => none

def parseOp : List String → Option Op
  | ["addrReply", "valid"] => some (.addrReply .valid)
  | ["addrReply", "noAddr"] => some (.addrReply .noAddr)
  | ["addrReply", "noPort"] => some (.addrReply .noPort)
  | ["connectOk", b] => (parseBool b).map .connectOk
  | ["connectRefused"] => some .connectRefused
  | ["connectTimeout"] => some .connectTimeout
  | ["pierce", b] => (parseBool b).map .pierce
  | ["probe"] => some .probe
  | ["cannotConnect"] => some .cannotConnect
  | ["indirectTimeout"] => some .indirectTimeout
  | ["cancelRequest"] => some .cancelRequest
  | ["note", n] => (parseNote n).map .note
  | _ => none

def parseCT : String → Option CT
  | "P" => some .peer | "D" => some .distributed | "F" => some .file | _ => none

def parseHow : String → Option BackHow
  | "ok" => some .ok | "refused" => some .refused | "write-fails" => some .writeFails | _ => none

/-- `-`: the field is absent from the message -/
def parseOptPort (b : String) : Option (Option Nat) :=
  if b = "-" then some none else b.toNat?.map some

def showUse : Option (Bool × Bool) → String
  | some (rx, tx) => s!" use={b01 rx}{b01 tx}"
  | none => ""

def handle (s : Option X) (line : String) : Option X × String :=
  match (line.splitOn " ").filter (· ≠ "") with
  | ["new", m, l, f, t, o] =>
    match (match m with | "fallback" => some Mode.fallback | "race" => some Mode.race | _ => none), parseBool l, parseBool f,
        parseCT t, parseBool o with
    | some m, some l, some f, some t, some o => let s' := xinit t o m l f; (some s', snapshot s')
    | _, _, _, _, _ => (s, "bad-op")
  | ["back", t, o] =>
    match parseCT t, parseBool o with
    | some t, some o =>
      let (enc, w) := connectBackWire t o
      (s, s!"enc={showEnc (some enc)} use={b01 (rxOK t o w)}{b01 (txOK t o w)}")
    | _, _ => (s, "bad-op")
  | ["backreq", t, p, a, b, h] =>
    match parseCT t, parseBool p, a.toNat?, parseOptPort b, parseHow h with
    | some t, some p, some a, some b, some h =>
      match connectBack t p a b h with
      | none => (s, "rejected")
      | some r =>
        let o := r.dial.2 && r.dial.1 != 0
        let use := match r.wire with
          | some (_, w) => s!" use={b01 (rxOK t o w)}{b01 (txOK t o w)}"
          | none => ""
        (s, s!"dial={r.dial.1} obf={b01 o} ans={if r.pierced then "p" else ""}{if r.cc then "s" else ""} reg={if r.registered then 1 else 0} enc={showEnc (r.wire.map (·.1))}{use}")
    | _, _, _, _, _ => (s, "bad-op")
  | ["selectPort", p, a, b] =>
    match parseBool p, a.toNat?, b.toNat? with
    | some p, some a, some b => let (port, o) := selectPort p a b; (s, s!"{port} {b01 o}")
    | _, _, _ => (s, "bad-op")
  | ["show"] =>
    match s with
    | some st => (s, snapshot st)
    | none => (s, "bad-op")
  | toks =>
    match s, parseOp toks with
    | some st, some op =>
      match xstep st op with
      | none => (s, "rejected")
      | some st' => (some st', snapshot st' ++ (if op = .probe then showUse (usable st') else ""))
    | _, _ => (s, "bad-op")

partial def loop (h : IO.FS.Stream) (s : Option X) : IO Unit := do
  let line ← h.getLine
  if line.isEmpty then return ()
  let (s', out) := handle s line.trimAscii.toString
  IO.println out
  loop h s'

def main : IO Unit := do
  loop (← IO.getStdin) none
