import AioslskVerif.Model.PeerConnect
/-!
Line protocol for K_C11.

  new <fallback|race> <lookup:0|1> <srvFail:0|1>
  addrReply <valid|noAddr|noPort> | connectOk <0|1> | connectRefused | connectTimeout | pierce | cannotConnect
    | indirectTimeout | cancelRequest
  selectPort <prefer:0|1> <port> <obfuscatedPort>            -> `<port> <0|1>`
Answer: `res=<pending|D|I|raised|cancelled> reg=<d,i> tw=<0|1> rw=<0|1> aw=<0|1> open=<d,i> ctp=<0|1> init=<0|1>`
(`ctp`: ConnectToPeer reached the server; `init`: PeerInit reached the peer) or `rejected` / `bad-op`.
-/
open AioslskVerif.PeerConnect

def b01 (b : Bool) : String := if b then "1" else "0"

def showRes : Res → String
  | .pending => "pending" | .returnedD => "D" | .returnedI => "I" | .raised => "raised" | .cancelled => "cancelled"

def snapshot (s : S) : String :=
  let reg := (if s.dc ≠ .none then ["d"] else []) ++ (if s.ic then ["i"] else [])
  let op := (if s.dc = .open then ["d"] else []) ++ (if s.ic then ["i"] else [])
  s!"res={showRes s.res} reg={",".intercalate reg} tw={b01 s.tw} rw={b01 s.rw} aw={b01 s.aw} open={",".intercalate op} ctp={b01 (s.i ≠ .notStarted && !s.srvFail)} init={b01 (s.d = .ok)}"

def parseBool : String → Option Bool
  | "0" => some false | "1" => some true | _ => none

def parseOp : List String → Option Op
  | ["addrReply", "valid"] => some (.addrReply .valid)
  | ["addrReply", "noAddr"] => some (.addrReply .noAddr)
  | ["addrReply", "noPort"] => some (.addrReply .noPort)
  | ["connectOk", b] => (parseBool b).map .connectOk
  | ["connectRefused"] => some .connectRefused
  | ["connectTimeout"] => some .connectTimeout
  | ["pierce"] => some .pierce
  | ["cannotConnect"] => some .cannotConnect
  | ["indirectTimeout"] => some .indirectTimeout
  | ["cancelRequest"] => some .cancelRequest
  | _ => none

def handle (s : Option S) (line : String) : Option S × String :=
  match (line.splitOn " ").filter (· ≠ "") with
  | ["new", m, l, f] =>
    match (match m with | "fallback" => some Mode.fallback | "race" => some Mode.race | _ => none), parseBool l, parseBool f with
    | some m, some l, some f => let s' := init m l f; (some s', snapshot s')
    | _, _, _ => (s, "bad-op")
  | ["selectPort", p, a, b] =>
    match parseBool p, a.toNat?, b.toNat? with
    | some p, some a, some b => let (port, o) := selectPort p a b; (s, s!"{port} {b01 o}")
    | _, _, _ => (s, "bad-op")
  | toks =>
    match s, parseOp toks with
    | some st, some op =>
      match step st op with
      | none => (s, "rejected")
      | some st' => (some st', snapshot st')
    | _, _ => (s, "bad-op")

partial def loop (h : IO.FS.Stream) (s : Option S) : IO Unit := do
  let line ← h.getLine
  if line.isEmpty then return ()
  let (s', out) := handle s line.trimAscii.toString
  IO.println out
  loop h s'

def main : IO Unit := do
  loop (← IO.getStdin) none
