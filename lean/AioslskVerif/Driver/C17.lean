import AioslskVerif.Model.Cache
/-!
Line protocol for K_C17 (one op per line → one output line). The hash is `H = id` on the hashed
bytes (the harness maps the printed keys through sha256 before comparing with the real database).

  `new`                               empty database, empty manager                         → `ok`
  `add <fields>`                      build a transfer, `manager.add(t)`                    → `ok <#transfers> <#added events>`
  `addc <fields>`                     `manager.add(t)` as its own task, the `TransferAddedEvent` listener suspends
                                                                                            → `pending <#transfers> <#added>` | `dup <#transfers> <#added>`
  `addr <u> <p> <d>`                  that listener resumes, `add()` returns                → `ok <#transfers>` | `no-pending`
  `rmc <u> <p> <d> <now>`             `manager.remove(t)` as its own task up to the first suspended listener (state
                                      listener of the abort transition / `TransferRemovedEvent` listener)
                                                                                            → `aborting <#transfers> <#removed events> st=<state>` | `announcing <#transfers> <#removed>` | `not-found` | `busy`
  `rms <u> <p> <d>`                   the suspended listener resumes, up to the next one / the return
                                                                                            → `announcing <#> <#removed>` | `done <#> <#removed>` | `no-pending`
  `mut <fields>`                      overwrite the non-identity attributes of the transfer with this identity → `ok` | `not-found`
  `rm <u> <p> <d> <now>`              `manager.remove(t)` of the transfer with this identity → `ok <#transfers>` | `not-found`
  `store`                             `store_data()`                                        → `keys <hex>,<hex>,… there=<ident>;… gone=<ident>;…` (ghost: reported added / removed)
  `legacy <u> <p> <d> <a> <o> <k> <s>` rewrite the stored entry of identity (u,p,d): drop `abort_reason` (a=1),
                                      add `_offset` (o=1), move it to the pre-fix key (k=1), state := UNSET (s=1)
                                                                                            → `ok` | `not-found`
  `restart`                           new manager, `load_data()`                            → `loaded <#> <#added> <t>|<t>|…` | `error no-state-class`
  `sched <u>,<u>,…`                   `_get_queued_transfers()` with the listed users offline → `dl=<ident>|… ul=<user>|…`
                                      (also what the harness's `cycle` op is compared with: the peers told by the first
                                      management cycle of the real job)
  `prev <fields> ok=<0|1>`            environment: an entry for this transfer as the pinned writer leaves it, under the
                                      current (ok=0) or the pre-fix (ok=1) key                → `ok`
  `dupkey <u> <p> <d>`                environment: the stored entry of (u,p,d) is also put under the pre-fix key → `ok` | `not-found`
  `loadc <ident>;<ident>;…`           new manager, `load_data()` as its own task up to the first suspended
                                      `TransferAddedEvent` listener; the idents give the order in which shelve hands out
                                      the entries                → `loading <#transfers> <#added> <ident just registered>` |
                                                                   `loaded <#> <#added> <t>|…` | `error no-state-class`
  `loadr`                             that listener resumes, up to the next one / the end of `read_cache()`
                                                                 → `loading …` | `loaded …` | `no-pending`

`<fields>` = space separated `key=value`; strings `x<hex of utf-8>`, `-` = None.
-/
open AioslskVerif.Cache

namespace C17Driver

def hexDigit (n : Nat) : Char := if n < 10 then Char.ofNat (48 + n) else Char.ofNat (87 + n)

def hexOfBytes (b : ByteArray) : String :=
  String.ofList (b.toList.flatMap fun x => [hexDigit (x.toNat / 16), hexDigit (x.toNat % 16)])

def hexVal (c : Char) : Option Nat :=
  if '0' ≤ c ∧ c ≤ '9' then some (c.toNat - 48)
  else if 'a' ≤ c ∧ c ≤ 'f' then some (c.toNat - 87)
  else none

def bytesOfHex : List Char → Option (List UInt8)
  | [] => some []
  | a :: b :: r => do
    let x ← hexVal a
    let y ← hexVal b
    let rest ← bytesOfHex r
    pure (UInt8.ofNat (x * 16 + y) :: rest)
  | _ => none

/-- `x<hex>` → string -/
def parseStr (s : String) : Option Str :=
  match s.toList with
  | 'x' :: h => do
    let bs ← bytesOfHex h
    let str ← String.fromUTF8? (ByteArray.mk bs.toArray)
    pure str.toList
  | _ => none

def showStr (s : Str) : String := "x" ++ hexOfBytes (String.ofList s).toUTF8

def parseOpt {α} (f : String → Option α) (s : String) : Option (Option α) :=
  if s = "-" then some none else (f s).map some

def showOpt {α} (f : α → String) : Option α → String
  | none => "-"
  | some a => f a

def parseDir (s : String) : Option Dir :=
  match s.toNat? with
  | some n => if n = Dir.upload.value then some .upload else if n = Dir.download.value then some .download else none
  | none => none

def parseBool (s : String) : Option Bool :=
  if s = "0" then some false else if s = "1" then some true else none

def showBool (b : Bool) : String := if b then "1" else "0"

def lookup (kvs : List (String × String)) (k : String) : Option String := kvs.lookup k

def parseFields (toks : List String) : Option (List (String × String)) :=
  toks.mapM fun t =>
    match t.splitOn "=" with
    | [k, v] => some (k, v)
    | _ => none

/-- every attribute must be present and well-formed; nothing is defaulted -/
def parseTransfer (kvs : List (String × String)) : Option Transfer := do
  let u ← (← lookup kvs "u") |> parseStr
  let p ← (← lookup kvs "p") |> parseStr
  let d ← (← lookup kvs "d") |> parseDir
  let stv ← (← lookup kvs "st").toInt?
  let st ← stateOfValue stv
  let lp ← (← lookup kvs "lp") |> parseOpt parseStr
  let fs ← (← lookup kvs "fs") |> parseOpt String.toNat?
  let bt ← (← lookup kvs "bt").toNat?
  let fr ← (← lookup kvs "fr") |> parseOpt parseStr
  let ar ← (← lookup kvs "ar") |> parseOpt parseStr
  let rq ← (← lookup kvs "rq") |> parseBool
  let piq ← (← lookup kvs "piq") |> parseOpt String.toNat?
  let qa ← (← lookup kvs "qa").toNat?
  let lqa ← (← lookup kvs "lqa").toNat?
  let ura ← (← lookup kvs "ura").toNat?
  let lura ← (← lookup kvs "lura").toNat?
  let stt ← (← lookup kvs "stt") |> parseOpt String.toNat?
  let ct ← (← lookup kvs "ct") |> parseOpt String.toNat?
  let off ← (← lookup kvs "off") |> parseBool
  let tk ← (← lookup kvs "tk").toNat?
  pure { user := u, path := p, dir := d, state := st, localPath := lp, filesize := fs, bytes := bt,
         failReason := fr, abortReason := ar, remotelyQueued := rq, placeInQueue := piq, queueAttempts := qa,
         lastQueueAttempt := lqa, uploadRequestAttempts := ura, lastUploadRequestAttempt := lura,
         startTime := stt, completeTime := ct, hasOffset := off, listeners := [], tasks := tk }

def showIdent (u p : Str) (d : Dir) : String := s!"{showStr u},{showStr p},{d.value}"

def showTransfer (mid : Nat) (t : Transfer) : String :=
  s!"u={showStr t.user} p={showStr t.path} d={t.dir.value} st={t.state.value} lp={showOpt showStr t.localPath} " ++
  s!"fs={showOpt toString t.filesize} bt={t.bytes} fr={showOpt showStr t.failReason} ar={showOpt showStr t.abortReason} " ++
  s!"rq={showBool t.remotelyQueued} piq={showOpt toString t.placeInQueue} qa={t.queueAttempts} lqa={t.lastQueueAttempt} " ++
  s!"ura={t.uploadRequestAttempts} lura={t.lastUploadRequestAttempt} stt={showOpt toString t.startTime} " ++
  s!"ct={showOpt toString t.completeTime} off={showBool t.hasOffset} " ++
  s!"ls={t.listeners.length}/{(t.listeners.filter (· = mid)).length} tk={t.tasks}"

abbrev S := Sys ByteArray

def parseIdent (u p d : String) : Option Ident :=
  match parseStr u, parseStr p, parseDir d with
  | some u, some p, some d => some (u, p, d)
  | _, _, _ => none

def parseOp (line : String) : Option Op :=
  match (line.splitOn " ").filter (· ≠ "") with
  | ["new"] => some .new
  | "add" :: toks => (parseFields toks >>= parseTransfer).map .add
  | "addc" :: toks => (parseFields toks >>= parseTransfer).map .addCall
  | ["addr", u, p, d] => (parseIdent u p d).map .addRet
  | "mut" :: toks => (parseFields toks >>= parseTransfer).map .edit
  | ["rm", u, p, d, now] => do pure (.rm (← parseIdent u p d) (← now.toNat?))
  | ["rmc", u, p, d, now] => do pure (.rmCall (← parseIdent u p d) (← now.toNat?))
  | ["rms", u, p, d] => (parseIdent u p d).map .rmStep
  | ["store"] => some .store
  | ["legacy", u, p, d, a, o, k, st] => do
    pure (.legacy (← parseIdent u p d) (← parseBool a) (← parseBool o) (← parseBool k) (← parseBool st))
  | ["restart"] => some .restart
  | ["sched"] => some (.sched [])
  | ["sched", us] => ((us.splitOn ",").mapM parseStr).map .sched
  | "prev" :: toks => do
    let kvs ← parseFields toks
    let t ← parseTransfer (kvs.filter (·.1 ≠ "ok"))
    let k ← (← lookup kvs "ok") |> parseBool
    pure (.prev t k)
  | ["dupkey", u, p, d] => (parseIdent u p d).map .dupKey
  | ["loadc"] => some (.loadCall [])
  | ["loadc", ids] =>
    ((ids.splitOn ";").mapM fun (i : String) =>
      match i.splitOn "," with
      | [u, p, d] => parseIdent u p d
      | _ => none).map .loadCall
  | ["loadr"] => some .loadStep
  | _ => none

def showIdents (l : List Ident) : String := ";".intercalate (l.map fun i => showIdent i.1 i.2.1 i.2.2)

def stateOf (s : S) (id : Ident) : String :=
  match s.mgr.transfers.find? (fun q => ident q = id) with
  | some q => toString q.state.value
  | none => "-"

/-- one output line per op: the outcome and what the harness can observe on the real manager -/
def render (op : Op) (s : S) (out : Out) : String :=
  let n := s.mgr.transfers.length
  match op, out with
  | .new, _ => "ok"
  | .add _, .ok => s!"ok {n} {s.mgr.addedEvents}"
  | .add _, .dup => s!"ok {n} {s.mgr.addedEvents}"
  | .addCall _, .dup => s!"dup {n} {s.mgr.addedEvents}"
  | .addCall _, .pendingAdd => s!"pending {n} {s.mgr.addedEvents}"
  | .addRet _, .ok => s!"ok {n}"
  | .rm _ _, .done => s!"ok {n}"
  | .rmCall id _, .aborting => s!"aborting {n} {s.removedEvents} st={stateOf s id}"
  | .rmCall _ _, .announcing => s!"announcing {n} {s.removedEvents}"
  | .rmStep _, .announcing => s!"announcing {n} {s.removedEvents}"
  | .rmStep _, .done => s!"done {n} {s.removedEvents}"
  | .store, _ =>
    "keys " ++ ",".intercalate (s.db.map fun e => hexOfBytes e.1) ++
      " there=" ++ showIdents s.there ++ " gone=" ++ showIdents s.gone
  | .restart, .loaded =>
    s!"loaded {n} {s.mgr.addedEvents} " ++ "|".intercalate (s.mgr.transfers.map (showTransfer s.mgr.id))
  | .restart, _ => "error no-state-class"
  | _, .loaded =>
    s!"loaded {n} {s.mgr.addedEvents} " ++ "|".intercalate (s.mgr.transfers.map (showTransfer s.mgr.id))
  | _, .loading =>
    s!"loading {n} {s.mgr.addedEvents} " ++
      (match s.mgr.transfers.getLast? with
       | some t => showIdent t.user t.path t.dir
       | none => "-")
  | _, .loadError => "error no-state-class"
  | .sched offl, _ =>
    let r := eligible (fun u => offl.contains u) s.mgr.transfers
    "dl=" ++ "|".intercalate (r.1.map fun t => showIdent t.user t.path t.dir) ++
      " ul=" ++ "|".intercalate (r.2.map fun t => showStr t.user)
  | _, .ok => "ok"
  | _, .notFound => "not-found"
  | _, .busy => "busy"
  | _, .noPending => "no-pending"
  | _, _ => "bad-outcome"

def handle (s : S) (line : String) : S × String :=
  if line = "dump" then
    (s, s!"dump {s.mgr.transfers.length} " ++ "|".intercalate (s.mgr.transfers.map (showTransfer s.mgr.id)))
  else
    match parseOp line with
    | none => (s, "bad-op")
    | some op =>
      let r := step id s op
      (r.1, render op r.1 r.2)

partial def loop (h : IO.FS.Stream) (s : S) : IO Unit := do
  let line ← h.getLine
  if line.isEmpty then return ()
  let (s', out) := handle s line.trimAscii.toString
  IO.println out
  loop h s'

end C17Driver

def main : IO Unit := do
  C17Driver.loop (← IO.getStdin) Sys.init
