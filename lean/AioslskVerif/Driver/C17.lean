import AioslskVerif.Model.Cache
/-!
Line protocol for K_C17 (one op per line → one output line). The hash is `H = id` on the hashed
bytes (the harness maps the printed keys through sha256 before comparing with the real database).

  `new`                               empty database, empty manager                         → `ok`
  `add <fields>`                      build a transfer, `manager.add(t)`                    → `ok <#transfers> <#added events>`
  `mut <fields>`                      overwrite the non-identity attributes of the transfer with this identity → `ok` | `not-found`
  `rm <u> <p> <d>`                    `manager.remove(t)` of the transfer with this identity → `ok <#transfers>` | `not-found`
  `store`                             `store_data()`                                        → `keys <hex>,<hex>,…`
  `legacy <u> <p> <d> <a> <o> <k> <s>` rewrite the stored entry of identity (u,p,d): drop `abort_reason` (a=1),
                                      add `_offset` (o=1), move it to the pre-fix key (k=1), state := UNSET (s=1)
                                                                                            → `ok` | `not-found`
  `restart`                           new manager, `load_data()`                            → `loaded <#> <#added> <t>|<t>|…` | `error no-state-class`
  `sched <u>,<u>,…`                   `_get_queued_transfers()` with the listed users offline → `dl=<ident>|… ul=<user>|…`

`<fields>` = space separated `key=value`; strings `x<hex of utf-8>`, `-` = None.
-/
open AioslskVerif.Cache

namespace C17Driver

def hexDigit (n : Nat) : Char := if n < 10 then Char.ofNat (48 + n) else Char.ofNat (87 + n)

def hexOfBytes (b : ByteArray) : String :=
  String.ofList (b.toList.flatMap fun x => [hexDigit (x.toNat / 16), hexDigit (x.toNat % 16)])

def hexVal (c : Char) : Option Nat :=
  if '0' ≤ c ∧ c ≤ '9' then some (c.toNat - 48)
  else if 'a' ≤ c ∧ c ≤ 'f' then some (c.toNat - 87)
  else none

def bytesOfHex : List Char → Option (List UInt8)
  | [] => some []
  | a :: b :: r => do
    let x ← hexVal a
    let y ← hexVal b
    let rest ← bytesOfHex r
    pure (UInt8.ofNat (x * 16 + y) :: rest)
  | _ => none

/-- `x<hex>` → string -/
def parseStr (s : String) : Option Str :=
  match s.toList with
  | 'x' :: h => do
    let bs ← bytesOfHex h
    let str ← String.fromUTF8? (ByteArray.mk bs.toArray)
    pure str.toList
  | _ => none

def showStr (s : Str) : String := "x" ++ hexOfBytes (String.ofList s).toUTF8

def parseOpt {α} (f : String → Option α) (s : String) : Option (Option α) :=
  if s = "-" then some none else (f s).map some

def showOpt {α} (f : α → String) : Option α → String
  | none => "-"
  | some a => f a

def parseDir (s : String) : Option Dir :=
  match s.toNat? with
  | some n => if n = Dir.upload.value then some .upload else if n = Dir.download.value then some .download else none
  | none => none

def parseBool (s : String) : Option Bool :=
  if s = "0" then some false else if s = "1" then some true else none

def showBool (b : Bool) : String := if b then "1" else "0"

def lookup (kvs : List (String × String)) (k : String) : Option String := kvs.lookup k

def parseFields (toks : List String) : Option (List (String × String)) :=
  toks.mapM fun t =>
    match t.splitOn "=" with
    | [k, v] => some (k, v)
    | _ => none

/-- every attribute must be present and well-formed; nothing is defaulted -/
def parseTransfer (kvs : List (String × String)) : Option Transfer := do
  let u ← (← lookup kvs "u") |> parseStr
  let p ← (← lookup kvs "p") |> parseStr
  let d ← (← lookup kvs "d") |> parseDir
  let stv ← (← lookup kvs "st").toInt?
  let st ← stateOfValue stv
  let lp ← (← lookup kvs "lp") |> parseOpt parseStr
  let fs ← (← lookup kvs "fs") |> parseOpt String.toNat?
  let bt ← (← lookup kvs "bt").toNat?
  let fr ← (← lookup kvs "fr") |> parseOpt parseStr
  let ar ← (← lookup kvs "ar") |> parseOpt parseStr
  let rq ← (← lookup kvs "rq") |> parseBool
  let piq ← (← lookup kvs "piq") |> parseOpt String.toNat?
  let qa ← (← lookup kvs "qa").toNat?
  let lqa ← (← lookup kvs "lqa").toNat?
  let ura ← (← lookup kvs "ura").toNat?
  let lura ← (← lookup kvs "lura").toNat?
  let stt ← (← lookup kvs "stt") |> parseOpt String.toNat?
  let ct ← (← lookup kvs "ct") |> parseOpt String.toNat?
  let off ← (← lookup kvs "off") |> parseBool
  let tk ← (← lookup kvs "tk").toNat?
  pure { user := u, path := p, dir := d, state := st, localPath := lp, filesize := fs, bytes := bt,
         failReason := fr, abortReason := ar, remotelyQueued := rq, placeInQueue := piq, queueAttempts := qa,
         lastQueueAttempt := lqa, uploadRequestAttempts := ura, lastUploadRequestAttempt := lura,
         startTime := stt, completeTime := ct, hasOffset := off, listeners := [], tasks := tk }

def showIdent (u p : Str) (d : Dir) : String := s!"{showStr u},{showStr p},{d.value}"

def showTransfer (mid : Nat) (t : Transfer) : String :=
  s!"u={showStr t.user} p={showStr t.path} d={t.dir.value} st={t.state.value} lp={showOpt showStr t.localPath} " ++
  s!"fs={showOpt toString t.filesize} bt={t.bytes} fr={showOpt showStr t.failReason} ar={showOpt showStr t.abortReason} " ++
  s!"rq={showBool t.remotelyQueued} piq={showOpt toString t.placeInQueue} qa={t.queueAttempts} lqa={t.lastQueueAttempt} " ++
  s!"ura={t.uploadRequestAttempts} lura={t.lastUploadRequestAttempt} stt={showOpt toString t.startTime} " ++
  s!"ct={showOpt toString t.completeTime} off={showBool t.hasOffset} " ++
  s!"ls={t.listeners.length}/{(t.listeners.filter (· = mid)).length} tk={t.tasks}"

structure S where
  mgr : Mgr
  db : Db ByteArray

def mgrId : Nat := 1

def S.init : S := { mgr := Mgr.empty mgrId, db := [] }

def setAt {α} : List α → Nat → α → List α
  | [], _, _ => []
  | _ :: r, 0, a => a :: r
  | x :: r, n + 1, a => x :: setAt r n a

def handle (s : S) (line : String) : S × String :=
  match (line.splitOn " ").filter (· ≠ "") with
  | ["new"] => (S.init, "ok")
  | "add" :: toks =>
    match parseFields toks >>= parseTransfer with
    | some t =>
      let m := s.mgr.add t
      ({ s with mgr := m }, s!"ok {m.transfers.length} {m.addedEvents}")
    | none => (s, "bad-op")
  | "mut" :: toks =>
    match parseFields toks >>= parseTransfer with
    | some t =>
      match s.mgr.transfers.findIdx? (fun q => ident q = ident t) with
      | some i =>
        -- identity and listeners stay; every other attribute is overwritten
        let ls := (s.mgr.transfers[i]?.map (·.listeners)).getD []
        ({ s with mgr := { s.mgr with transfers := setAt s.mgr.transfers i { t with listeners := ls } } }, "ok")
      | none => (s, "not-found")
    | none => (s, "bad-op")
  | ["rm", u, p, d] =>
    match parseStr u, parseStr p, parseDir d with
    | some u, some p, some d =>
      match s.mgr.transfers.findIdx? (fun q => ident q = (u, p, d)) with
      | some i =>
        let m := { s.mgr with transfers := s.mgr.transfers.eraseIdx i, cycleRequested := true }
        ({ s with mgr := m }, s!"ok {m.transfers.length}")
      | none => (s, "not-found")
    | _, _, _ => (s, "bad-op")
  | ["store"] =>
    let db := write id s.db s.mgr.transfers
    ({ s with db := db }, "keys " ++ ",".intercalate (db.map fun e => hexOfBytes e.1))
  | ["legacy", u, p, d, a, o, k, st] =>
    match parseStr u, parseStr p, parseDir d, parseBool a, parseBool o, parseBool k, parseBool st with
    | some u, some p, some d, some a, some o, some k, some st =>
      match s.db.find? (fun e => e.2.user = u ∧ e.2.path = p ∧ e.2.dir = d) with
      | some e =>
        let r := { e.2 with abortReason := if a then none else e.2.abortReason,
                            hasOffset := e.2.hasOffset || o,
                            state := if st then -1 else e.2.state }
        let db : Db ByteArray :=
          if k then Db.put (s.db.filter (fun x => x.1 ≠ e.1)) (oldKeyBytes u p d) r else Db.put s.db e.1 r
        ({ s with db := db }, "ok")
      | none => (s, "not-found")
    | _, _, _, _, _, _, _ => (s, "bad-op")
  | ["restart"] =>
    match (Mgr.empty mgrId).load s.db with
    | some m =>
      ({ s with mgr := m },
       s!"loaded {m.transfers.length} {m.addedEvents} " ++ "|".intercalate (m.transfers.map (showTransfer m.id)))
    | none => ({ s with mgr := Mgr.empty mgrId }, "error no-state-class")
  | "sched" :: rest =>
    let offl : Option (List Str) :=
      match rest with
      | [] => some []
      | [us] => (us.splitOn ",").mapM parseStr
      | _ => none
    match offl with
    | some offl =>
      let r := eligible (fun u => offl.contains u) s.mgr.transfers
      (s, "dl=" ++ "|".intercalate (r.1.map fun t => showIdent t.user t.path t.dir) ++
          " ul=" ++ "|".intercalate (r.2.map fun t => showStr t.user))
    | none => (s, "bad-op")
  | ["dump"] =>
    (s, s!"dump {s.mgr.transfers.length} " ++ "|".intercalate (s.mgr.transfers.map (showTransfer s.mgr.id)))
  | _ => (s, "bad-op")

partial def loop (h : IO.FS.Stream) (s : S) : IO Unit := do
  let line ← h.getLine
  if line.isEmpty then return ()
  let (s', out) := handle s line.trimAscii.toString
  IO.println out
  loop h s'

end C17Driver

def main : IO Unit := do
  C17Driver.loop (← IO.getStdin) C17Driver.S.init
