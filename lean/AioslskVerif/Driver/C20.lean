import AioslskVerif.Model.Rate
/-!
Line protocol for K_C20.
  `new <kbps> <now>`      `Network` with a fresh limiter `create_limiter(kbps)`, clock = now   → `ok`
  `poll <pid> <dt>`       clock += dt; poller `pid` is stepped (starts a `take_tokens()` call, or wakes from its
                          sleep if it holds the lock of the object its pending call belongs to)
                          → `<status> <obj> <pid:grant,…|-> <bucket> <last> <holder|-> <queue,…|->`
  `set <kbps>`            `set_upload_speed_limit(kbps)`                                      → `ok <bucket> <last>`
-/
open AioslskVerif.Rate

def fresh (kbps : Nat) : NObj :=
  if kbps = 0 then .unlimited
  else .limited { lim := { L := kbps * AioslskVerif.Generated.Rate.bytesPerKb, bucket := 0, last := 0 },
                  holder := none, queue := [] }

def showList (xs : List String) : String := if xs.isEmpty then "-" else String.intercalate "," xs

def showObj : NObj → String
  | .unlimited => "0 0 - -"
  | .limited o =>
    s!"{o.lim.bucket} {o.lim.last} {match o.holder with | some h => toString h | none => "-"} {showList (o.queue.map toString)}"

def handle (s : Net) (line : String) : Net × String :=
  match (line.splitOn " ").filter (· ≠ "") with
  | ["new", k, t] =>
    match k.toNat?, t.toNat? with
    | some k, some t => ({ objs := [fresh k], cur := 0, bound := [], now := t }, "ok")
    | _, _ => (s, "bad-op")
  | ["poll", p, d] =>
    match p.toNat?, d.toNat? with
    | some p, some d =>
      let r := s.poll p d
      let o := (r.1.objs[r.2.2.1]?).getD .unlimited
      let st := match r.2.2.2 with | .blocked => "blocked" | .polled => "polled" | .noObject => "no-object"
      (r.1, s!"{st} {r.2.2.1} {showList (r.2.1.map fun g => s!"{g.1}:{g.2}")} {showObj o}")
    | _, _ => (s, "bad-op")
  | ["set", k] =>
    match k.toNat? with
    | some k =>
      let r := s.setLimit k
      let o := (r.objs[r.cur]?).getD .unlimited
      (r, s!"ok {o.limiter.bucket} {o.limiter.last}")
    | none => (s, "bad-op")
  | _ => (s, "bad-op")

partial def loop (h : IO.FS.Stream) (s : Net) : IO Unit := do
  let line ← h.getLine
  if line.isEmpty then return ()
  let (s', out) := handle s line.trimAscii.toString
  IO.println out
  loop h s'

def main : IO Unit := do
  loop (← IO.getStdin) { objs := [.unlimited], cur := 0, bound := [], now := 0 }
