import AioslskVerif.Model.Rate
/-!
Line protocol for K_C20.
  `new <kbps> <now>`      `Network` with a fresh limiter `create_limiter(kbps)`, clock = now   → `ok`
  `poll <pid> <dt>`       clock += dt; poller `pid` is stepped (starts a `take_tokens()` call on the current limiter
                          object, or wakes from its sleep if it holds the lock of the object its pending call is on)
                          → `<fate> <pid:grant,…|-> | <obj> ; <obj> ; …`   (every limiter object created so far)
                          fate: `granted` | `asleep` | `queued` | `none`
                          obj:  `U <bucket> <last>`  |  `L <bucket> <last> <holder|-> <queue,…|->`
  `set <kbps>`            `set_upload_speed_limit(kbps)`                                      → `ok <bucket> <last>`
-/
open AioslskVerif.Rate

def fresh (kbps : Nat) : NObj :=
  if kbps = 0 then .unlimited 0 0
  else .limited { lim := { L := kbps * AioslskVerif.Generated.Rate.bytesPerKb, bucket := 0, last := 0 },
                  holder := none, queue := [] }

def showList (xs : List String) : String := if xs.isEmpty then "-" else String.intercalate "," xs

def showObj : NObj → String
  | .unlimited b l => s!"U {b} {l}"
  | .limited o =>
    s!"L {o.lim.bucket} {o.lim.last} {match o.holder with | some h => toString h | none => "-"} {showList (o.queue.map toString)}"

def handle (s : Net) (line : String) : Net × String :=
  match (line.splitOn " ").filter (· ≠ "") with
  | ["new", k, t] =>
    match k.toNat?, t.toNat? with
    | some k, some t => ({ olds := [], cur := fresh k, now := t }, "ok")
    | _, _ => (s, "bad-op")
  | ["poll", p, d] =>
    match p.toNat?, d.toNat? with
    | some p, some d =>
      let r := s.poll p d
      let fate :=
        if r.2.any (·.1 == p) then "granted"
        else match findPending p r.1.objs 0 with
          | some (_, true) => "asleep"
          | some (_, false) => "queued"
          | none => "none"
      (r.1, s!"{fate} {showList (r.2.map fun g => s!"{g.1}:{g.2}")} | {String.intercalate " ; " (r.1.objs.map showObj)}")
    | _, _ => (s, "bad-op")
  | ["set", k] =>
    match k.toNat? with
    | some k =>
      let r := s.setLimit k
      (r, s!"ok {r.cur.limiter.bucket} {r.cur.limiter.last}")
    | none => (s, "bad-op")
  | _ => (s, "bad-op")

partial def loop (h : IO.FS.Stream) (s : Net) : IO Unit := do
  let line ← h.getLine
  if line.isEmpty then return ()
  let (s', out) := handle s line.trimAscii.toString
  IO.println out
  loop h s'

def main : IO Unit := do
  loop (← IO.getStdin) { olds := [], cur := .unlimited 0 0, now := 0 }
