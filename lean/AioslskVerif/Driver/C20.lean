import AioslskVerif.Model.Rate
/-!
Line protocol for K_C20.
  `new <kbps> <now>`      `Network` with a fresh limiter `create_limiter(kbps)`, clock = now   → `ok`
  `poll <pid> <dt>`       clock += dt; poller `pid` runs one iteration of its `take_tokens`
                          → `<grant> <object index> <bucket> <last>`
  `set <kbps>`            `set_upload_speed_limit(kbps)`                                      → `ok <bucket> <last>`
-/
open AioslskVerif.Rate

def fresh (kbps : Nat) : Limiter :=
  if kbps = 0 then .unlimited
  else .limited { L := kbps * AioslskVerif.Generated.Rate.bytesPerKb, bucket := 0, last := 0 }

def handle (s : Net) (line : String) : Net × String :=
  match (line.splitOn " ").filter (· ≠ "") with
  | ["new", k, t] =>
    match k.toNat?, t.toNat? with
    | some k, some t => ({ objs := [fresh k], cur := 0, parked := [], now := t }, "ok")
    | _, _ => (s, "bad-op")
  | ["poll", p, d] =>
    match p.toNat?, d.toNat? with
    | some p, some d =>
      let r := s.poll p d
      let o := (r.1.objs[r.2.2]?).getD .unlimited
      (r.1, s!"{r.2.1} {r.2.2} {o.bucket} {o.last}")
    | _, _ => (s, "bad-op")
  | ["set", k] =>
    match k.toNat? with
    | some k =>
      let r := s.setLimit k
      let o := (r.objs[r.cur]?).getD .unlimited
      (r, s!"ok {o.bucket} {o.last}")
    | none => (s, "bad-op")
  | _ => (s, "bad-op")

partial def loop (h : IO.FS.Stream) (s : Net) : IO Unit := do
  let line ← h.getLine
  if line.isEmpty then return ()
  let (s', out) := handle s line.trimAscii.toString
  IO.println out
  loop h s'

def main : IO Unit := do
  loop (← IO.getStdin) { objs := [.unlimited], cur := 0, parked := [], now := 0 }
