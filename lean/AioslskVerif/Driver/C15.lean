import AioslskVerif.Model.Track
/-!
Line protocol for K_C15 (users 0 and 1; every line except `reset` first moves the clock one tick).

  `reset`                              fresh manager                                   → `ok`
  `track <u> <flags> <m>`              `track_user(u, TrackingFlag(flags))`
  `untrack <u> <flags> <m>`            `untrack_user(u, TrackingFlag(flags))`
  `send <u> ok|fail <m>`               the pending `send_server_messages` of u's worker returns / raises
  `resp <u> exists|notexists|error <m>` the pending `wait_for_server_message` returns / raises (not a timeout)
  `adv <seconds>`                      virtual time passes: due retry timers and response timeouts fire in order
  `fire <u> <off>`                     virtual time passes up to the instant u's retry timer is due (everything due earlier
                                       happens first) and the timer fires — but its task (`_request_retry`, which puts
                                       the retry request on the queue) has not run yet: the following lines with `+` are
                                       issued in that window, the task runs before the next time the workers run.
                                       `off` < 1 s: ticks past the due instant at which the loop gets to run the timer
                                       (the retry task started its sleep up to a tick after the failure; the clock lands
                                       as many ticks after the instant as a plain `adv` issued now would)
  `close`                              server connection CLOSED (tracking dropped, session destroyed)
  `login`                              SessionInitializedEvent: own name and friends list tracked with FRIEND
  `cycle <m>`                          one `TransferManager.manage_user_tracking`
  `friend <u> 0|1`                     name removed from / added to `settings.users.friends` (and noticed)
  `tadd <u> <m>`                       a transfer for u is added (ids 0, 1, 2, … in creation order)
  `tfin <id> <m>` `tque <id> <m>`      transfer finalized (abort) / queued again
  `trm <id> <m>`                       `TransferManager.remove`, start to end
  `trmp <id> <phases> <m>`             a `remove` that waits in between: the steps `1` (existence check, abort),
                                       `2` (taken off the list), `3` (last transfer of that user? then the reason is
                                       withdrawn) it takes now, e.g. `12`, `3`; the workers run before the steps as well

`<m>` = `.` workers run until they park again | `!` the same (the implementation only yields once — this is
where the finished-not-yet-reaped window is hit; the fixed code, hence the model, does not distinguish) |
`+` workers do not run (the next op is issued back-to-back).
Output: `[refused ]<user 0> | <user 1>` with `f=<flags> s=<U|T|P> g=<-|A|W|R> a=<attempts> e=<events>`;
`refused` = no such call is pending / no such transfer (in that state) / the transfer is being removed / no retry timer is
pending / that step of the removal is not the next one; `bad-op`, `bad-user`, `bad-flag` for what the harness never sends.
-/
open AioslskVerif.Track AioslskVerif.Generated.Track

def allBits : Nat := flagRequested ||| flagTransfer ||| flagFriend

def decodeFlags (n : Nat) : Option Flags :=
  if n ||| allBits ≠ allBits then none
  else some ⟨n &&& flagRequested ≠ 0, n &&& flagTransfer ≠ 0, n &&& flagFriend ≠ 0⟩

def encodeFlags (f : Flags) : Nat :=
  (if f.req then flagRequested else 0) + (if f.tr then flagTransfer else 0) + (if f.fr then flagFriend else 0)

def dash (s : String) : String := if s.isEmpty then "-" else s

def obsUser (U : User) : String :=
  let st := match U.stateOf with | .untracked => "U" | .tracked => "T" | .retryPending => "P"
  let g := match U.entry with
    | none => "-"
    | some e => (match e.pc with | .idle => "-" | .sendAdd => "A" | .waitResp _ => "W" | .sendRemove => "R")
  let a := String.join (U.frames.map fun | .addUser => "A" | .removeUser => "R")
  let e := String.join (U.events.map fun | .untracked => "U" | .tracked => "T" | .retryPending => "P")
  s!"f={encodeFlags U.flagsOf} s={st} g={g} a={dash a} e={dash e}"

def obs (s : State) : String := s!"{obsUser (s.users 0)} | {obsUser (s.users 1)}"

/-- idle workers with a non-empty queue take requests until every worker is parked -/
partial def settle (s : State) : State :=
  let runnable := [0, 1].filter fun u =>
    match (s.users u).entry with
    | some e => e.pc == .idle && !e.queue.isEmpty
    | none => false
  match runnable with
  | [] => s
  | u :: _ => settle (step s (.workerStep u .sendOk))

/-- pending timers of users 0, 1: (due, user, isRetry) -/
def timers (s : State) : List (Nat × Nat × Bool) :=
  [0, 1].flatMap fun u =>
    match (s.users u).entry with
    | none => []
    | some e =>
      (match e.retry with | some t => [(t.due, u, true)] | none => []) ++
      (match e.pc with | .waitResp d => [(d, u, false)] | _ => [])

partial def advTo (s : State) (target : Nat) : State :=
  let s := settle s
  let due := (timers s).filter (·.1 ≤ target)
  match due with
  | [] => step s (.advance (target - s.now))
  | t0 :: rest =>
    let t := rest.foldl (fun a b => if b.1 < a.1 then b else a) t0
    let s := step s (.advance (t.1 - s.now))
    let s := step s (if t.2.2 then .retryFires t.2.1 else .workerStep t.2.1 .timeout)
    advTo s target

/-- the driver's state: the world, and the user whose retry timer has fired while its task has not run yet -/
structure DState where
  w : World
  pend : Option Nat

/-- the retry task whose timer has fired runs (it is ahead of every worker in the loop's ready queue) -/
def applyPend (d : DState) : World :=
  match d.pend with
  | some u => { d.w with t := step d.w.t (.retryFires u) }
  | none => d.w

def finish (d : DState) (m : String) (pre : String := "") : DState × String :=
  let d' : DState := if m == "+" then d else ⟨{ applyPend d with t := settle (applyPend d).t }, none⟩
  (d', pre ++ obs d'.w.t)

def okMod (m : String) : Bool := m == "." || m == "+" || m == "!"

def removing (w : World) (id : Nat) : Bool := w.rm.any (fun r => r.id == id)

/-- the steps of a removal, each only when it is the next one -/
def phases (w : World) (id : Nat) : List Char → Option World
  | [] => some w
  | c :: cs =>
    if c == '1' then
      (if (w.xfers.any (fun x => x.id == id)) && !removing w id then phases (wstep w (.trmStart id)) id cs else none)
    else if c == '2' then
      (if w.rm.any (fun r => r.id == id && r.dropped.isNone) then phases (wstep w (.trmDrop id)) id cs else none)
    else if c == '3' then
      (if w.rm.any (fun r => r.id == id && r.dropped.isSome) then phases (wstep w (.trmEnd id)) id cs else none)
    else none

def handle (d0 : DState) (line : String) : DState × String :=
  let d : DState := { d0 with w := { d0.w with t := step d0.w.t (.advance 1) } }
  let w := d.w
  let s := w.t
  let on (w' : World) : DState := { d with w := w' }
  match (line.splitOn " ").filter (· ≠ "") with
  | ["reset"] => (⟨World.init, none⟩, "ok")
  | ["trmp", id, ph, m] =>
    if !okMod m then (d0, "bad-op") else
    match id.toNat? with
    | none => (d0, "bad-op")
    | some id =>
      let d1 : DState := ⟨{ applyPend d with t := settle (applyPend d).t }, none⟩
      if ph.isEmpty then finish d1 m "refused " else
      match phases d1.w id ph.toList with
      | some w' => finish { d1 with w := w' } m
      | none => finish d1 m "refused "
  | [c, u, f, m] =>
    if !okMod m then (d0, "bad-op") else
    match u.toNat? with
    | none => (d0, "bad-op")
    | some u =>
      if u > 1 then (d0, "bad-user") else
      if c == "track" || c == "untrack" then
        match f.toNat? with
        | none => (d0, "bad-op")
        | some n =>
          match decodeFlags n with
          | none => (d0, "bad-flag")
          | some fl => finish (on (wstep w (.base (if c == "track" then .track u fl else .untrack u fl)))) m
      else if c == "send" then
        let env? : Option Env := if f == "ok" then some .sendOk else if f == "fail" then some .sendFail else none
        match env?, (s.users u).entry with
        | none, _ => (d0, "bad-op")
        | some env, some e =>
          if e.pc == .sendAdd || e.pc == .sendRemove then finish (on (wstep w (.base (.workerStep u env)))) m
          else finish d m "refused "
        | some _, none => finish d m "refused "
      else if c == "resp" then
        let env? : Option Env := if f == "exists" then some .exists else if f == "notexists" then some .notExists
          else if f == "error" then some .error else none
        match env?, (s.users u).entry with
        | none, _ => (d0, "bad-op")
        | some env, some e =>
          (match e.pc with
           | .waitResp _ => finish (on (wstep w (.base (.workerStep u env)))) m
           | _ => finish d m "refused ")
        | some _, none => finish d m "refused "
      else (d0, "bad-op")
  | ["adv", n] =>
    match n.toNat? with
    | some n =>
      let w1 := applyPend d
      finish ⟨{ w1 with t := advTo w1.t (w1.t.now + n * tps) }, none⟩ "."
    | none => (d0, "bad-op")
  | ["fire", u, off] =>
    match u.toNat?, off.toNat? with
    | some u, some off =>
      if u > 1 then (d0, "bad-user") else
      if off ≥ tps then (d0, "bad-op") else
      -- whatever is runnable runs first
      let d1 : DState := ⟨{ applyPend d with t := settle (applyPend d).t }, none⟩
      match (d1.w.t.users u).entry with
      | none => finish d1 "." "refused "
      | some e =>
        match e.retry with
        | none => finish d1 "." "refused "
        | some t =>
          let s1 := d1.w.t
          if t.due < s1.now then finish d1 "." "refused " else
          let s2 := if s1.now + 1 < t.due then advTo s1 (t.due - 1) else s1
          let s3 := step s2 (.advance (t.due + off - s2.now))
          finish ⟨{ d1.w with t := s3 }, some u⟩ "+"
    | _, _ => (d0, "bad-op")
  | ["close"] => finish (on (wstep (applyPend d) (.base .serverClosed))) "."
  -- the owners of the reasons (session layer)
  | ["login"] => finish (on (wstep w .login)) "."
  | ["cycle", m] => if !okMod m then (d0, "bad-op") else finish (on (wstep w .cycle)) m
  | ["friend", u, b] =>
    match u.toNat?, b with
    | some u, "1" => if u > 1 then (d0, "bad-user") else finish (on (wstep w (.friend u true))) "."
    | some u, "0" => if u > 1 then (d0, "bad-user") else finish (on (wstep w (.friend u false))) "."
    | _, _ => (d0, "bad-op")
  | ["tadd", u, m] =>
    if !okMod m then (d0, "bad-op") else
    match u.toNat? with
    | some u => if u > 1 then (d0, "bad-user") else finish (on (wstep w (.tadd u))) m
    | none => (d0, "bad-op")
  | [c, id, m] =>
    if !okMod m then (d0, "bad-op") else
    match id.toNat? with
    | none => (d0, "bad-op")
    | some id =>
      match w.xfers.find? (fun x => x.id = id) with
      | none => if c == "tfin" || c == "tque" || c == "trm" then finish d m "refused " else (d0, "bad-op")
      | some x =>
        if !(c == "tfin" || c == "tque" || c == "trm") then (d0, "bad-op")
        else if removing w id then finish d m "refused "
        else if c == "tfin" then (if x.finished then finish d m "refused " else finish (on (wstep w (.tfin id))) m)
        else if c == "tque" then (if x.finished then finish (on (wstep w (.tque id))) m else finish d m "refused ")
        else finish (on (wstep w (.trm id))) m
  | _ => (d0, "bad-op")

partial def loop (h : IO.FS.Stream) (d : DState) : IO Unit := do
  let line ← h.getLine
  if line.isEmpty then return ()
  let (d', out) := handle d line.trimAscii.toString
  IO.println out
  loop h d'

def main : IO Unit := do
  loop (← IO.getStdin) ⟨World.init, none⟩
