import AioslskVerif.Model.Track
/-!
Line protocol for K_C15 (users 0 and 1; every line except `reset` first moves the clock one tick).

  `reset`                              fresh manager                                   → `ok`
  `track <u> <flags> <m>`              `track_user(u, TrackingFlag(flags))`
  `untrack <u> <flags> <m>`            `untrack_user(u, TrackingFlag(flags))`
  `send <u> ok|fail <m>`               the pending `send_server_messages` of u's worker returns / raises
  `resp <u> exists|notexists|error <m>` the pending `wait_for_server_message` returns / raises (not a timeout)
  `adv <seconds>`                      virtual time passes: due retry timers and response timeouts fire in order
  `close`                              server connection CLOSED (tracking dropped, session destroyed)
  `login`                              SessionInitializedEvent: own name and friends list tracked with FRIEND
  `cycle <m>`                          one `TransferManager.manage_user_tracking`
  `friend <u> 0|1`                     name removed from / added to `settings.users.friends` (and noticed)
  `tadd <u> <m>`                       a transfer for u is added (ids 0, 1, 2, … in creation order)
  `tfin <id> <m>` `tque <id> <m>`      transfer finalized (abort) / queued again
  `trm <id> <m>`                       `TransferManager.remove`

`<m>` = `.` workers run until they park again | `!` the same (the implementation only yields once — this is
where the finished-not-yet-reaped window is hit; the fixed code, hence the model, does not distinguish) |
`+` workers do not run (the next op is issued back-to-back).
Output: `[refused ]<user 0> | <user 1>` with `f=<flags> s=<U|T|P> g=<-|A|W|R> a=<attempts> e=<events>`;
`refused` = no such call is pending / no such transfer (in that state); `bad-op`, `bad-user`, `bad-flag` for what the harness never sends.
-/
open AioslskVerif.Track AioslskVerif.Generated.Track

def allBits : Nat := flagRequested ||| flagTransfer ||| flagFriend

def decodeFlags (n : Nat) : Option Flags :=
  if n ||| allBits ≠ allBits then none
  else some ⟨n &&& flagRequested ≠ 0, n &&& flagTransfer ≠ 0, n &&& flagFriend ≠ 0⟩

def encodeFlags (f : Flags) : Nat :=
  (if f.req then flagRequested else 0) + (if f.tr then flagTransfer else 0) + (if f.fr then flagFriend else 0)

def dash (s : String) : String := if s.isEmpty then "-" else s

def obsUser (U : User) : String :=
  let st := match U.stateOf with | .untracked => "U" | .tracked => "T" | .retryPending => "P"
  let g := match U.entry with
    | none => "-"
    | some e => (match e.pc with | .idle => "-" | .sendAdd => "A" | .waitResp _ => "W" | .sendRemove => "R")
  let a := String.join (U.frames.map fun | .addUser => "A" | .removeUser => "R")
  let e := String.join (U.events.map fun | .untracked => "U" | .tracked => "T" | .retryPending => "P")
  s!"f={encodeFlags U.flagsOf} s={st} g={g} a={dash a} e={dash e}"

def obs (s : State) : String := s!"{obsUser (s.users 0)} | {obsUser (s.users 1)}"

/-- idle workers with a non-empty queue take requests until every worker is parked -/
partial def settle (s : State) : State :=
  let runnable := [0, 1].filter fun u =>
    match (s.users u).entry with
    | some e => e.pc == .idle && !e.queue.isEmpty
    | none => false
  match runnable with
  | [] => s
  | u :: _ => settle (step s (.workerStep u .sendOk))

/-- pending timers of users 0, 1: (due, user, isRetry) -/
def timers (s : State) : List (Nat × Nat × Bool) :=
  [0, 1].flatMap fun u =>
    match (s.users u).entry with
    | none => []
    | some e =>
      (match e.retry with | some t => [(t.due, u, true)] | none => []) ++
      (match e.pc with | .waitResp d => [(d, u, false)] | _ => [])

partial def advTo (s : State) (target : Nat) : State :=
  let s := settle s
  let due := (timers s).filter (·.1 ≤ target)
  match due with
  | [] => step s (.advance (target - s.now))
  | t0 :: rest =>
    let t := rest.foldl (fun a b => if b.1 < a.1 then b else a) t0
    let s := step s (.advance (t.1 - s.now))
    let s := step s (if t.2.2 then .retryFires t.2.1 else .workerStep t.2.1 .timeout)
    advTo s target

def finish (w : World) (m : String) (pre : String := "") : World × String :=
  let w := if m == "+" then w else { w with t := settle w.t }
  (w, pre ++ obs w.t)

def okMod (m : String) : Bool := m == "." || m == "+" || m == "!"

def handle (w0 : World) (line : String) : World × String :=
  let w : World := { w0 with t := step w0.t (.advance 1) }
  let s := w.t
  match (line.splitOn " ").filter (· ≠ "") with
  | ["reset"] => (World.init, "ok")
  | [c, u, f, m] =>
    if !okMod m then (w0, "bad-op") else
    match u.toNat? with
    | none => (w0, "bad-op")
    | some u =>
      if u > 1 then (w0, "bad-user") else
      if c == "track" || c == "untrack" then
        match f.toNat? with
        | none => (w0, "bad-op")
        | some n =>
          match decodeFlags n with
          | none => (w0, "bad-flag")
          | some fl => finish (wstep w (.base (if c == "track" then .track u fl else .untrack u fl))) m
      else if c == "send" then
        let env? : Option Env := if f == "ok" then some .sendOk else if f == "fail" then some .sendFail else none
        match env?, (s.users u).entry with
        | none, _ => (w0, "bad-op")
        | some env, some e =>
          if e.pc == .sendAdd || e.pc == .sendRemove then finish (wstep w (.base (.workerStep u env))) m
          else finish w m "refused "
        | some _, none => finish w m "refused "
      else if c == "resp" then
        let env? : Option Env := if f == "exists" then some .exists else if f == "notexists" then some .notExists
          else if f == "error" then some .error else none
        match env?, (s.users u).entry with
        | none, _ => (w0, "bad-op")
        | some env, some e =>
          (match e.pc with
           | .waitResp _ => finish (wstep w (.base (.workerStep u env))) m
           | _ => finish w m "refused ")
        | some _, none => finish w m "refused "
      else (w0, "bad-op")
  | ["adv", d] =>
    match d.toNat? with
    | some d => finish { w with t := advTo s (s.now + d * tps) } "."
    | none => (w0, "bad-op")
  | ["close"] => finish (wstep w (.base .serverClosed)) "."
  -- the owners of the reasons (session layer)
  | ["login"] => finish (wstep w .login) "."
  | ["cycle", m] => if !okMod m then (w0, "bad-op") else finish (wstep w .cycle) m
  | ["friend", u, b] =>
    match u.toNat?, b with
    | some u, "1" => if u > 1 then (w0, "bad-user") else finish (wstep w (.friend u true)) "."
    | some u, "0" => if u > 1 then (w0, "bad-user") else finish (wstep w (.friend u false)) "."
    | _, _ => (w0, "bad-op")
  | ["tadd", u, m] =>
    if !okMod m then (w0, "bad-op") else
    match u.toNat? with
    | some u => if u > 1 then (w0, "bad-user") else finish (wstep w (.tadd u)) m
    | none => (w0, "bad-op")
  | [c, id, m] =>
    if !okMod m then (w0, "bad-op") else
    match id.toNat? with
    | none => (w0, "bad-op")
    | some id =>
      match w.xfers.find? (fun x => x.id = id) with
      | none => if c == "tfin" || c == "tque" || c == "trm" then finish w m "refused " else (w0, "bad-op")
      | some x =>
        if c == "tfin" then (if x.finished then finish w m "refused " else finish (wstep w (.tfin id)) m)
        else if c == "tque" then (if x.finished then finish (wstep w (.tque id)) m else finish w m "refused ")
        else if c == "trm" then finish (wstep w (.trm id)) m
        else (w0, "bad-op")
  | _ => (w0, "bad-op")

partial def loop (h : IO.FS.Stream) (w : World) : IO Unit := do
  let line ← h.getLine
  if line.isEmpty then return ()
  let (w', out) := handle w line.trimAscii.toString
  IO.println out
  loop h w'

def main : IO Unit := do
  loop (← IO.getStdin) World.init
