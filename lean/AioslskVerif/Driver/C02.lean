import AioslskVerif.Driver.CodecCommon
import AioslskVerif.Model.Stream
import AioslskVerif.Generated.Schemas
/-!
K_C02 driver: everything of `CodecCommon` (`dec …` for K_C02a) plus
  `reader <0|1 obfuscated> <family> <dir> <hex stream|->`
      → `D <idx> <k> v₁ … vₖ | D … | C eof|readError`   (events of `Stream.reader`, decoder = family dispatcher;
        `readerSilent …`: the same stream followed by silence instead of EOF → `… | C timeout`;
        compressed classes are not used in streams: the driver has no zlib)
  `accept <0|1 obfuscated> <hex stream|-> <known tickets csv|->`  → `established` | `closed eof|readError|requested`
-/
open AioslskVerif AioslskVerif.Wire AioslskVerif.Stream AioslskVerif.CodecDriver

def table := Generated.Schemas.schemas

def showEvent : Event (Nat × List Val) → String
  | .deliver (i, vs) => String.intercalate " " (s!"D {i} {vs.length}" :: vs.map showVal)
  | .closed .eof => "C eof"
  | .closed .readError => "C readError"
  | .closed .timeout => "C timeout"

def handle2 (line : String) : String :=
  match (line.splitOn " ").filter (· ≠ "") with
  | ["readerSilent", obf, fam, dir, hex] =>
    match parseFamily fam, parseDir dir, fromHex hex with
    | some fam, some dir, some s =>
      let z : Zlib := { deflate := id, inflate := fun _ => none }
      let decode := fun (b : Bytes) => match dispatch z table fam dir b with
        | .ok r => some r
        | .error _ => none
      String.intercalate " | " ((readerSilent (obf = "1") decode s).map showEvent)
    | _, _, _ => "bad-op"
  | ["reader", obf, fam, dir, hex] =>
    match parseFamily fam, parseDir dir, fromHex hex with
    | some fam, some dir, some s =>
      let z : Zlib := { deflate := id, inflate := fun _ => none }
      let decode := fun (b : Bytes) => match dispatch z table fam dir b with
        | .ok r => some r
        | .error _ => none
      String.intercalate " | " ((reader (obf = "1") decode s).map showEvent)
    | _, _, _ => "bad-op"
  | ["accept", obf, hex, tk] =>
    match fromHex hex with
    | some s =>
      let z : Zlib := { deflate := id, inflate := fun _ => none }
      let tickets := (tk.splitOn ",").filterMap (·.toNat?)
      let decode := fun (b : Bytes) => match dispatch z table .peerinit .request b with
        | .ok (i, vs) =>
          -- PeerPierceFirewall has id 0 and one u32 field, PeerInit id 1
          match (table[i]?).map (·.id), vs with
          | some 0, [.nat t] => some (InitKind.pierce t)
          | some 1, _ => some InitKind.peerInit
          | _, _ => some InitKind.other
        | .error _ => none
      match acceptOutcome (obf = "1") decode tickets s with
      | .established => "established"
      | .closed .eof => "closed eof"
      | .closed .readError => "closed readError"
      | .closed .requested => "closed requested"
    | none => "bad-op"
  | _ => handle table line

partial def loop2 (h : IO.FS.Stream) : IO Unit := do
  let line ← h.getLine
  if line.isEmpty then return ()
  IO.println (handle2 line.trimAscii.toString)
  loop2 h

def main : IO Unit := do loop2 (← IO.getStdin)
