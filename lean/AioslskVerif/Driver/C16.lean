import AioslskVerif.Model.Session
/-!
Line protocol for K_C16 (one input line → one output line).

  `cfg k=v …`       sets the configuration and resets the state → `ok`
      keys: user creds friends liked hated favs autojoin invites reconnect sfp logconn reqtimeout wishlist scan
            slowscan race ndirs clear obf clearfail obffail mode(all|any|clear) dirs files      (lists: `a,b,c` or `-`)
  `start` `login` `logincut <j>` `exec` `populate` `search` `wl` `pp` `sr` `loss <reason>` `tick <n>` `srvup 0|1`
  `srvreply accepted|rejected|garbled|eof` `stop`
  `loginbreak pre|<j> writefail|stop|srveof|close [<reason>]`   (a login interrupted before the reply / at burst write j)
  `lossheld <reason>` `release` `connect` `lossrec <reason>`    (lossrec = loss; connect; login — a listener of the
                                                                  application reconnects inside the CLOSED event)
  `parent <name> <level> <root>` `plevel <level>` `proot <root>` `ploss` `child` `closs`   (the distributed position)
  `rescan <dirs> <files>`                                       (the application scans the shares again)
      → `att=… conn=… closed=… login=… init=… destr=… res=… exec=… fail=… inv=… frames=… | c=… s=… tasks=… tracked=… u=… r=… p=… open=… par=… kids=… told=…`
  unknown line → `error`
-/
open AioslskVerif.Session

def insertSorted (x : String) : List String → List String
  | [] => [x]
  | y :: ys => if x ≤ y then x :: y :: ys else y :: insertSorted x ys

def sortStrs (l : List String) : List String := l.foldr insertSorted []

def b01 (b : Bool) : String := if b then "1" else "0"

def frameStr : Frame → String
  | .setListenPort p a o => s!"SetListenPort({p},{a},{o})"
  | .branchLevel n => s!"BranchLevel({n})"
  | .branchRoot u => s!"BranchRoot({u})"
  | .toggleParentSearch b => s!"ToggleParentSearch({b01 b})"
  | .checkPrivileges => "CheckPrivileges"
  | .setStatus s => s!"SetStatus({s})"
  | .addUser u => s!"AddUser({u})"
  | .toggleInvites b => s!"ToggleInvites({b01 b})"
  | .joinRoom r => s!"JoinRoom({r})"
  | .addInterest i => s!"AddInterest({i})"
  | .addHatedInterest i => s!"AddHated({i})"
  | .sharedFoldersFiles d f => s!"Shared({d},{f})"

def reasonStr : Reason → String
  | .unknown => "unknown" | .connectFailed => "connect_failed" | .requested => "requested"
  | .readError => "read_error" | .writeError => "write_error" | .timeout => "timeout" | .eof => "eof"

def parseReason : String → Option Reason
  | "unknown" => some .unknown | "connect_failed" => some .connectFailed | "requested" => some .requested
  | "read_error" => some .readError | "write_error" => some .writeError | "timeout" => some .timeout
  | "eof" => some .eof | _ => none

def connStr : Conn → String
  | .uninit => "uninit" | .connecting => "connecting" | .connected => "connected" | .closing => "closing"
  | .closed => "closed"

def siteStr : Site → String
  | .sharesScan => "scan" | .potentialParent => "potential-parent" | .reader => "reader"
  | .queuedMessage => "queued-message" | .logConnections => "log-connections" | .upnp => "upnp"
  | .watchdog => "watchdog" | .directConnect => "direct-connect" | .indirectConnect => "indirect-connect"
  | .connectToPeer => "connect-to-peer" | .wishlist => "wishlist" | .searchReply => "search-reply"
  | .wishlistTimer => "wishlist-timer" | .searchTimer => "search-timer" | .ping => "ping"
  | .bgRunner => "bg-runner" | .timerRunner => "timer-runner" | .transferProgress => "transfer-progress"
  | .transferMgmt => "transfer-mgmt" | .queueRemotely => "queue-remotely" | .initUpload => "init-upload"
  | .initDownload => "init-download" | .userMgmt => "user-mgmt" | .trackRetry => "track-retry"
  | .tracking => "tracking"

def parStr : Option Parent → String
  | none => "-"
  | some p => s!"{p.name}/{p.root}/{p.level}"

def toldStr : Option (Nat × String × Bool) → String
  | none => "-"
  | some (l, r, b) => s!"{l}/{r}/{b01 b}"

def countObs (p : Obs → Bool) (o : List Obs) : Nat := (o.filter p).length

def summary (c : Config) (showRes : Bool) (st : State) (o : List Obs) : String :=
  let att := countObs (· == .attempt) o
  let conn := countObs (· == .connected) o
  let closed := ",".intercalate (o.filterMap fun x => match x with | .closed r => some (reasonStr r) | _ => none)
  let login := countObs (· == .loginSent) o
  let ini := countObs (· == .sessionInit) o
  let destr := countObs (· == .sessionDestroyed) o
  let res := if !showRes then "" else ",".intercalate (o.filterMap fun x => match x with
    | .loginResult .ok => some "ok" | .loginResult .authError => some "auth" | .loginResult .error => some "err"
    | _ => none)
  let exec := ",".intercalate (o.filterMap fun x => match x with
    | .refused => some "refused" | .sent => some "sent" | _ => none)
  let fail := countObs (· == .startFailed) o
  let inv := countObs (· == .invalid) o
  let frames := ";".intercalate (sortStrs ((o.filterMap fun x => match x with
    | .frames fs => some fs | _ => none).flatten.map frameStr))
  let tasks := ",".intercalate (sortStrs ((alive c st).map siteStr))
  let tracked := ",".intercalate (sortStrs st.tracked)
  s!"att={att} conn={conn} closed={closed} login={login} init={ini} destr={destr} res={res} exec={exec} " ++
  s!"fail={fail} inv={inv} frames={frames} | c={connStr st.conn} s={b01 st.session} tasks={tasks} " ++
  s!"tracked={tracked} u={b01 st.users} r={b01 st.rooms} p={b01 st.params} open={openSockets st} " ++
  s!"par={parStr st.parent} kids={st.children} told={toldStr st.told}"

def parseList (s : String) : List String := if s == "-" then [] else s.splitOn ","

def parseBool : String → Option Bool
  | "1" => some true | "0" => some false | _ => none

def setKey (c : Config) (k v : String) : Option Config :=
  match k with
  | "user" => some { c with username := v }
  | "creds" => (parseBool v).map fun b => { c with credsOk := b }
  | "friends" => some { c with friends := parseList v }
  | "liked" => some { c with liked := parseList v }
  | "hated" => some { c with hated := parseList v }
  | "favs" => some { c with favorites := parseList v }
  | "autojoin" => (parseBool v).map fun b => { c with autoJoin := b }
  | "invites" => (parseBool v).map fun b => { c with invites := b }
  | "reconnect" => (parseBool v).map fun b => { c with reconnectAuto := b }
  | "sfp" => (parseBool v).map fun b => { c with searchForParent := b }
  | "logconn" => (parseBool v).map fun b => { c with logConnections := b }
  | "reqtimeout" => (parseBool v).map fun b => { c with requestTimeout := b }
  | "wishlist" => v.toNat?.map fun n => { c with wishlist := n }
  | "scan" => (parseBool v).map fun b => { c with scanOnStart := b }
  | "race" => (parseBool v).map fun b => { c with race := b }
  | "slowscan" => (parseBool v).map fun b => { c with slowScan := b }
  | "clear" => v.toNat?.map fun n => { c with clearPort := n }
  | "obf" => v.toNat?.map fun n => { c with obfPort := n }
  | "clearfail" => (parseBool v).map fun b => { c with clearBindFails := b }
  | "obffail" => (parseBool v).map fun b => { c with obfBindFails := b }
  | "mode" => match v with
    | "all" => some { c with errorMode := .all }
    | "any" => some { c with errorMode := .any }
    | "clear" => some { c with errorMode := .clear }
    | _ => none
  | "ndirs" => v.toNat?.map fun n => { c with shareDirs := n }
  | "dirs" => v.toNat?.map fun n => { c with dirs := n }
  | "files" => v.toNat?.map fun n => { c with files := n }
  | _ => none

def parseCfg (toks : List String) : Option Config :=
  toks.foldlM (fun c t => match t.splitOn "=" with
    | [k, v] => setKey c k v
    | _ => none) ({} : Config)

def parsePos : String → Option (Option Nat)
  | "pre" => some none
  | s => s.toNat?.map some

def parseOps (_c : Config) (toks : List String) : Option (List Op) :=
  match toks with
  | ["start"] => some [.start]
  | ["login"] => some [.login]
  -- how many frames are delivered is up to the network and masked in K; the driver fills in the typical value
  | ["logincut", j] => j.toNat?.map fun j => [.loginBreak (some j) j .writeFail]
  | ["loginbreak", pos, "writefail"] => (parsePos pos).map fun p => [.loginBreak p (p.getD 0) .writeFail]
  | ["loginbreak", pos, "stop"] => (parsePos pos).map fun p => [.loginBreak p (p.getD 0 + 1) .stop]
  | ["loginbreak", pos, "srveof"] => (parsePos pos).map fun p => [.loginBreak p (p.getD 0 + 1) .srvEof]
  | ["loginbreak", pos, "close", r] =>
      (parsePos pos).bind fun p => (parseReason r).map fun r => [.loginBreak p (p.getD 0 + 1) (.close r)]
  | ["lossheld", r] => (parseReason r).map fun r => [.lossHeld r]
  | ["release"] => some [.release]
  | ["connect"] => some [.connect]
  | ["parent", name, level, root] => level.toNat?.map fun l => [.parentAdopt name root l]
  | ["plevel", level] => level.toNat?.map fun l => [.parentLevel l]
  | ["proot", root] => some [.parentRoot root]
  | ["ploss"] => some [.parentLoss]
  | ["child"] => some [.childJoin]
  | ["closs"] => some [.childLoss]
  | ["rescan", d, f] => d.toNat?.bind fun d => f.toNat?.map fun f => [.rescan d f]
  | ["lossrec", r] => (parseReason r).map fun r => [.loss r, .connect, .login]
  | ["exec"] => some [.exec]
  | ["populate"] => some [.populate]
  | ["search"] => some [.search]
  | ["wl"] => some [.wishlistInterval]
  | ["pp"] => some [.potentialParents]
  | ["sr"] => some [.searchRequest]
  | ["loss", r] => (parseReason r).map fun r => [.loss r]
  | ["tick", n] => n.toNat?.map fun n => List.replicate n .tick
  | ["srvup", b] => (parseBool b).map fun b => [.setSrvUp b]
  | ["srvreply", "accepted"] => some [.setSrvReply .accepted]
  | ["srvreply", "rejected"] => some [.setSrvReply .rejected]
  | ["srvreply", "garbled"] => some [.setSrvReply .garbled]
  | ["srvreply", "eof"] => some [.setSrvReply .eof]
  | ["stop"] => some [.stop]
  | _ => none

partial def loop (h : IO.FS.Stream) (out : IO.FS.Stream) (c : Config) (st : State) : IO Unit := do
  let line ← h.getLine
  if line.isEmpty then return
  let toks := (line.trimAscii.toString.splitOn " ").filter (· ≠ "")
  match toks with
  | "cfg" :: rest =>
    match parseCfg rest with
    | some c' => out.putStrLn "ok"; loop h out c' init
    | none => out.putStrLn "error"; loop h out c st
  | _ =>
    match parseOps c toks with
    | some ops =>
      -- `lossrec`: the listener reconnects only if there was a loss
      let ops := match toks, ops with
        | "lossrec" :: _, first :: _ => if (step c st first).2 == [Obs.invalid] then [first] else ops
        | _, _ => ops
      let (st', o) := run c st ops
      -- the result of login() is visible to its caller only: not for the automatic re-login of the watchdog
      let showRes := match ops with | [.login] | [.loginBreak _ _ _] => true | _ => false
      out.putStrLn (summary c showRes st' o)
      loop h out c st'
    | none => out.putStrLn "error"; loop h out c st

def main : IO Unit := do
  let h ← IO.getStdin
  let out ← IO.getStdout
  loop h out {} init
