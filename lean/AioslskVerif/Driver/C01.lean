import AioslskVerif.Driver.CodecCommon
import AioslskVerif.Generated.Schemas
/-! K_C01 / K_C02a driver over the schema table regenerated from the source (protocol: `CodecCommon.lean`). -/
def main : IO Unit := do
  AioslskVerif.CodecDriver.loop AioslskVerif.Generated.Schemas.schemas (← IO.getStdin)
