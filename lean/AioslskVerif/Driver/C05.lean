import AioslskVerif.Model.Sched
/-!
Line protocol for K_C05 (one op per line, same `step` the theorems are about).

  reset <slots>
  addUpload <u> | addDownload <u> | cycle | record <k> | started <k> | finish <k> | failX <k> | backToQueue <k>
  requeue <k> | apiQueue <k> | abort <k> | setSlots <n> | friend <u> <0|1>
  breakX <k>                                       the transfer breaks (UPLOADING → FAILED), the task goes on to tell the peer
  noticeEnd <k> <delivered 0|1>                    that attempt ends
  report <u> <OFFLINE|AWAY|ONLINE> <priv 0|1>      server: GetUserStatus.Response
  reply <u> <NONE|OFFLINE|AWAY|ONLINE>             server: AddUser.Response (NONE = no such user)
  privList <u,u,...|->                             server: PrivilegedUsers.Response

`cycle` is the decision (tasks are created for the selected uploads, which stay QUEUED and are shown as `QUEUED*`),
`record <k>` the first step of the task created for upload k (QUEUED* → INITIALIZING).  `*` marks every QUEUED upload
with a running task (chosen, or an earlier task lingers), `~` a FAILED upload whose task lingers.

Answer: `<ok|refused|untimely> p=<cycle pending 0|1> slots=<n> sel=<ids of the uploads this cycle created a task for,
priority order|-> q=<ids of _get_queued_transfers()[1] after the op> seen=<for a cycle: u:STATUS/friend/priv the scheduler
read for every user with an unfinished transfer|-> known=<u:STATUS/priv of every user object the user manager holds after
the op> | <id>:<STATE>[*] ...`.  `untimely`: the cycle was served while an upload was between decision and record (the
step is performed as the code performs it; the schedule theorems do not cover what follows: `Timely`).
-/
open AioslskVerif.Sched

def stName : St → String
  | .virgin => "VIRGIN" | .queued => "QUEUED" | .initializing => "INITIALIZING" | .incomplete => "INCOMPLETE"
  | .downloading => "DOWNLOADING" | .uploading => "UPLOADING" | .complete => "COMPLETE" | .failed => "FAILED"
  | .aborted => "ABORTED" | .paused => "PAUSED"

def ids (l : List Xfer) : String :=
  if l.isEmpty then "-" else ",".intercalate (l.map (fun x => toString x.id))

def b01 (b : Bool) : String := if b then "1" else "0"

/-- K_C05 uses user numbers below this bound; larger ones are rejected by the parser -/
def maxUsers : Nat := 8

/-- The per-user functions of the state are re-tabulated after every step (same values for every user the
parser admits): without this every look-up walks through the closures of all earlier steps. -/
def retabulate (s : Sched) : Sched :=
  let fr := (List.range maxUsers).map s.friends
  let pv := (List.range maxUsers).map s.privSet
  let st := (List.range maxUsers).map s.store
  let rf := (List.range maxUsers).map s.ref
  { s with
    friends := fun u => if u < maxUsers then fr.getD u false else s.friends u
    privSet := fun u => if u < maxUsers then pv.getD u false else s.privSet u
    store := fun u => if u < maxUsers then st.getD u none else s.store u
    ref := fun u => if u < maxUsers then rf.getD u none else s.ref u }

/-- users (small numbers in K_C05) that have a transfer -/
def usersOf (s : Sched) : List Nat := (List.range maxUsers).filter (fun u => s.xs.any (·.user == u))

def dash (l : List String) : String := if l.isEmpty then "-" else ",".intercalate l

/-- what the scheduler read at a cycle, for the users that have an unfinished transfer (for a user whose transfers
are all finalized the reading cannot matter — nothing of theirs can be selected — and the real untrack request
is served one loop step after the decision) -/
def seenStr (s : Sched) : String :=
  dash (((usersOf s).filter s.unfinishedUser).map (fun u =>
    let i := s.users u
    s!"{u}:{i.status.name}/{b01 i.friend}/{b01 i.privileged}"))

def knownStr (s : Sched) : String :=
  dash ((List.range maxUsers).filterMap (fun u => (s.store u).map (fun k => s!"{u}:{k.status.name}/{b01 k.privileged}")))

def render (s : Sched) (res : String) (sel : List Xfer) (seen : String) : String :=
  let mark := fun (x : Xfer) =>
    if x.st == .queued && (x.inflight || x.lingering) then "*" else if x.lingering then "~" else ""
  let ents := " ".intercalate (s.xs.map (fun x => s!"{x.id}:{stName x.st}{mark x}"))
  s!"{res} p={if s.cyclePending then 1 else 0} slots={s.slots} sel={ids sel} q={ids s.eligible} seen={seen} known={knownStr s} | {ents}"

def parseBool : String → Option Bool
  | "0" => some false | "1" => some true | _ => none

/-- statuses the server can report (`UserStatus(message.status)` raises for anything else) -/
def parseReported : String → Option UStatus
  | "OFFLINE" => some .offline | "AWAY" => some .away | "ONLINE" => some .online
  | _ => none

def parseUsers (t : String) : Option (List Nat) :=
  if t = "-" then some [] else (t.splitOn ",").mapM (·.toNat?)

def parseOp : List String → Option Op
  | ["addUpload", u] => u.toNat?.map .addUpload
  | ["addDownload", u] => u.toNat?.map .addDownload
  | ["cycle"] => some .cycle
  | ["record", k] => k.toNat?.map .record
  | ["breakX", k] => k.toNat?.map .breakX
  | ["noticeEnd", k, d] => do
    let k ← k.toNat?
    let d ← parseBool d
    pure (.noticeEnd k d)
  | ["started", k] => k.toNat?.map .started
  | ["finish", k] => k.toNat?.map .finish
  | ["failX", k] => k.toNat?.map .failX
  | ["backToQueue", k] => k.toNat?.map .backToQueue
  | ["requeue", k] => k.toNat?.map .requeue
  | ["apiQueue", k] => k.toNat?.map .apiQueue
  | ["abort", k] => k.toNat?.map .abort
  | ["setSlots", n] => n.toNat?.map .setSlots
  | ["friend", u, b] => do
    let u ← u.toNat?
    let b ← parseBool b
    pure (.friend u b)
  | ["report", u, st, p] => do
    let u ← u.toNat?
    let st ← parseReported st
    let p ← parseBool p
    pure (.report u st p)
  | ["reply", u, "NONE"] => u.toNat?.map (.reply · none)
  | ["reply", u, st] => do
    let u ← u.toNat?
    let st ← parseReported st
    pure (.reply u (some st))
  | ["privList", l] => (parseUsers l).map .privList
  | _ => none

def opUsersOk : Op → Bool
  | .addUpload u | .addDownload u | .friend u _ | .report u _ _ | .reply u _ => u < maxUsers
  | .privList l => l.all (· < maxUsers)
  | _ => true

def handle (s : Sched) (line : String) : Sched × String :=
  match (line.splitOn " ").filter (· ≠ "") with
  | ["reset", n] =>
    match n.toNat? with
    | some n => let s' : Sched := { slots := n }; (s', render s' "ok" [] "-")
    | none => (s, "bad-op")
  | toks =>
    match parseOp toks with
    | none => (s, "bad-op")
    | some op =>
      if !(opUsersOk op) then (s, "bad-op") else
      let ok := s.accepts op
      -- the decision of a cycle is taken after the tracking half: `s.track`
      let (sel, seen) := match op with
        | .cycle => if ok then (s.track.started, seenStr s.track) else ([], "-")
        | _ => ([], "-")
      let s' := retabulate (step s op)
      (s', render s' (if !ok then "refused" else if timelyOp s op then "ok" else "untimely") sel seen)

partial def loop (h : IO.FS.Stream) (s : Sched) : IO Unit := do
  let line ← h.getLine
  if line.isEmpty then return ()
  let (s', out) := handle s line.trimAscii.toString
  IO.println out
  loop h s'

def main : IO Unit := do
  loop (← IO.getStdin) {}
