import AioslskVerif.Model.Sched
/-!
Line protocol for K_C05 (one op per line, same `step` the theorems are about).

  reset <slots>
  addUpload <u> | addDownload <u> | cycle | started <k> | finish <k> | failX <k> | backToQueue <k>
  requeue <k> | apiQueue <k> | abort <k> | setSlots <n> | setUser <u> <UNKNOWN|OFFLINE|AWAY|ONLINE> <friend 0|1> <priv 0|1>

Answer: `<ok|refused> p=<cycle pending 0|1> slots=<n> sel=<ids started by this cycle, priority order|-> q=<ids of
_get_queued_transfers()[1] after the op> | <id>:<STATE> ...`
-/
open AioslskVerif.Sched

def stName : St → String
  | .virgin => "VIRGIN" | .queued => "QUEUED" | .initializing => "INITIALIZING" | .incomplete => "INCOMPLETE"
  | .downloading => "DOWNLOADING" | .uploading => "UPLOADING" | .complete => "COMPLETE" | .failed => "FAILED"
  | .aborted => "ABORTED" | .paused => "PAUSED"

def ids (l : List Xfer) : String :=
  if l.isEmpty then "-" else ",".intercalate (l.map (fun x => toString x.id))

def render (s : Sched) (res : String) (sel : List Xfer) : String :=
  let ents := " ".intercalate (s.xs.map (fun x => s!"{x.id}:{stName x.st}"))
  s!"{res} p={if s.cyclePending then 1 else 0} slots={s.slots} sel={ids sel} q={ids s.eligible} | {ents}"

def parseStatus : String → Option UStatus
  | "UNKNOWN" => some .unknown | "OFFLINE" => some .offline | "AWAY" => some .away | "ONLINE" => some .online
  | _ => none

def parseBool : String → Option Bool
  | "0" => some false | "1" => some true | _ => none

def parseOp : List String → Option Op
  | ["addUpload", u] => u.toNat?.map .addUpload
  | ["addDownload", u] => u.toNat?.map .addDownload
  | ["cycle"] => some .cycle
  | ["started", k] => k.toNat?.map .started
  | ["finish", k] => k.toNat?.map .finish
  | ["failX", k] => k.toNat?.map .failX
  | ["backToQueue", k] => k.toNat?.map .backToQueue
  | ["requeue", k] => k.toNat?.map .requeue
  | ["apiQueue", k] => k.toNat?.map .apiQueue
  | ["abort", k] => k.toNat?.map .abort
  | ["setSlots", n] => n.toNat?.map .setSlots
  | ["setUser", u, st, f, p] => do
    let u ← u.toNat?
    let st ← parseStatus st
    let f ← parseBool f
    let p ← parseBool p
    pure (.setUser u { status := st, friend := f, privileged := p })
  | _ => none

def handle (s : Sched) (line : String) : Sched × String :=
  match (line.splitOn " ").filter (· ≠ "") with
  | ["reset", n] =>
    match n.toNat? with
    | some n => let s' : Sched := { slots := n }; (s', render s' "ok" [])
    | none => (s, "bad-op")
  | toks =>
    match parseOp toks with
    | none => (s, "bad-op")
    | some op =>
      let ok := s.accepts op
      let sel := match op with
        | .cycle => if ok then s.select else []
        | _ => []
      let s' := step s op
      (s', render s' (if ok then "ok" else "refused") sel)

partial def loop (h : IO.FS.Stream) (s : Sched) : IO Unit := do
  let line ← h.getLine
  if line.isEmpty then return ()
  let (s', out) := handle s line.trimAscii.toString
  IO.println out
  loop h s'

def main : IO Unit := do
  loop (← IO.getStdin) {}
