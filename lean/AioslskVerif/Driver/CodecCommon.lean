import AioslskVerif.Model.Wire
import AioslskVerif.Model.Obfs
import AioslskVerif.Spec.WireSpec
/-!
Line protocol for K_C01 / K_C02a (codec) — executes the definitions of `Model/Wire.lean`,
`Model/Obfs.lean` on the regenerated schema table.

Values (prefix notation, space separated):
  `N n` | `I i` | `B 0|1` | `S k cp₁ … cpₖ` | `Y hex|-` | `P a b c d` | `A k v₁ … vₖ` | `R k v₁ … vₖ` | `_`
Commands:
  `enc <schema idx> <k> v₁ … vₖ`             → `ok <hex frame>` (compressed schemas: payload left
                                                uncompressed, `deflate = id`) | `err`
  `dec <family> <dir> <hex frame> <hex|-|!>`  → `ok <idx> <k> v₁ … vₖ` | `err <class>`
        4th arg: what `zlib.decompress(frame[4+idw:])` returns on the Python side (`-` = empty
        string, `!` = zlib.error); used only if the selected schema is compressed
  `dom <schema idx> <k> v₁ … vₖ`             → `dom 1|0 plain 1|0`  (`inDomain` / `plainDom`, the hypotheses of the theorems)
  `obf <key hex8> <hex|->`                    → `<hex>`      (`obfuscation.encode(data, key)`)
  `deobf <hex>`                               → `<hex|->`    (`obfuscation.decode(data)`)
-/
namespace AioslskVerif.CodecDriver
open AioslskVerif.Wire AioslskVerif

def hexDigit (n : Nat) : Char := if n < 10 then Char.ofNat (48 + n) else Char.ofNat (87 + n)
def toHex (bs : Bytes) : String :=
  if bs.isEmpty then "-" else
  String.ofList (bs.flatMap fun b => [hexDigit (b.toNat / 16), hexDigit (b.toNat % 16)])
def hexVal (c : Char) : Option Nat :=
  if '0' ≤ c ∧ c ≤ '9' then some (c.toNat - 48)
  else if 'a' ≤ c ∧ c ≤ 'f' then some (c.toNat - 87)
  else none
def fromHexL : List Char → Option Bytes
  | [] => some []
  | a :: b :: r => do
      let x ← hexVal a; let y ← hexVal b; let rest ← fromHexL r
      pure (UInt8.ofNat (16 * x + y) :: rest)
  | _ => none
def fromHex (s : String) : Option Bytes := if s = "-" then some [] else fromHexL s.toList

partial def showVal : Val → String
  | .nat n => s!"N {n}"
  | .int i => s!"I {i}"
  | .bool b => if b then "B 1" else "B 0"
  | .str cs => String.intercalate " " (s!"S {cs.length}" :: cs.map (fun c => toString c.toNat))
  | .bytes bs => s!"Y {toHex bs}"
  | .ip a b c d => s!"P {a.toNat} {b.toNat} {c.toNat} {d.toNat}"
  | .arr vs => String.intercalate " " (s!"A {vs.length}" :: vs.map showVal)
  | .record vs => String.intercalate " " (s!"R {vs.length}" :: vs.map showVal)
  | .absent => "_"

mutual
partial def parseVal : List String → Option (Val × List String)
  | "N" :: n :: r => n.toNat?.map (fun n => (.nat n, r))
  | "I" :: i :: r => i.toInt?.map (fun i => (.int i, r))
  | "B" :: b :: r => some (.bool (b = "1"), r)
  | "S" :: k :: r => do
      let k ← k.toNat?
      if r.length < k then none
      let cps ← (r.take k).mapM (·.toNat?)
      pure (.str (cps.map Char.ofNat), r.drop k)
  | "Y" :: h :: r => (fromHex h).map (fun b => (.bytes b, r))
  | "P" :: a :: b :: c :: d :: r => do
      let a ← a.toNat?; let b ← b.toNat?; let c ← c.toNat?; let d ← d.toNat?
      pure (.ip (UInt8.ofNat a) (UInt8.ofNat b) (UInt8.ofNat c) (UInt8.ofNat d), r)
  | "A" :: k :: r => do
      let k ← k.toNat?
      let (vs, r') ← parseVals k r
      pure (.arr vs, r')
  | "R" :: k :: r => do
      let k ← k.toNat?
      let (vs, r') ← parseVals k r
      pure (.record vs, r')
  | "_" :: r => some (.absent, r)
  | _ => none
partial def parseVals : Nat → List String → Option (List Val × List String)
  | 0, r => some ([], r)
  | k + 1, r => do
      let (v, r') ← parseVal r
      let (vs, r'') ← parseVals k r'
      pure (v :: vs, r'')
end

def showErr : DErr → String
  | .struct => "struct" | .strlen => "strlen" | .unicode => "unicode" | .idMismatch => "idmismatch"
  | .zlib => "zlib" | .unknown => "unknown" | .ctor => "ctor"

def parseFamily : String → Option Family
  | "server" => some .server | "peerinit" => some .peerinit | "peer" => some .peer
  | "distributed" => some .distributed | _ => none
def parseDir : String → Option Dir
  | "request" => some .request | "response" => some .response | _ => none

def handle (table : List MsgSchema) (line : String) : String :=
  match (line.splitOn " ").filter (· ≠ "") with
  | "enc" :: idx :: k :: rest =>
    match idx.toNat?, k.toNat? with
    | some idx, some k =>
      match table[idx]?, parseVals k rest with
      | some s, some (vs, []) =>
        match encodeFrame { deflate := id, inflate := some } s vs with
        | some b => s!"ok {toHex b}"
        | none => "err"
      | _, _ => "bad-op"
    | _, _ => "bad-op"
  | "dom" :: idx :: k :: rest =>
    match idx.toNat?, k.toNat? with
    | some idx, some k =>
      match table[idx]?, parseVals k rest with
      | some s, some (vs, []) =>
        (if inDomain s vs then "dom 1" else "dom 0") ++ (if plainDom vs s.fields vs then " plain 1" else " plain 0")
      | _, _ => "bad-op"
    | _, _ => "bad-op"
  | ["dec", fam, dir, hex, infl] =>
    match parseFamily fam, parseDir dir, fromHex hex with
    | some fam, some dir, some msg =>
      let z : Zlib := { deflate := id, inflate := fun _ => if infl = "!" then none else fromHex infl }
      match dispatch z table fam dir msg with
      | .ok (i, vs) => String.intercalate " " (s!"ok {i} {vs.length}" :: vs.map showVal)
      | .error e => s!"err {showErr e}"
    | _, _, _ => "bad-op"
  | ["obf", key, hex] =>
    match fromHex key, fromHex hex with
    | some [a, b, c, d], some data => toHex (Obfs.encode [a, b, c, d] data)
    | _, _ => "bad-op"
  | ["deobf", hex] =>
    match fromHex hex with
    | some data => toHex (Obfs.decode data)
    | none => "bad-op"
  | _ => "bad-op"

partial def loop (table : List MsgSchema) (h : IO.FS.Stream) : IO Unit := do
  let line ← h.getLine
  if line.isEmpty then return ()
  IO.println (handle table line.trimAscii.toString)
  loop table h

end AioslskVerif.CodecDriver
