import AioslskVerif.Model.XferTasks
/-!
Line protocol for K_C06 (one op per line, same `step` the theorems are about).

  reset | addDownload | addUpload | addFailed | cycle <k>* | preq <k> | tstart <t>
  tend <t> <ok|fail|toQueue|transferring|complete|incomplete|failing|cancelled|refused>
  tcb <t> | call <k> <abort|pause|remove> | rmid <k> | resume <k> | requeue <k> | peerfail <k> | upfail <k>
  upqs <k> | upqe <k>      (PeerTransferQueue for upload k: the handler found it and suspends / goes on)

Answer: `nt=<tasks created> missed=<downloads a cycle would still spawn for|-> [end=<cancelled|refused|normal|none>] |
<k>:<STATE>:r<retry 0|1>:rq<0|1>:a<attempts>:Q<N|L|D>:T<N|L|D>:<-|A|P|R locked>:<removed 0|1>:q<quiet 0|1>:live<n> ...`
(slot: N empty, L holds a live task, D holds a finished one; `end=` after `tend`: how the model says the task ends —
`none` when the model has no such step for it)
-/
open AioslskVerif.Tasks
open AioslskVerif.Sched (St Dir)

def stName : St → String
  | .virgin => "VIRGIN" | .queued => "QUEUED" | .initializing => "INITIALIZING" | .incomplete => "INCOMPLETE"
  | .downloading => "DOWNLOADING" | .uploading => "UPLOADING" | .complete => "COMPLETE" | .failed => "FAILED"
  | .aborted => "ABORTED" | .paused => "PAUSED"

def slotStr (s : TS) : Option Nat → String
  | none => "N"
  | some t => if (s.tasks t).live then "L" else "D"

def lockStr : Option CallKind → String
  | none => "-" | some .abort => "A" | some .pause => "P" | some .remove => "R"

def b01 (b : Bool) : String := if b then "1" else "0"

def render (s : TS) : String :=
  let ks := List.range s.nx
  let missed := ks.filter (fun k => (s.xs k).dir == .download && (s.spawnable k).isSome)
  let ms := if missed.isEmpty then "-" else ",".intercalate (missed.map toString)
  let ent (k : Nat) : String :=
    let x := s.xs k
    let live := ((List.range s.nt).filter (fun t => (s.tasks t).live && (s.tasks t).xfer == k)).length
    s!"{k}:{stName x.st}:r{b01 (x.dir == .download && x.st == .failed && x.retry)}:rq{b01 x.rq}:a{x.attempts}:Q{slotStr s x.rqSlot}:T{slotStr s x.ttSlot}:{lockStr x.locked}:{b01 x.removed}:q{b01 x.quiet}:live{live}"
  s!"nt={s.nt} missed={ms} | {" ".intercalate (ks.map ent)}"

/-- how the model says task `t` ends when `taskEnd` is applied in state `s` -/
def endKind (s : TS) (t : Nat) : String :=
  let tk := s.tasks t
  if tk.phase == .running then (if tk.cancelReq then "cancelled" else "normal")
  else if tk.phase == .refused then "refused"
  else if tk.phase == .blocked && tk.cancelReq then "cancelled"
  else "none"

def parseOutcome : String → Option Outcome
  | "ok" => some .ok | "fail" => some .fail | "cancelled" => some .fail | "toQueue" => some .toQueue
  | "transferring" => some .transferring | "complete" => some .complete | "incomplete" => some .incomplete
  | "failing" => some .failing | "refused" => some .fail | _ => none

def parseCall : String → Option CallKind
  | "abort" => some .abort | "pause" => some .pause | "remove" => some .remove | _ => none

def parseOp : List String → Option Op
  | ["addDownload"] => some .addDownload
  | ["addUpload"] => some .addUpload
  | ["addFailed"] => some .addFailed
  | "cycle" :: ks => (ks.mapM String.toNat?).map .cycle
  | ["preq", k] => k.toNat?.map .peerRequest
  | ["tstart", t] => t.toNat?.map .taskStart
  | ["tend", t, o] => do pure (.taskEnd (← t.toNat?) (← parseOutcome o))
  | ["tcb", t] => t.toNat?.map .doneCallback
  | ["call", k, c] => do pure (.call (← k.toNat?) (← parseCall c))
  | ["rmid", k] => k.toNat?.map .removeMid
  | ["resume", k] => k.toNat?.map .callResume
  | ["requeue", k] => k.toNat?.map .requeue
  | ["peerfail", k] => k.toNat?.map .peerFail
  | ["upfail", k] => k.toNat?.map .peerUploadFailed
  | ["upqs", k] => k.toNat?.map .peerQueueStart
  | ["upqe", k] => k.toNat?.map .peerQueueEnd
  | _ => none

def handle (s : TS) (line : String) : TS × String :=
  match (line.splitOn " ").filter (· ≠ "") with
  | ["reset"] => ({}, render {})
  | toks =>
    match parseOp toks with
    | none => (s, "bad-op")
    | some op =>
      let s' := step s op
      match op with
      | .taskEnd t _ => (s', (render s').replace " | " s!" end={endKind s t} | ")
      | _ => (s', render s')

partial def loop (h : IO.FS.Stream) (s : TS) : IO Unit := do
  let line ← h.getLine
  if line.isEmpty then return ()
  let (s', out) := handle s line.trimAscii.toString
  IO.println out
  loop h s'

def main : IO Unit := do
  loop (← IO.getStdin) {}
