import AioslskVerif.Model.XferTasks
/-!
Line protocol for K_C06 (one op per line, same `step` the theorems are about).

  reset | addDownload | addUpload | cycle <k>* | preq <k> | tstart <t> | tend <t> <ok|fail|toQueue|transferring|complete|incomplete|cancelled>
  tcb <t> | call <k> <abort|pause|remove> | resume <k> | requeue <k> | peerfail <k>

Answer: `nt=<tasks created> missed=<downloads a cycle would still spawn for|-> | <k>:<STATE>:rq<0|1>:a<attempts>:Q<N|L|D>:T<N|L|D>:
<-|A|P|R locked>:<removed 0|1>:q<quiet 0|1>:live<n> ...`   (slot: N empty, L holds a live task, D holds a finished one)
-/
open AioslskVerif.Tasks
open AioslskVerif.Sched (St Dir)

def stName : St → String
  | .virgin => "VIRGIN" | .queued => "QUEUED" | .initializing => "INITIALIZING" | .incomplete => "INCOMPLETE"
  | .downloading => "DOWNLOADING" | .uploading => "UPLOADING" | .complete => "COMPLETE" | .failed => "FAILED"
  | .aborted => "ABORTED" | .paused => "PAUSED"

def slotStr (s : TS) : Option Nat → String
  | none => "N"
  | some t => if (s.tasks t).live then "L" else "D"

def lockStr : Option CallKind → String
  | none => "-" | some .abort => "A" | some .pause => "P" | some .remove => "R"

def b01 (b : Bool) : String := if b then "1" else "0"

def render (s : TS) : String :=
  let ks := List.range s.nx
  let missed := ks.filter (fun k => (s.xs k).dir == .download && (s.spawnable k).isSome)
  let ms := if missed.isEmpty then "-" else ",".intercalate (missed.map toString)
  let ent (k : Nat) : String :=
    let x := s.xs k
    let live := ((List.range s.nt).filter (fun t => (s.tasks t).live && (s.tasks t).xfer == k)).length
    s!"{k}:{stName x.st}:rq{b01 x.rq}:a{x.attempts}:Q{slotStr s x.rqSlot}:T{slotStr s x.ttSlot}:{lockStr x.locked}:{b01 x.removed}:q{b01 x.quiet}:live{live}"
  s!"nt={s.nt} missed={ms} | {" ".intercalate (ks.map ent)}"

def parseOutcome : String → Option Outcome
  | "ok" => some .ok | "fail" => some .fail | "cancelled" => some .fail | "toQueue" => some .toQueue
  | "transferring" => some .transferring | "complete" => some .complete | "incomplete" => some .incomplete | _ => none

def parseCall : String → Option CallKind
  | "abort" => some .abort | "pause" => some .pause | "remove" => some .remove | _ => none

def parseOp : List String → Option Op
  | ["addDownload"] => some .addDownload
  | ["addUpload"] => some .addUpload
  | "cycle" :: ks => (ks.mapM String.toNat?).map .cycle
  | ["preq", k] => k.toNat?.map .peerRequest
  | ["tstart", t] => t.toNat?.map .taskStart
  | ["tend", t, o] => do pure (.taskEnd (← t.toNat?) (← parseOutcome o))
  | ["tcb", t] => t.toNat?.map .doneCallback
  | ["call", k, c] => do pure (.call (← k.toNat?) (← parseCall c))
  | ["resume", k] => k.toNat?.map .callResume
  | ["requeue", k] => k.toNat?.map .requeue
  | ["peerfail", k] => k.toNat?.map .peerFail
  | _ => none

def handle (s : TS) (line : String) : TS × String :=
  match (line.splitOn " ").filter (· ≠ "") with
  | ["reset"] => ({}, render {})
  | toks =>
    match parseOp toks with
    | none => (s, "bad-op")
    | some op => let s' := step s op; (s', render s')

partial def loop (h : IO.FS.Stream) (s : TS) : IO Unit := do
  let line ← h.getLine
  if line.isEmpty then return ()
  let (s', out) := handle s line.trimAscii.toString
  IO.println out
  loop h s'

def main : IO Unit := do
  loop (← IO.getStdin) {}
