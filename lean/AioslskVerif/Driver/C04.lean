import AioslskVerif.Model.FileXfer
/-!
Line protocol for K_C04 (executes `FileXfer.step` / `FileXfer.ustep`, the definitions the theorems are about).

Byte strings are given as `+`-joined pieces `<mul>.<add>.<start>.<len>` of the shared test pattern
(`FileXfer.pattern`), `-` = empty.

download side
  `dl <pre-bytes> [<0|1>]`       new download, local file holds `<pre-bytes>` (0: no local path yet) → snapshot
  `begin <announced> <0|1>`      PeerTransferRequest accepted …, offset sent (1 = limiter)  → snapshot |
                                 `refused-complete` | `refused-cancelled` | `ignored`
  `begincut <announced>`         … connection broke before the offset went out           → idem
  `seg <bytes>` `eof` `err`                                                               → snapshot
  `remote <bytes>`               ghost: the uploader's file changes                      → `ok`
  `pause` `pausew <bytes>` `queue` `save` `crash <keep>`                                  → snapshot
  `hash`                                                                                  → `h=<fnv> len=<n>`
  snapshot = `<STATE> off=<offset> bt=<bytes_transfered> len=<file size | - while downloading> closed=<0|1> w=<write sizes of this op | ->`
upload side
  `ul <file-bytes>`              new upload of that file                                  → usnapshot
  `ubegin <offset> <0|1>` `chunk` `werr` `closed` `rerr` `told` `untold` `requeue`         → usnapshot
                                 (`ubegin`: the offset goes through the wire — `Wire.sendOffset`, `Wire.recvOffset`;
                                 a number `uint64(...).serialize()` raises for → `overflow`)
  usnapshot = `<STATE> off=<offset> bt=<bytes_transfered> sent=<n> hs=<fnv of sent> puf=<PeerUploadFailed sent> ntf=<0|1 being sent>`
hand-shake values
  `hs ticket|offset <value> <k> <trail>`   the sender writes the value, `<trail>` more bytes follow; the first `<k>` bytes
                                 of all that have arrived → `waiting` | `val=<number read> left=<bytes left in the stream>`
-/
open AioslskVerif.FileXfer

def parsePiece (s : String) : Option Bytes :=
  match (s.splitOn ".").map String.toNat? with
  | [some m, some a, some st, some n] => some (pattern m a st n)
  | _ => none

def parseBytes (s : String) : Option Bytes :=
  if s = "-" then some []
  else (s.splitOn "+").foldl (fun acc p => do let a ← acc; let b ← parsePiece p; pure (a ++ b)) (some [])

def b01 (b : Bool) : String := if b then "1" else "0"

def joinNat (l : List Nat) : String :=
  if l.isEmpty then "-" else ",".intercalate (l.map toString)

def snap (d : Dl) (w : List Nat) : String :=
  let len := if d.st = .downloading then "-" else toString d.loc.length
  s!"{d.st.name} off={d.offset} bt={d.bt} len={len} closed={b01 d.closed} w={joinNat w}"

def usnap (u : Ul) : String :=
  s!"{u.st.name} off={u.offset} bt={u.bt} sent={u.sent.length} hs={fnv u.sent} puf={u.puf} ntf={b01 u.notifying}"

structure DSt where
  d : Dl
  u : Ul
  F : Bytes

/-- run one download op through `step`; the writes of this op are the new tail of the attempt's log -/
def dop (s : DSt) (op : Op) (fresh : Bool) : DSt × String :=
  let d' := step s.d op
  let before := if fresh then 0 else s.d.log.length
  ({ s with d := d' }, snap d' (d'.log.drop before))

/-- `_on_peer_transfer_request` for a download that cannot begin: COMPLETE / PAUSED are refused with a reason, a
transfer that is being processed ignores the request -/
def refusal (d : Dl) : String :=
  if d.st = .complete then "refused-complete" else if d.st = .paused then "refused-cancelled" else "ignored"

/-! control plane: `ctl <d> <rq 0|1> <u> <toU: letters q=ptq o=replyOk n=replyNo | -> <toD: r=ptr f=puf | ->`
→ `inv=<0|1> quiescent=<0|1> round=<d>/<u>` — the invariant of `C04_pair_no_requeue_lost` evaluated on a state of
the real pair, and where one fault-free round leads from it -/
def parseD : String → Option Ctl.D
  | "queued" => some .queued | "initializing" => some .initializing | "downloading" => some .downloading
  | "incomplete" => some .incomplete | "complete" => some .complete | "user" => some .user | _ => none
def parseU : String → Option Ctl.U
  | "none" => some .none | "queued" => some .queued | "initializing" => some .initializing
  | "connecting" => some .connecting | "uploading" => some .uploading | "eofWait" => some .eofWait
  | "failed" => some .failed | "refused" => some .refused | "complete" => some .complete | _ => none
def parseToU (s : String) : Option (List Ctl.ToU) :=
  if s = "-" then some [] else s.toList.mapM fun c =>
    if c = 'q' then some Ctl.ToU.ptq else if c = 'o' then some .replyOk else if c = 'n' then some .replyNo else none
def parseToD (s : String) : Option (List Ctl.ToD) :=
  if s = "-" then some [] else s.toList.mapM fun c =>
    if c = 'r' then some Ctl.ToD.ptr else if c = 'f' then some .puf else none
def ctlDName : Ctl.D → String
  | .queued => "queued" | .initializing => "initializing" | .downloading => "downloading"
  | .incomplete => "incomplete" | .complete => "complete" | .user => "user"
def ctlUName : Ctl.U → String
  | .none => "none" | .queued => "queued" | .initializing => "initializing" | .connecting => "connecting"
  | .uploading => "uploading" | .eofWait => "eofWait" | .failed => "failed" | .refused => "refused"
  | .complete => "complete"

def ctlLine (d rq u tu td : String) : String :=
  match parseD d, rq.toNat?, parseU u, parseToU tu, parseToD td with
  | some d, some rq, some u, some tu, some td =>
    let s : Ctl.S := { d := d, rq := rq != 0, u := u, toU := tu, toD := td }
    let r := Ctl.run s Ctl.round
    s!"inv={b01 (Ctl.invB s)} quiescent={b01 (Ctl.quiescent s)} round={ctlDName r.d}/{ctlUName r.u}"
  | _, _, _, _, _ => "bad-op"

def handle (s : DSt) (line : String) : DSt × String :=
  match (line.splitOn " ").filter (· ≠ "") with
  | ["dl", pre] =>
    match parseBytes pre with
    | some p => let d := Dl.init p; ({ s with d := d }, snap d [])
    | none => (s, "bad-op")
  | ["dl", pre, hp] =>
    match parseBytes pre, hp.toNat? with
    | some p, some h => let d := Dl.init p (h != 0); ({ s with d := d }, snap d [])
    | _, _ => (s, "bad-op")
  | ["begin", a, l] =>
    match a.toNat?, l.toNat? with
    | some a, some l =>
      if canBegin s.d then dop s (.begin a (l != 0)) true else (s, refusal s.d)
    | _, _ => (s, "bad-op")
  | ["begincut", a] =>
    match a.toNat? with
    | some a =>
      if canBegin s.d then dop s (.beginCut a) true else (s, refusal s.d)
    | none => (s, "bad-op")
  | ["seg", bs] =>
    match parseBytes bs with
    | some b => dop s (.seg b) false
    | none => (s, "bad-op")
  | ["eof"] => dop s .eof false
  | ["err"] => dop s .err false
  | ["remote", bs] =>
    match parseBytes bs with
    | some b => ({ s with d := step s.d (.remote b) }, "ok")
    | none => (s, "bad-op")
  | ["pause"] => dop s .pause false
  | ["pausew", bs] =>
    match parseBytes bs with
    | some b => dop s (.pauseWrite b) false
    | none => (s, "bad-op")
  | ["queue"] => dop s .queue false
  | ["save"] => dop s .save false
  | ["crash", k] =>
    match k.toNat? with
    | some k => dop s (.crash k) false
    | none => (s, "bad-op")
  | ["hash"] => (s, s!"h={fnv s.d.loc} len={s.d.loc.length}")
  | ["ctl", d, rq, u, tu, td] => (s, ctlLine d rq u tu td)
  | ["ul", f] =>
    match parseBytes f with
    | some f => let u := Ul.init f; ({ s with u := u, F := f }, usnap u)
    | none => (s, "bad-op")
  | ["ubegin", o, l] =>
    match o.toNat?, l.toNat? with
    | some o, some l =>
      if o ≥ 2 ^ (8 * Wire.offsetSendBytes) then (s, "overflow") else
      match Wire.recvOffset (Wire.sendOffset o) with
      | some (o', _) => let u := ustep s.F s.u (.begin o' (l != 0)); ({ s with u := u }, usnap u)
      | none => (s, "waiting")
    | _, _ => (s, "bad-op")
  | ["told"] => let u := ustep s.F s.u .told; ({ s with u := u }, usnap u)
  | ["untold"] => let u := ustep s.F s.u .untold; ({ s with u := u }, usnap u)
  | ["requeue"] => let u := ustep s.F s.u .requeue; ({ s with u := u }, usnap u)
  | ["hs", what, v, k, trail] =>
    match v.toNat?, k.toNat?, parseBytes trail with
    | some v, some k, some t =>
      let (bytes, recv) := if what = "ticket" then (Wire.sendTicket v, Wire.recvTicket)
                           else (Wire.sendOffset v, Wire.recvOffset)
      let width := if what = "ticket" then Wire.ticketSendBytes else Wire.offsetSendBytes
      if what ≠ "ticket" ∧ what ≠ "offset" then (s, "bad-op")
      else if v ≥ 2 ^ (8 * width) then (s, "overflow")
      else match recv ((bytes ++ t).take k) with
        | some (n, rest) => (s, s!"val={n} left={rest.length}")
        | none => (s, "waiting")
    | _, _, _ => (s, "bad-op")
  | ["chunk"] => let u := ustep s.F s.u .chunk; ({ s with u := u }, usnap u)
  | ["werr"] => let u := ustep s.F s.u .werr; ({ s with u := u }, usnap u)
  | ["closed"] => let u := ustep s.F s.u .closed; ({ s with u := u }, usnap u)
  | ["rerr"] => let u := ustep s.F s.u .rerr; ({ s with u := u }, usnap u)
  | _ => (s, "bad-op")

partial def loop (h : IO.FS.Stream) (s : DSt) : IO Unit := do
  let line ← h.getLine
  if line.isEmpty then return ()
  let (s', out) := handle s line.trimAscii.toString
  IO.println out
  loop h s'

def main : IO Unit := do
  loop (← IO.getStdin) { d := Dl.init [], u := Ul.init [], F := [] }
