import AioslskVerif.Model.Expect
/-!
Line protocol for K_C12.  The driver keeps, beside the model state, a mirror `rq` of asyncio's
ready queue: model callbacks (`M`, run as `Op.cb`), first steps of spawned caller tasks, and the
wake-up of the harness' own driving task (`D`).  Everything that changes the model state is one of
the primitive `Op`s the theorems quantify over.

  reset
  raw  <tag> <matcher>          `create_*_response_future` now; a caller task (`async with timeout: await fut`) is spawned
  wait <tag> <matcher>          task `wait_for_*_message(...)` spawned (registers when it first runs)
  exec <tag> <mode> <matcher>   task `execute(cmd, response=True)` spawned; mode 0 send ok, 1 send raises,
                                2 send suspends once then ok, 3 suspends once then raises,
                                4 send waits for ever (only a cancellation of the task ends it)
  msg <conn> <cls> <n> (<field> <val>)*      `on_message_received` inside the current task step
  cancelfut <tag> | canceltask <tag>      canceltask on an `execute` that is still suspended in `send`: the
                                CancelledError is thrown into `send` when the task next runs (modes 2,3: its
                                already scheduled continuation; mode 4: a wake-up scheduled now) = `sendFails k true`
  yield <tag>*                  the driving task yields; the rest of this loop iteration runs; the timeouts of
                                the given waiters fire (end of the iteration); the next iteration runs up to the
                                driving task
  matcher := <s|p> <msgcls> <peer|-> <n> (<field> <exp>)*     exp := cN | c<k> | pT | pF | pN | pnn | pge<k> | peq<k>
  conn := s | pN | p<k>         val := N | <k>
Every line answers with the canonical state:
  n=<msgs> e=<errors> order=<listed tags in list order> | <tag>:<fut>:<outcome> ...   (sorted by tag)
-/
open AioslskVerif.Expect

inductive Item
  | M
  | D
  | startWait (tag : Nat) (m : Matcher)
  | startExec (tag : Nat) (mode : Nat) (m : Matcher)
  | awaitT (k : Nat)
  | failT (k : Nat)
  | abortT (k : Nat)           -- CancelledError delivered to a task that waits in `send` (mode 4)

structure DS where
  s : State := {}
  rq : List Item := []
  tags : List Nat := []        -- tag of the waiter with index k
  modes : List Nat := []       -- exec mode of the waiter with index k (0 for raw / wait)
  sendCancelled : List Nat := []   -- waiters whose task was cancelled while suspended in `send`
  ymark : Nat := 0             -- items at the head of rq that still belong to the current iteration

def prim (d : DS) (op : Op) : DS :=
  let before := d.s.cbq.length - (match op with | .cb => 1 | _ => 0)
  let s' := step d.s op
  { d with s := s', rq := d.rq ++ List.replicate (s'.cbq.length - before) .M }

def runItem (d : DS) : Item → DS
  | .M => prim d .cb
  | .D => d
  | .startWait tag m =>
    let k := d.s.ws.length
    let d := prim d (.create .wait m)
    prim { d with tags := d.tags ++ [tag], modes := d.modes ++ [0] } (.awaitF k)
  | .startExec tag mode m =>
    let k := d.s.ws.length
    let d := prim d (.create .exec m)
    let d := { d with tags := d.tags ++ [tag], modes := d.modes ++ [mode] }
    match mode with
    | 0 => prim d (.awaitF k)
    | 1 => prim d (.sendFails k false)
    | 2 => { d with rq := d.rq ++ [.awaitT k] }
    | 3 => { d with rq := d.rq ++ [.failT k] }
    | _ => d
  | .awaitT k => if d.sendCancelled.contains k then prim d (.sendFails k true) else prim d (.awaitF k)
  | .failT k => prim d (.sendFails k (d.sendCancelled.contains k))
  | .abortT k => prim d (.sendFails k true)

/-- run `n` items from the head of the queue -/
def runN : Nat → DS → DS
  | 0, d => d
  | n + 1, d =>
    match d.rq with
    | [] => d
    | it :: q => runN n (runItem { d with rq := q } it)

/-- run items until the driving task's wake-up has been popped (fuel = safety bound) -/
def runToD : Nat → DS → DS
  | 0, d => d
  | n + 1, d =>
    match d.rq with
    | [] => d
    | .D :: q => { d with rq := q }
    | it :: q => runToD n (runItem { d with rq := q } it)

def idxOf (d : DS) (tag : Nat) : Option Nat :=
  let rec go : List Nat → Nat → Option Nat
    | [], _ => none
    | t :: ts, i => if t = tag then some i else go ts (i + 1)
  go d.tags 0

def yieldD (d : DS) (fire : List Nat) : DS :=
  let d := { d with rq := d.rq ++ [.D] }
  let d := runN d.ymark d
  let d := fire.foldl (fun d k => prim d (.timeout k)) d
  let d := runToD (d.rq.length + 1000) d
  { d with ymark := d.rq.length }

/-! parsing -/

def num (cs : List Char) : Option Nat := (String.ofList cs).toNat?

def parseVal (t : String) : Option Val :=
  match t.toList with
  | ['N'] => some .none
  | cs => (num cs).map .v

def parseExp (t : String) : Option Exp :=
  match t.toList with
  | ['c', 'N'] => some (.const .none)
  | 'c' :: cs => (num cs).map fun n => .const (.v n)
  | ['p', 'T'] => some (.pred fun _ => true)
  | ['p', 'F'] => some (.pred fun _ => false)
  | ['p', 'N'] => some (.pred fun v => v == .none)
  | ['p', 'n', 'n'] => some (.pred fun v => v != .none)
  | 'p' :: 'g' :: 'e' :: cs => (num cs).map fun n => .pred fun v => match v with | .v x => n ≤ x | .none => false
  | 'p' :: 'e' :: 'q' :: cs => (num cs).map fun n => .pred fun v => v == .v n
  | _ => none

def parsePairs {α} (p : String → Option α) : Nat → List String → Option (List (Nat × α))
  | 0, [] => some []
  | n + 1, f :: e :: rest => do
    let f ← f.toNat?
    let e ← p e
    let r ← parsePairs p n rest
    pure ((f, e) :: r)
  | _, _ => none

def parseMatcher : List String → Option Matcher
  | c :: mc :: pr :: n :: rest => do
    let cls ← match c with | "s" => some ConnClass.server | "p" => some ConnClass.peer | _ => none
    let mc ← mc.toNat?
    let pr ← if pr = "-" then some none else pr.toNat?.map some
    let n ← n.toNat?
    let fs ← parsePairs parseExp n rest
    pure { cls := cls, msg := mc, peer := pr, fields := fs }
  | _ => none

def parseConn (t : String) : Option Conn :=
  match t.toList with
  | ['s'] => some .server
  | ['p', 'N'] => some (.peer none)
  | 'p' :: cs => (num cs).map fun n => .peer (some n)
  | _ => none

def showF : FStatus → String
  | .pending => "P"
  | .result i => s!"R{i}"
  | .cancelled => "C"
  | .failed => "X"

def showO : Outcome → String
  | .none => "-"
  | .result i => s!"r{i}"
  | .timeout => "T"
  | .cancelled => "C"
  | .sendError => "S"
  | .invalidState => "I"

def insertSorted (x : Nat × String) : List (Nat × String) → List (Nat × String)
  | [] => [x]
  | y :: ys => if x.1 ≤ y.1 then x :: y :: ys else y :: insertSorted x ys

def snapshot (d : DS) : String :=
  let tw := d.tags.zip d.s.ws
  let order := (tw.filter (·.2.listed)).map (toString ·.1)
  let ents := (tw.map fun (t, w) => (t, s!"{t}:{showF w.fut}:{showO w.out}")).foldl (fun acc x => insertSorted x acc) []
  s!"n={d.s.nmsg} e={d.s.err} order={",".intercalate order} | {" ".intercalate (ents.map (·.2))}"

def handle (d : DS) (line : String) : DS × String :=
  match (line.splitOn " ").filter (· ≠ "") with
  | ["reset"] => ({}, "ok")
  | "raw" :: tag :: rest =>
    match tag.toNat?, parseMatcher rest with
    | some tag, some m =>
      let k := d.s.ws.length
      let d := prim d (.create .raw m)
      let d := { d with tags := d.tags ++ [tag], modes := d.modes ++ [0], rq := d.rq ++ [.awaitT k] }
      (d, snapshot d)
    | _, _ => (d, "bad-op")
  | "wait" :: tag :: rest =>
    match tag.toNat?, parseMatcher rest with
    | some tag, some m => let d := { d with rq := d.rq ++ [.startWait tag m] }; (d, snapshot d)
    | _, _ => (d, "bad-op")
  | "exec" :: tag :: mode :: rest =>
    match tag.toNat?, mode.toNat?, parseMatcher rest with
    | some tag, some mode, some m =>
      if mode < 5 then let d := { d with rq := d.rq ++ [.startExec tag mode m] }; (d, snapshot d) else (d, "bad-op")
    | _, _, _ => (d, "bad-op")
  | "msg" :: c :: mc :: n :: rest =>
    match parseConn c, mc.toNat?, n.toNat? with
    | some c, some mc, some n =>
      match parsePairs parseVal n rest with
      | some attrs => let d := prim d (.message { conn := c, cls := mc, attrs := attrs }); (d, snapshot d)
      | none => (d, "bad-op")
    | _, _, _ => (d, "bad-op")
  | ["cancelfut", tag] =>
    match tag.toNat?.bind (idxOf d) with
    | some k => let d := prim d (.cancelFut k); (d, snapshot d)
    | none => (d, "bad-op")
  | ["canceltask", tag] =>
    match tag.toNat?.bind (idxOf d) with
    | some k =>
      -- is the task still inside `command.send`?  (exec waiter, created, caller neither awaiting nor answered)
      let sending := match d.s.ws[k]? with
        | some (w : Waiter) => decide (w.kind = Kind.exec) && !w.started && decide (w.out = Outcome.none)
        | none => false
      if sending then
        if d.sendCancelled.contains k then (d, snapshot d)
        else
          let d := { d with sendCancelled := k :: d.sendCancelled }
          let d := if d.modes[k]? == some 4 then { d with rq := d.rq ++ [Item.abortT k] } else d
          (d, snapshot d)
      else
        let d := prim d (.cancelTask k); (d, snapshot d)
    | none => (d, "bad-op")
  | "yield" :: tags =>
    match tags.mapM (fun t => t.toNat?.bind (idxOf d)) with
    | some ks => let d := yieldD d ks; (d, snapshot d)
    | none => (d, "bad-op")
  | _ => (d, "bad-op")

partial def loop (h : IO.FS.Stream) (d : DS) : IO Unit := do
  let line ← h.getLine
  if line.isEmpty then return ()
  let (d', out) := handle d line.trimAscii.toString
  IO.println out
  loop h d'

def main : IO Unit := do
  loop (← IO.getStdin) {}
