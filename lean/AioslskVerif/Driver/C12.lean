import AioslskVerif.Model.Expect
/-!
Line protocol for K_C12.  The driver keeps, beside the model state, a mirror of asyncio's ready queue
(`rq`, FIFO `call_soon`; `left` = what is still to run of the current loop iteration): model callbacks
(`M`, run as `Op.cb`), first steps of spawned caller tasks, the wake-ups of the per-connection reader
tasks and of suspended message handlers, and the wake-up of the harness' own driving task (`D`).
Everything that changes the model state is one of the primitive `Op`s the theorems quantify over; what a
message handler does (suspend, wait for a gate, close a connection, register / cancel / await a request)
is scheduling glue that decomposes into those ops between the `arrive` and the `finish` of its call.

  reset
  raw  <tag> <matcher>          `create_*_response_future` now; a caller task (`async with timeout: await fut`) is spawned
  wait <tag> <matcher>          task `wait_for_*_message(...)` spawned (registers when it first runs)
  exec <tag> <mode> <matcher>   task `execute(cmd, response=True)` spawned; mode 0 send ok, 1 send raises,
                                2 send suspends once then ok, 3 suspends once then raises,
                                4 send waits for ever (only a cancellation of the task ends it)
  msg <conn> <cls> <n> (<field> <val>)* [<L> <prog>*]
                                the driving task itself calls `_perform_message_callback` (unless the connection is
                                closing, as the reader loop checks); the programs must not suspend
  feed <conn> <cls> <n> (<field> <val>)* <L> <prog>*
                                the message is put into the connection's stream; its reader task takes it when it is
                                free (and the connection is not closing) and awaits `_perform_message_callback`
  open <gate>                   the driving task opens a gate
  close <conn>                  the driving task awaits `connection.disconnect()`
  connect <conn>                a NEW connection (r<k>) comes about: the driving task runs the real accept path
                                (`on_peer_accepted`: registered, CONNECTED, PeerInit, ESTABLISHED); its reader task is
                                created and runs its first step in the next loop iteration.  For the model this is
                                `connState c false` (the connection object is not CLOSING / CLOSED); refused (`bad-op`) when the
                                connection exists already; `msg` / `feed` / `close` on a connection that does not exist are
                                refused too
  cancelfut <tag> | canceltask <tag>      canceltask on an `execute` that is still suspended in `send`: the
                                CancelledError is thrown into `send` when the task next runs (modes 2,3: its
                                already scheduled continuation; mode 4: a wake-up scheduled now) = `sendFails k true`
  yield <tag>*                  the driving task yields; the rest of this loop iteration runs; the timeouts of
                                the given waiters fire (last thing of the iteration, when they were armed before it);
                                the next iteration runs up to the driving task
  matcher := <s|p> <msgcls> <peer|-> <n> (<field> <exp>)*     exp := cN | c<k> | pT | pF | pN | pnn | pge<k> | peq<k>
  conn := s | pN | p<k> | q<k> | r<k>  (q<k>: a second connection of user k; r<k>: a third one, which does not exist
                                before its `connect`)      val := N | <k>
  prog := <nacts> <act>*        the program of one `MessageReceivedEvent` listener for this message
  act  := sleep <k> | gate <g> | close <conn> | raw <tag> <matcher> | wait <tag> <matcher> | exec <tag> <mode> <matcher>
        | nwait <tag> <matcher> | nexec <tag> <matcher>        (request awaited inline by the listener)
        | cancelfut <tag> | canceltask <tag> | raise
Every line answers with the canonical state:
  n=<msgs> e=<errors> order=<listed tags in list order> c=<closing connections> h=<r|d per call> | <tag>:<fut>:<outcome> ...
-/
open AioslskVerif.Expect

inductive Act
  | sleep (k : Nat)
  | gate (g : Nat)
  | close (c : Nat)
  | raw (tag : Nat) (m : Matcher)
  | wait (tag : Nat) (m : Matcher)
  | exec (tag : Nat) (mode : Nat) (m : Matcher)
  | nwait (tag : Nat) (m : Matcher)
  | nexec (tag : Nat) (m : Matcher)
  | cancelFut (tag : Nat)
  | cancelTask (tag : Nat)
  | raise

inductive Item
  | M
  | D
  | startWait (tag : Nat) (m : Matcher)
  | startExec (tag : Nat) (mode : Nat) (m : Matcher)
  | awaitT (k : Nat)
  | failT (k : Nat)
  | abortT (k : Nat)           -- CancelledError delivered to a task that waits in `send` (mode 4)
  | reader (c : Nat)           -- the reader task of connection `c` wakes up (its stream got data)
  | readerStart (c : Nat)      -- first step of the reader task of a connection that has just been established
  | hcont (i : Nat)            -- the suspended handler of call `i` resumes (`sleep(0)` / gate)

/-- one call of `_perform_message_callback`: the listeners' programs still to run -/
structure HRun where
  conn : Nat
  inline : Bool                -- called by the driving task itself (no reader continues afterwards)
  cur : List Act := []
  rest : List (List Act) := []
  nest : Option Nat := none    -- the waiter the running listener awaits inline
  returned : Bool := false

structure DS where
  s : State := {}
  rq : List Item := []
  left : Nat := 0              -- items at the head of rq that still belong to the current loop iteration
  clk : Nat := 0               -- number of times the driving task has yielded (= virtual clock)
  tags : List Nat := []        -- tag of the waiter with index k
  modes : List Nat := []       -- exec mode of the waiter with index k (0 for raw / wait)
  arm : List (Nat × Nat) := [] -- (k, clock when the caller computed its timeout)
  sendCancelled : List Nat := []   -- waiters whose task was cancelled while suspended in `send`
  hruns : List HRun := []      -- index = call number (`State.hs`)
  inbox : List (Nat × Msg × List (List Act)) := []   -- (connection, message, programs), stream order
  parked : List Nat := [0, 1, 2, 3, 4, 5]   -- connections whose reader task waits for data
  opened : List Nat := [0, 1, 2, 3, 4, 5]   -- connection objects that exist (6, 7 = r0, r1 only after `connect`)
  gatesOpen : List Nat := []
  gateWait : List (Nat × Nat) := []   -- (gate, call) in the order the handlers reached the gate

def prim (d : DS) (op : Op) : DS :=
  let before := d.s.cbq.length - (match op with | .cb => 1 | _ => 0)
  let s' := step d.s op
  { d with s := s', rq := d.rq ++ List.replicate (s'.cbq.length - before) .M }

def idxOf (d : DS) (tag : Nat) : Option Nat :=
  let rec go : List Nat → Nat → Option Nat
    | [], _ => none
    | t :: ts, i => if t = tag then some i else go ts (i + 1)
  go d.tags 0

def armNow (d : DS) (k : Nat) : DS := { d with arm := (k, d.clk) :: d.arm }

def spawnRaw (d : DS) (tag : Nat) (m : Matcher) : DS :=
  let k := d.s.ws.length
  let d := prim d (.create .raw m)
  { d with tags := d.tags ++ [tag], modes := d.modes ++ [0], rq := d.rq ++ [.awaitT k] }

/-- `Task.cancel()` of the caller task of waiter `k` -/
def cancelTaskOf (d : DS) (k : Nat) : DS :=
  -- is the task still inside `command.send`?  (exec waiter, created, caller neither awaiting nor answered)
  let sending := match d.s.ws[k]? with
    | some (w : Waiter) => decide (w.kind = Kind.exec) && !w.started && decide (w.out = Outcome.none)
    | none => false
  if sending then
    if d.sendCancelled.contains k then d
    else
      let d := { d with sendCancelled := k :: d.sendCancelled }
      if d.modes[k]? == some 4 then { d with rq := d.rq ++ [Item.abortT k] } else d
  else prim d (.cancelTask k)

/-- has the caller task of waiter `k` run its first step? (a `wait` / `exec` waiter is created by that step) -/
def taskStarted (d : DS) (k : Nat) : Bool :=
  match d.s.ws[k]? with
  | some (w : Waiter) => if w.kind = Kind.raw then w.started else true
  | none => false

def setH (d : DS) (i : Nat) (hr : HRun) : DS := { d with hruns := d.hruns.set i hr }

def popInbox (c : Nat) : List (Nat × Msg × List (List Act)) →
    Option ((Msg × List (List Act)) × List (Nat × Msg × List (List Act)))
  | [] => none
  | (c', x) :: rest =>
    if c' = c then some (x, rest)
    else match popInbox c rest with
      | none => none
      | some (y, rest') => some (y, (c', x) :: rest')

inductive Job
  | handler (i : Nat)          -- go on with the listeners of call `i`
  | readerLoop (c : Nat)       -- `_message_reader_loop` of connection `c` after a callback returned
  | deliver (c : Nat) (μ : Msg) (progs : List (List Act)) (inline : Bool)   -- `_perform_message_callback`

/-- runs a job until its task suspends (fuel = safety bound) -/
def runJob : Nat → DS → Job → DS
  | 0, d, _ => d
  | f + 1, d, .deliver c μ progs inline =>
    let i := d.s.hs.length
    let d := prim d (.arrive c μ)
    let d := { d with hruns := d.hruns ++ [{ conn := c, inline := inline, cur := [], rest := progs }] }
    runJob f d (.handler i)
  | f + 1, d, .readerLoop c =>
    -- connection.py:319 `while not self._is_closing` … 321 `receive_message_object()`
    if d.s.closing.contains c then d
    else match popInbox c d.inbox with
      | none => { d with parked := c :: d.parked }
      | some ((μ, progs), rest) => runJob f { d with inbox := rest } (.deliver c μ progs false)
  | f + 1, d, .handler i =>
    match d.hruns[i]? with
    | none => d
    | some hr =>
      match hr.cur with
      | [] =>
        match hr.rest with
        | p :: ps => runJob f (setH d i { hr with cur := p, rest := ps }) (.handler i)
        | [] =>
          -- every listener has returned: the completion loop, then `_perform_message_callback` returns
          let d := prim d (.finish i)
          let d := setH d i { hr with returned := true }
          if hr.inline then d else runJob f d (.readerLoop hr.conn)
      | a :: as =>
        let next := setH d i { hr with cur := as }
        match a with
        | .sleep 0 => runJob f next (.handler i)
        | .sleep (k + 1) =>
          let d := setH d i { hr with cur := .sleep k :: as }
          { d with rq := d.rq ++ [.hcont i] }
        | .gate g =>
          if d.gatesOpen.contains g then runJob f next (.handler i)
          else { next with gateWait := next.gateWait ++ [(g, i)] }
        | .close c =>
          -- `Connection.disconnect`: nothing when already CLOSING / CLOSED (connection.py:272)
          let d := if next.s.closing.contains c then next else prim next (.connState c true)
          runJob f d (.handler i)
        | .raw tag m => runJob f (spawnRaw next tag m) (.handler i)
        | .wait tag m => runJob f { next with rq := next.rq ++ [.startWait tag m] } (.handler i)
        | .exec tag mode m => runJob f { next with rq := next.rq ++ [.startExec tag mode m] } (.handler i)
        | .nwait tag m =>
          let k := next.s.ws.length
          let d := prim next (.create .wait m)
          let d := armNow { d with tags := d.tags ++ [tag], modes := d.modes ++ [0] } k
          let d := prim d (.awaitF k)
          setH d i { hr with cur := as, nest := some k }
        | .nexec tag m =>
          let k := next.s.ws.length
          let d := prim next (.create .exec m)
          let d := armNow { d with tags := d.tags ++ [tag], modes := d.modes ++ [0] } k
          let d := prim d (.awaitF k)
          setH d i { hr with cur := as, nest := some k }
        | .cancelFut tag =>
          match idxOf next tag with
          | some k => runJob f (prim next (.cancelFut k)) (.handler i)
          | none => runJob f next (.handler i)
        | .cancelTask tag =>
          match idxOf next tag with
          | some k => runJob f (if taskStarted next k then cancelTaskOf next k else next) (.handler i)
          | none => runJob f next (.handler i)
        | .raise => runJob f (setH d i { hr with cur := [] }) (.handler i)

def FUEL : Nat := 100000

/-- the call whose running listener awaits waiter `k` inline -/
def nestOwner (d : DS) (k : Nat) : Option Nat :=
  let rec go : List HRun → Nat → Option Nat
    | [], _ => none
    | hr :: hs, i => if hr.nest == some k then some i else go hs (i + 1)
  go d.hruns 0

def runItem (d : DS) : Item → DS
  | .M =>
    match d.s.cbq.head? with
    | some (.wake k) =>
      let d := prim d .cb
      match nestOwner d k, d.s.ws[k]? with
      | some i, some (w : Waiter) =>
        -- the reader task resumes inside the listener: `wait_for_*` / `execute` returns or raises, the program goes on
        if decide (w.out = Outcome.none) then d
        else match d.hruns[i]? with
          | some hr => runJob FUEL (setH d i { hr with nest := none }) (.handler i)
          | none => d
      | _, _ => d
    | _ => prim d .cb
  | .D => d
  | .startWait tag m =>
    let k := d.s.ws.length
    let d := prim d (.create .wait m)
    let d := armNow { d with tags := d.tags ++ [tag], modes := d.modes ++ [0] } k
    prim d (.awaitF k)
  | .startExec tag mode m =>
    let k := d.s.ws.length
    let d := prim d (.create .exec m)
    let d := armNow { d with tags := d.tags ++ [tag], modes := d.modes ++ [mode] } k
    match mode with
    | 0 => prim d (.awaitF k)
    | 1 => prim d (.sendFails k false)
    | 2 => { d with rq := d.rq ++ [.awaitT k] }
    | 3 => { d with rq := d.rq ++ [.failT k] }
    | _ => d
  | .awaitT k =>
    -- (a raw caller computes its timeout here, in its first step)
    let d := if (d.arm.lookup k).isNone then armNow d k else d
    if d.sendCancelled.contains k then prim d (.sendFails k true) else prim d (.awaitF k)
  | .failT k => prim d (.sendFails k (d.sendCancelled.contains k))
  | .abortT k => prim d (.sendFails k true)
  | .reader c =>
    -- woken inside `receive_message_object`: the message is taken; connection.py:335-336 skips it when closing
    match popInbox c d.inbox with
    | none => { d with parked := c :: d.parked }
    | some ((μ, progs), rest) =>
      let d := { d with inbox := rest }
      if d.s.closing.contains c then d else runJob FUEL d (.deliver c μ progs false)
  | .readerStart c => runJob FUEL d (.readerLoop c)      -- connection.py:326-337: `while not self._is_closing` …
  | .hcont i => runJob FUEL d (.handler i)

/-- run `n` items from the head of the queue -/
def runN : Nat → DS → DS
  | 0, d => d
  | n + 1, d =>
    match d.rq with
    | [] => d
    | it :: q => runN n (runItem { d with rq := q } it)

/-- run at most `n` items, stop after the driving task's wake-up; returns how many items are left of the `n` -/
def runToD : Nat → DS → DS × Nat
  | 0, d => (d, 0)
  | n + 1, d =>
    match d.rq with
    | [] => (d, 0)
    | .D :: q => ({ d with rq := q }, n)
    | it :: q => runToD n (runItem { d with rq := q } it)

def yieldD (d : DS) (fire : List Nat) : DS :=
  let r := d.clk                      -- the round whose batch the driving task has just run
  let d := { d with rq := d.rq ++ [.D], clk := d.clk + 1 }
  let d := runN d.left d              -- the rest of this loop iteration
  -- timers that came due at the start of this iteration run last; a timeout is armed only when its caller
  -- computed it while the deadline was still ahead (clock < round)
  let d := fire.foldl (fun d k =>
    match d.arm.lookup k with
    | some a => if a < r then prim d (.timeout k) else d
    | none => d) d
  -- next iteration: everything that is queued now, up to the driving task
  let (d, rest) := runToD d.rq.length d
  { d with left := rest }

/-! parsing -/

def num (cs : List Char) : Option Nat := (String.ofList cs).toNat?

def parseVal (t : String) : Option Val :=
  match t.toList with
  | ['N'] => some .none
  | cs => (num cs).map .v

def parseExp (t : String) : Option Exp :=
  match t.toList with
  | ['c', 'N'] => some (.const .none)
  | 'c' :: cs => (num cs).map fun n => .const (.v n)
  | ['p', 'T'] => some (.pred fun _ => true)
  | ['p', 'F'] => some (.pred fun _ => false)
  | ['p', 'N'] => some (.pred fun v => v == .none)
  | ['p', 'n', 'n'] => some (.pred fun v => v != .none)
  | 'p' :: 'g' :: 'e' :: cs => (num cs).map fun n => .pred fun v => match v with | .v x => n ≤ x | .none => false
  | 'p' :: 'e' :: 'q' :: cs => (num cs).map fun n => .pred fun v => v == .v n
  | _ => none

/-- `n` (field, value) pairs; returns the remaining tokens -/
def parsePairs {α} (p : String → Option α) : Nat → List String → Option (List (Nat × α) × List String)
  | 0, rest => some ([], rest)
  | n + 1, f :: e :: rest => do
    let f ← f.toNat?
    let e ← p e
    let (r, rest) ← parsePairs p n rest
    pure ((f, e) :: r, rest)
  | _, _ => none

def parseMatcher : List String → Option (Matcher × List String)
  | c :: mc :: pr :: n :: rest => do
    let cls ← match c with | "s" => some ConnClass.server | "p" => some ConnClass.peer | _ => none
    let mc ← mc.toNat?
    let pr ← if pr = "-" then some none else pr.toNat?.map some
    let n ← n.toNat?
    let (fs, rest) ← parsePairs parseExp n rest
    pure ({ cls := cls, msg := mc, peer := pr, fields := fs }, rest)
  | _ => none

/-- connection object identity and what the matcher sees of it -/
def parseConn (t : String) : Option (Nat × Conn) :=
  match t.toList with
  | ['s'] => some (0, .server)
  | ['p', 'N'] => some (1, .peer none)
  | 'p' :: cs => (num cs).bind fun n => if n < 2 then some (2 + n, .peer (some n)) else none
  | 'q' :: cs => (num cs).bind fun n => if n < 2 then some (4 + n, .peer (some n)) else none
  | 'r' :: cs => (num cs).bind fun n => if n < 2 then some (6 + n, .peer (some n)) else none
  | _ => none

def parseAct : List String → Option (Act × List String)
  | "sleep" :: k :: rest => k.toNat?.map fun k => (.sleep k, rest)
  | "gate" :: g :: rest => g.toNat?.map fun g => (.gate g, rest)
  | "close" :: c :: rest => (parseConn c).map fun c => (.close c.1, rest)
  | "raw" :: tag :: rest => do
    let tag ← tag.toNat?
    let (m, rest) ← parseMatcher rest
    pure (.raw tag m, rest)
  | "wait" :: tag :: rest => do
    let tag ← tag.toNat?
    let (m, rest) ← parseMatcher rest
    pure (.wait tag m, rest)
  | "exec" :: tag :: mode :: rest => do
    let tag ← tag.toNat?
    let mode ← mode.toNat?
    let (m, rest) ← parseMatcher rest
    if mode < 2 then pure (.exec tag mode m, rest) else none
  | "nwait" :: tag :: rest => do
    let tag ← tag.toNat?
    let (m, rest) ← parseMatcher rest
    pure (.nwait tag m, rest)
  | "nexec" :: tag :: rest => do
    let tag ← tag.toNat?
    let (m, rest) ← parseMatcher rest
    pure (.nexec tag m, rest)
  | "cancelfut" :: tag :: rest => tag.toNat?.map fun t => (.cancelFut t, rest)
  | "canceltask" :: tag :: rest => tag.toNat?.map fun t => (.cancelTask t, rest)
  | "raise" :: rest => some (.raise, rest)
  | _ => none

def parseActs : Nat → List String → Option (List Act × List String)
  | 0, rest => some ([], rest)
  | n + 1, toks => do
    let (a, rest) ← parseAct toks
    let (as, rest) ← parseActs n rest
    pure (a :: as, rest)

def parseProgs : Nat → List String → Option (List (List Act) × List String)
  | 0, rest => some ([], rest)
  | n + 1, k :: toks => do
    let k ← k.toNat?
    let (p, rest) ← parseActs k toks
    let (ps, rest) ← parseProgs n rest
    pure (p :: ps, rest)
  | _, _ => none

/-- `<conn> <cls> <n> pairs [<L> progs]` -/
def parseMsg : List String → Option (Nat × Msg × List (List Act))
  | c :: mc :: n :: rest => do
    let (cid, conn) ← parseConn c
    let mc ← mc.toNat?
    let n ← n.toNat?
    let (attrs, rest) ← parsePairs parseVal n rest
    let μ : Msg := { conn := conn, cls := mc, attrs := attrs }
    match rest with
    | [] => pure (cid, μ, [])
    | l :: rest => do
      let l ← l.toNat?
      let (progs, rest) ← parseProgs l rest
      if rest.isEmpty then pure (cid, μ, progs) else none
  | _ => none

def suspends : Act → Bool
  | .sleep k => k != 0
  | .gate _ => true
  | .nwait _ _ => true
  | .nexec _ _ => true
  | _ => false

def showF : FStatus → String
  | .pending => "P"
  | .result i => s!"R{i}"
  | .cancelled => "C"
  | .failed => "X"

def showO : Outcome → String
  | .none => "-"
  | .result i => s!"r{i}"
  | .timeout => "T"
  | .cancelled => "C"
  | .sendError => "S"
  | .invalidState => "I"

def insertSorted (x : Nat × String) : List (Nat × String) → List (Nat × String)
  | [] => [x]
  | y :: ys => if x.1 ≤ y.1 then x :: y :: ys else y :: insertSorted x ys

def connName : Nat → String
  | 0 => "s"
  | 1 => "pN"
  | 2 => "p0"
  | 3 => "p1"
  | 4 => "q0"
  | 5 => "q1"
  | 6 => "r0"
  | _ => "r1"

def snapshot (d : DS) : String :=
  let tw := d.tags.zip d.s.ws
  let order := (tw.filter (·.2.listed)).map (toString ·.1)
  let ents := (tw.map fun (t, w) => (t, s!"{t}:{showF w.fut}:{showO w.out}")).foldl (fun acc x => insertSorted x acc) []
  let closing := ([0, 1, 2, 3, 4, 5, 6, 7].filter d.s.closing.contains).map connName
  let calls := d.s.hs.map fun hd => if hd.done then "d" else "r"
  s!"n={d.s.nmsg} e={d.s.err} order={",".intercalate order} c={",".intercalate closing} h={"".intercalate calls} | {" ".intercalate (ents.map (·.2))}"

def handle (d : DS) (line : String) : DS × String :=
  match (line.splitOn " ").filter (· ≠ "") with
  | ["reset"] => ({}, "ok")
  | "raw" :: tag :: rest =>
    match tag.toNat?, parseMatcher rest with
    | some tag, some (m, []) => let d := spawnRaw d tag m; (d, snapshot d)
    | _, _ => (d, "bad-op")
  | "wait" :: tag :: rest =>
    match tag.toNat?, parseMatcher rest with
    | some tag, some (m, []) => let d := { d with rq := d.rq ++ [.startWait tag m] }; (d, snapshot d)
    | _, _ => (d, "bad-op")
  | "exec" :: tag :: mode :: rest =>
    match tag.toNat?, mode.toNat?, parseMatcher rest with
    | some tag, some mode, some (m, []) =>
      if mode < 5 then let d := { d with rq := d.rq ++ [.startExec tag mode m] }; (d, snapshot d) else (d, "bad-op")
    | _, _, _ => (d, "bad-op")
  | "msg" :: rest =>
    match parseMsg rest with
    | some (c, μ, progs) =>
      if progs.any (·.any suspends) || !d.opened.contains c then (d, "bad-op")
      else if d.s.closing.contains c then (d, snapshot d)
      else let d := runJob FUEL d (.deliver c μ progs true); (d, snapshot d)
    | none => (d, "bad-op")
  | "feed" :: rest =>
    match parseMsg rest with
    | some (c, μ, progs) =>
      if !d.opened.contains c then (d, "bad-op") else
      let d := { d with inbox := d.inbox ++ [(c, μ, progs)] }
      let d := if d.parked.contains c then { d with parked := d.parked.erase c, rq := d.rq ++ [.reader c] } else d
      (d, snapshot d)
    | none => (d, "bad-op")
  | ["close", c] =>
    -- the driving task itself awaits `connection.disconnect()`
    match parseConn c with
    | some (cid, _) =>
      if !d.opened.contains cid then (d, "bad-op") else
      let d := if d.s.closing.contains cid then d else prim d (.connState cid true)
      (d, snapshot d)
    | none => (d, "bad-op")
  | ["connect", c] =>
    match parseConn c with
    | some (cid, _) =>
      if d.opened.contains cid || cid < 6 then (d, "bad-op")
      else
        let d := prim d (.connState cid false)
        let d := { d with opened := cid :: d.opened, rq := d.rq ++ [.readerStart cid] }
        (d, snapshot d)
    | none => (d, "bad-op")
  | ["open", g] =>
    match g.toNat? with
    | some g =>
      if d.gatesOpen.contains g then (d, snapshot d)
      else
        let woken := (d.gateWait.filter (·.1 == g)).map fun x => Item.hcont x.2
        let d := { d with gatesOpen := g :: d.gatesOpen, gateWait := d.gateWait.filter (·.1 != g), rq := d.rq ++ woken }
        (d, snapshot d)
    | none => (d, "bad-op")
  | ["cancelfut", tag] =>
    match tag.toNat? with
    | some tag =>
      -- (the request of a handler may not exist (yet): nothing to cancel)
      match idxOf d tag with
      | some k => let d := prim d (.cancelFut k); (d, snapshot d)
      | none => (d, snapshot d)
    | none => (d, "bad-op")
  | ["canceltask", tag] =>
    match tag.toNat?.bind (idxOf d) with
    | some k => let d := cancelTaskOf d k; (d, snapshot d)
    | none => (d, "bad-op")
  | "yield" :: tags =>
    -- a tag whose request does not exist (yet) has no timer
    match tags.mapM (fun t => t.toNat?) with
    | some ts => let d := yieldD d (ts.filterMap (idxOf d)); (d, snapshot d)
    | none => (d, "bad-op")
  | _ => (d, "bad-op")

partial def loop (h : IO.FS.Stream) (d : DS) : IO Unit := do
  let line ← h.getLine
  if line.isEmpty then return ()
  let (d', out) := handle d line.trimAscii.toString
  IO.println out
  loop h d'

def main : IO Unit := do
  loop (← IO.getStdin) {}
