import AioslskVerif.Model.Wire
import AioslskVerif.Model.Obfs
/-!
# Stream reader model (C02)

Transcription of `DataConnection._read_message` (connection.py:370-383), `_read` (325-367) and
`_message_reader_loop` (295-323) over a byte stream that ends with EOF. The decoder is a
parameter `decode : Bytes → Option μ` (`none` = `MessageDeserializationError`, the frame is dropped).
The read time-out is modelled for one situation: nothing more arrives and the connection stays open
(`readerSilent`).
-/
namespace AioslskVerif.Stream
open AioslskVerif.Wire

inductive Close | eof | readError | timeout
deriving DecidableEq, Repr

inductive Event (μ : Type)
  | deliver (m : μ)      -- `network.on_message_received(message, connection)`
  | closed (r : Close)   -- the connection was disconnected with this reason; the loop ends
deriving Repr, DecidableEq

def hdrSize (obf : Bool) : Nat := if obf then 8 else 4

/-- length announced by a header (`obfuscation.decode(header)` first when obfuscated) -/
def frameLen (obf : Bool) (hdr : Bytes) : Nat :=
  match rd32 (if obf then Obfs.decode hdr else hdr) with
  | .ok (n, _) => n
  | .error _ => 0

/-- what `decode_message_data` is given: the de-obfuscated frame -/
def plain (obf : Bool) (frame : Bytes) : Bytes := if obf then Obfs.decode frame else frame

/-- The reader loop on a stream that ends with EOF; `fuel` bounds the number of frames. -/
def readerAux {μ : Type} (obf : Bool) (decode : Bytes → Option μ) : Nat → Bytes → List (Event μ)
  | 0, _ => [.closed .readError]
  | fuel + 1, s =>
    if s.isEmpty then [.closed .eof]                                  -- readexactly: EOF, no partial
    else if s.length < hdrSize obf then [.closed .readError]           -- partial header
    else
      let hdr := s.take (hdrSize obf)
      let n := frameLen obf hdr
      let rest := s.drop (hdrSize obf)
      if rest.length < n then
        if rest.isEmpty then [.closed .eof] else [.closed .readError]  -- partial body
      else
        let frame := hdr ++ rest.take n
        match decode (plain obf frame) with
        | some m => .deliver m :: readerAux obf decode fuel (rest.drop n)
        | none => readerAux obf decode fuel (rest.drop n)               -- dropped, loop continues

def reader {μ : Type} (obf : Bool) (decode : Bytes → Option μ) (s : Bytes) : List (Event μ) :=
  readerAux obf decode (s.length + 1) s

/-- The reader loop on a stream after which **nothing more arrives and the connection stays open**:
the read that cannot be completed (the next header on an idle connection, a truncated header, a
body shorter than its header announces) runs into the read time-out — `_read`: `TimeoutError` →
`disconnect(CloseReason.TIMEOUT)` (connection.py:369-371) — and the loop ends with the connection. -/
def readerSilentAux {μ : Type} (obf : Bool) (decode : Bytes → Option μ) : Nat → Bytes → List (Event μ)
  | 0, _ => [.closed .timeout]
  | fuel + 1, s =>
    if s.length < hdrSize obf then [.closed .timeout]                  -- waits for (the rest of) a header
    else
      let hdr := s.take (hdrSize obf)
      let n := frameLen obf hdr
      let rest := s.drop (hdrSize obf)
      if rest.length < n then [.closed .timeout]                       -- waits for the rest of the body
      else
        let frame := hdr ++ rest.take n
        match decode (plain obf frame) with
        | some m => .deliver m :: readerSilentAux obf decode fuel (rest.drop n)
        | none => readerSilentAux obf decode fuel (rest.drop n)

def readerSilent {μ : Type} (obf : Bool) (decode : Bytes → Option μ) (s : Bytes) : List (Event μ) :=
  readerSilentAux obf decode (s.length + 1) s

/-! ### Accepted connections: the first frame (network.py `on_peer_accepted`) -/

inductive FirstRead
  | eof                    -- nothing arrived before EOF
  | readError              -- partial header / partial body
  | frame (plainFrame : Bytes)
deriving Repr, DecidableEq

/-- `connection.receive_message()` for the first frame of an accepted connection -/
def firstRead (obf : Bool) (s : Bytes) : FirstRead :=
  if s.isEmpty then .eof
  else if s.length < hdrSize obf then .readError
  else
    let hdr := s.take (hdrSize obf)
    let n := frameLen obf hdr
    let rest := s.drop (hdrSize obf)
    if rest.length < n then (if rest.isEmpty then .eof else .readError)
    else .frame (plain obf (hdr ++ rest.take n))

inductive InitKind
  | peerInit
  | pierce (ticket : Nat)
  | other                  -- decodable, but neither PeerInit nor PeerPierceFirewall
deriving Repr, DecidableEq

inductive CloseWhy | eof | readError | requested
deriving Repr, DecidableEq

inductive AcceptOutcome
  | established
  | closed (why : CloseWhy)
deriving Repr, DecidableEq

/-- what `on_peer_accepted` does with the connection, given the decoder for init frames and the
tickets somebody waits for -/
def acceptOutcome (obf : Bool) (decode : Bytes → Option InitKind) (tickets : List Nat) (s : Bytes) :
    AcceptOutcome :=
  match firstRead obf s with
  | .eof => .closed .eof
  | .readError => .closed .readError
  | .frame f =>
    match decode f with
    | none => .closed .readError                       -- MessageDeserializationError → disconnect(READ_ERROR)
    | some .peerInit => .established
    | some (.pierce t) => if tickets.contains t then .established else .closed .requested
    | some .other => .closed .requested

/-- the registry of peer connections after the accepted connection `c` was handled -/
def acceptRegistry (reg : List Nat) (c : Nat) (out : AcceptOutcome) : List Nat :=
  match out with
  | .established => reg ++ [c]
  | .closed _ => (reg ++ [c]).filter (· ≠ c)

/-- a frame on the wire: `serialize()` output = `le32 len ++ body`, obfuscated with `key` or not -/
def wireFrame (key : Option Bytes) (body : Bytes) : Bytes :=
  match key with
  | none => le32 body.length ++ body
  | some k => Obfs.encode k (le32 body.length ++ body)

end AioslskVerif.Stream
