/-!
# Model of `Network.create_peer_connection` (C11)

Transcribes, for the code **with** `fixes/C10-connect-cancel-or-closed.patch`, `fixes/C11-attempt-cleanup.patch`,
`fixes/C11-pierce-coincidence.patch`, `fixes/C11-listener-windows.patch`, `fixes/C11-disconnect-cancel-safe.patch`
and `fixes/C11-race-cancel-orphan.patch` applied, network/network.py:

* `create_peer_connection`, `_create_peer_connection_fallback`, `_create_peer_connection_race`;
* `_get_peer_address`, `select_port`;
* `_make_direct_connection` (address look-up, registry append, `connect()`, PeerInit, finalise,
  `PeerInitializedEvent`; `except CancelledError: disconnect` around all of it);
* `_make_indirect_connection` (both waiters registered *before* ConnectToPeer is sent; `asyncio.wait` with
  timeout; `finally`: every waiter that is still pending is cancelled);
* `ListeningConnection.accept` + the `PeerPierceFirewall` arm of `on_peer_accepted` (registered when CONNECTED is
  reported — `_on_peer_connection_state_changed`, before the listeners of that notification run, 16670c8 —, then
  known ticket: finalise, `PeerInitializedEvent`, complete the waiter *if it is still pending*; otherwise
  disconnect) and the completion loop of `on_message_received` for `CannotConnect`;
* `DataConnection.connect` / `disconnect` (network/connection.py) as far as they notify listeners:
  CONNECTING before `open_connection` (inside the `try` whose `except CancelledError` closes the connection,
  f2f303e), CONNECTED after it, CLOSING before and CLOSED after the socket is
  closed — `disconnect()` always runs to CLOSED, also when its task is cancelled inside a notification.

One request.  `S` is its control state plus the three waiter tables and the connection objects it can
create, each as the code sets and clears them.

**Granularity.**  Every notification of application listeners on the event bus (`ConnectionStateChangedEvent`,
`PeerInitializedEvent`) is a suspension point: the listeners may take arbitrarily long, and every other
completion — the other attempt finishing, CannotConnect, the 60 s timer, cancellation of the request — can be
delivered meanwhile.  So a phase `n…` / `…Closing` / `…Closed` means "the task is inside the listeners of that
notification", and `Op.note n` is "the listeners of notification `n` have returned" (when no listener
suspends, the harness sends the `note` right away: the model then takes the same path in smaller steps).
One `Op` is one completion the environment delivers; `step` runs everything up to the next suspension.

**The wire** (second half of this file, `X`).  "Initialised, usable" is judged at the far end: a peer that follows the
protocol (docs/source/SOULSEEK.rst, "Obfuscation": on an obfuscated port the peer-init messages are obfuscated;
afterwards only a `P` connection stays obfuscated, `D` and `F` go on in clear) must be able to read the PeerInit we
wrote and whatever follows, and we what it writes.  `X` carries, next to `S`, what `PeerConnection.obfuscated`,
`connection_state` and the reader task of each connection object of the request are, and in which encoding PeerInit
went out — each set exactly where the code sets it (`send_message` encodes with the flag *as it is at that moment*;
`_finalize_peer_connection` → `set_connection_state` clears the flag for `D` / `F`, starts the reader for `P` / `D`).
-/
namespace AioslskVerif.PeerConnect

inductive Mode | fallback | race
  deriving DecidableEq, Repr

/-- the direct attempt (`_make_direct_connection`, in race mode its own task) -/
inductive DPh
  | addr           -- waiting for the GetPeerAddress reply
  | nConnecting    -- connection registered; `connect()`: listeners are being told CONNECTING
  | opening        -- parked in open_connection
  | nConnectedOk   -- socket open, listeners are being told CONNECTED; the PeerInit write after it will succeed
  | nConnectedBad  -- the same; the PeerInit write after it will fail
  | nInit          -- PeerInit written, finalised; listeners are being told PeerInitializedEvent(requested)
  | fClosing       -- failed (refused / timeout / PeerInit write failed): `disconnect()`, listeners told CLOSING
  | fClosed        -- … socket closed, unregistered, listeners told CLOSED; then the NetworkError is raised
  | cClosing       -- cancelled: `disconnect()`, listeners told CLOSING
  | cClosed        -- … told CLOSED; then CancelledError is re-raised
  | ok             -- returned the initialised connection
  | failed         -- raised a NetworkError
  | cancelled
  deriving DecidableEq, Repr

/-- the indirect attempt (`_make_indirect_connection`) and the connection it was given -/
inductive IPh
  | notStarted
  | waiting     -- ConnectToPeer sent, waiting for pierce / CannotConnect / timeout
  | ok          -- a peer pierced with our ticket; returned that connection
  | failed
  | cancelled
  | wClosing    -- race, the request was cancelled while the loser was cleaned up: the winner is disconnected,
  | wClosed     --   listeners told CLOSING / CLOSED; then CancelledError is re-raised
  deriving DecidableEq, Repr

/-- an incoming connection the accept task (`ListeningConnection.accept` → `on_peer_accepted`) is handling;
the peer has sent PeerPierceFirewall with the request's ticket -/
inductive APh
  | none
  | nConnected  -- socket open, registered (when CONNECTED is reported); listeners are being told CONNECTED
  | nInit       -- registered, ticket known and waiter pending: finalised, listeners told PeerInitializedEvent
  | nClosing    -- nobody waits for it (any more): `disconnect()`, listeners told CLOSING
  | nClosed     -- … CLOSED
  deriving DecidableEq, Repr

/-- the PeerConnection object of the direct attempt -/
inductive DConn
  | none        -- not created, or closed and unregistered
  | connecting  -- registered, no open socket
  | «open»      -- registered, socket open
  deriving DecidableEq, Repr

inductive Res | pending | returnedD | returnedI | raised | cancelled
  deriving DecidableEq, Repr

structure S where
  mode : Mode
  srvFail : Bool        -- configuration: writing ConnectToPeer to the server fails
  cr : Bool             -- `cancel()` has been called on the request
  d : DPh
  i : IPh
  a : APh
  dc : DConn
  ic : Bool             -- the pierced connection handed to the indirect attempt: registered and open
  ps : Bool             -- PeerInit has reached the peer
  tw : Bool             -- our ticket is in `_expected_connection_futures`
  rw : Bool             -- a CannotConnect waiter for our ticket is in `_expected_response_futures`
  aw : Bool             -- a GetPeerAddress waiter is in `_expected_response_futures`
  res : Res             -- what `create_peer_connection` did
  deriving DecidableEq, Repr

inductive AddrReply | valid | noAddr | noPort
  deriving DecidableEq, Repr

/-- a notification whose listeners have all returned -/
inductive Note
  | dConnecting | dConnected | dInit | dClosing | dClosed      -- the outgoing connection of the direct attempt
  | aConnected | aInit | aClosing | aClosed                    -- the connection the accept task is handling
  | wClosing | wClosed                                         -- the pierced connection the request was given
  deriving DecidableEq, Repr

inductive Op
  | addrReply (r : AddrReply)
  | connectOk (initOk : Bool)    -- open_connection returns; writing PeerInit will succeed / fail
  | connectRefused
  | connectTimeout
  | pierce (obf : Bool)          -- a peer connects to our clear / obfuscated listening port and sends
                                 --   PeerPierceFirewall with the request's ticket (encoded as that port requires)
  | cannotConnect                -- the server sends CannotConnect with the request's ticket
  | indirectTimeout              -- PEER_INDIRECT_CONNECT_TIMEOUT expires
  | cancelRequest
  | note (n : Note)
  | probe                        -- the caller uses the connection it was given: one message each way
  deriving DecidableEq, Repr

/-- the task of the direct attempt has not finished -/
def dRunning : DPh → Bool
  | .ok | .failed | .cancelled => false
  | _ => true

/-- `_make_indirect_connection` up to its first suspension: both waiters are registered, then ConnectToPeer
is sent; a failing send raises through the `finally` that cancels both waiters -/
def startIndirect (s : S) : S :=
  let s := { s with tw := true, rw := true }
  if s.srvFail then { s with tw := false, rw := false, i := .failed } else { s with i := .waiting }

/-- CancelledError delivered to the task of the direct attempt, wherever it is suspended.
Inside a notification the listener is interrupted.  Before the connection is closing:
`except CancelledError: disconnect` (of `connect()` for `opening`, of `_make_direct_connection` otherwise) →
CLOSING notification.  Inside the CLOSING notification of a `disconnect()`: its `finally` closes the socket
and goes on to CLOSED (unregistered) → CLOSED notification.  Inside the CLOSED notification: the connection is
closed already, CancelledError is re-raised (the outer `disconnect` returns at once). -/
def cancelDirect (s : S) : S :=
  match s.d with
  | .addr => { s with aw := false, d := .cancelled }      -- the awaited ExpectedResponse is cancelled and unlisted
  | .nConnecting | .opening | .nConnectedOk | .nConnectedBad | .nInit => { s with d := .cClosing }
  | .fClosing | .cClosing => { s with dc := .none, d := .cClosed }
  | .fClosed | .cClosed => { s with d := .cancelled }
  | .ok | .failed | .cancelled => s

/-- CancelledError delivered to the indirect attempt (parked in `asyncio.wait`): the `finally` cancels both waiters -/
def cancelIndirect (s : S) : S :=
  match s.i with
  | .waiting => { s with tw := false, rw := false, i := .cancelled }
  | _ => s

/-- race mode: `asyncio.gather` over the cancelled attempt(s) returns once their tasks have finished — also when
the gather itself was cancelled (it then raises only after its children are done).  A winner the request holds
is returned, or — if the request was cancelled meanwhile — disconnected; otherwise CancelledError is re-raised. -/
def gathered (s : S) : S :=
  if dRunning s.d then s
  else if s.i = .ok then
    if s.cr then { s with i := .wClosing } else { s with res := .returnedI }
  else if s.cr then { s with res := .cancelled }
  else s

/-- the task of the direct attempt has just finished (`d` is `ok`, `failed` or `cancelled`) -/
def directDone (s : S) : S :=
  match s.mode with
  | .fallback =>
    match s.d with
    | .ok => { s with res := .returnedD }
    | .failed =>
      let s := startIndirect s
      if s.i = .failed then { s with res := .raised } else s
    | _ => { s with res := .cancelled }
  | .race =>
    match s.d with
    | .ok => { cancelIndirect s with res := .returnedD }        -- the loser (parked in `asyncio.wait`) ends at once
    | .failed => if s.i = .failed then { s with res := .raised } else s
    | _ => gathered s

/-- the indirect attempt has just finished without a connection (its waiters are already cleared) -/
def indirectFailed (s : S) : S :=
  match s.mode with
  | .fallback => { s with res := .raised }
  | .race => if s.d = .failed then { s with res := .raised } else s

/-- the indirect attempt returned the pierced connection -/
def indirectOk (s : S) : S :=
  match s.mode with
  | .fallback => { s with res := .returnedI }
  | .race => gathered (cancelDirect s)                          -- the loser is cancelled and gathered

/-- `disconnect()` of the direct connection has reached CLOSED and its listeners have returned -/
def directClosed (s : S) : S :=
  match s.d with
  | .fClosed => directDone { s with d := .failed }
  | .cClosed => directDone { s with d := .cancelled }
  | _ => s

def note (s : S) : Note → Option S
  | .dConnecting => if s.d = .nConnecting then some { s with d := .opening } else none
  | .dConnected =>
    match s.d with
    | .nConnectedOk => some { s with ps := true, d := .nInit }
    -- the PeerInit write fails (the socket is reset): `_send` disconnects, then raises ConnectionWriteError
    | .nConnectedBad => some { s with dc := .connecting, d := .fClosing }
    | _ => none
  | .dInit => if s.d = .nInit then some (directDone { s with d := .ok }) else none
  | .dClosing =>
    match s.d with
    | .fClosing => some { s with dc := .none, d := .fClosed }
    | .cClosing => some { s with dc := .none, d := .cClosed }
    | _ => none
  | .dClosed => if s.d = .fClosed ∨ s.d = .cClosed then some (directClosed s) else none
  | .aConnected =>
    -- the pierce message is read: known ticket with a pending waiter → finalise and announce;
    -- otherwise (unknown ticket, waiter done) → disconnect
    if s.a = .nConnected then some { s with a := if s.tw then .nInit else .nClosing } else none
  | .aInit =>
    if s.a ≠ .nInit then none
    else if s.tw then
      -- the waiter is still pending: completed (and unlisted); `_make_indirect_connection` wakes, its `finally`
      -- cancels the CannotConnect waiter, returns the connection
      some (indirectOk { s with a := .none, ic := true, tw := false, rw := false, i := .ok })
    else some { s with a := .nClosing }                        -- the request ended meanwhile: disconnect
  | .aClosing => if s.a = .nClosing then some { s with a := .nClosed } else none
  | .aClosed => if s.a = .nClosed then some { s with a := .none } else none
  | .wClosing => if s.i = .wClosing then some { s with ic := false, i := .wClosed } else none
  | .wClosed => if s.i = .wClosed then some { s with i := .cancelled, res := .cancelled } else none

def step (s : S) : Op → Option S
  | .addrReply r =>
    if s.d ≠ .addr then none
    else
      let s := { s with aw := false }
      match r with
      | .valid => some { s with d := .nConnecting, dc := .connecting }
      | _ => some (directDone { s with d := .failed })     -- PeerConnectionError: no address / no valid ports
  | .connectOk true => if s.d ≠ .opening then none else some { s with dc := .open, d := .nConnectedOk }
  | .connectOk false => if s.d ≠ .opening then none else some { s with dc := .open, d := .nConnectedBad }
  | .connectRefused | .connectTimeout =>
    -- `connect()`: `except Exception: disconnect(CONNECT_FAILED)`, there is no socket
    if s.d ≠ .opening then none else some { s with d := .fClosing }
  | .pierce _ =>
    -- one incoming connection is handled at a time in this model
    if s.a ≠ .none then none else some { s with a := .nConnected }
  | .cannotConnect =>
    if s.rw then some (indirectFailed { s with rw := false, tw := false, i := .failed }) else some s
  | .indirectTimeout =>
    if s.i ≠ .waiting then none
    else some (indirectFailed { s with rw := false, tw := false, i := .failed })
  | .cancelRequest =>
    if s.res ≠ .pending ∨ s.cr then none
    else
      let s := { s with cr := true }
      match s.mode with
      | .fallback =>
        -- one task: it is inside the direct attempt, or (after that failed) inside the indirect one
        if dRunning s.d then
          let s := cancelDirect s
          some (if s.d = .cancelled then { s with res := .cancelled } else s)
        else some { cancelIndirect s with res := .cancelled }
      | .race =>
        -- parked in `asyncio.wait` (no winner yet): both attempts are cancelled and gathered;
        -- parked in the `gather` for the loser: the gather passes the cancellation on to the loser
        some (gathered (cancelIndirect (cancelDirect s)))
  | .note n => note s n
  | .probe => if s.res = .returnedD ∨ s.res = .returnedI then some s else none

/-- `create_peer_connection` up to its first suspension; `lookup`: ip/port were not given -/
def init (mode : Mode) (lookup srvFail : Bool) : S :=
  let s : S := { mode := mode, srvFail := srvFail, cr := false, d := if lookup then .addr else .nConnecting,
                 i := .notStarted, a := .none, dc := if lookup then .none else .connecting, ic := false, ps := false,
                 tw := false, rw := false, aw := lookup, res := .pending }
  match mode with
  | .fallback => s
  | .race => startIndirect s        -- the indirect task starts at once; if it fails the race goes on with direct

def stepT (s : S) (op : Op) : S := (step s op).getD s

def run (mode : Mode) (lookup srvFail : Bool) (ops : List Op) : S := ops.foldl stepT (init mode lookup srvFail)

/-! ## The wire -/

/-- connection type (`PeerConnectionType`) -/
inductive CT | peer | distributed | file
  deriving DecidableEq, Repr

/-- what one `PeerConnection` object does to the bytes (network/connection.py) -/
structure Wire where
  obf : Bool      -- `obfuscated`: `encode_message_data` obfuscates what is sent, `_read_message` de-obfuscates what is read
  fin : Bool      -- `connection_state` is no longer AWAITING_INIT
  reader : Bool   -- the message reader task runs (`set_connection_state(ESTABLISHED)` → `start_reader_task`)
  deriving DecidableEq, Repr

/-- `PeerConnection(…, obfuscated=o)` -/
def Wire.fresh (o : Bool) : Wire := { obf := o, fin := false, reader := false }

/-- `_finalize_peer_connection` (network.py) → `PeerConnection.set_connection_state`: `F` → NEGOTIATING_TRANSFER (no
reader: the transfer code reads the socket itself), `P` / `D` → ESTABLISHED (reader started); leaving AWAITING_INIT
clears `obfuscated` for every type but `P` -/
def finalize (t : CT) (w : Wire) : Wire := { obf := w.obf && t == .peer, fin := true, reader := t != .file }

/-- one request and the wire-level state of the connection objects it can be given -/
structure X where
  typ : CT            -- configuration: the requested connection type
  dialObf : Bool      -- configuration: the port the direct attempt dials (`select_port` / the caller) is an obfuscated one
  s : S
  dw : Wire           -- the outgoing connection of the direct attempt
  initEnc : Option Bool   -- PeerInit has been written: obfuscated (`some true`) / in clear (`some false`)
  aObf : Bool         -- the connection the accept task is handling came in on our obfuscated listening port
  aw : Wire           -- … its connection object (`ListeningConnection.accept`: `obfuscated=self.obfuscated`)
  iObf : Bool         -- the same two for the pierced connection that was handed to the request
  iw : Wire
  deriving DecidableEq, Repr

/-- what the step `op` (taken from `x.s`) does to the connection objects -/
def wireStep (x : X) : Op → X
  | .note .dConnected =>
    -- `_make_direct_connection` after `connect()`: `send_message(PeerInit)` — encoded with the flag as it is now —
    -- and only then `_finalize_peer_connection`
    if x.s.d = .nConnectedOk then { x with initEnc := some x.dw.obf, dw := finalize x.typ x.dw } else x
  | .pierce o => if x.s.a = .none then { x with aObf := o, aw := Wire.fresh o } else x
  | .note .aConnected =>
    -- `on_peer_accepted`: the pierce message has been read (AWAITING_INIT, flag of the listening port); known ticket
    -- with a pending waiter: type and user name are taken from the waiter, `_finalize_peer_connection`
    if x.s.a = .nConnected ∧ x.s.tw = true then { x with aw := finalize x.typ x.aw } else x
  | .note .aInit =>
    -- the waiter is completed with this very object
    if x.s.a = .nInit ∧ x.s.tw = true then { x with iObf := x.aObf, iw := x.aw } else x
  | _ => x

def xstep (x : X) (op : Op) : Option X := (step x.s op).map fun s' => { wireStep x op with s := s' }

def xinit (t : CT) (dialObf : Bool) (mode : Mode) (lookup srvFail : Bool) : X :=
  -- (with a look-up the outgoing connection object is only created when the address arrives: with this flag)
  { typ := t, dialObf := dialObf, s := init mode lookup srvFail, dw := Wire.fresh dialObf, initEnc := none,
    aObf := false, aw := Wire.fresh false, iObf := false, iw := Wire.fresh false }

def xstepT (x : X) (op : Op) : X := (xstep x op).getD x

def xrun (t : CT) (dialObf : Bool) (mode : Mode) (lookup srvFail : Bool) (ops : List Op) : X :=
  ops.foldl xstepT (xinit t dialObf mode lookup srvFail)

/-- `_handle_connect_to_peer` once `connect()` has returned: PeerPierceFirewall is sent — encoded with the flag as it is
then — and after that the connection is finalised.  Returns (how the pierce message went out, the connection object). -/
def connectBackWire (t : CT) (portObf : Bool) : Bool × Wire :=
  let w := Wire.fresh portObf
  (w.obf, finalize t w)

/-! the protocol's side of it (docs/source/SOULSEEK.rst, "Obfuscation") -/

/-- a peer that was reached on / reached us on a port with obfuscation `portObf` goes on obfuscated exactly when the
connection is a `P` connection -/
def wireRule (t : CT) (portObf : Bool) : Bool := portObf && t == .peer

/-- the peer can read what we send on the connection object -/
def txOK (t : CT) (portObf : Bool) (w : Wire) : Bool := w.fin && w.obf == wireRule t portObf

/-- we read what the peer sends: same encoding, and the bytes go where the type says — to the reader task for `P` / `D`,
to the caller (`receive_transfer_ticket`, …) for `F` -/
def rxOK (t : CT) (portObf : Bool) (w : Wire) : Bool :=
  w.fin && w.obf == wireRule t portObf && w.reader == (t != .file)

/-- the outcome of `probe` for the connection the request returned: (the peer's message is received by us, our message
is readable at the far end).  A peer that could not read PeerInit has no connection with us at all. -/
def usable (x : X) : Option (Bool × Bool) :=
  match x.s.res with
  | .returnedD =>
    let known := x.initEnc == some x.dialObf
    some (known && rxOK x.typ x.dialObf x.dw, known && txOK x.typ x.dialObf x.dw)
  | .returnedI => some (rxOK x.typ x.iObf x.iw, txOK x.typ x.iObf x.iw)
  | _ => none

/-- `Network.select_port` (network.py:504-522): 0 = port not available -/
def selectPort (preferObfuscated : Bool) (port obfuscatedPort : Nat) : Nat × Bool :=
  if port ≠ 0 ∧ obfuscatedPort ≠ 0 then
    if preferObfuscated then (obfuscatedPort, true) else (port, false)
  else if port ≠ 0 then (port, false)
  else (obfuscatedPort, true)

/-! ### Connect-back, from the server's ConnectToPeer to the answer (`_handle_connect_to_peer`, network.py:955-995) -/

/-- how the dial ends (the environment): connected and PeerPierceFirewall written / `connect()` fails (refused, timeout:
`ConnectionFailedError`) / connected but the write of PeerPierceFirewall fails (`ConnectionWriteError`) -/
inductive BackHow | ok | refused | writeFails
  deriving DecidableEq, Repr

/-- what the request has done when its task is over -/
structure BackOut where
  dial : Nat × Bool            -- `PeerConnection(ip, port, obfuscated=…)`: what `select_port` gave (port 0: there is none)
  pierced : Bool               -- PeerPierceFirewall(ticket) has reached the asking peer
  cc : Bool                    -- CannotConnect(ticket, username) has been sent to the server
  registered : Bool            -- the connection object is (still) in `peer_connections`
  wire : Option (Bool × Wire)  -- connected: (the pierce message went out obfuscated, the object after `_finalize_…`)
  deriving DecidableEq, Repr

/-- `_handle_connect_to_peer` for a ConnectToPeer(typ, port, obfuscated port — `none`: the message ends before the
obfuscated-port fields, `select_port` takes `None` like 0).  The connection object is created and registered with
whatever `select_port` returns — also port 0 when the asking peer has no port at all — and `connect()` is called inside
the `try`: both `NetworkError`s (connect failed: the object is closed and unregistered by `disconnect`; write failed:
likewise) end in CannotConnect to the server and `PeerConnectionError`.  A dial of port 0 can only be refused (`none`:
not an environment behaviour). -/
def connectBack (t : CT) (prefer : Bool) (port : Nat) (obfs : Option Nat) (how : BackHow) : Option BackOut :=
  let d := selectPort prefer port (obfs.getD 0)
  if d.1 = 0 ∧ how ≠ .refused then none
  else match how with
    | .ok => some { dial := d, pierced := true, cc := false, registered := true, wire := some (connectBackWire t d.2) }
    | .refused | .writeFails => some { dial := d, pierced := false, cc := true, registered := false, wire := none }

end AioslskVerif.PeerConnect
