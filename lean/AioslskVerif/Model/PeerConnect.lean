/-!
# Model of `Network.create_peer_connection` (C11)

Transcribes, for the code **with** `fixes/C10-connect-cancel-or-closed.patch` and
`fixes/C11-attempt-cleanup.patch` applied, network/network.py:

* `create_peer_connection`, `_create_peer_connection_fallback`, `_create_peer_connection_race` (524-640);
* `_get_peer_address` (642-664), `select_port` (504-522);
* `_make_direct_connection` (825-875: address look-up, registry append, connect, PeerInit, finalise;
  `except CancelledError: disconnect`);
* `_make_indirect_connection` (877-935: both waiters registered *before* ConnectToPeer is sent; `asyncio.wait`
  with timeout; `finally`: every waiter that is still pending is cancelled);
* the `PeerPierceFirewall` arm of `on_peer_accepted` (known ticket: finalise + complete the waiter; unknown
  ticket: disconnect) and the completion loop of `on_message_received` for `CannotConnect`.

One request.  `S` is its control state plus the three waiter tables and the two connection objects it can
create, each as the code sets and clears them.  One `Op` is one completion the environment delivers
(address reply, connect outcome, pierce, CannotConnect, the 60 s timer, cancellation of the request); `step`
runs everything up to the next quiescent point.
-/
namespace AioslskVerif.PeerConnect

inductive Mode | fallback | race
  deriving DecidableEq, Repr

/-- the direct attempt -/
inductive DPh
  | addr        -- waiting for the GetPeerAddress reply
  | opening     -- connection registered, parked in open_connection
  | ok          -- connected, PeerInit sent, finalised
  | failed      -- raised a NetworkError
  | cancelled
  deriving DecidableEq, Repr

/-- the indirect attempt -/
inductive IPh
  | notStarted
  | waiting     -- ConnectToPeer sent, waiting for pierce / CannotConnect / timeout
  | ok          -- a peer pierced with our ticket
  | failed
  | cancelled
  deriving DecidableEq, Repr

/-- the PeerConnection object of the direct attempt -/
inductive DConn
  | none        -- not created, or closed and unregistered
  | connecting  -- registered, no socket yet
  | «open»      -- registered, socket open
  deriving DecidableEq, Repr

inductive Res | pending | returnedD | returnedI | raised | cancelled
  deriving DecidableEq, Repr

structure S where
  mode : Mode
  srvFail : Bool        -- configuration: writing ConnectToPeer to the server fails
  d : DPh
  i : IPh
  dc : DConn
  ic : Bool             -- the pierced (incoming) connection: registered and open
  tw : Bool             -- our ticket is in `_expected_connection_futures`
  rw : Bool             -- a CannotConnect waiter for our ticket is in `_expected_response_futures`
  aw : Bool             -- a GetPeerAddress waiter is in `_expected_response_futures`
  res : Res             -- what `create_peer_connection` did
  deriving DecidableEq, Repr

inductive AddrReply | valid | noAddr | noPort
  deriving DecidableEq, Repr

inductive Op
  | addrReply (r : AddrReply)
  | connectOk (initOk : Bool)    -- open_connection returns; writing PeerInit succeeds / fails
  | connectRefused
  | connectTimeout
  | pierce                       -- a peer connects to us and sends PeerPierceFirewall with the request's ticket
  | cannotConnect                -- the server sends CannotConnect with the request's ticket
  | indirectTimeout              -- PEER_INDIRECT_CONNECT_TIMEOUT expires
  | cancelRequest
  deriving DecidableEq, Repr

/-- `_make_indirect_connection` up to its first suspension: both waiters are registered, then ConnectToPeer
is sent; a failing send raises through the `finally` that cancels both waiters -/
def startIndirect (s : S) : S :=
  let s := { s with tw := true, rw := true }
  if s.srvFail then { s with tw := false, rw := false, i := .failed } else { s with i := .waiting }

/-- CancelledError delivered to the direct attempt where it is parked -/
def cancelDirect (s : S) : S :=
  match s.d with
  | .addr => { s with aw := false, d := .cancelled }      -- the awaited ExpectedResponse is cancelled and unlisted
  | .opening => { s with dc := .none, d := .cancelled }   -- connect(): except CancelledError → disconnect → unregistered
  | _ => s

/-- CancelledError delivered to the indirect attempt (parked in `asyncio.wait`): the `finally` cancels both waiters -/
def cancelIndirect (s : S) : S :=
  match s.i with
  | .waiting => { s with tw := false, rw := false, i := .cancelled }
  | _ => s

/-- the direct attempt raised a NetworkError -/
def directFailed (s : S) : S :=
  let s := { s with d := .failed }
  match s.mode with
  | .fallback =>
    let s := startIndirect s
    if s.i = .failed then { s with res := .raised } else s
  | .race => if s.i = .failed then { s with res := .raised } else s

/-- the direct attempt returned an initialised connection -/
def directOk (s : S) : S :=
  let s := { s with d := .ok, dc := .open }
  match s.mode with
  | .fallback => { s with res := .returnedD }
  | .race => { cancelIndirect s with res := .returnedD }      -- loser cancelled and gathered

/-- the indirect attempt raised (its waiters are already cleared) -/
def indirectFailed (s : S) : S :=
  match s.mode with
  | .fallback => { s with res := .raised }
  | .race => if s.d = .failed then { s with res := .raised } else s

/-- the indirect attempt returned the pierced connection -/
def indirectOk (s : S) : S :=
  match s.mode with
  | .fallback => { s with res := .returnedI }
  | .race => { cancelDirect s with res := .returnedI }

def step (s : S) : Op → Option S
  | .addrReply r =>
    if s.d ≠ .addr then none
    else
      let s := { s with aw := false }
      match r with
      | .valid => some { s with d := .opening, dc := .connecting }
      | _ => some (directFailed s)                         -- PeerConnectionError: no address / no valid ports
  | .connectOk true => if s.d ≠ .opening then none else some (directOk s)
  | .connectOk false =>
    -- the PeerInit write fails: `_send` disconnects (closed, unregistered), ConnectionWriteError
    if s.d ≠ .opening then none else some (directFailed { s with dc := .none })
  | .connectRefused | .connectTimeout =>
    if s.d ≠ .opening then none else some (directFailed { s with dc := .none })
  | .pierce =>
    if s.tw then
      -- accepted, registered, finalised, waiter completed (and unlisted); `_make_indirect_connection` wakes,
      -- its `finally` cancels the CannotConnect waiter, returns the connection
      some (indirectOk { s with ic := true, tw := false, rw := false, i := .ok })
    else some s                                            -- unknown ticket: the accepted connection is closed again
  | .cannotConnect =>
    if s.rw then some (indirectFailed { s with rw := false, tw := false, i := .failed }) else some s
  | .indirectTimeout =>
    if s.i ≠ .waiting then none
    else some (indirectFailed { s with rw := false, tw := false, i := .failed })
  | .cancelRequest =>
    if s.res ≠ .pending then none
    else some { cancelIndirect (cancelDirect s) with res := .cancelled }

/-- `create_peer_connection` up to its first quiescent point; `lookup`: ip/port were not given -/
def init (mode : Mode) (lookup srvFail : Bool) : S :=
  let s : S := { mode := mode, srvFail := srvFail, d := if lookup then .addr else .opening, i := .notStarted,
                 dc := if lookup then .none else .connecting, ic := false, tw := false, rw := false,
                 aw := lookup, res := .pending }
  match mode with
  | .fallback => s
  | .race => startIndirect s        -- the indirect task starts at once; if it fails the race goes on with direct

def stepT (s : S) (op : Op) : S := (step s op).getD s

def run (mode : Mode) (lookup srvFail : Bool) (ops : List Op) : S := ops.foldl stepT (init mode lookup srvFail)

/-- `Network.select_port` (network.py:504-522): 0 = port not available -/
def selectPort (preferObfuscated : Bool) (port obfuscatedPort : Nat) : Nat × Bool :=
  if port ≠ 0 ∧ obfuscatedPort ≠ 0 then
    if preferObfuscated then (obfuscatedPort, true) else (port, false)
  else if port ≠ 0 then (port, false)
  else (obfuscatedPort, true)

end AioslskVerif.PeerConnect
