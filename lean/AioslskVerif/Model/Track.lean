import AioslskVerif.Generated.TrackConstants
/-!
Model of `UserTrackingManager` (aioslsk/user/manager.py:501-732) **with the proposed fixes**
`fixes/C15-lost-call-in-exit-window.patch` (the worker removes its own entry in the step in which it
decides to return; the done-callback only removes the entry it belongs to),
`fixes/C15-swallowed-cancel-on-close.patch` (the retry task is cancelled without being awaited, so
line 566 is no suspension point any more) and `fixes/C15-stale-retry-after-retrack.patch` (a retry request
counts only while it is THE pending retry: `TrackedUser.retry_request` holds the request the retry task
put; calling a retry off forgets it, so a request that is already on the queue is ignored when it is
taken). The second half of the file (`World`) models who makes the requests:
session, friends list, transfer manager — with `fixes/C15-transfer-reason-kept-after-remove.patch`; a
`TransferManager.remove` is three steps there (abort / take off the list / decide), other steps may
come in between.

One `step` transcribes what the code does between two points where a coroutine really suspends:

* `track`/`untrack`      `track_user` / `untrack_user` (536-553): `put_nowait` on the entry's queue,
                          creating entry + worker task when there is none (680-694);
* `workerStep u env`     the worker `_tracking_task` (555-608) of user `u` runs from where it is parked
                          (`queue.get`, `send_server_messages(AddUser)`, `wait_for_server_message`,
                          `send_server_messages(RemoveUser)`) to where it parks next; `env` is what the
                          network did to the pending call;
* `retryFires u`         `_request_retry` (610-613) wakes from its sleep and enqueues `add_flag(0)`;
* `reap u g`             the done-callback (696-710) of the finished worker task `g`;
* `serverClosed`         `_on_state_changed(CLOSED)` (712-732): every task cancelled, entries reaped
                          (atomic here: no call is issued while the CLOSED event is dispatched);
* `advance dt`           the clock moves (ticks of 1/1024 s).

Ghost fields (`issued`, `processed`, `frames`, `events`, `outcomes`, `failed`, `fired`, `log`) record the
history since the last server close; the code does not have them.
-/
namespace AioslskVerif.Track
open AioslskVerif.Generated.Track

/-- ticks per second -/
def tps : Nat := 1024

/-- `TrackingFlag`: a set of reasons -/
structure Flags where
  req : Bool
  tr : Bool
  fr : Bool
deriving DecidableEq, Repr

namespace Flags
/-- `TrackingFlag(0)` -/
def empty : Flags := ⟨false, false, false⟩
/-- `flags |= flag` (TrackedUser.add_flag, 92-93) -/
def add (a b : Flags) : Flags := ⟨a.req || b.req, a.tr || b.tr, a.fr || b.fr⟩
/-- `flags &= ~flag` (TrackedUser.remove_flag, 95-96) -/
def remove (a b : Flags) : Flags := ⟨a.req && !b.req, a.tr && !b.tr, a.fr && !b.fr⟩
end Flags

/-- `TrackingRequest` (75-79): bound method `add_flag`/`remove_flag` + flag. `rid` is the identity of the
object when it was made by a retry task (`some k`: the k-th request a retry task of this user made; the
worker compares identities: `request is tracked_user.retry_request`), `none` for a call -/
structure Req where
  add : Bool
  flag : Flags
  rid : Option Nat
deriving DecidableEq, Repr

/-- the request `track_user` / `untrack_user` make (536-553) -/
def Req.call (add : Bool) (f : Flags) : Req := ⟨add, f, none⟩

/-- `request.operation(request.flag)` (560) -/
def Req.apply (r : Req) (f : Flags) : Flags := if r.add then f.add r.flag else f.remove r.flag
/-- the request was made by a retry task -/
def Req.isRetry (r : Req) : Bool := r.rid.isSome
/-- the request `_request_retry` enqueues (612): `add_flag(TrackingFlag(0))`, a new object -/
def retryReq (k : Nat) : Req := ⟨true, Flags.empty, some k⟩

inductive TState | untracked | tracked | retryPending
deriving DecidableEq, Repr

/-- a call of `send_server_messages` made by the tracking code (an *attempt*; it may fail) -/
inductive Frame | addUser | removeUser
deriving DecidableEq, Repr

/-- how an AddUser attempt ended -/
inductive Outcome | exists | sendFail | timeout | error | notExists
deriving DecidableEq, Repr

/-- where the worker is parked -/
inductive PC
  | idle                        -- `await queue.get()` (557)
  | sendAdd                     -- `await send_server_messages(AddUser.Request)` (620)
  | waitResp (deadline : Nat)   -- `await wait_for_server_message(AddUser.Response, timeout)` (626)
  | sendRemove                  -- `await send_server_messages(RemoveUser.Request)` (646)
deriving DecidableEq, Repr

/-- the sleeping `_request_retry` task: `asyncio.sleep(delay)` started at `armedAt` -/
structure Timer where
  armedAt : Nat
  delay : Nat
deriving DecidableEq, Repr

def Timer.due (t : Timer) : Nat := t.armedAt + t.delay * tps

/-- `TrackedUser` (82-97) + its worker task; `gen` is the identity of the object -/
structure Entry where
  gen : Nat
  flags : Flags
  state : TState
  queue : List Req
  pc : PC
  retry : Option Timer        -- `retry_task`, while it sleeps
  live : Option Nat           -- `retry_request`: the identity of the request of the pending retry
deriving DecidableEq, Repr

/-- `is_retry = request is tracked_user.retry_request` -/
def Entry.honours (e : Entry) (r : Req) : Bool :=
  match r.rid with
  | some k => e.live == some k
  | none => false

/-- what happened on the wire for one user, in order (ghost) -/
inductive Ev
  | add (at_ : Nat)     -- an AddUser attempt, made at tick `at_`
  | remove              -- a RemoveUser attempt
  | ok                  -- the AddUser attempt was answered "exists"
  | fail (due : Nat)    -- the AddUser attempt failed; the documented retry delay is over at tick `due`
deriving DecidableEq, Repr

/-- everything about one user name -/
structure User where
  entry : Option Entry        -- `_tracked_users.get(name)`
  nextGen : Nat
  nextRid : Nat               -- identities of retry requests made so far
  finished : List Nat         -- worker tasks that are done and whose done-callback has not run yet
  issued : List Req           -- ghost: every request made (calls and retry firings), in order
  processed : List Req        -- ghost: requests whose flag operation was applied (or that were no-ops)
  frames : List Frame         -- ghost: AddUser/RemoveUser attempts, in order
  events : List TState        -- ghost: UserTrackingStateChangedEvent states, in order
  outcomes : List Outcome     -- ghost: how the AddUser attempts ended, in order
  failed : Nat                -- ghost: number of failed attempts
  fired : Nat                 -- ghost: number of retry timers that fired
  log : List Ev               -- ghost: attempts and how they ended, in order
deriving DecidableEq, Repr

namespace User

def init : User := ⟨none, 0, 0, [], [], [], [], [], [], 0, 0, []⟩

/-- pending requests -/
def queue (U : User) : List Req := match U.entry with | some e => e.queue | none => []
/-- `get_tracking_flags` (517-525) -/
def flagsOf (U : User) : Flags := match U.entry with | some e => e.flags | none => Flags.empty
/-- `get_tracking_state` (527-534) -/
def stateOf (U : User) : TState := match U.entry with | some e => e.state | none => .untracked
/-- 1 when a retry task is sleeping -/
def pending (U : User) : Nat :=
  match U.entry with
  | some e => (match e.retry with | some _ => 1 | none => 0)
  | none => 0
/-- nothing queued and the worker (if any) waits for requests -/
def Quiescent (U : User) : Prop :=
  match U.entry with
  | some e => e.pc = .idle ∧ e.queue = []
  | none => True

/-- `track_user` (536-542, 680-694) -/
def track (U : User) (f : Flags) : User :=
  let r : Req := Req.call true f
  match U.entry with
  | some e => { U with entry := some { e with queue := e.queue ++ [r] }, issued := U.issued ++ [r] }
  | none =>
    { U with entry := some { gen := U.nextGen, flags := Flags.empty, state := .untracked, queue := [r],
                             pc := .idle, retry := none, live := none },
             nextGen := U.nextGen + 1, issued := U.issued ++ [r] }

/-- `untrack_user` (544-553): a no-op (returns None) when there is no entry -/
def untrack (U : User) (f : Flags) : User :=
  let r : Req := Req.call false f
  match U.entry with
  | some e => { U with entry := some { e with queue := e.queue ++ [r] }, issued := U.issued ++ [r] }
  | none => { U with issued := U.issued ++ [r], processed := U.processed ++ [r] }

/-- the worker returns (583); with the fix it has removed its entry in the same step -/
def exit (U : User) (e : Entry) : User := { U with entry := none, finished := e.gen :: U.finished }

/-- `if tracked_user.queue.empty(): return` (581-583), else `handled.set()` and loop (608, 557) -/
def loopOrExit (U : User) (e : Entry) : User :=
  if e.queue = [] then U.exit e else { U with entry := some { e with pc := .idle } }

/-- the worker takes request `r` (557-566, 570-571, 585-586): runs up to the first real suspension.
`is_retry` is decided by identity and the pending retry is used up by it (fix 4) -/
def take (U : User) (now : Nat) (e : Entry) (r : Req) (q : List Req) : User :=
  let prev := e.flags
  let fl := r.apply prev
  let hon := e.honours r
  let live' := if hon then none else e.live
  let U1 := { U with processed := U.processed ++ [r] }
  if fl = Flags.empty then
    -- 563-566: `_cancel_retry`: the retry task is cancelled (not awaited, fix 2), its request forgotten (fix 4)
    let e1 := { e with flags := fl, queue := q, retry := none, live := none }
    if prev ≠ Flags.empty then
      { U1 with entry := some { e1 with pc := .sendRemove }, frames := U.frames ++ [.removeUser],
                log := U.log ++ [.remove] }
    else U1.loopOrExit e1
  else if prev = Flags.empty ∨ hon = true then
    { U1 with entry := some { e with flags := fl, queue := q, pc := .sendAdd, live := live' },
              frames := U.frames ++ [.addUser], log := U.log ++ [.add now] }
  else
    { U1 with entry := some { e with flags := fl, queue := q, pc := .idle, live := live' } }

/-- 588-599 + `_set_tracking_state(RETRY_PENDING)` (659-666, 677): `_cancel_retry`, then a new retry task -/
def failAttempt (U : User) (e : Entry) (now : Nat) (o : Outcome) (delay : Nat) : User :=
  { U with entry := some { e with state := .retryPending, retry := some ⟨now, delay⟩, live := none, pc := .idle },
           events := U.events ++ [.retryPending], outcomes := U.outcomes ++ [o], failed := U.failed + 1,
           log := U.log ++ [.fail (now + delay * tps)] }

/-- 601-606 -/
def succeed (U : User) (e : Entry) : User :=
  { U with entry := some { e with state := .tracked, pc := .idle },
           events := U.events ++ [.tracked], outcomes := U.outcomes ++ [.exists], log := U.log ++ [.ok] }

/-- 572-575 then the exit check; a failed RemoveUser send is only logged (643-652) -/
def afterRemove (U : User) (e : Entry) : User :=
  ({ U with events := U.events ++ [TState.untracked] }).loopOrExit { e with state := TState.untracked }

end User

/-- what the network does to the worker's pending call -/
inductive Env | sendOk | sendFail | exists | notExists | error | timeout
deriving DecidableEq, Repr

namespace User

/-- one worker step; an `env` that does not fit the parked call changes nothing -/
def worker (U : User) (now : Nat) (env : Env) : User :=
  match U.entry with
  | none => U
  | some e =>
    match e.pc, env with
    | .idle, _ => (match e.queue with | [] => U | r :: q => U.take now e r q)
    | .sendAdd, .sendOk => { U with entry := some { e with pc := .waitResp (now + responseTimeout * tps) } }
    | .sendAdd, .sendFail => U.failAttempt e now .sendFail delaySendFail
    | .waitResp _, .exists => U.succeed e
    | .waitResp _, .notExists => U.failAttempt e now .notExists delayNotExists
    | .waitResp _, .error => U.failAttempt e now .error delayError
    | .waitResp d, .timeout => if d ≤ now then U.failAttempt e now .timeout delayTimeout else U
    | .sendRemove, .sendOk => U.afterRemove e
    | .sendRemove, .sendFail => U.afterRemove e
    | _, _ => U

/-- `_request_retry` wakes up (611-613), never before its sleep is over: a new request object is put on
the queue and remembered as the request of the pending retry -/
def retryFires (U : User) (now : Nat) : User :=
  match U.entry with
  | none => U
  | some e =>
    match e.retry with
    | none => U
    | some t =>
      if t.due ≤ now then
        { U with entry := some { e with queue := e.queue ++ [retryReq U.nextRid], retry := none,
                                        live := some U.nextRid },
                 nextRid := U.nextRid + 1,
                 issued := U.issued ++ [retryReq U.nextRid], fired := U.fired + 1 }
      else U

/-- `_on_tracking_task_done` (696-710) of finished task `g`; with the fix it removes the entry only when
it is the one the task belonged to -/
def reap (U : User) (g : Nat) : User :=
  if g ∈ U.finished then
    let U1 := { U with finished := U.finished.erase g }
    match U.entry with
    | some e => if e.gen = g then { U1 with entry := none } else U1
    | none => U1
  else U

/-- server connection closed (712-732): worker and retry task cancelled, entry reaped -/
def close (U : User) : User :=
  { entry := none, nextGen := U.nextGen, nextRid := U.nextRid,
    finished := (match U.entry with | some e => e.gen :: U.finished | none => U.finished),
    issued := [], processed := [], frames := [], events := [], outcomes := [], failed := 0, fired := 0, log := [] }

end User

structure State where
  now : Nat
  users : Nat → User

def State.init : State := ⟨0, fun _ => User.init⟩

def State.upd (s : State) (u : Nat) (U : User) : State :=
  { s with users := fun v => if v = u then U else s.users v }

inductive Op
  | track (u : Nat) (f : Flags)
  | untrack (u : Nat) (f : Flags)
  | workerStep (u : Nat) (env : Env)
  | reap (u : Nat) (g : Nat)
  | retryFires (u : Nat)
  | serverClosed
  | advance (dt : Nat)
deriving Repr

def step (s : State) : Op → State
  | .track u f => s.upd u ((s.users u).track f)
  | .untrack u f => s.upd u ((s.users u).untrack f)
  | .workerStep u env => s.upd u ((s.users u).worker s.now env)
  | .reap u g => s.upd u ((s.users u).reap g)
  | .retryFires u => s.upd u ((s.users u).retryFires s.now)
  | .serverClosed => { s with users := fun v => (s.users v).close }
  | .advance dt => { s with now := s.now + dt }

def run (s : State) (ops : List Op) : State := ops.foldl step s

/-- a call made by the application: `track`/`untrack` -/
def Op.isCall : Op → Bool
  | .track _ _ => true
  | .untrack _ _ => true
  | _ => false

/-- calls name at least one reason (`TrackingFlag(0)` is what the retry task uses, 612) -/
def Op.flagOk : Op → Bool
  | .track _ f => decide (f ≠ Flags.empty)
  | .untrack _ f => decide (f ≠ Flags.empty)
  | _ => true

/-! ### Specification: the edge-triggered fold of the requests made -/

/-- `R_u`: the set of reasons after applying the requests in order -/
def specFlagsFrom (f : Flags) (rs : List Req) : Flags := rs.foldl (fun f r => r.apply f) f
def specFlags (rs : List Req) : Flags := specFlagsFrom Flags.empty rs

/-- what request `r` must put on the wire when the reasons were `f` before it: RemoveUser on
non-empty → empty, AddUser on empty → non-empty, nothing otherwise -/
def edge (f : Flags) (r : Req) : List Frame :=
  if r.apply f = Flags.empty then (if f ≠ Flags.empty then [.removeUser] else [])
  else if f = Flags.empty then [.addUser]
  else []

def specFramesFrom (f : Flags) : List Req → List Frame
  | [] => []
  | r :: rs => edge f r ++ specFramesFrom (r.apply f) rs
def specFrames (rs : List Req) : List Frame := specFramesFrom Flags.empty rs

/-- the attempts with the repetitions of an AddUser (its retries) left out -/
def collapseFrom (prevAdd : Bool) : List Frame → List Frame
  | [] => []
  | .addUser :: l => if prevAdd then collapseFrom true l else .addUser :: collapseFrom true l
  | .removeUser :: l => .removeUser :: collapseFrom false l
def collapse (l : List Frame) : List Frame := collapseFrom false l

/-- may event `e` directly follow `prev` (`none`: nothing happened yet in this connection)? An AddUser is
attempted first of all, after a RemoveUser (the reasons were empty), or after a FAILED attempt whose
documented retry delay is over — never after an attempt that is unanswered or was answered "exists";
a RemoveUser follows an answered attempt; an answer follows its attempt -/
def Ev.okAfter (prev : Option Ev) : Ev → Bool
  | .add t => (match prev with
      | none => true
      | some .remove => true
      | some (.fail due) => decide (due ≤ t)
      | _ => false)
  | .remove => (match prev with
      | some .ok => true
      | some (.fail _) => true
      | _ => false)
  | .ok => (match prev with | some (.add _) => true | _ => false)
  | .fail _ => (match prev with | some (.add _) => true | _ => false)

def justifiedFrom (prev : Option Ev) : List Ev → Bool
  | [] => true
  | e :: l => e.okAfter prev && justifiedFrom (some e) l
/-- every event of the log may follow its predecessor -/
def Justified (l : List Ev) : Bool := justifiedFrom none l

/-- the attempts among the events -/
def framesOf : List Ev → List Frame
  | [] => []
  | .add _ :: l => .addUser :: framesOf l
  | .remove :: l => .removeUser :: framesOf l
  | _ :: l => framesOf l


/-! ### The owners of the reasons: session, friends list, transfers

The tracking manager above only folds the requests it is given. Who gives them, and when:

* the application:            `track_user` / `untrack_user` (any `Op` of the layer above);
* `UserManager._on_session_initialized` (user/manager.py:463-479): after every login the own name and every
  name in `settings.users.friends` is tracked with FRIEND; `_on_friend_list_changed` (484-495) tracks / untracks
  a name added to / removed from the list while a session exists (the user management job that notices the
  change, 258-290, is collapsed into the change: its polling latency of 1 s is not modelled);
* `TransferManager.manage_user_tracking` (transfer/manager.py:497-515), once per management cycle:
  `track_user(u, TRANSFER)` for every user with an unfinished transfer, `untrack_user(u, TRANSFER)` for every
  user whose transfers are all finished; `TransferManager.remove` (with `fixes/C15-transfer-reason-kept-after-remove.patch`)
  withdraws the reason of a user whose last transfer is removed — the cycle cannot: such a user is in neither set.
  `remove` (transfer/manager.py:350-383) is not one step: `abort()` (cancelling the transfer's tasks, deleting the
  local file, the state listeners), the `gather` of the cancelled tasks and the listeners of `TransferRemovedEvent`
  are places where it waits, and other calls on the manager run meanwhile. It is three steps here —
  `trmStart` (359-368: existence check, the transfer reaches a final state), `trmDrop` (370: taken off the list),
  `trmEnd` (379-381: "no transfer of that user left?" is asked NOW and the reason withdrawn in the same step) — and
  any other step may come in between, also the steps of other removals; `trm` is the three in a row;
* server connection CLOSED: the tracking manager drops everything (`serverClosed`), the client destroys the
  session (client.py:376-382). Nothing is told to the transfer manager and nothing is kept by the user manager:
  the reasons come back because their owners derive them again (next login, next cycle).

`cycleRan` is a ghost: a management cycle ran after the last change of the transfers / the last close (the code
requests a cycle on every such change and on every login, `request_management_cycle`; that wiring is exercised
on the real code, not modelled).
-/

def fReq : Flags := ⟨true, false, false⟩
def fTr : Flags := ⟨false, true, false⟩
def fFr : Flags := ⟨false, false, true⟩

/-- the logged-in user's own name (tracked with FRIEND at every login, user/manager.py:474-476) -/
def me : Nat := 2

/-- `Transfer`: only what `manage_user_tracking` looks at -/
structure Xfer where
  id : Nat
  user : Nat
  finished : Bool       -- `Transfer.is_finalized()` (COMPLETE, ABORTED, FAILED)
deriving DecidableEq, Repr

/-- a `TransferManager.remove(transfer)` in progress: `dropped = some u` once the transfer (of user u: the
`transfer.username` line 379 reads) has been taken off the list -/
structure Removal where
  id : Nat
  dropped : Option Nat
deriving DecidableEq, Repr

structure World where
  t : State               -- `UserTrackingManager`
  session : Bool          -- `UserManager._session is not None`
  friends : List Nat      -- `settings.users.friends`
  xfers : List Xfer       -- `TransferManager._transfers`
  nextId : Nat
  cycleRan : Bool         -- ghost, see above
  rm : List Removal       -- the `remove()` calls in progress

def World.init : World := ⟨State.init, false, [], [], 0, false, []⟩

/-- a set built from a list (the code builds `set`s; order and repetition of requests for *different* users
are not observable, a repeated request for the same user is a no-op) -/
def dedup : List Nat → List Nat
  | [] => []
  | a :: l => if a ∈ l then dedup l else a :: dedup l

namespace World

/-- "u has an unfinished transfer": the TRANSFER reason as the documentation states it (USAGE.rst:748) -/
def HasUnfinished (w : World) (u : Nat) : Prop := ∃ x ∈ w.xfers, x.user = u ∧ x.finished = false
def HasFinished (w : World) (u : Nat) : Prop := ∃ x ∈ w.xfers, x.user = u ∧ x.finished = true
def HasXfer (w : World) (u : Nat) : Prop := ∃ x ∈ w.xfers, x.user = u

instance (w : World) (u : Nat) : Decidable (w.HasUnfinished u) := by unfold HasUnfinished; infer_instance
instance (w : World) (u : Nat) : Decidable (w.HasFinished u) := by unfold HasFinished; infer_instance
instance (w : World) (u : Nat) : Decidable (w.HasXfer u) := by unfold HasXfer; infer_instance

/-- `unfinished_users` (503-506) -/
def unfinishedUsers (w : World) : List Nat := dedup ((w.xfers.filter (fun x => !x.finished)).map (·.user))
/-- `finished_users - unfinished_users` (507-510, 514) -/
def finishedOnlyUsers (w : World) : List Nat :=
  (dedup ((w.xfers.filter (fun x => x.finished)).map (·.user))).filter (fun u => ¬ w.HasUnfinished u)

/-- the requests of one `manage_user_tracking` (512-515) -/
def cycleOps (w : World) : List Op :=
  w.unfinishedUsers.map (Op.track · fTr) ++ w.finishedOnlyUsers.map (Op.untrack · fTr)

/-- the requests of `_on_session_initialized` (474-479) -/
def loginOps (w : World) : List Op := Op.track me fFr :: (dedup w.friends).map (Op.track · fFr)

/-- server connection CLOSED: tracking dropped (712-732), session destroyed (client.py:376-382) -/
def close (w : World) : World := { w with t := step w.t .serverClosed, session := false, cycleRan := false }

def setFinished (w : World) (id : Nat) (b : Bool) : World :=
  { w with xfers := w.xfers.map (fun x => if x.id = id then { x with finished := b } else x), cycleRan := false }

/-- a removal of a transfer of u has taken it off the list and not yet asked whether it was u's last -/
def RemovalPending (w : World) (u : Nat) : Prop := ∃ r ∈ w.rm, r.dropped = some u

instance (w : World) (u : Nat) : Decidable (w.RemovalPending u) := by unfold RemovalPending; infer_instance

/-- `remove()` up to its first wait (359-368): TransferNotFoundError when the transfer is not listed, else
`abort()`: an unfinished transfer is ABORTED, a finished one stays what it is (InvalidStateTransition, 365) -/
def trmStart (w : World) (id : Nat) : World :=
  match w.xfers.find? (fun x => x.id = id) with
  | none => w
  | some _ => { w.setFinished id true with rm := w.rm ++ [⟨id, none⟩] }

/-- `self._transfers.remove(transfer)` (370) of the oldest removal of `id` that has not done it yet; when another
removal of the same transfer was faster this one ends here (ValueError) -/
def trmDrop (w : World) (id : Nat) : World :=
  match w.rm.find? (fun r => r.id = id ∧ r.dropped = none) with
  | none => w
  | some r =>
    match w.xfers.find? (fun x => x.id = id) with
    | none => { w with rm := w.rm.erase r }
    | some x => { w with xfers := w.xfers.erase x, cycleRan := false,
                         rm := w.rm.erase r ++ [⟨id, some x.user⟩] }

/-- the end of `remove()` (379-383) of the oldest removal of `id` that has dropped its transfer: the reason is
withdrawn when no transfer of that user is listed at this instant -/
def trmEnd (w : World) (id : Nat) : World :=
  match w.rm.find? (fun r => r.id = id ∧ r.dropped.isSome) with
  | none => w
  | some r =>
    match r.dropped with
    | none => w
    | some u =>
      { w with rm := w.rm.erase r,
               t := if ∃ y ∈ w.xfers, y.user = u then w.t else step w.t (.untrack u fTr) }

end World

inductive WOp
  | base (op : Op)               -- the application / the tracking tasks / the clock / the server closing
  | login                        -- SessionInitializedEvent
  | cycle                        -- one `manage_user_tracking`
  | friend (u : Nat) (b : Bool)  -- name added to / removed from the friends list (and noticed)
  | tadd (u : Nat)               -- a transfer for u is added (unfinished)
  | tfin (id : Nat)              -- transfer reaches a final state
  | tque (id : Nat)              -- finished transfer queued again
  | trm (id : Nat)               -- `TransferManager.remove`, nothing else running meanwhile
  | trmStart (id : Nat)          -- … in three steps
  | trmDrop (id : Nat)
  | trmEnd (id : Nat)
deriving Repr

def wstep (w : World) : WOp → World
  | .base .serverClosed => w.close
  | .base op => { w with t := step w.t op }
  | .login => { w with t := run w.t w.loginOps, session := true }
  | .cycle => { w with t := run w.t w.cycleOps, cycleRan := true }
  | .friend u true =>
    if u ∈ w.friends then w
    else { w with friends := w.friends ++ [u], t := if w.session then step w.t (.track u fFr) else w.t }
  | .friend u false =>
    if u ∈ w.friends then
      { w with friends := w.friends.filter (· ≠ u), t := if w.session then step w.t (.untrack u fFr) else w.t }
    else w
  | .tadd u => { w with xfers := w.xfers ++ [⟨w.nextId, u, false⟩], nextId := w.nextId + 1, cycleRan := false }
  | .tfin id => w.setFinished id true
  | .tque id => w.setFinished id false
  | .trm id => ((w.trmStart id).trmDrop id).trmEnd id
  | .trmStart id => w.trmStart id
  | .trmDrop id => w.trmDrop id
  | .trmEnd id => w.trmEnd id

def wrun (w : World) (ops : List WOp) : World := ops.foldl wstep w

/-- the application only ever names the reason that is its own (REQUESTED); FRIEND and TRANSFER belong to the
user manager and the transfer manager -/
def WOp.appOk : WOp → Bool
  | .base (.track _ f) => decide (f = fReq)
  | .base (.untrack _ f) => decide (f = fReq)
  | _ => true

/-- `R_u`: the reasons after applying, in issue order, every request made for u since the last close -/
def reasons (s : State) (u : Nat) : Flags := specFlags (s.users u).issued

end AioslskVerif.Track
