/-!
Vocabulary of the transfer state machine (`aioslsk/transfer/state.py`, `transfer/model.py`).

Hand-written and frozen: the generated table (`Generated/TransferTable.lean`, rewritten by
`translate/transfer_table.py` on every run) and the frozen spec (`Spec/TransferGraph.lean`) both
speak this vocabulary. A state class, public method or effect statement in `state.py` that has no
name here makes the translator raise.
-/
namespace AioslskVerif.Transfer

/-- `TransferDirection` (model.py:36-38). -/
inductive Dir
  | upload | download
deriving Repr, DecidableEq

/-- `TransferState.State` members that have a state class (state.py:56-67; `UNSET` has none). -/
inductive St
  | virgin | queued | initializing | incomplete | downloading | uploading
  | complete | failed | aborted | paused
deriving Repr, DecidableEq

/-- The public (lock-wrapped) methods of `TransferState` (state.py:99-138). -/
inductive Meth
  | fail | abort | queue | initialize | complete | incomplete | start | pause
deriving Repr, DecidableEq

/-- Effect statements that occur in the bodies of the per-state methods, in source order.
`_stop_transfer()` is expanded by the translator to what its body says
(`cancelTasks, setCompleteTime` at the pinned commit). -/
inductive Eff
  | setRemotelyQueued      -- self.transfer.remotely_queued = remotely
  | setFailReason          -- self.transfer.fail_reason = reason
  | setAbortReason         -- self.transfer.abort_reason = reason
  | clearFailReason        -- self.transfer.fail_reason = None
  | clearAbortReason       -- self.transfer.abort_reason = None
  | cancelTasks            -- await self._cancel_transfer_tasks()
  | removeLocalFile        -- await _remove_local_file(self.transfer)
  | setStartTime           -- self.transfer.set_start_time()
  | setCompleteTime        -- self.transfer.set_complete_time()
  | resetQueueVars         -- self.transfer.reset_queue_vars()
  | resetTimeVars          -- self.transfer.reset_time_vars()
  | resetProgressVars      -- self.transfer.reset_progress_vars()
  | resetLocalVars         -- self.transfer.reset_local_vars()
deriving Repr, DecidableEq

def allDir : List Dir := [.upload, .download]
def allSt : List St :=
  [.virgin, .queued, .initializing, .incomplete, .downloading, .uploading, .complete, .failed,
   .aborted, .paused]
def allMeth : List Meth :=
  [.fail, .abort, .queue, .initialize, .complete, .incomplete, .start, .pause]

def St.name : St → String
  | .virgin => "VIRGIN" | .queued => "QUEUED" | .initializing => "INITIALIZING"
  | .incomplete => "INCOMPLETE" | .downloading => "DOWNLOADING" | .uploading => "UPLOADING"
  | .complete => "COMPLETE" | .failed => "FAILED" | .aborted => "ABORTED" | .paused => "PAUSED"

def St.ofName? : String → Option St
  | "VIRGIN" => some .virgin | "QUEUED" => some .queued | "INITIALIZING" => some .initializing
  | "INCOMPLETE" => some .incomplete | "DOWNLOADING" => some .downloading
  | "UPLOADING" => some .uploading | "COMPLETE" => some .complete | "FAILED" => some .failed
  | "ABORTED" => some .aborted | "PAUSED" => some .paused | _ => none

def Meth.ofName? : String → Option Meth
  | "fail" => some .fail | "abort" => some .abort | "queue" => some .queue
  | "initialize" => some .initialize | "complete" => some .complete
  | "incomplete" => some .incomplete | "start_transferring" => some .start
  | "pause" => some .pause | _ => none

def Dir.ofName? : String → Option Dir
  | "upload" => some .upload | "download" => some .download | _ => none

end AioslskVerif.Transfer
