import AioslskVerif.Model.Dist
import AioslskVerif.Generated.DistSearchConstants
/-!
Model of the *search path* through the distributed tree: what `DistributedNetwork` (distributed.py) and
`SearchManager` (search/manager.py) write when one of the three search carriers is received.

  * `ServerSearchRequest.Response`            (server → us, we are branch root)   distributed.py:404-422, manager.py:358-368
  * `DistributedSearchRequest.Request`        (a distributed connection → us)     distributed.py:497-501, manager.py:342-346
  * `DistributedServerSearchRequest.Request`  (legacy wrapped server search)      distributed.py:503-518, manager.py:348-356

The model transcribes the code *after* the proposed fix `fixes/C14-own-search-distributed-carriers.patch`
(own-name filter on the two distributed carriers, in both managers); line numbers are those of /repo HEAD
(447ab47, unpatched). The tree state (`parent`, `children`, `live`, `session`, …) is `Dist.DState` of `Model/Dist.lean`; the
search handlers do not change it (they only read `children` and `_session`).

Both handlers ignore the connection the carrier arrived on (`connection` is unused): a request is a pure
function of the message and the state. The two managers keep separate `_session` references that are set and
cleared by the same `SessionInitialized/Destroyed` events: one `DState.session`.

Collaborators are parameters (`Env`): `answer u q` = `SharesManager.query(q, username=u,
excluded_search_phrases=…)` as `(visible, locked)` lists of files (C07 says which files match, C08 how they are
split); `blocked u` = `settings.users.is_blocked(u, BlockingFlag.SEARCHES)`.
-/
namespace AioslskVerif.DistSearch
open AioslskVerif.Dist
open AioslskVerif.Generated.DistSearch

abbrev Ticket := Nat
abbrev Query := String
abbrev File := String

/-- the three carriers with the fields that are not user / ticket / query -/
inductive Carrier
  | server (code unknown : Nat)        -- `ServerSearchRequest.Response(distributed_code, unknown, …)`
  | distributed (unknown : Nat)        -- `DistributedSearchRequest.Request(unknown, …)`
  | legacy (code unknown : Nat)        -- `DistributedServerSearchRequest.Request(distributed_code, unknown, …)`
deriving Repr, DecidableEq

structure Req where
  carrier : Carrier
  user : Name
  ticket : Ticket
  query : Query
deriving Repr, DecidableEq

structure Env where
  answer : Name → Query → List File × List File
  blocked : Name → Bool

/-- a frame written as a consequence of a search carrier -/
inductive Out
  /-- `DistributedSearchRequest.Request(unknown, user, ticket, query)` queued on distributed connection `conn` -/
  | fwd (conn : ConnId) (unknown : Nat) (user : Name) (ticket : Ticket) (query : Query)
  /-- `PeerSearchReply.Request(username, ticket, results = visible, locked_results = locked)` sent to user `to`
  (over a peer connection to that user, network.py:960-983) -/
  | reply (to : Name) (ticket : Ticket) (username : Name) (visible locked : List File)
deriving Repr, DecidableEq

/-- the search is one of the logged-in user's own -/
def isOwn (s : DState) (u : Name) : Bool := s.session == some u

/-- What `DistributedNetwork` does with the carrier: `none` = not passed on, `some unknown` = a
`DistributedSearchRequest` with that `unknown` value (and the user, ticket, query of the carrier) is passed on.
* server (404-422): no session → warning, passed on; own name → dropped; `distributed_code` is not looked at;
* distributed (497-501): the received message object itself is passed on (+ own-name filter of the fix);
* legacy (503-518): only for `distributed_code = 3`; a fresh request with `unknown = 0x31` (+ own-name filter). -/
def passOn (s : DState) (r : Req) : Option Nat :=
  match r.carrier with
  | .server _ unk => if isOwn s r.user then none else some unk
  | .distributed unk => if isOwn s r.user then none else some unk
  | .legacy code _ => if code ≠ searchCode then none else if isOwn s r.user then none else some legacyUnknown

/-- `send_messages_to_children` (634-636): `queue_messages` on the connection of every entry of `children`,
in list order. -/
def forward (s : DState) (r : Req) : List Out :=
  match passOn s r with
  | some unk => s.children.map (fun c => Out.fwd c unk r.user r.ticket r.query)
  | none => []

/-- Does `SearchManager` call `_query_shares_and_reply` for the carrier (manager.py:342-368)?
server: needs a session and a foreign name; legacy: only code 3. -/
def reaches (s : DState) (r : Req) : Bool :=
  match r.carrier with
  | .server _ _ => s.session.isSome && !isOwn s r.user
  | .distributed _ => true
  | .legacy code _ => code == searchCode

/-- `_query_shares_and_reply` (manager.py:187-245) as far as the query is run:
session, (fix) foreign name, user not search-blocked. Then the shares are queried, the search is recorded and
`SearchRequestReceivedEvent(user, query, result_count)` is emitted. -/
def queried (env : Env) (s : DState) (r : Req) : Bool :=
  reaches s r && s.session.isSome && !isOwn s r.user && !env.blocked r.user

/-- `result_count` of the `SearchRequestReceivedEvent` (`none`: no event) -/
def received (env : Env) (s : DState) (r : Req) : Option Nat :=
  if queried env s r then some ((env.answer r.user r.query).1.length + (env.answer r.user r.query).2.length)
  else none

/-- the reply task: nothing when `len(visible) + len(locked) == 0`, otherwise one `PeerSearchReply` with the
carrier's ticket, the session's user name and both lists, sent to the asking user. -/
def reply (env : Env) (s : DState) (r : Req) : List Out :=
  match s.session with
  | some me =>
    if queried env s r then
      let res := env.answer r.user r.query
      if res.1.length + res.2.length = 0 then []
      else [Out.reply r.user r.ticket me res.1 res.2]
    else []
  | none => []

/-- everything written because carrier `r` was received in tree state `s` -/
def handle (env : Env) (s : DState) (r : Req) : List Out := forward s r ++ reply env s r

/-! ### views used by the statements (`Props/C14.lean`) -/

/-- the carrier is a search request (`distributed_code` of the legacy wrapper is the search code; the server
carrier's code is not looked at by the code, the plain distributed carrier has none) -/
def Req.IsSearch (r : Req) : Prop :=
  match r.carrier with
  | .legacy code _ => code = searchCode
  | _ => True

instance (r : Req) : Decidable r.IsSearch := by
  unfold Req.IsSearch; split <;> infer_instance

/-- the `unknown` field of the request that is passed on: the carrier's own, `0x31` for the legacy wrapper -/
def Req.outUnknown (r : Req) : Nat :=
  match r.carrier with
  | .server _ unk => unk
  | .distributed unk => unk
  | .legacy _ _ => legacyUnknown

/-- the frame is written to distributed connection `c` -/
def Out.toConn (c : ConnId) : Out → Bool
  | .fwd c' .. => c' == c
  | .reply .. => false

/-- the shares hold a match (visible or locked) for the asking user -/
def Env.hasMatch (env : Env) (u : Name) (q : Query) : Prop :=
  (env.answer u q).1 ≠ [] ∨ (env.answer u q).2 ≠ []

instance (env : Env) (u : Name) (q : Query) : Decidable (env.hasMatch u q) := by
  unfold Env.hasMatch; infer_instance

/-! ### histories: tree operations interleaved with search carriers, with adds in progress

`_add_child` (distributed.py:304-327) is the one handler on the search path's state that suspends in the middle:

    self.children.append(peer)                                   -- 308   state change
    root, level = self._get_advertised_branch_values()           -- 310   (raises without a session: abandoned here)
    await asyncio.gather(send level, send root)                  -- 320   SUSPENSION (socket writes, drain)
    logger.debug(...)                                            -- 324   nothing else

While it waits for the joining peer's socket (2–3 loop iterations on an idle socket, up to the 10 s write time-out on a
congested one) other handlers run — in particular search carriers. The small-step history splits the add at that point:
`addBegin n` is `_on_peer_connection_initialized(requested=False)` up to the suspension (or to its end when the peer
is not admitted or there is no session); everything the handler does to the state, and both writes, lie BEFORE the
suspension, so its effect is that of the atomic `Op.initialized n false`. `addEnd c` is the resumption after the
gather (normally, or with the write error of a socket that failed or timed out): it only logs. `adding` lists the
adds in progress whose connection is still registered (`distributed_peers`); a connection that is closed meanwhile
(`Op.closed`, also the library's own disconnect on a write time-out) drops out.
-/

/-! ### connections between their CLOSING and their CLOSED notification

`DataConnection.disconnect` (network/connection.py:262-312) is the other handler on the search path that suspends in the
middle:

    await self.set_state(CLOSING)            -- 276   `_is_closing := True`; the listeners of CLOSING are awaited
    self._cancel_queued_messages()           -- 282
    self._writer.close()                     -- 286
    await self._writer.wait_closed()         -- 298   SUSPENSION: up to DISCONNECT_TIMEOUT (5 s) while the transport
                                             --       still holds unsent data for a peer that does not read
    await self.set_state(CLOSED)             -- 311   only here `_on_state_changed` (distributed.py:617-644) runs:
                                             --       `_remove_child`, `distributed_peers.remove`

`DistributedNetwork` does nothing on CLOSING: between the two notifications the connection is still registered and, if it
was a child, still an entry of `children` — carriers handled meanwhile are queued on it like on every other child
(`send_messages_to_children` does not look at the state), and `send_message` (connection.py:507-521) drops them with a
warning because `_is_closing` is set. `SOp.closeBegin c` is the first half (the connection is reported CLOSING, by
whichever cause: EOF from the remote end, a failed write, a time-out); the second half is the tree operation
`Op.closed c`. `closing` lists the connections in between. `sent` logs, per carrier, the frames that are actually
WRITTEN: those of `log` (queued) whose connection is not closing. -/

/-- the frame is queued on a connection that is closing: `send_message` refuses to write it -/
def refused (closing : List ConnId) : Out → Bool
  | .fwd c .. => closing.contains c
  | .reply .. => false

/-- of the queued frames, those that are written -/
def written (closing : List ConnId) (outs : List Out) : List Out := outs.filter (fun o => !refused closing o)

inductive SOp
  | tree (op : Op)
  | search (r : Req)
  /-- a peer connects as a would-be child; `_add_child` runs up to its suspension -/
  | addBegin (n : Name)
  /-- `_add_child` of connection `c` resumes after the sends (logging only) -/
  | addEnd (c : ConnId)
  /-- connection `c` is reported CLOSING: `disconnect` runs up to its suspension (the CLOSED notification is
  `tree (.closed c)`) -/
  | closeBegin (c : ConnId)
  /-- `settings.credentials.username := n` while the session lasts (the login name stored for the NEXT login, a mutable
  pydantic setting). None of the handlers reads it: "own" is `_session.user.name` (distributed.py:423-429, 518-520,
  532-533; search/manager.py own-name filters) -/
  | credentials (n : Name)
deriving Repr

structure SState where
  d : DState
  /-- connections whose `_add_child` is suspended in its sends, still registered -/
  adding : List ConnId
  /-- per received carrier, everything that was queued for it (`queue_messages` / the reply task) -/
  log : List (Req × List Out)
  /-- registered connections that have been reported CLOSING and not yet CLOSED (`_is_closing`) -/
  closing : List ConnId := []
  /-- per received carrier, everything that was written for it -/
  sent : List (Req × List Out) := []
  /-- `settings.credentials.username` when it was assigned during the history (`none`: as at login) -/
  configured : Option Name := none

def SState.init : SState := ⟨Dist.init, [], [], [], [], none⟩

/-- adds in progress after the tree state moved to `d'`: those whose connection is still registered -/
def stillAdding (adding : List ConnId) (d' : DState) : List ConnId := adding.filter (fun c => decide (c ∈ d'.live))

def stepS (env : Env) (st : SState) : SOp → SState
  | .tree op =>
    let d' := step st.d op
    { st with d := d', adding := stillAdding st.adding d', closing := stillAdding st.closing d' }
  | .search r =>
    { st with log := st.log ++ [(r, handle env st.d r)],
              sent := st.sent ++ [(r, written st.closing (handle env st.d r))] }
  | .addBegin n =>
    let c := st.d.nextConn
    let d' := step st.d (.initialized n false)
    { st with d := d',
              adding := stillAdding st.adding d' ++
                (if c ∈ d'.children ∧ d'.session.isSome = true then [c] else []),
              closing := stillAdding st.closing d' }
  | .addEnd c => { st with adding := st.adding.erase c }
  | .closeBegin c => if c ∈ st.d.live ∧ c ∉ st.closing then { st with closing := st.closing ++ [c] } else st
  | .credentials n => { st with configured := some n }

def runS (env : Env) (h : List SOp) : SState := h.foldl (stepS env) SState.init

def treeOps : List SOp → List Op
  | [] => []
  | .tree op :: h => op :: treeOps h
  | .search _ :: h => treeOps h
  | .addBegin n :: h => .initialized n false :: treeOps h
  | .addEnd _ :: h => treeOps h
  | .closeBegin _ :: h => treeOps h
  | .credentials _ :: h => treeOps h

/-! ### the wire form of a connection that came through an obfuscated port

`PeerConnection.set_connection_state` (network/connection.py:650-676), called by `Network._finalize_peer_connection`
(network.py:997-1004) when the PeerInit of an accepted connection has been read (and after our own PeerInit on a
connection we opened): a connection of another type than "P" stops being obfuscated. Only peer connections stay
obfuscated; on a distributed ("D") connection everything after the PeerInit — our branch values, every forwarded search —
travels in the clear, whichever listening port the child connected to. The table `obfAfterInit` is read off the code
by `translate/distsearch_constants.py` (the flag is set, the library's own initialisation path is run, the flag is read). -/

inductive ConnType
  | peer | distributed | file
deriving Repr, DecidableEq

/-- is a message on a connection of type `t` obfuscated once the connection is initialised, when the connection came
through an obfuscated port (`viaObf`) / a plain one -/
def wireObf (t : ConnType) (viaObf : Bool) : Bool :=
  match t with
  | .peer => obfAfterInit.peer viaObf
  | .distributed => obfAfterInit.distributed viaObf
  | .file => obfAfterInit.file viaObf

/-- the type of the connection a frame is written on -/
def Out.connType : Out → ConnType
  | .fwd .. => .distributed
  | .reply .. => .peer

end AioslskVerif.DistSearch
