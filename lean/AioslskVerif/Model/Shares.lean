/-!
Model of the index of shared directories of `aioslsk/shares/manager.py`
(`add_shared_directory` 368-418, `remove_shared_directory` 447-501, `update_shared_directory`
420-445, `scan_directory_files` 529-576 with `scan_directory` 64-105, `scan` 621-648, `get_stats`
760-772, `_add_item_to_term_map` / `_cleanup_term_map` 883-898), **after** the fixes
`fixes/C07-term-map-follows-index.patch` and `fixes/C07-moved-items-rebased.patch`.

Paths are lists of components of an abstract type `C` (`os.path.commonpath` compares
component-wise). A `SharedItem` is `(shared_directory, subdir, filename)`; with the second fix an
item always refers to the shared directory that holds it, so the per-directory sets
`SharedDirectory.items` are represented by ONE list `items` with
`d.items = items.filter (·.sd = d)` (the harness checks `item.shared_directory is d` for every item
of every directory). Python sets are duplicate-free lists here (`dedup`, `setUnion`); their order
is not observable. The modification time (part of the item key in the code: a changed file gives a
new object whose attributes are re-read) is not observable through `query`/`get_stats` and is not
modelled. Sharing a path that is a regular file is outside the model.
-/
namespace AioslskVerif.Shares

structure Item (C : Type) where
  /-- absolute path of `item.shared_directory` -/
  sd : List C
  /-- `item.subdir`, relative to `sd` -/
  sub : List C
  /-- `item.filename` -/
  name : C
deriving DecidableEq, Repr

/-- absolute folder holding the file -/
def Item.dir {C : Type} (it : Item C) : List C := it.sd ++ it.sub
/-- `get_absolute_path` -/
def Item.abs {C : Type} (it : Item C) : List C := it.sd ++ it.sub ++ [it.name]

/-- a file found on disk by `os.walk`: absolute folder, file name -/
structure File (C : Type) where
  dir : List C
  name : C
deriving DecidableEq, Repr

structure St (C : Type) where
  /-- `_shared_directories`: absolute paths, in list order -/
  paths : List (List C) := []
  /-- union of the `items` sets of the shared directories -/
  items : List (Item C) := []
  /-- the items held by `_term_map` -/
  tm : List (Item C) := []
deriving Repr

inductive Op (C : Type)
  | add (p : List C)
  | remove (p : List C)
  | update (p : List C)
  /-- `scan_directory_files(d)`; `disk` = what `os.walk` finds now -/
  | scan (p : List C) (disk : List (File C))
  /-- `scan()` -/
  | scanAll (disk : List (File C))
deriving Repr

inductive Res
  | ok
  | alreadyShared     -- SharedDirectoryError of add_shared_directory
  | notShared         -- SharedDirectoryError of get_shared_directory / remove / scan
deriving Repr, DecidableEq

section
variable {C : Type} [DecidableEq C]

def dedup {α : Type} [DecidableEq α] : List α → List α
  | [] => []
  | x :: l => if x ∈ l then dedup l else x :: dedup l

/-- `a | b` on sets -/
def setUnion {α : Type} [DecidableEq α] (a b : List α) : List α := a ++ (dedup b).filter (fun x => decide (x ∉ a))

/-- `sorted(dirs, key=lambda d: len(d.absolute_path))[-1]` (stable sort: the last of the longest).
For ancestors of one path, longer string = more components. -/
def longest : List (List C) → Option (List C)
  | [] => none
  | p :: ps =>
    match longest ps with
    | none => some p
    | some b => if p.length > b.length then some p else some b

/-- `_get_parent_directories(d)[-1]` -/
def innermostParent (paths : List (List C)) (d : List C) : Option (List C) :=
  longest (paths.filter (fun p => decide (p ≠ d) && p.isPrefixOf d))

/-- `_get_child_directories(d)` -/
def children (paths : List (List C)) (d : List C) : List (List C) :=
  paths.filter (fun c => decide (c ≠ d) && d.isPrefixOf c)

/-- `_move_items`: the equivalent item of shared directory `target` -/
def rebase (target : List C) (it : Item C) : Item C :=
  { sd := target, sub := it.dir.drop target.length, name := it.name }

/-- `_build_term_map(d)` -/
def tmBuild (tm : List (Item C)) (items : List (Item C)) (d : List C) : List (Item C) :=
  setUnion tm (items.filter (fun it => decide (it.sd = d)))

/-- `_cleanup_term_map()` (fixed: only items of a shared directory stay) -/
def tmCleanup (tm : List (Item C)) (items : List (Item C)) : List (Item C) :=
  tm.filter (fun it => decide (it ∈ items))

def add (s : St C) (p : List C) : St C × Res :=
  if p ∈ s.paths then (s, .alreadyShared)
  else
    match innermostParent s.paths p with
    | none => ({ s with paths := s.paths ++ [p] }, .ok)
    | some par =>
      -- parent.get_items_for_directory(new)
      let isMoved := fun (it : Item C) => decide (it.sd = par) && p.isPrefixOf it.dir
      let moved := s.items.filter isMoved
      let items := setUnion (s.items.filter (fun it => !isMoved it)) (moved.map (rebase p))
      ({ paths := s.paths ++ [p], items := items, tm := tmCleanup (tmBuild s.tm items p) items }, .ok)

def remove (s : St C) (p : List C) : St C × Res :=
  if p ∉ s.paths then (s, .notShared)
  else
    let paths := s.paths.erase p
    let mine := s.items.filter (fun it => decide (it.sd = p))
    let others := s.items.filter (fun it => decide (it.sd ≠ p))
    match innermostParent paths p with
    | none => ({ paths := paths, items := others, tm := tmCleanup s.tm others }, .ok)
    | some par =>
      let items := setUnion others (mine.map (rebase par))
      ({ paths := paths, items := items, tm := tmCleanup (tmBuild s.tm items par) items }, .ok)

/-- `scan_directory(d, children)` -/
def scanned (paths : List (List C)) (p : List C) (disk : List (File C)) : List (Item C) :=
  let ch := children paths p
  dedup ((disk.filter (fun f => p.isPrefixOf f.dir && !ch.any (fun c => c.isPrefixOf f.dir))).map
    (fun f => { sd := p, sub := f.dir.drop p.length, name := f.name }))

/-- `scan_directory_files` for a directory known to be shared: `items := scanned` (old objects are
kept for equal keys), then `_build_term_map(d)`, `_cleanup_term_map()`. -/
def scanDir (s : St C) (p : List C) (disk : List (File C)) : St C :=
  let items := setUnion (s.items.filter (fun it => decide (it.sd ≠ p))) (scanned s.paths p disk)
  { s with items := items, tm := tmCleanup (tmBuild s.tm items p) items }

def scan (s : St C) (p : List C) (disk : List (File C)) : St C × Res :=
  if p ∉ s.paths then (s, .notShared) else (scanDir s p disk, .ok)

def step (s : St C) : Op C → St C × Res
  | .add p => add s p
  | .remove p => remove s p
  | .update p => if p ∈ s.paths then (s, .ok) else (s, .notShared)
  | .scan p disk => scan s p disk
  | .scanAll disk => (s.paths.foldl (fun s p => scanDir s p disk) s, .ok)

def run (ops : List (Op C)) : St C := ops.foldl (fun s op => (step s op).1) {}

/-- `d.items` -/
def dirItems (s : St C) (d : List C) : List (Item C) := s.items.filter (fun it => decide (it.sd = d))

/-- `get_stats()`: `(dir_count, file_count)` -/
def stats (s : St C) : Nat × Nat :=
  ((s.paths.map (fun d => (dedup ((dirItems s d).map (·.sub))).length)).sum,
   (s.paths.map (fun d => (dirItems s d).length)).sum)

/-- `get_query_path`: `normalize_remote_path(os.path.join(subdir, filename))` — the components
joined by one backslash (`sep`). -/
def qpath {Ch : Type} (sep : Ch) (it : Item (List Ch)) : List Ch :=
  [sep].intercalate (it.sub ++ [it.name])

end
end AioslskVerif.Shares
