/-!
Model of the expected-response machinery of `aioslsk` **after** the proposed fixes
`fixes/C12-done-guards.patch` and `fixes/C12-predicate-fields.patch`:

* `ExpectedResponse.matches`                       network/network.py:118-143
* `create_server_response_future`, `create_peer_response_future`,
  `register_response_future`, `_remove_response_future`   network.py:687-719, 744-765
* `wait_for_server_message`, `wait_for_peer_message`      network.py:721-742, 767-788
* `on_message_received`                                    network.py:1204-1225 — the call is *entered*
  (`arrive`), the Network's own handler and the listeners of `MessageReceivedEvent` run (they are the
  environment: whatever they do — suspend, close the connection the message came on or another one,
  register / cancel / await requests — is a sequence of further `Op`s), and when they have returned the
  completion loop runs (`finish`).  Calls for different connections overlap freely; the loop does not
  look at the connection's state.
* `SoulSeekClient.execute`                                 client.py:275-291 (with
  `fixes/C12-execute-cancel-during-send.patch`)
* the life of the connections                              connection.py:105-108 (`Connection.set_state` → `Network.on_state_changed`,
  network.py:1060-1126), `on_peer_accepted` / `_handle_connect_to_peer` / `_finalize_peer_connection` (network.py:955-1004,
  1129-1195): `connState c true` = connection object `c` is reported CLOSING / CLOSED (and, a peer connection, dropped
  from `peer_connections`), `connState c false` = a connection object `c` that is open: a new connection accepted /
  connected to, registered, ESTABLISHED.  None of this code reads or writes `_expected_response_futures`: requests are
  matched by peer *name* when a message arrives, not tied to the connection they went out on.

asyncio is modelled at the granularity the code can observe: a `Future` is `pending`, has a
result, is cancelled or has an exception; `set_result` / `set_exception` on a future that is not
pending raise `InvalidStateError`; `cancel()` on a done future is a no-op; done-callbacks
(`_remove_response_future`, the wake-up of the awaiting task) are *queued* when the future completes
and run later, in FIFO order (`cb`).  Everything the environment can do is an `Op`; one `step`
is what the code does without suspending.
-/
namespace AioslskVerif.Expect

/-- attribute values: Python `None` or a value (ints/strings, encoded as numbers). -/
inductive Val
  | none
  | v (n : Nat)
deriving DecidableEq, Repr

inductive ConnClass
  | server
  | peer
deriving DecidableEq, Repr

/-- the connection a message arrived on; a peer connection carries `username` (may be `None`). -/
inductive Conn
  | server
  | peer (user : Option Nat)
deriving DecidableEq, Repr

def Conn.cls : Conn → ConnClass
  | .server => .server
  | .peer _ => .peer

/-- expected value of a field: a constant or a predicate (`callable(expected_value)`). -/
inductive Exp
  | const (c : Val)
  | pred (p : Val → Bool)

/-- an `ExpectedResponse` without its future part. -/
structure Matcher where
  cls : ConnClass
  msg : Nat
  peer : Option Nat
  fields : List (Nat × Exp)

/-- a received message object: its class and its attributes. -/
structure Msg where
  conn : Conn
  cls : Nat
  attrs : List (Nat × Val)

/-- `getattr(response, fname)`; `none` = `AttributeError`. -/
def Msg.attr (μ : Msg) (f : Nat) : Option Val := μ.attrs.lookup f

/-- network.py:125-127 — the peer name is only compared on a `PeerConnection`. -/
def peerOk (m : Matcher) (c : Conn) : Bool :=
  match m.peer, c with
  | some p, .peer u => u == some p
  | _, _ => true

/-- one field (the property's "carries the expected field value"). -/
def fieldOk (μ : Msg) : Nat × Exp → Bool
  | (f, .pred p) => match μ.attr f with
    | none => false
    | some v => p v
  | (f, .const c) => (μ.attr f).getD .none == c

/-- the `for fname, expected_value in self.fields.items()` loop, network.py:129-141 (fixed:
a satisfied predicate `continue`s instead of returning). -/
def fieldsMatch (μ : Msg) : List (Nat × Exp) → Bool
  | [] => true
  | (f, .pred p) :: rest =>
    match μ.attr f with
    | none => false                                   -- AttributeError → False
    | some v => if p v then fieldsMatch μ rest else false
  | (f, .const c) :: rest =>
    if (μ.attr f).getD .none != c then false else fieldsMatch μ rest

/-- `ExpectedResponse.matches` -/
def Matcher.matches (m : Matcher) (μ : Msg) : Bool :=
  if μ.conn.cls != m.cls then false
  else if μ.cls != m.msg then false
  else if !peerOk m μ.conn then false
  else fieldsMatch μ m.fields

/-! ### futures, waiters -/

inductive FStatus
  | pending
  | result (i : Nat)      -- completed with the i-th received message
  | cancelled
  | failed                -- an exception was set (`set_exception(TimeoutError)`)
deriving DecidableEq, Repr

def FStatus.done : FStatus → Bool
  | .pending => false
  | _ => true

/-- `Future.set_result`: `InvalidStateError` (= `none`) unless pending. -/
def setResult (f : FStatus) (i : Nat) : Option FStatus :=
  match f with
  | .pending => some (.result i)
  | _ => none

/-- `Future.set_exception`: `InvalidStateError` (= `none`) unless pending. -/
def setException (f : FStatus) : Option FStatus :=
  match f with
  | .pending => some .failed
  | _ => none

/-- how the request is awaited -/
inductive Kind
  | raw     -- `create_*_response_future`, awaited by the caller under its own timeout (transfer/manager.py:748,908)
  | wait    -- `wait_for_server_message` / `wait_for_peer_message`
  | exec    -- `SoulSeekClient.execute(command, response=True)`
deriving DecidableEq, Repr

/-- what the caller got -/
inductive Outcome
  | none                  -- still waiting
  | result (i : Nat)
  | timeout               -- TimeoutError
  | cancelled             -- CancelledError
  | sendError             -- `command.send` raised (execute re-raises it)
  | invalidState          -- asyncio.InvalidStateError
deriving DecidableEq, Repr

inductive Cb
  | remove (k : Nat)      -- `_remove_response_future(fut)`
  | wake (k : Nat)        -- wake-up of the task that awaits the future
deriving DecidableEq, Repr

structure Waiter where
  m : Matcher
  kind : Kind
  fut : FStatus := .pending
  listed : Bool := true        -- is in `_expected_response_futures`
  started : Bool := false      -- the caller reached its `await future`
  awaiting : Bool := false     -- the caller task is suspended on the future
  expired : Bool := false      -- the caller's timeout fired (`task.cancel()` by the timeout)
  cancelReq : Bool := false    -- the caller task was cancelled from outside
  out : Outcome := .none

/-- one call of `on_message_received(μ, connection)` -/
structure Handling where
  μ : Msg
  c : Nat                      -- identity of the connection object the message arrived on
  done : Bool := false         -- the handlers have returned and the completion loop has run

structure State where
  ws : List Waiter := []       -- every request ever created, in creation order; index = identity
  cbq : List Cb := []          -- callbacks scheduled with `call_soon`, FIFO
  hs : List Handling := []     -- every call of `on_message_received` so far, in call order; index = message number
  closing : List Nat := []     -- connection objects whose state is CLOSING / CLOSED (`Connection.set_state`)
  err : Nat := 0               -- times `on_message_received` raised ("error during callback")

/-- number of messages received so far -/
def State.nmsg (s : State) : Nat := s.hs.length

inductive Op
  | create (k : Kind) (m : Matcher)   -- future created and appended to the list
  | awaitF (k : Nat)                  -- the caller starts awaiting the future (arms its timeout)
  | arrive (c : Nat) (μ : Msg)        -- `on_message_received(μ, c)` is entered (network.py:1204); handlers start
  | finish (h : Nat)                  -- the handlers of call `h` have returned: completion loop (network.py:1219-1225)
  | connState (c : Nat) (closing : Bool)   -- `Connection.set_state` of connection object `c` (connection.py:105-108):
                                      -- true = CLOSING / CLOSED, false = (a new object that is) CONNECTED / ESTABLISHED
  | timeout (k : Nat)                 -- the caller's timeout fires
  | cancelTask (k : Nat)              -- the caller task is cancelled
  | cancelFut (k : Nat)               -- `future.cancel()` (network.py:890)
  | sendFails (k : Nat) (cancelled : Bool)
      -- `command.send` raises inside `execute`: an exception of its own, or (cancelled = true) the
      -- `CancelledError` thrown into it because the task was cancelled while suspended in `send`
      -- (client.py:279-285, fixed: `except BaseException` — the future is cancelled in both cases)
  | cb                                -- the loop runs the next scheduled callback

/-- done-callbacks in the order they were added: removal first (added at creation), then the
awaiting task's wake-up. -/
def doneCbs (k : Nat) (w : Waiter) : List Cb :=
  .remove k :: (if w.awaiting then [.wake k] else [])

/-- `Future.cancel()` -/
def cancelW (k : Nat) (w : Waiter) : Waiter × List Cb :=
  match w.fut with
  | .pending => ({ w with fut := .cancelled }, doneCbs k w)
  | _ => (w, [])

/-- is the request completed by this message? network.py:1220-1225 (fixed: done futures are skipped) -/
def hit (μ : Msg) (w : Waiter) : Bool :=
  w.listed && !w.fut.done && w.m.matches μ

/-- the completion loop of `on_message_received` for the `n`-th message; the waiter at list
position `j` has identity `off + j`. Result: waiters, scheduled callbacks, "raised". An exception
leaves the loop (the remaining waiters are not visited). -/
def deliver (μ : Msg) (n : Nat) : Nat → List Waiter → List Waiter × List Cb × Bool
  | _, [] => ([], [], false)
  | k, w :: rest =>
    if hit μ w then
      match setResult w.fut n with
      | some f =>
        let r := deliver μ n (k + 1) rest
        ({ w with fut := f } :: r.1, doneCbs k w ++ r.2.1, r.2.2)
      | none => (w :: rest, [], true)
    else
      let r := deliver μ n (k + 1) rest
      (w :: r.1, r.2.1, r.2.2)

/-- the awaiting task resumes (`Task.__wakeup`): what the `await future` inside
`async with timeout(...)` gives, and what the surrounding code does with it. -/
def wakeW (k : Nat) (w : Waiter) : Waiter × List Cb :=
  if !w.awaiting then (w, [])
  else if w.cancelReq then ({ w with awaiting := false, out := .cancelled }, [])
  else if w.expired then
    match w.kind with
    | .wait =>
      -- network.py:738-741, 784-787 (fixed): `if not future.done(): future.set_exception(exc)` ; `raise`
      if w.fut.done then ({ w with awaiting := false, out := .timeout }, [])
      else match setException w.fut with
        | some f => ({ w with awaiting := false, fut := f, out := .timeout }, [.remove k])
        | none => ({ w with awaiting := false, out := .invalidState }, [])
    | _ => ({ w with awaiting := false, out := .timeout }, [])
  else
    match w.fut with
    | .pending => (w, [])
    | .result i => ({ w with awaiting := false, out := .result i }, [])
    | .cancelled => ({ w with awaiting := false, out := .cancelled }, [])
    | .failed => ({ w with awaiting := false, out := .timeout }, [])

def State.put (s : State) (k : Nat) (r : Waiter × List Cb) : State :=
  { s with ws := s.ws.set k r.1, cbq := s.cbq ++ r.2 }

def step (s : State) : Op → State
  | .create kd m => { s with ws := s.ws ++ [{ m := m, kind := kd }] }
  | .awaitF k =>
    match s.ws[k]? with
    | none => s
    | some w =>
      if w.started then s
      else match w.fut with
        | .pending => s.put k ({ w with started := true, awaiting := true }, [])
        | .result i => s.put k ({ w with started := true, out := .result i }, [])
        | .cancelled => s.put k ({ w with started := true, out := .cancelled }, [])
        | .failed => s.put k ({ w with started := true, out := .timeout }, [])
  | .arrive c μ => { s with hs := s.hs ++ [{ μ := μ, c := c }] }
  | .finish h =>
    -- nothing but the call's own record is consulted: not `closing`, not the other calls in `hs`
    match s.hs[h]? with
    | none => s
    | some hd =>
      if hd.done then s
      else
        let r := deliver hd.μ h 0 s.ws
        { s with ws := r.1, cbq := s.cbq ++ r.2.1, hs := s.hs.set h { hd with done := true },
                 err := s.err + (if r.2.2 then 1 else 0) }
  | .connState c b => { s with closing := if b then c :: s.closing else s.closing.filter (· != c) }
  | .timeout k =>
    match s.ws[k]? with
    | none => s
    | some w =>
      if w.awaiting && !w.expired then
        let r := cancelW k w
        s.put k ({ r.1 with expired := true }, r.2)
      else s
  | .cancelTask k =>
    match s.ws[k]? with
    | none => s
    | some w =>
      if w.awaiting then
        let r := cancelW k w
        s.put k ({ r.1 with cancelReq := true }, r.2)
      else s
  | .cancelFut k =>
    match s.ws[k]? with
    | none => s
    | some w => s.put k (cancelW k w)
  | .sendFails k cancelled =>
    match s.ws[k]? with
    | none => s
    | some w =>
      if w.kind = .exec && !w.started then
        let r := cancelW k w
        s.put k ({ r.1 with started := true, out := if cancelled then .cancelled else .sendError }, r.2)
      else s
  | .cb =>
    match s.cbq with
    | [] => s
    | .remove k :: q =>
      match s.ws[k]? with
      | none => { s with cbq := q }
      | some w => { s with ws := s.ws.set k { w with listed := false }, cbq := q }
    | .wake k :: q =>
      match s.ws[k]? with
      | none => { s with cbq := q }
      | some w => ({ s with cbq := q } : State).put k (wakeW k w)

def run (ops : List Op) : State := ops.foldl step {}

/-- a message whose handlers do not suspend: entered and completed in one go; `h` = its message number -/
def Op.message (c : Nat) (μ : Msg) (h : Nat) : List Op := [.arrive c μ, .finish h]

end AioslskVerif.Expect
