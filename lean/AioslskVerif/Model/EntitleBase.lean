/-!
Vocabulary of the entitlement decisions (`aioslsk/transfer/model.py:19-33`, `transfer/manager.py`
`_evaluate_aborted_state`). Hand-written and frozen: the generated constants
(`Generated/EntitleConstants.lean`, rewritten by `translate/entitle_constants.py` on every run) speak
this vocabulary. A reason, predicate or blocking flag in the source that has no name here makes the
translator raise.
-/
namespace AioslskVerif.Entitle

/-- `AbortReason` (transfer/model.py:30-33) -/
inductive Reason
  | requested | blocked | notShared
deriving DecidableEq, Repr

/-- `FailReason` (transfer/model.py:19-27): the reasons sent in `PeerTransferQueueFailed` /
`PeerTransferReply(allowed=False)` -/
inductive FailR
  | cancelled | complete | queued | notShared | readError
deriving DecidableEq, Repr

/-- the three predicates of `_evaluate_aborted_state` (manager.py:1559-1568) -/
inductive Cond
  /-- `_is_abort_requested`: `transfer.abort_reason == AbortReason.REQUESTED` -/
  | abortRequested
  /-- `_is_blocked`: `settings.users.is_blocked(transfer.username, BlockingFlag.UPLOADS)` -/
  | userBlocked
  /-- `_is_not_shared`: `not bool(find_shared_item_cache(transfer.remote_path, transfer.username))` -/
  | notShared
deriving DecidableEq, Repr

def Reason.name : Reason → String
  | .requested => "REQUESTED" | .blocked => "BLOCKED" | .notShared => "FILE_NOT_SHARED"

def FailR.name : FailR → String
  | .cancelled => "CANCELLED" | .complete => "COMPLETE" | .queued => "QUEUED"
  | .notShared => "FILE_NOT_SHARED" | .readError => "FILE_READ_ERROR"

end AioslskVerif.Entitle
