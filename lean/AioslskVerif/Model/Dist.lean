import AioslskVerif.Generated.DistConstants
/-!
Model of `aioslsk/distributed.py` (`DistributedNetwork`): position in the distributed tree
(parent / children / registered distributed peers / potential-parent cache / child admission limits)
and what has been written to the server and to every distributed connection.

The model transcribes the code *after* the proposed fixes `fixes/C13-parent-not-child.patch`,
`fixes/C13-parent-reannounce-server.patch`, `fixes/C13-session-readvertise-children.patch`
(line numbers below are those of the pinned, unpatched file).

Representation. A `DistributedPeer` object is identified by the id of its connection (`ConnId`, creation
order); the per-peer attributes are total functions of the id (`name`, `level`, `root`), the lists of the
code are lists of ids: `live` = `distributed_peers`, `children`, `parent : Option ConnId`.
User names are natural numbers. One `step` = one handler run to completion (handlers are atomic between
quiescent points of the event loop; see `props/c13.py`).

Ghost fields (`told…`, `n…`) record what the handlers wrote: the last `BranchLevel/BranchRoot/
ToggleParentSearch` sent on the current server connection, the last `DistributedBranchLevel/Root` written to
each distributed connection, and frame counters (used by the correspondence only).

Without a session `_get_advertised_branch_values` raises `AttributeError` (`self._session.user`): the
handler is abandoned at that point; every state change of the handlers happens before, every write after
— so "no session ⇒ nothing is written" is the exact effect (distributed.py:136, 235-237).
-/
namespace AioslskVerif.Dist
open AioslskVerif.Generated.Dist

abbrev Name := Nat
abbrev ConnId := Nat

/-- advertised branch values `(level, root)` -/
structure Adv where
  level : Nat
  root : Name
deriving Repr, DecidableEq

/-- read-only view of one `DistributedPeer` (distributed.py:62-69) -/
structure DPeer where
  conn : ConnId
  name : Name
  level : Option Nat
  root : Option Name
deriving Repr, DecidableEq

structure DState where
  /-- `_session.user.name` -/
  session : Option Name
  parent : Option ConnId
  children : List ConnId
  /-- `distributed_peers` (every initialised, not yet closed distributed connection), list order -/
  live : List ConnId
  name : ConnId → Name
  level : ConnId → Option Nat
  root : ConnId → Option Name
  /-- `potential_parents`, a deque with `maxlen = POTENTIAL_PARENTS_CACHE_SIZE` (oldest first) -/
  potential : List Name
  accept : Bool
  maxChildren : Nat
  minSpeed : Option Nat
  ratio : Option Nat
  nextConn : ConnId
  -- ghost: what was written
  toldServer : Option (Adv × Bool)
  toldL : ConnId → Option Nat
  toldR : ConnId → Option Name
  nNotify : Nat
  nL : ConnId → Nat
  nR : ConnId → Nat
  lastAccept : Option Bool
  nAccept : Nat
  nStatsReq : Nat

def upd {α : Type} (f : Nat → α) (c : Nat) (v : α) : Nat → α := fun x => if x = c then v else f x

def init : DState where
  session := none
  parent := none
  children := []
  live := []
  name := fun _ => 0
  level := fun _ => none
  root := fun _ => none
  potential := []
  accept := initAccept
  maxChildren := initMaxChildren
  minSpeed := none
  ratio := none
  nextConn := 0
  toldServer := none
  toldL := fun _ => none
  toldR := fun _ => none
  nNotify := 0
  nL := fun _ => 0
  nR := fun _ => 0
  lastAccept := none
  nAccept := 0
  nStatsReq := 0

/-- view used by clients of this model (C14) -/
def DState.peer (s : DState) (c : ConnId) : DPeer := ⟨c, s.name c, s.level c, s.root c⟩
def DState.liveConns (s : DState) : List ConnId := s.live
def DState.parentName (s : DState) : Option Name := s.parent.map s.name
def DState.isChildName (s : DState) (n : Name) : Bool := s.children.any (fun d => s.name d == n)

/-- `_get_advertised_branch_values` (distributed.py:119-144); `me` is the session's user name.
(`getD` is never reached: a parent has announced both values, `Inv.parentComplete`.) -/
def DState.adv (s : DState) (me : Name) : Adv :=
  match s.parent with
  | some c => if s.root c = some me then ⟨0, me⟩ else ⟨(s.level c).getD 0 + 1, (s.root c).getD me⟩
  | none => ⟨0, me⟩

/-- `_notify_server_of_parent` (249-265), `debug.search_for_parent = True` -/
def notifyServer (s : DState) : DState :=
  match s.session with
  | some me => { s with toldServer := some (s.adv me, s.parent.isNone), nNotify := s.nNotify + 1 }
  | none => s

/-- `_notify_children_of_branch_values` (267-272) / the explicit `(0, username)` of `_unset_parent` (244-247) -/
def notifyChildren (s : DState) : DState :=
  match s.session with
  | some me =>
    { s with toldL := fun c => if c ∈ s.children then some (s.adv me).level else s.toldL c,
             toldR := fun c => if c ∈ s.children then some (s.adv me).root else s.toldR c,
             nL := fun c => if c ∈ s.children then s.nL c + 1 else s.nL c,
             nR := fun c => if c ∈ s.children then s.nR c + 1 else s.nR c }
  | none => s

/-- `_on_state_changed` for a distributed connection reaching `CLOSED` (588-614), incl. `_unset_parent`
(230-247) and `_remove_child` (312-314). -/
def closePeer (s : DState) (c : ConnId) : DState :=
  if c ∈ s.live then
    let s1 := if s.parent = some c then notifyChildren (notifyServer { s with parent := none }) else s
    { s1 with children := s1.children.erase c, live := s1.live.erase c }
  else s

/-- `_set_parent` (174-203): every other distributed connection that is neither the parent's nor a child's
is disconnected (its `CLOSED` event only removes it from `distributed_peers`). -/
def setParent (s : DState) (c : ConnId) : DState :=
  notifyChildren (notifyServer
    { s with parent := some c, live := s.live.filter (fun d => decide (d = c ∨ d ∈ s.children)) })

/-- `_check_if_new_parent` (205-215) with fix `C13-parent-not-child` -/
def checkNewParent (s : DState) (c : ConnId) : DState :=
  if (s.level c).isSome ∧ (s.root c).isSome then
    if s.parent = none ∧ s.isChildName (s.name c) = false then setParent s c else closePeer s c
  else s

/-- `_on_distributed_branch_level` (420-441) with fix `C13-parent-reannounce-server` -/
def onLevel (s : DState) (c : ConnId) (n : Nat) : DState :=
  if c ∈ s.live then
    let s1 := { s with level := upd s.level c (some n),
                       root := if n = 0 then upd s.root c (some (s.name c)) else s.root }
    if s.parent = some c then notifyChildren (notifyServer s1) else checkNewParent s1 c
  else s

/-- `_on_distributed_branch_root` (443-465) with fix `C13-parent-reannounce-server` -/
def onRoot (s : DState) (c : ConnId) (r : Name) : DState :=
  if c ∈ s.live then
    if s.root c = some r then s
    else
      let s1 := { s with root := upd s.root c (some r) }
      if s.parent = some c then notifyChildren (notifyServer s1) else checkNewParent s1 c
  else s

/-- `_add_child` (295-310): the root is only written when the level is not 0 -/
def addChild (s : DState) (c : ConnId) : DState :=
  let s1 := { s with children := s.children ++ [c] }
  match s.session with
  | some me =>
    let a := s.adv me
    { s1 with toldL := upd s.toldL c (some a.level), nL := upd s.nL c (s.nL c + 1),
              toldR := if a.level = 0 then s.toldR else upd s.toldR c (some a.root),
              nR := if a.level = 0 then s.nR else upd s.nR c (s.nR c + 1) }
  | none => s1

/-- `_check_if_new_child` (274-293) with fix `C13-parent-not-child` -/
def checkNewChild (s : DState) (c : ConnId) : DState :=
  if s.name c ∈ s.potential ∨ s.parentName = some (s.name c) then s
  else if s.accept = false then closePeer s c
  else if s.children.length ≥ s.maxChildren then closePeer s c
  else addChild s c

/-- `_on_peer_connection_initialized` (566-574): a new `DistributedPeer` for a new connection -/
def initialized (s : DState) (n : Name) (requested : Bool) : DState :=
  let c := s.nextConn
  let s1 := { s with live := s.live ++ [c], nextConn := c + 1, name := upd s.name c n,
                     level := upd s.level c none, root := upd s.root c none,
                     toldL := upd s.toldL c none, toldR := upd s.toldR c none,
                     nL := upd s.nL c 0, nR := upd s.nR c 0 }
  if requested then s1 else checkNewChild s1 c

/-- `deque.extend` with `maxlen` -/
def extendCache (l ns : List Name) : List Name := (l ++ ns).drop ((l ++ ns).length - cacheSize)

/-- `_on_potential_parents` (369-393): the cache part; each connection that gets established is a later
`initialized n true`. -/
def onPotentialParents (s : DState) (ns : List Name) : DState :=
  { s with potential := extendCache s.potential ns }

/-- `_request_user_stats` (547-557) -/
def requestUserStats (s : DState) : DState :=
  if s.session.isSome ∧ s.minSpeed.isSome ∧ s.ratio.isSome then { s with nStatsReq := s.nStatsReq + 1 } else s

/-- `_calculate_max_children` (559-564) over exact integers: `⌊speed / ((ratio / 10) * 1024)⌋` -/
def maxChildrenOf (speed ratio : Nat) : Nat := speed * ratioDiv / (ratio * speedUnit)

/-- `_on_get_user_stats` (508-539). `ratio = 0` is the `ZeroDivisionError` arm: `_accept_children` has
already been set, `_max_children` is not assigned and `AcceptChildren` is not sent. -/
def onUserStats (s : DState) (n : Name) (speed : Nat) : DState :=
  if s.session = some n then
    let ms := s.minSpeed.getD defaultMinSpeed
    let r := s.ratio.getD defaultSpeedRatio
    if speed < ms * minSpeedUnit then
      { s with accept := false, maxChildren := 0, lastAccept := some false, nAccept := s.nAccept + 1 }
    else if r = 0 then { s with accept := true }
    else { s with accept := true, maxChildren := maxChildrenOf speed r,
                  lastAccept := some true, nAccept := s.nAccept + 1 }
  else s

/-- `reset` (162-165): children are disconnected first, then the parent -/
def reset (s : DState) : DState :=
  let s1 := s.children.foldl closePeer s
  match s1.parent with
  | some c => closePeer s1 c
  | none => s1

inductive Op
  | potentialParents (ns : List Name)
  | initialized (n : Name) (requested : Bool)
  | level (c : ConnId) (n : Nat)
  | root (c : ConnId) (r : Name)
  | closed (c : ConnId)
  | userStats (n : Name) (speed : Nat)
  | minSpeed (n : Nat)
  | speedRatio (n : Nat)
  | resetDistributed
  | sessionInit (me : Name)
  | sessionDestroyed
  | serverStateChange
deriving Repr

def step (s : DState) : Op → DState
  | .potentialParents ns => onPotentialParents s ns
  | .initialized n r => initialized s n r
  | .level c n => onLevel s c n
  | .root c r => onRoot s c r
  | .closed c => closePeer s c
  | .userStats n sp => onUserStats s n sp
  | .minSpeed n => requestUserStats { s with minSpeed := some n }                 -- 339-343
  | .speedRatio n => requestUserStats { s with ratio := some n }                  -- 345-349
  | .resetDistributed => reset s                                                  -- 414-416
  -- 581-583 with fix `C13-session-readvertise-children`
  | .sessionInit me => notifyChildren (notifyServer { s with session := some me })
  -- 585-586; the ghost "told on the current server connection" is forgotten with the session
  | .sessionDestroyed => { s with session := none, toldServer := none, lastAccept := none }
  | .serverStateChange => { s with minSpeed := none, ratio := none }               -- 616-618, 167-172

def run (ops : List Op) : DState := ops.foldl step init

end AioslskVerif.Dist
