import AioslskVerif.Generated.TransferTable
/-!
Model of the transfer state machine as it runs: `Transfer` fields (transfer/model.py), the effect
statements of the per-state methods (table generated from transfer/state.py), and the
lock/dispatch wrapper `_with_state_lock` (state.py:17-24, installed on every public method of every
state object by `_wrap_lock`, state.py:140-144).

Granularity. asyncio is cooperative; the only places where a state method can be suspended while it
owns `transfer._state_lock` are the `await`s of `_cancel_transfer_tasks` (waiting for cancelled tasks
to finish, state.py:146-147) and of `_remove_local_file` (aiofiles → executor, state.py:27-39), and
the listeners awaited by `Transfer.transition` (model.py:222-237: the new state is assigned, then
each listener is awaited — `TransferStateListener` is a public protocol, state.py:42-46, so a
listener may suspend). A *slow* step is one the environment finishes later (`XOp.resume`); a step that is
not slow finishes before anything else is observed. Between two ops everything that can run has
run (the harness lets the loop settle), so lock hand-over (`asyncio.Lock` is FIFO: a released lock
goes to the oldest waiter, and a newcomer queues behind existing waiters) is part of the op that
releases the lock.

The model is of the code **with fixes/C03-dispatch-on-current-state.patch applied**
(`Mode.current`). `Mode.captured` is the wrapper of the pinned commit, kept for the counterexample
theorem and for cross-checking the model against the unpatched tree.
-/
namespace AioslskVerif.Transfer
open AioslskVerif.Generated.Transfer

/-- The `Transfer` attributes the state methods read or write (model.py:76-127) plus the two facts
about the world they touch (does the local file exist, are the transfer's tasks still running). -/
structure Fields where
  failReason : Option Nat := none      -- fail_reason (reasons are numbered by the harness)
  abortReason : Option Nat := none     -- abort_reason
  remotelyQueued : Bool := false
  placeInQueue : Option Nat := none
  queueAttempts : Nat := 0
  uploadAttempts : Nat := 0            -- upload_request_attempts
  startTime : Option Nat := none
  completeTime : Option Nat := none
  localPath : Bool := false            -- local_path is not None
  fileExists : Bool := false           -- the file local_path names (one fixed path) is on disk
  filesizeSet : Bool := false          -- filesize is not None
  bytes : Nat := 0                     -- bytes_transfered
  tasksLive : Bool := false            -- _transfer_task / _remotely_queue_task exist and are not done
deriving Repr, DecidableEq

/-- One invocation `transfer.state.<meth>(…)` (or `TransferManager.abort/queue/pause(transfer)` when
`mgr`: manager.py:251-317 — same call, refusal raises `InvalidStateTransition`). -/
structure Call where
  id : Nat
  meth : Meth
  reason : Option Nat := none     -- argument of fail/abort
  remotely : Bool := false        -- argument of queue
  mgr : Bool := false
  captured : St := .virgin        -- `transfer.state` at the moment the call expression was evaluated
deriving Repr, DecidableEq

/-- `AbortReason.REQUESTED` in the harness' numbering of reason strings -/
def requestedReason : Nat := 1

/-- `TransferManager.abort / queue / pause` (manager.py:251-317): the arguments they pass. -/
def Call.manager (id : Nat) : Meth → Option Call
  | .abort => some { id := id, meth := .abort, reason := some requestedReason, mgr := true }
  | .queue => some { id := id, meth := .queue, mgr := true }
  | .pause => some { id := id, meth := .pause, mgr := true }
  | _ => none

/-- Which state object the wrapper runs the method of, once it owns the lock. -/
inductive Mode
  | current     -- fixed code: `type(obj.transfer.state).<name>(obj.transfer.state, …)`
  | captured    -- pinned commit: `func` = bound method of the object the caller looked up earlier
deriving Repr, DecidableEq

structure Cfg where
  dir : Dir
  slowCancel : Bool     -- cancelled tasks need an environment step to finish
  slowFs : Bool         -- file system calls need an environment step to finish
  slowListener : Bool := false   -- a state listener suspends before it returns
  mode : Mode := .current
deriving Repr, DecidableEq

/-- Ghost trace (newest first): who did what. `event` is what a `TransferStateListener` receives. -/
inductive Item
  | eff (id : Nat) (e : Eff)
  | event (id : Nat) (old new : St)
  | ret (id : Nat) (ok : Bool)
deriving Repr, DecidableEq

/-- The lock holder, suspended: in front of the first effect of `rest` (a slow step), or — when
`notified` — inside a listener, after `Transfer.transition` has assigned the new state. -/
structure Pending where
  call : Call
  target : St
  rest : List Eff
  notified : Bool := false
deriving Repr, DecidableEq

structure XState where
  cur : St                          -- transfer.state.VALUE
  f : Fields
  now : Nat := 1                    -- the clock (time.time())
  holder : Option Pending := none   -- owner of transfer._state_lock, if it is suspended
  waiters : List Call := []         -- callers waiting for the lock, oldest first
  created : List Call := []         -- coroutine objects created but not yet scheduled
  trace : List Item := []
deriving Repr, DecidableEq

/-- Does the effect statement suspend the method (waiting for the environment)? -/
def blocks (cfg : Cfg) (f : Fields) : Eff → Bool
  | .cancelTasks => f.tasksLive && cfg.slowCancel
  | .removeLocalFile => cfg.slowFs && cfg.dir == .download && f.localPath
  | _ => false

/-- The effect statements, completed (model.py:171-204, 331-344; state.py:27-39). -/
def applyEff (cfg : Cfg) (c : Call) (now : Nat) (f : Fields) : Eff → Fields
  | .setRemotelyQueued => { f with remotelyQueued := c.remotely }
  | .setFailReason => { f with failReason := c.reason }
  | .setAbortReason => { f with abortReason := c.reason }
  | .clearFailReason => { f with failReason := none }
  | .clearAbortReason => { f with abortReason := none }
  | .cancelTasks => { f with tasksLive := false }
  | .removeLocalFile =>
    match cfg.dir with
    | .upload => f                                        -- `if not transfer.is_download(): return`
    | .download =>
      if f.localPath then { f with fileExists := false, localPath := false } else f
  | .setStartTime => { f with startTime := some now, completeTime := none }
  | .setCompleteTime => if f.startTime.isSome then { f with completeTime := some now } else f
  | .resetQueueVars =>
    { f with placeInQueue := none, remotelyQueued := false, queueAttempts := 0, uploadAttempts := 0 }
  | .resetTimeVars => { f with startTime := none, completeTime := none }
  | .resetProgressVars => { f with bytes := 0 }
  | .resetLocalVars => { f with localPath := false, filesizeSet := false }

/-- The body of a state method from its first remaining effect on: run effects until one blocks
(`force` = the first one is the slow step that has just finished), then
`await self.transfer.transition(Target(self.transfer)); return True` (leaving the `async with`
releases the lock). -/
def runEffs (cfg : Cfg) (c : Call) (t : St) : List Eff → Bool → XState → XState
  | [], _, x =>
    -- Transfer.transition: `self.state = state`, then the listeners are awaited with (old, new)
    if cfg.slowListener then
      { x with cur := t, holder := some ⟨c, t, [], true⟩, trace := .event c.id x.cur t :: x.trace }
    else
      { x with cur := t, holder := none,
               trace := .ret c.id true :: .event c.id x.cur t :: x.trace }
  | e :: es, force, x =>
    if !force && blocks cfg x.f e then { x with holder := some ⟨c, t, e :: es, false⟩ }
    else runEffs cfg c t es false
      { x with f := applyEff cfg c x.now x.f e, trace := .eff c.id e :: x.trace }

/-- the state whose class provides the method body -/
def dispatchOn (cfg : Cfg) (x : XState) (c : Call) : St :=
  match cfg.mode with
  | .current => x.cur
  | .captured => c.captured

/-- A caller gets the lock (`async with obj.transfer._state_lock:` entered). -/
def grant (cfg : Cfg) (c : Call) (x : XState) : XState :=
  match implStep cfg.dir (dispatchOn cfg x c) c.meth with
  | none => { x with trace := .ret c.id false :: x.trace }   -- base class: `return False`
  | some (t, effs) => runEffs cfg c t effs false x

/-- The lock is free: hand it to the waiters in FIFO order until one of them blocks. -/
def drain (cfg : Cfg) : List Call → XState → XState
  | [], x => { x with waiters := [] }
  | c :: cs, x =>
    let x' := grant cfg c x
    match x'.holder with
    | some _ => { x' with waiters := cs }
    | none => drain cfg cs x'

/-- A started call reaches `async with …_state_lock`. The manager methods evaluate
`transfer.state.<meth>` only now. -/
def arrive (cfg : Cfg) (c : Call) (x : XState) : XState :=
  let c := if c.mgr then { c with captured := x.cur } else c
  match x.holder with
  | some _ => { x with waiters := x.waiters ++ [c] }
  | none => drain cfg (x.waiters ++ [c]) x

inductive XOp
  | create (c : Call)   -- `co = transfer.state.<meth>(…)`: looks the state object up, runs nothing
  | start (id : Nat)    -- the coroutine is scheduled (task / gather) and reaches the lock
  | call (c : Call)     -- both at once: `await transfer.state.<meth>(…)`
  | resume              -- the slow step the lock holder is suspended in finishes
  | spawn               -- the manager attaches fresh tasks to the transfer
  | setFile             -- local_path is set and the file exists (a download opened its file)
  | tick                -- the clock advances
deriving Repr, DecidableEq

def findCall (id : Nat) : List Call → Option Call
  | [] => none
  | c :: cs => if c.id = id then some c else findCall id cs

def step (cfg : Cfg) (x : XState) : XOp → XState
  | .create c => { x with created := x.created ++ [{ c with captured := x.cur }] }
  | .start id =>
    match findCall id x.created with
    | none => x
    | some c => arrive cfg c { x with created := x.created.filter (fun c' => c'.id != id) }
  | .call c => arrive cfg { c with captured := x.cur } x
  | .resume =>
    match x.holder with
    | none => x
    | some p =>
      let x' :=
        if p.notified then      -- the listener returns; `return True`; the lock is released
          { x with holder := none, trace := .ret p.call.id true :: x.trace }
        else runEffs cfg p.call p.target p.rest true x
      match x'.holder with
      | some _ => x'
      | none => drain cfg x'.waiters x'
  | .spawn => { x with f := { x.f with tasksLive := true } }
  | .setFile => { x with f := { x.f with localPath := true, fileExists := true } }
  | .tick => { x with now := x.now + 1 }

def run (cfg : Cfg) (x : XState) (ops : List XOp) : XState := ops.foldl (step cfg) x

/-- a transfer in state `s` with fields `f`, lock free, nothing pending -/
def init (s : St) (f : Fields) : XState := { cur := s, f := f }

/-- the `(old, new)` pairs listeners were given, oldest first -/
def events (x : XState) : List (St × St) :=
  x.trace.reverse.filterMap fun | .event _ a b => some (a, b) | _ => none

end AioslskVerif.Transfer
