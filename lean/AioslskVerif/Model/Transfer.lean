import AioslskVerif.Generated.TransferTable
/-!
Model of the transfer state machine as it runs: `Transfer` fields (transfer/model.py), the effect
statements of the per-state methods (table generated from transfer/state.py), and the
lock/dispatch wrapper `_with_state_lock` (state.py:17-24, installed on every public method of every
state object by `_wrap_lock`, state.py:140-144).

Granularity. asyncio is cooperative; the only places where a state method can be suspended while it
owns `transfer._state_lock` are the `await`s of `_cancel_transfer_tasks` (waiting for cancelled tasks
to finish, state.py:146-147) and of `_remove_local_file` (aiofiles → executor, state.py:27-39), and
the listeners awaited by `Transfer.transition` (model.py:222-237: the new state is assigned, then
each listener of `state_listeners` is awaited in registration order with `(old_state.VALUE,
self.state.VALUE)` — the second component is read again for every listener; `TransferStateListener`
is a public protocol, state.py:42-46, so any listener may suspend, and `TransferManager.add` puts the
manager itself first in the list, manager.py:342). A *slow* step is one the environment finishes later (`XOp.resume`); a step that is
not slow finishes before anything else is observed. Between two ops everything that can run has
run (the harness lets the loop settle), so lock hand-over (`asyncio.Lock` is FIFO: a released lock
goes to the oldest waiter, and a newcomer queues behind existing waiters) is part of the op that
releases the lock.

The model is of the code **with fixes/C03-dispatch-on-current-state.patch applied**
(`Mode.current`). `Mode.captured` is the wrapper of the pinned commit, kept for the counterexample
theorem and for cross-checking the model against the unpatched tree.

Cancelled callers (`XOp.cancelCaller`). A request runs in the task of its caller (nothing in state.py
or in `TransferManager.abort/queue/pause` shields it), so when that task is cancelled — `task.cancel()`,
the time-out of an `asyncio.wait_for` around the request, shutdown — `CancelledError` is raised at the
`await` the request is suspended in: the wait for the lock (`asyncio.Lock.acquire` takes the waiter out
of the queue), or, for the lock holder, the slow step — and then unwinds through the `async with` of the
wrapper, which releases the lock (`abandon`). What the request had done so far stays done, it does nothing
more, and nothing of it runs outside the lock.

Transfers read from the cache (`load`, `XOp.reload`): `Transfer.__setstate__` (model.py:129-153) and
`TransferManager.read_cache` (manager.py:151-171) repair a stored record *before* `TransferManager.add`
registers the first listener; a record whose transfer the manager already holds is repaired and dropped.
-/
namespace AioslskVerif.Transfer
open AioslskVerif.Generated.Transfer

/-- The `Transfer` attributes the state methods read or write (model.py:76-127) plus the two facts
about the world they touch (does the local file exist, are the transfer's tasks still running). -/
structure Fields where
  failReason : Option Nat := none      -- fail_reason (reasons are numbered by the harness)
  abortReason : Option Nat := none     -- abort_reason
  remotelyQueued : Bool := false
  placeInQueue : Option Nat := none
  queueAttempts : Nat := 0
  uploadAttempts : Nat := 0            -- upload_request_attempts
  startTime : Option Nat := none
  completeTime : Option Nat := none
  localPath : Bool := false            -- local_path is not None
  fileExists : Bool := false           -- the file local_path names (one fixed path) is on disk
  filesizeSet : Bool := false          -- filesize is not None
  bytes : Nat := 0                     -- bytes_transfered
  tasksLive : Bool := false            -- _transfer_task / _remotely_queue_task exist and are not done
  /-- a fact about the world, not an attribute: the file system refuses to remove the local file
  (`aiofiles.os.remove` raises `OSError`: the path is a directory, a read-only mount, a permission, a file
  held open elsewhere); switched by the environment (`XOp.fsFault`) -/
  fsBroken : Bool := false
deriving Repr, DecidableEq

/-- One invocation `transfer.state.<meth>(…)` (or `TransferManager.abort/queue/pause(transfer)` when
`mgr`: manager.py:251-317 — same call, refusal raises `InvalidStateTransition`). -/
structure Call where
  id : Nat
  meth : Meth
  reason : Option Nat := none     -- argument of fail/abort
  remotely : Bool := false        -- argument of queue
  mgr : Bool := false
  captured : St := .virgin        -- `transfer.state` at the moment the call expression was evaluated
deriving Repr, DecidableEq

/-- `AbortReason.REQUESTED` in the harness' numbering of reason strings -/
def requestedReason : Nat := 1

/-- `TransferManager.abort / queue / pause` (manager.py:251-317): the arguments they pass. -/
def Call.manager (id : Nat) : Meth → Option Call
  | .abort => some { id := id, meth := .abort, reason := some requestedReason, mgr := true }
  | .queue => some { id := id, meth := .queue, mgr := true }
  | .pause => some { id := id, meth := .pause, mgr := true }
  | _ => none

/-- Which state object the wrapper runs the method of, once it owns the lock. -/
inductive Mode
  | current     -- fixed code: `type(obj.transfer.state).<name>(obj.transfer.state, …)`
  | captured    -- pinned commit: `func` = bound method of the object the caller looked up earlier
deriving Repr, DecidableEq

structure Cfg where
  dir : Dir
  slowCancel : Bool     -- cancelled tasks need an environment step to finish
  slowFs : Bool         -- file system calls need an environment step to finish
  /-- `transfer.state_listeners` in registration order: `true` = that listener suspends before it
  returns (an environment step lets it return), `false` = it returns without the environment -/
  listeners : List Bool := [false]
  mode : Mode := .current
  /-- a task that has been cancelled and is cancelled *again* (which is what cancelling the `gather` that
  waits for it does) does not end any sooner: it shields its tear-down -/
  stubborn : Bool := false
deriving Repr, DecidableEq

/-- Ghost trace (newest first): who did what. `trans` is the assignment `self.state = state` of
`Transfer.transition`; `event id li old new` is what listener number `li` of `state_listeners`
receives; `cancelled id` = the caller of invocation `id` got `CancelledError` instead of a result. -/
inductive Item
  | eff (id : Nat) (e : Eff)
  | trans (id : Nat) (old new : St)
  | event (id : Nat) (li : Nat) (old new : St)
  | ret (id : Nat) (ok : Bool)
  | cancelled (id : Nat)
deriving Repr, DecidableEq

/-- The lock holder, suspended: in front of the first effect of `rest` (a slow step), or — when
`notified` — inside listener number `pos`, after `Transfer.transition` has assigned the new state
(`old` = its local `old_state`). `abandoned`: its caller has been cancelled while it waited for the tasks
it cancelled, and those have not ended yet (`Cfg.stubborn`): it will do nothing more, but it owns the lock
until they have. -/
structure Pending where
  call : Call
  target : St
  rest : List Eff
  notified : Bool := false
  old : St := .virgin
  pos : Nat := 0
  abandoned : Bool := false
deriving Repr, DecidableEq

structure XState where
  cur : St                          -- transfer.state.VALUE
  f : Fields
  now : Nat := 1                    -- the clock (time.time())
  holder : Option Pending := none   -- owner of transfer._state_lock, if it is suspended
  waiters : List Call := []         -- callers waiting for the lock, oldest first
  created : List Call := []         -- coroutine objects created but not yet scheduled
  trace : List Item := []
  /-- ghost: how many times a cancellation cut the loop over `state_listeners` short while a listener
  that had not yet been told was still to come -/
  cuts : Nat := 0
deriving Repr, DecidableEq

/-- Does the effect statement suspend the method (waiting for the environment)? -/
def blocks (cfg : Cfg) (f : Fields) : Eff → Bool
  | .cancelTasks => f.tasksLive && cfg.slowCancel
  | .removeLocalFile => cfg.slowFs && cfg.dir == .download && f.localPath
  | _ => false

/-- The effect statements, completed (model.py:171-204, 331-344; state.py:27-39). -/
def applyEff (cfg : Cfg) (c : Call) (now : Nat) (f : Fields) : Eff → Fields
  | .setRemotelyQueued => { f with remotelyQueued := c.remotely }
  | .setFailReason => { f with failReason := c.reason }
  | .setAbortReason => { f with abortReason := c.reason }
  | .clearFailReason => { f with failReason := none }
  | .clearAbortReason => { f with abortReason := none }
  | .cancelTasks => { f with tasksLive := false }
  | .removeLocalFile =>
    match cfg.dir with
    | .upload => f                                        -- `if not transfer.is_download(): return`
    | .download =>
      -- state.py:36-46: `if await exists(local_path): await remove(local_path)` inside `try … except OSError:
      -- logger.warning(…)`, then `transfer.local_path = None` in either case: a removal the file system refuses
      -- leaves the file where it is, the path is forgotten all the same, and the method goes on — the failure
      -- is not a refusal of the request
      if f.localPath then { f with fileExists := f.fileExists && f.fsBroken, localPath := false } else f
  | .setStartTime => { f with startTime := some now, completeTime := none }
  | .setCompleteTime => if f.startTime.isSome then { f with completeTime := some now } else f
  | .resetQueueVars =>
    { f with placeInQueue := none, remotelyQueued := false, queueAttempts := 0, uploadAttempts := 0 }
  | .resetTimeVars => { f with startTime := none, completeTime := none }
  | .resetProgressVars => { f with bytes := 0 }
  | .resetLocalVars => { f with localPath := false, filesizeSet := false }

/-- The listener loop of `Transfer.transition` (model.py:234-237) from listener number `pos` on
(`gs` = the listeners not yet told): each is awaited with `(old_state.VALUE, self.state.VALUE)` —
the state is **read again** for every listener; a listener that suspends leaves the caller as the
lock holder inside it. After the last one: `return True`, and leaving the `async with` releases the
lock. -/
def notifyFrom (c : Call) (old : St) : List Bool → Nat → XState → XState
  | [], _, x => { x with holder := none, trace := .ret c.id true :: x.trace }
  | g :: gs, pos, x =>
    let x' := { x with trace := .event c.id pos old x.cur :: x.trace }
    if g then { x' with holder := some { call := c, target := x.cur, rest := [], notified := true, old := old, pos := pos } }
    else notifyFrom c old gs (pos + 1) x'

/-- The body of a state method from its first remaining effect on: run effects until one blocks
(`force` = the first one is the slow step that has just finished), then
`await self.transfer.transition(Target(self.transfer)); return True`. -/
def runEffs (cfg : Cfg) (c : Call) (t : St) : List Eff → Bool → XState → XState
  | [], _, x =>
    -- Transfer.transition: `old_state = self.state; self.state = state`, then the listener loop
    notifyFrom c x.cur cfg.listeners 0 { x with cur := t, trace := .trans c.id x.cur t :: x.trace }
  | e :: es, force, x =>
    if !force && blocks cfg x.f e then { x with holder := some { call := c, target := t, rest := e :: es } }
    else runEffs cfg c t es false
      { x with f := applyEff cfg c x.now x.f e, trace := .eff c.id e :: x.trace }

/-- the state whose class provides the method body -/
def dispatchOn (cfg : Cfg) (x : XState) (c : Call) : St :=
  match cfg.mode with
  | .current => x.cur
  | .captured => c.captured

/-- A caller gets the lock (`async with obj.transfer._state_lock:` entered). -/
def grant (cfg : Cfg) (c : Call) (x : XState) : XState :=
  match implStep cfg.dir (dispatchOn cfg x c) c.meth with
  | none => { x with trace := .ret c.id false :: x.trace }   -- base class: `return False`
  | some (t, effs) => runEffs cfg c t effs false x

/-- The lock is free: hand it to the waiters in FIFO order until one of them blocks. -/
def drain (cfg : Cfg) : List Call → XState → XState
  | [], x => { x with waiters := [] }
  | c :: cs, x =>
    let x' := grant cfg c x
    match x'.holder with
    | some _ => { x' with waiters := cs }
    | none => drain cfg cs x'

/-- A started call reaches `async with …_state_lock`. The manager methods evaluate
`transfer.state.<meth>` only now. -/
def arrive (cfg : Cfg) (c : Call) (x : XState) : XState :=
  let c := if c.mgr then { c with captured := x.cur } else c
  match x.holder with
  | some _ => { x with waiters := x.waiters ++ [c] }
  | none => drain cfg (x.waiters ++ [c]) x

/-- The cancelled tasks the abandoned lock holder `p` waited for have ended: `gather` ends with
`CancelledError`, which unwinds through the wrapper (lock released). The method body goes no further. -/
def tasksEnded (p : Pending) (x : XState) : XState :=
  { x with holder := none, f := { x.f with tasksLive := false },
           trace := .cancelled p.call.id :: .eff p.call.id .cancelTasks :: x.trace }

/-- The caller of the suspended lock holder `p` is cancelled: `CancelledError` is raised at the `await`
the method is suspended in.
* Inside listener `p.pos` (the state is already assigned, model.py:232-237): the loop over
  `state_listeners` is left — the listeners after `p.pos` are not told this change (`cuts`) — and the lock
  is released.
* In `asyncio.gather(*self.transfer.cancel_tasks(), return_exceptions=True)` (state.py:146-147):
  cancelling a `gather` cancels its children (again) and the `gather` only ends, with `CancelledError`,
  once every child has ended — at once when a second cancellation ends them, otherwise (`Cfg.stubborn`)
  the request stays the lock holder, `abandoned`, until the environment lets them end (`XOp.resume`).
* In the file-system call of `_remove_local_file` (state.py:32-46; only `OSError` is caught): nothing has
  been removed, `local_path` is kept, the lock is released. -/
def abandon (cfg : Cfg) (p : Pending) (x : XState) : XState :=
  if p.notified then
    { x with holder := none, trace := .cancelled p.call.id :: x.trace,
             cuts := if p.pos + 1 < cfg.listeners.length then x.cuts + 1 else x.cuts }
  else
    match p.rest with
    | .cancelTasks :: _ =>
      if cfg.stubborn then { x with holder := some { p with abandoned := true } } else tasksEnded p x
    | _ => { x with holder := none, trace := .cancelled p.call.id :: x.trace }

/-- the waiters without the (oldest) one of invocation `id`, if there is one -/
def removeWaiter (id : Nat) : List Call → Option (List Call)
  | [] => none
  | c :: cs => if c.id = id then some cs else (removeWaiter id cs).map (c :: ·)

inductive XOp
  | create (c : Call)   -- `co = transfer.state.<meth>(…)`: looks the state object up, runs nothing
  | start (id : Nat)    -- the coroutine is scheduled (task / gather) and reaches the lock
  | call (c : Call)     -- both at once: `await transfer.state.<meth>(…)`
  | resume              -- the slow step the lock holder is suspended in finishes
  | spawn               -- the manager attaches fresh tasks to the transfer
  | setFile             -- local_path is set and the file exists (a download opened its file)
  | tick                -- the clock advances
  | cancelCaller (id : Nat)   -- the task that awaits invocation `id` is cancelled (time-out, shutdown)
  | reload              -- `write_cache()` then `read_cache()` on the same manager (stop/start of a client)
  | fsFault (b : Bool)  -- the file system starts (`true`) / stops (`false`) refusing removals with `OSError`
deriving Repr, DecidableEq

def findCall (id : Nat) : List Call → Option Call
  | [] => none
  | c :: cs => if c.id = id then some c else findCall id cs

def step (cfg : Cfg) (x : XState) : XOp → XState
  | .create c => { x with created := x.created ++ [{ c with captured := x.cur }] }
  | .start id =>
    match findCall id x.created with
    | none => x
    | some c => arrive cfg c { x with created := x.created.filter (fun c' => c'.id != id) }
  | .call c => arrive cfg { c with captured := x.cur } x
  | .resume =>
    match x.holder with
    | none => x
    | some p =>
      let x' :=
        if p.abandoned then tasksEnded p x
        else if p.notified then      -- listener `p.pos` returns; the loop goes on with the next one
          notifyFrom p.call p.old (cfg.listeners.drop (p.pos + 1)) (p.pos + 1) x
        else runEffs cfg p.call p.target p.rest true x
      match x'.holder with
      | some _ => x'
      | none => drain cfg x'.waiters x'
  | .spawn => { x with f := { x.f with tasksLive := true } }
  | .setFile => { x with f := { x.f with localPath := true, fileExists := true } }
  | .tick => { x with now := x.now + 1 }
  | .cancelCaller id =>
    match x.holder with
    | none => x             -- nobody holds the lock, so nobody waits for it: no such request in flight
    | some p =>
      if p.call.id = id then
        if p.abandoned then x       -- already cancelled; it waits for its tasks whatever is cancelled again
        else
          let x' := abandon cfg p x
          match x'.holder with
          | some _ => x'
          | none => drain cfg x'.waiters x'
      else
        -- a caller waiting for the lock: `Lock.acquire` takes it out of the queue, it never ran
        match removeWaiter id x.waiters with
        | some ws => { x with waiters := ws, trace := .cancelled id :: x.trace }
        | none => x
  -- the stored copy is repaired and then dropped: `TransferManager.add` finds the transfer it already
  -- holds (`Transfer.__eq__`, manager.py:336-339) and returns that one, untouched
  | .reload => x
  | .fsFault b => { x with f := { x.f with fsBroken := b } }

def run (cfg : Cfg) (x : XState) (ops : List XOp) : XState := ops.foldl (step cfg) x

/-- a transfer in state `s` with fields `f`, lock free, nothing pending -/
def init (s : St) (f : Fields) : XState := { cur := s, f := f }

/-- What becomes of a record stored in state `stored` with fields `f` when the cache is read
(`whole` = `is_transfered()`: `filesize == bytes_transfered`), up to the moment `TransferManager.add`
registers the first listener and emits `TransferAddedEvent` — where an application can first attach its
own listeners:
* `Transfer.__setstate__` (model.py:129-153): a fresh lock, no tasks, **no listeners**; an `ABORTED`
  record without `abort_reason` gets `AbortReason.REQUESTED`;
* `read_cache` (manager.py:154-171): `remotely_queued = False`; `INITIALIZING` goes back to `QUEUED` through
  `await transfer.state.queue()` — the ordinary lock-wrapped method, on a transfer nobody else knows yet
  and that has no listener (`listeners := []`); a transferring record is **assigned** `COMPLETE` or
  `INCOMPLETE` (no `transition()`, nobody is told) and its time variables are reset.
The result starts a new life: empty trace, lock free, listeners as `cfg` says from here on. -/
def load (cfg : Cfg) (stored : St) (f : Fields) (whole : Bool) : XState :=
  let f1 : Fields := { f with tasksLive := false, remotelyQueued := false,
                              abortReason := if stored = .aborted ∧ f.abortReason = none
                                             then some requestedReason else f.abortReason }
  match stored with
  | .initializing =>
    let x := arrive { cfg with listeners := [] } { id := 0, meth := .queue, captured := .initializing }
      (init .initializing f1)
    init x.cur x.f
  | .downloading | .uploading =>
    init (if whole then .complete else .incomplete) { f1 with startTime := none, completeTime := none }
  | s => init s f1

/-- the `(old, new)` pairs listeners were given (all listeners), oldest first -/
def events (x : XState) : List (St × St) :=
  x.trace.reverse.filterMap fun | .event _ _ a b => some (a, b) | _ => none

/-- the pair a trace item gave to listener number `li`, if it is such an item -/
def Item.toldTo (li : Nat) : Item → Option (St × St)
  | .event _ l a b => if l = li then some (a, b) else none
  | _ => none

/-- the state change a trace item is, if it is one -/
def Item.change : Item → Option (St × St)
  | .trans _ a b => some (a, b)
  | _ => none

/-- the `(old, new)` pairs listener number `li` was given, oldest first -/
def told (li : Nat) (x : XState) : List (St × St) := x.trace.reverse.filterMap (Item.toldTo li)

/-- the state changes the transfer made (`self.state = state`), oldest first -/
def transitions (x : XState) : List (St × St) := x.trace.reverse.filterMap Item.change

/-- Reading a list of `(old, new)` pairs as a walk that starts in `s`: `some e` = every pair starts
where the previous one ended (the first one in `s`) and the walk ends in `e`; `none` = some pair
does not start where the previous one ended. -/
def follows (s : St) : List (St × St) → Option St
  | [] => some s
  | (a, b) :: r => if a = s then follows b r else none

end AioslskVerif.Transfer
