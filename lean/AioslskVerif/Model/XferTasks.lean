import AioslskVerif.Model.Sched
/-!
# Background tasks of a transfer (C06)

Explicit task objects on top of the scheduler's vocabulary (`St`, `Dir` of `Model/Sched.lean`).
The code modelled is the tree **with** `fixes/C06-single-flight.patch` and
`fixes/C06-init-download-refused.patch`:

* `manage_transfers` skips a transfer whose task slot still holds a running task
  (`_is_running`, manager.py) and `_get_queued_transfers` skips a transfer whose state lock is held
  (an abort / pause is waiting for the tasks it cancelled);
* the done-callbacks clear a slot only if it still holds the finished task (model.py);
* `remove` cancels (and awaits) whatever is left in the slots after the transfer left the list;
* `_initialize_download` stops when `state.initialize()` is refused (it answers the peer's request
  with `allowed=False` and ends without touching the transfer);
* `_on_peer_transfer_queue` looks the transfer up again after it asked the shares manager
  (`fixes/C06-peer-queue-removed.patch`): the look-up suspends the handler, and a transfer that was
  removed meanwhile is not re-queued.

Work outside the two slots.  Everything the code does in the background for a transfer runs inside
the task one of its slots holds.  In particular the upload that hits a write error calls
`state.fail()` and then delivers `PeerUploadFailed` *in the same task* (manager.py, `_upload_file`):
the transfer is FAILED while its task is still alive (`taskEnd t .failing`: the state changes, the
task goes on; its end comes later, with any outcome).  `remove` (the only call FAILED accepts)
cancels it like any other slot task.

Peer message handlers are single steps, except the two that wait: the `PeerTransferRequest` handler
starts a task whose first action waits for the state lock (above), and the `PeerTransferQueue`
handler for an upload that is in the list asks the shares manager before it decides
(`peerQueueStart` = the message arrives and the transfer is found, `peerQueueEnd` = the handler goes
on: *the library's own continuation*, not a new action of the peer).

The state lock.  `abort` / `pause` hold `Transfer._state_lock` from their first step until they
return (`_with_state_lock`, state.py:17-29); `remove` holds it for its `abort` part only
(`removeMid` is the step in which that part returns: the transfer leaves the list and whatever the
slots hold by then is cancelled, manager.py:363-374).  The management cycle skips a locked transfer,
the message handlers do not look at the lock: a `PeerTransferRequest` that arrives meanwhile still
sees the state the call has not changed yet and starts an `initialize-download` task **after** the
call collected the tasks it cancels.  That task's first action, `state.initialize()`, waits for the
lock (`blocked`); asyncio locks are FIFO, so it is the first to see the state the call leaves
(ABORTED / PAUSED): refused.

A task is `created` by a cycle / a peer's transfer request, takes its first step (`taskStart`), ends
(`taskEnd`), and one loop iteration later its done-callback runs (`doneCallback`).  `call k c` is the
first step of `abort / pause / remove`: it cancels the tasks in the two slots — the only handles
`cancel_tasks()` sees (model.py:331-344) — and then waits for them; `callResume k` is its return.
Any other op may happen in between.  Which transfers a cycle looks at is a parameter of the op
(the selection itself is C05); whether a task is then spawned is decided here.

`acts` is a ghost counter: every connection attempt, protocol message or field change made by a
background task on behalf of the transfer increments it.  `quiet` is a ghost flag: a call has
returned and the transfer has not been re-queued since.
-/
namespace AioslskVerif.Tasks
open AioslskVerif.Sched (St Dir)

inductive TKind | queueRemotely | initUpload | initDownload
deriving DecidableEq, Repr

/-- `blocked`: an initialisation waiting for the state lock a call holds; `refused`: an initialisation whose
`state.initialize()` was refused (all that is left of it is the `allowed=False` answer to the peer's request);
`done`: finished (or cancelled), done-callback not yet run; `gone`: callback ran -/
inductive Phase | created | running | blocked | refused | done | gone
deriving DecidableEq, Repr

inductive CallKind | abort | pause | remove
deriving DecidableEq, Repr

/-- `failing`: `state.fail()` inside the task, which is not over yet (an upload that hit a write error still delivers
`PeerUploadFailed`, possibly over a slow connection) -/
inductive Outcome | ok | fail | toQueue | transferring | complete | incomplete | failing
deriving DecidableEq, Repr

structure Task where
  xfer : Nat := 0
  kind : TKind := .queueRemotely
  phase : Phase := .gone
  cancelReq : Bool := false
deriving Repr

/-- `not task.done()` -/
def Task.live (t : Task) : Bool :=
  t.phase == .created || t.phase == .running || t.phase == .blocked || t.phase == .refused

structure XT where
  dir : Dir := .download
  st : St := .virgin
  rq : Bool := false               -- remotely_queued
  retry : Bool := false            -- FAILED without a `fail_reason` (only looked at for a FAILED download)
  attempts : Nat := 0              -- queue_attempts
  rqSlot : Option Nat := none      -- _remotely_queue_task
  ttSlot : Option Nat := none      -- _transfer_task
  locked : Option CallKind := none -- abort / pause / remove in progress
  waitFor : List Nat := []         -- the tasks that call cancelled and awaits
  removed : Bool := false          -- no longer in `_transfers`
  pq : Nat := 0                    -- PeerTransferQueue handlers that found this upload and are asking the shares manager
  quiet : Bool := false            -- ghost
  acts : Nat := 0                  -- ghost
deriving Repr

structure TS where
  xs : Nat → XT := fun _ => {}
  nx : Nat := 0
  tasks : Nat → Task := fun _ => {}
  nt : Nat := 0

def upd {α} (f : Nat → α) (k : Nat) (v : α) : Nat → α := fun i => if i = k then v else f i

/-- `_state_lock.locked()`: the call in progress is inside `state.abort()` / `state.pause()` -/
def XT.lockHeld (x : XT) : Bool := x.locked.isSome && !x.removed

/-- the slot a task of this kind lives in -/
def XT.slotOf (x : XT) : TKind → Option Nat
  | .queueRemotely => x.rqSlot
  | _ => x.ttSlot

/-- `not _is_running(slot)` -/
def TS.slotFree (s : TS) : Option Nat → Bool
  | none => true
  | some t => !(s.tasks t).live

/-- would `manage_transfers` create a task for transfer `k` (given that it looks at it) -/
def TS.spawnable (s : TS) (k : Nat) : Option TKind :=
  let x := s.xs k
  if k < s.nx ∧ x.removed = false ∧ x.locked = none then
    match x.dir with
    | .download =>
      -- QUEUED / INCOMPLETE, or FAILED without a reason ("failed downloads without a reason are retried", manager.py:658-664)
      if (x.st = .queued ∨ x.st = .incomplete ∨ (x.st = .failed ∧ x.retry = true)) ∧ x.rq = false ∧
          s.slotFree x.rqSlot = true then some .queueRemotely
      else none
    | .upload => if x.st = .queued ∧ s.slotFree x.ttSlot = true then some .initUpload else none
  else none

def TS.spawn (s : TS) (k : Nat) (kind : TKind) : TS :=
  let x := s.xs k
  { s with
    tasks := upd s.tasks s.nt { xfer := k, kind := kind, phase := .created }
    nt := s.nt + 1
    xs := upd s.xs k (match kind with
      | .queueRemotely => { x with rqSlot := some s.nt }
      | _ => { x with ttSlot := some s.nt }) }

def TS.trySpawn (s : TS) (k : Nat) : TS :=
  match s.spawnable k with
  | some kd => s.spawn k kd
  | none => s

/-- `TransferManager.abort` / `pause` accept the call in these states (state.py) -/
def allowed : CallKind → St → Bool
  | .abort, st | .remove, st =>
    st == .queued || st == .initializing || st == .incomplete || st == .downloading || st == .uploading || st == .paused
  | .pause, st =>
    st == .queued || st == .initializing || st == .incomplete || st == .downloading || st == .uploading

def liveIn (s : TS) (o : Option Nat) : List Nat :=
  match o with
  | some t => if (s.tasks t).live then [t] else []
  | none => []

/-- the state lock is released: its first waiter — an initialisation `blocked` in `state.initialize()`; it is the task
the `_transfer_task` slot holds — sees the state the call left.  That state is ABORTED / PAUSED: refused. -/
def TS.unblock (s : TS) (o : Option Nat) : Nat → Task :=
  match o with
  | some t => if (s.tasks t).phase = .blocked then upd s.tasks t { s.tasks t with phase := .refused } else s.tasks
  | none => s.tasks

/-- `Task.cancel()` on the tasks in the slots -/
def TS.cancelSlots (s : TS) (k : Nat) : TS :=
  let x := s.xs k
  let w := liveIn s x.rqSlot ++ liveIn s x.ttSlot
  { s with tasks := fun t => if t ∈ w then { s.tasks t with cancelReq := true } else s.tasks t }

inductive Op
  | addDownload
  | addUpload
  | addFailed                             -- a download in FAILED state without a reason (as `read_cache` adds a cached one)
  | cycle (ks : List Nat)                 -- manage_transfers looked at these transfers, in this order
  | peerRequest (k : Nat)                 -- PeerTransferRequest for a queued download (manager.py:1405-1432)
  | taskStart (t : Nat)
  | taskEnd (t : Nat) (o : Outcome)
  | doneCallback (t : Nat)
  | call (k : Nat) (c : CallKind)
  | removeMid (k : Nat)                   -- the `abort` part of `remove` returned (manager.py:364-373)
  | callResume (k : Nat)
  | requeue (k : Nat)                     -- TransferManager.queue from ABORTED / PAUSED / COMPLETE / INCOMPLETE / FAILED
  | peerFail (k : Nat)                    -- PeerTransferQueueFailed for download k: `state.fail(reason)` (manager.py, _on_peer_transfer_queue_failed)
  | peerUploadFailed (k : Nat)            -- PeerUploadFailed for download k: `remotely_queued = False` (manager.py, _on_peer_upload_failed)
  | peerQueueStart (k : Nat)              -- PeerTransferQueue for upload k, found in the list: the handler asks the shares manager (suspends)
  | peerQueueEnd (k : Nat)                -- ... and goes on: looks the transfer up again, FAILED / COMPLETE -> QUEUED (manager.py, _on_peer_transfer_queue)
deriving Repr

def bump (x : XT) : XT := { x with acts := x.acts + 1 }

def step (s : TS) : Op → TS
  | .addDownload => { s with xs := upd s.xs s.nx { dir := .download, st := .queued }, nx := s.nx + 1 }
  | .addUpload => { s with xs := upd s.xs s.nx { dir := .upload, st := .queued }, nx := s.nx + 1 }
  | .addFailed => { s with xs := upd s.xs s.nx { dir := .download, st := .failed, retry := true }, nx := s.nx + 1 }
  | .cycle ks => ks.foldl TS.trySpawn s
  | .peerRequest k =>
    let x := s.xs k
    -- found in the list, not being processed, no initialisation in flight (manager.py:1442-1451)
    if k < s.nx ∧ x.dir = .download ∧ x.removed = false ∧ s.slotFree x.ttSlot = true then
      if x.locked = none then
        if x.st = .queued ∨ x.st = .incomplete then s.spawn k .initDownload
        else if x.st = .failed then
          -- FAILED: the peer re-queues it, `state.queue(remotely=True)` first (manager.py:1455-1456)
          ({ s with xs := upd s.xs k { x with st := .queued, rq := true, quiet := false } } : TS).spawn k .initDownload
        else s
      else
        -- an abort / pause (or the abort inside remove) is waiting for the tasks it cancelled: the handler does not look
        -- at the lock and still reads the state the call has not changed yet; the task is created after `cancel_tasks()`
        if x.st = .queued ∨ x.st = .incomplete then s.spawn k .initDownload else s
    else s
  | .taskStart t =>
    let tk := s.tasks t
    if tk.phase = .created then
      if tk.cancelReq then { s with tasks := upd s.tasks t { tk with phase := .done } }     -- cancelled before its first step
      else
        let x := s.xs tk.xfer
        match tk.kind with
        | .queueRemotely =>                                                                 -- connection attempt (manager.py:741)
          { s with tasks := upd s.tasks t { tk with phase := .running }, xs := upd s.xs tk.xfer (bump x) }
        | .initUpload =>                                                                    -- `state.initialize()` (result ignored) + first message
          { s with tasks := upd s.tasks t { tk with phase := .running },
                   xs := upd s.xs tk.xfer (bump (if x.st = .queued ∨ x.st = .incomplete then { x with st := .initializing } else x)) }
        | .initDownload =>                                                                  -- manager.py:823-834
          if x.lockHeld then { s with tasks := upd s.tasks t { tk with phase := .blocked } } -- `initialize()` waits for the lock
          else if x.st = .queued ∨ x.st = .incomplete then
            { s with tasks := upd s.tasks t { tk with phase := .running },
                     xs := upd s.xs tk.xfer (bump { x with st := .initializing }) }
          else { s with tasks := upd s.tasks t { tk with phase := .refused } }              -- refused: answers `allowed=False`, ends
    else s
  | .taskEnd t o =>
    let tk := s.tasks t
    if tk.phase = .running then
      if tk.cancelReq then { s with tasks := upd s.tasks t { tk with phase := .done } }     -- CancelledError at its await
      else
        let x := s.xs tk.xfer
        match tk.kind, o with
        | .queueRemotely, .ok =>                                                            -- manager.py:730-733
          { s with tasks := upd s.tasks t { tk with phase := .done },
                   xs := upd s.xs tk.xfer (bump { x with rq := true, attempts := 0 }) }
        | .queueRemotely, _ =>                                                              -- manager.py:725-728
          -- `increase_queue_attempts(); await transfer.state.queue()`: a transition wherever `queue` is defined
          { s with tasks := upd s.tasks t { tk with phase := .done },
                   xs := upd s.xs tk.xfer (bump (if x.st = .queued ∨ x.st = .downloading ∨ x.st = .uploading
                     then { x with attempts := x.attempts + 1 }
                     else { x with attempts := x.attempts + 1, st := .queued, rq := false })) }
        | _, .transferring =>                                                               -- start_transferring, task goes on
          { s with xs := upd s.xs tk.xfer (bump (if x.st = .initializing then
              { x with st := (if x.dir = .upload then .uploading else .downloading), rq := false, attempts := 0 } else x)) }
        | _, .toQueue =>                                                                    -- `await transfer.state.queue()`
          { s with tasks := upd s.tasks t { tk with phase := .done },
                   xs := upd s.xs tk.xfer (bump (if x.st = .queued ∨ x.st = .downloading ∨ x.st = .uploading then x
                     else { x with st := .queued, rq := false })) }
        | _, .complete =>
          { s with tasks := upd s.tasks t { tk with phase := .done },
                   xs := upd s.xs tk.xfer (bump (if x.st = .uploading ∨ x.st = .downloading then { x with st := .complete } else x)) }
        | _, .incomplete =>                                                                 -- file connection broke: `state.incomplete()`
          { s with tasks := upd s.tasks t { tk with phase := .done },
                   xs := upd s.xs tk.xfer (bump (if x.st = .downloading then { x with st := .incomplete } else x)) }
        | _, .failing =>                                                                    -- `state.fail()`, the task goes on (PeerUploadFailed)
          { s with xs := upd s.xs tk.xfer (bump (if x.st = .initializing ∨ x.st = .uploading ∨ x.st = .downloading
                     then { x with st := .failed, retry := false } else x)) }
        | _, _ =>
          { s with tasks := upd s.tasks t { tk with phase := .done },
                   xs := upd s.xs tk.xfer (bump (if x.st = .initializing ∨ x.st = .uploading ∨ x.st = .downloading
                     then { x with st := .failed, retry := false } else x)) }
    else if tk.phase = .refused then { s with tasks := upd s.tasks t { tk with phase := .done } }     -- nothing but the refusal
    else if tk.phase = .blocked ∧ tk.cancelReq = true then
      { s with tasks := upd s.tasks t { tk with phase := .done } }                                    -- cancelled while waiting for the lock
    else s
  | .doneCallback t =>
    let tk := s.tasks t
    if tk.phase = .done then
      let x := s.xs tk.xfer
      let x' := match tk.kind with                                                          -- model.py (fixed): `if slot is task`
        | .queueRemotely => if x.rqSlot = some t then { x with rqSlot := none } else x
        | _ => if x.ttSlot = some t then { x with ttSlot := none } else x
      { s with tasks := upd s.tasks t { tk with phase := .gone }, xs := upd s.xs tk.xfer x' }
    else s
  | .call k c =>
    let x := s.xs k
    if k < s.nx ∧ x.removed = false ∧ x.locked = none ∧ (allowed c x.st = true ∨ c = .remove) then
      let s1 := s.cancelSlots k
      let x' : XT := { x with locked := some c, waitFor := liveIn s x.rqSlot ++ liveIn s x.ttSlot,
                              removed := (c == .remove && !allowed c x.st) }
      { s1 with xs := upd s1.xs k x' }
    else s
  | .removeMid k =>
    -- `remove`: its `abort` got through (ABORTED, lock released); in the same step the transfer leaves the list and
    -- whatever the slots hold by now (an initialisation started by a peer request meanwhile) is cancelled and awaited
    let x := s.xs k
    if x.locked = some .remove ∧ x.removed = false ∧ x.waitFor.all (fun t => !(s.tasks t).live) = true then
      let s1 := s.cancelSlots k
      { s1 with xs := upd s1.xs k { x with st := .aborted, removed := true,
                                           waitFor := liveIn s x.rqSlot ++ liveIn s x.ttSlot } }
    else s
  | .callResume k =>
    let x := s.xs k
    match x.locked with
    | some c =>
      if x.waitFor.all (fun t => !(s.tasks t).live) = true ∧ (c = .remove → x.removed = true) then
        let x' : XT := { x with locked := none, waitFor := [], quiet := true,
                                st := (if x.removed then x.st else if c = .pause then .paused else .aborted) }
        { s with xs := upd s.xs k x', tasks := s.unblock x.ttSlot }
      else s
    | none => s
  | .requeue k =>
    let x := s.xs k
    if k < s.nx ∧ x.removed = false ∧ x.locked = none ∧
        (x.st = .aborted ∨ x.st = .paused ∨ x.st = .complete ∨ x.st = .incomplete ∨ x.st = .failed) then
      { s with xs := upd s.xs k { x with st := .queued, rq := false, quiet := false } }
    else s
  | .peerFail k =>
    -- the peer refuses the queue request: `fail` is defined on QUEUED / INITIALIZING / DOWNLOADING / INCOMPLETE / PAUSED
    -- (state.py); it does NOT cancel the tasks of the transfer
    let x := s.xs k
    if k < s.nx ∧ x.dir = .download ∧ x.removed = false ∧ x.locked = none ∧
        (x.st = .queued ∨ x.st = .initializing ∨ x.st = .downloading ∨ x.st = .incomplete ∨ x.st = .paused) then
      { s with xs := upd s.xs k { x with st := .failed, retry := false } }
    else s
  | .peerUploadFailed k =>
    -- found in the list: `transfer.remotely_queued = False` (neither state nor lock are looked at)
    let x := s.xs k
    if k < s.nx ∧ x.dir = .download ∧ x.removed = false then { s with xs := upd s.xs k { x with rq := false } } else s
  | .peerQueueStart k =>
    -- `find_transfer` finds the upload: the handler awaits `find_shared_item` (the file system is asked through the executor)
    let x := s.xs k
    if k < s.nx ∧ x.dir = .upload ∧ x.removed = false then { s with xs := upd s.xs k { x with pq := x.pq + 1 } } else s
  | .peerQueueEnd k =>
    -- the handler goes on: it looks the transfer up again (fix) — one that left the list meanwhile is not touched (the
    -- request is then one for a file that is not in the list: a NEW upload, `addUpload`); one that is in the list and
    -- FAILED / COMPLETE is re-queued by the peer (`state.queue()`; nothing holds the state lock of such a transfer)
    let x := s.xs k
    if 0 < x.pq then
      if x.removed = false ∧ x.locked = none ∧ x.dir = .upload ∧ (x.st = .failed ∨ x.st = .complete) then
        { s with xs := upd s.xs k { x with pq := x.pq - 1, st := .queued, rq := false, quiet := false } }
      else { s with xs := upd s.xs k { x with pq := x.pq - 1 } }
    else s

def run (ops : List Op) : TS := ops.foldl step {}

/-- the op is a user / peer action on transfer `k`.  `peerQueueEnd` is NOT one: the peer's message arrived with
`peerQueueStart`, what the handler does when it is resumed is the library's own doing. -/
def Op.addresses : Op → Nat → Bool
  | .peerRequest j, k | .call j _, k | .removeMid j, k | .callResume j, k | .requeue j, k | .peerFail j, k
  | .peerUploadFailed j, k | .peerQueueStart j, k => j == k
  | _, _ => false

end AioslskVerif.Tasks
