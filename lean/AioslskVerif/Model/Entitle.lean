import AioslskVerif.Model.Query
import AioslskVerif.Model.Shares
import AioslskVerif.Model.EntitleBase
import AioslskVerif.Generated.TransferTable
import AioslskVerif.Generated.EntitleConstants
/-!
Model of who is offered / served which file (C08), on top of the C07 models of the index
(`Model/Shares.lean`) and of query matching (`Model/Query.lean`), the generated transfer state table
(`Generated/TransferTable.lean`) and the generated constants (`Generated/EntitleConstants.lean`).

Transcribed (after `fixes/C08-excluded-phrase-case.patch`; with or without
`fixes/C08-relook-after-state-lock.patch`, whichever the regenerated `relookWhenLocked` says):
* `SharesManager.is_directory_locked` / `is_item_locked`            shares/manager.py:955-966
* `SharesManager.query`: excluded phrases, visible / locked split      shares/manager.py:734-769
* `SharesManager.create_shares_reply`, `create_directory_reply`        shares/manager.py:810-892
* `SharesManager.get_shared_item_cache` (and `find_…`)                 shares/manager.py:305-366
* `SearchManager._query_shares_and_reply`                              search/manager.py:187-245
* `PeerManager._on_peer_shares_request`, `_on_peer_directory_contents_req`   peer.py:62-124
* `TransferManager._on_peer_transfer_queue`                            transfer/manager.py:1172-1242
* `TransferManager._on_peer_transfer_request` (direction = upload)      transfer/manager.py:1282-1387
* `TransferManager._add_upload`, `_evaluate_aborted_state`, `manage_shares_changed`, `_management_job`
                                                                      transfer/manager.py:1531-1584, 569-594, 517-533
* `SharesManager.load_from_settings` (after `fixes/C08-reload-announces-removed.patch`), `scan`
                                                                      shares/manager.py:234-262, 626-653
* `UserManager._management_job` (the polling of `settings.users.friends` / `.blocked` against the
  copies in `UserManagementContext`)                                   user/manager.py:98-101, 263-294

Characters are code points (`Nat`), user names are numbers, a path component is a list of code
points, a remote path is the string the peer sends. A `SharedDirectory` object carries, besides its
absolute path, its alias and its share mode (`DirInfo`).

* the transfer's `_state_lock` (`_with_state_lock`, `_cancel_transfer_tasks`, `Transfer.transition`):
  a state method suspended while it holds the lock, the calls that wait for it  transfer/state.py:17-29, 151-156;
                                                                      transfer/model.py:222-237

Not modelled: file attributes and sizes, files vanishing from disk between a scan and a request
(`asyncos.path.exists`), alias collisions (two shared directories with one alias), an empty user
name, the upload itself (`_initialize_upload`; the correspondence runs with no upload slot), a
peer's request for an upload whose state lock is held (`busy`: the generator does not make one).
-/
namespace AioslskVerif.Entitle
open AioslskVerif AioslskVerif.Shares AioslskVerif.Transfer
open AioslskVerif.Generated.Entitle

abbrev Ch := Nat
abbrev Comp := List Ch
abbrev Name := Nat
abbrev SItem := Item Comp

/-- `DirectoryShareMode` + `SharedDirectory.users` -/
inductive Mode
  | everyone | friends | users (us : List Name)
deriving DecidableEq, Repr

structure DirInfo where
  path : List Comp
  alias : Comp
  mode : Mode
deriving DecidableEq, Repr

structure Cfg where
  /-- `settings.users.friends` -/
  friends : List Name := []
  /-- `settings.users.blocked` : user ↦ `BlockingFlag` bits -/
  blocked : List (Name × Nat) := []
  /-- alias and share mode of each shared directory object -/
  dirs : List DirInfo := []
  /-- `SearchManager.excluded_search_phrases` (as the server sent them) -/
  excluded : List (List Ch) := []
  /-- `settings.searches.receive.max_results` -/
  cap : Nat := 100
deriving Repr

/-- `settings.users.is_blocked(u, flag)` : `bool(blocked.get(u, NONE) & flag)` -/
def isBlocked (c : Cfg) (u : Name) (flag : Nat) : Bool :=
  match c.blocked.lookup u with
  | some f => Nat.land f flag != 0
  | none => false

def dirInfo (c : Cfg) (p : List Comp) : Option DirInfo := c.dirs.find? (fun d => d.path = p)

/-- `is_directory_locked(directory, username)` for the shared directory with absolute path `p` -/
def locked (c : Cfg) (p : List Comp) (u : Name) : Bool :=
  match dirInfo c p with
  | none => false
  | some d =>
    match d.mode with
    | .friends => !c.friends.contains u
    | .users us => !us.contains u
    | .everyone => false

def aliasOf (c : Cfg) (p : List Comp) : Comp :=
  match dirInfo c p with
  | some d => d.alias
  | none => []

/-! ## Remote paths (shares/model.py:98-121, utils.py:18-24) -/

def sepC : Ch := 92    -- '\\'
def atC : Ch := 64     -- '@'

/-- `'\\'.join(parts)` -/
def joinSep (l : List Comp) : List Ch := [sepC].intercalate l

/-- `get_remote_directory_path_parts()` : `('@@alias', sub₁, …, subₙ)` -/
def remoteDirParts (c : Cfg) (it : SItem) : List Comp := ([atC, atC] ++ aliasOf c it.sd) :: it.sub
/-- `get_remote_directory_path()` -/
def remoteDir (c : Cfg) (it : SItem) : List Ch := joinSep (remoteDirParts c it)
/-- `get_remote_path()` -/
def remotePath (c : Cfg) (it : SItem) : List Ch := joinSep (remoteDirParts c it ++ [it.name])

/-- `s.split('\\')` (empty parts are kept) -/
def splitSepAux (cur : Comp) : List Ch → List Comp
  | [] => [cur]
  | ch :: s => if ch = sepC then cur :: splitSepAux [] s else splitSepAux (cur ++ [ch]) s
def splitSep (s : List Ch) : List Comp := splitSepAux [] s

/-! ## Search (shares/manager.py:734-769, search/manager.py:187-245) -/

/-- `a in b` on strings -/
def infixB (a : List Ch) : List Ch → Bool
  | [] => a.isEmpty
  | ch :: s => a.isPrefixOf (ch :: s) || infixB a s

/-- the excluded-phrase test of `query` for one path: `excl_phrase.lower() in path.lower()`
(`phraseFolded` says whether the code lower-cases the phrase — it does after the fix) -/
def excludedBy (K : Query.Cls Ch) (phrases : List (List Ch)) (p : List Ch) : Bool :=
  phrases.any (fun ph => infixB (if phraseFolded then ph.map K.fold else ph) (p.map K.fold))

/-- the query path of an item: `get_query_path()` -/
def qp (it : SItem) : List Ch := qpath sepC it

/-- `found_items` after the regular expressions, the excluded phrases and the cap -/
def found (K : Query.Cls Ch) (c : Cfg) (sh : St Comp) (q : List Ch) : List SItem :=
  Query.query K qp c.cap (fun it => !excludedBy K c.excluded (qp it)) sh.tm (Query.parse K q)

/-- the visible / locked split (manager.py:759-767) -/
def splitVisible (c : Cfg) (u : Name) (items : List SItem) : List SItem × List SItem :=
  (items.filter (fun it => !locked c it.sd u), items.filter (fun it => locked c it.sd u))

/-- `_query_shares_and_reply`: `none` = nothing is sent, `some (results, locked_results)` = the
`PeerSearchReply` sent to `u` -/
def searchReply (K : Query.Cls Ch) (c : Cfg) (sh : St Comp) (u : Name) (q : List Ch) :
    Option (List SItem × List SItem) :=
  if isBlocked c u searchFlag then none
  else
    let r := splitVisible c u (found K c sh q)
    if r.1.isEmpty && r.2.isEmpty then none else some r

/-! ## Shares reply and directory reply (shares/manager.py:810-892, peer.py:62-124) -/

def dedup {α : Type} [DecidableEq α] : List α → List α
  | [] => []
  | x :: l => if x ∈ l then dedup l else x :: dedup l

/-- the non-empty prefixes of a list -/
def prefixes {α : Type} (l : List α) : List (List α) := (List.range l.length).map (fun k => l.take (k + 1))

/-- `convert_to_directory_shares(list_unique_directories(dirs))` over the items of those
directories: every directory on the way to an item, with the files directly inside it -/
def listing (c : Cfg) (items : List SItem) : List (List Comp × List Comp) :=
  (dedup (items.flatMap (fun it => prefixes (remoteDirParts c it)))).map
    (fun d => (d, (items.filter (fun it => remoteDirParts c it = d)).map (·.name)))

/-- `_on_peer_shares_request`: `(directories, locked_directories)` of the `PeerSharesReply` -/
def sharesReply (c : Cfg) (sh : St Comp) (u : Name) :
    Option (List (List Comp × List Comp) × List (List Comp × List Comp)) :=
  if isBlocked c u sharesFlag then none
  else some (listing c (sh.items.filter (fun it => !locked c it.sd u)),
             listing c (sh.items.filter (fun it => locked c it.sd u)))

/-- `create_directory_reply(remote_directory)` — takes no user (known finding
`C08-directory-reply-ignores-lock`): the files of the directory whatever its share mode -/
def directoryReply (c : Cfg) (sh : St Comp) (req : List Ch) : List (List Ch × List SItem) :=
  let parts := splitSep req
  if sh.items.any (fun it => (remoteDirParts c it).take parts.length = parts) then
    [(req, sh.items.filter (fun it => remoteDir c it = req))]
  else []

/-- `_on_peer_directory_contents_req` -/
def dirReply (c : Cfg) (sh : St Comp) (u : Name) (req : List Ch) : Option (List (List Ch × List SItem)) :=
  if isBlocked c u dirFlag then none else some (directoryReply c sh req)

/-! ## Uploads -/

structure Xfer where
  user : Name
  /-- `remote_path` as the peer sent it -/
  path : List Ch
  state : St
  /-- `abort_reason` -/
  reason : Option Reason := none
deriving DecidableEq, Repr

/-- One state method called on an upload, on the two fields it can change (state, `abort_reason`),
by `Generated/TransferTable.lean`: refused (`False`, nothing changes) when the state class does not
override it, otherwise the effects on `abort_reason` and the transition. -/
def effReason (r : Option Reason) (effs : List Eff) (a : Option Reason) : Option Reason :=
  effs.foldl (fun a e => match e with
    | .setAbortReason => r
    | .clearAbortReason => none
    | _ => a) a

def methSR (m : Meth) (r : Option Reason) (sr : St × Option Reason) : (St × Option Reason) × Bool :=
  match Generated.Transfer.implStep .upload sr.1 m with
  | none => (sr, false)
  | some (t, effs) => ((t, effReason r effs sr.2), true)

def Xfer.sr (x : Xfer) : St × Option Reason := (x.state, x.reason)
def Xfer.withSR (x : Xfer) (sr : St × Option Reason) : Xfer := { x with state := sr.1, reason := sr.2 }

def applyMeth (m : Meth) (r : Option Reason) (x : Xfer) : Xfer × Bool :=
  (x.withSR (methSR m r x.sr).1, (methSR m r x.sr).2)

/-- `find_transfer` returns the first equal transfer: `f` applied to the first element satisfying `p` -/
def updFirst (p : Xfer → Bool) (f : Xfer → Xfer) : List Xfer → List Xfer
  | [] => []
  | y :: l => if p y then f y :: l else y :: updFirst p f l

/-- `get_shared_item_cache(remote_path, username)` / `find_shared_item_cache`: `none` = the path is
not indexed (`FileNotFoundError`) or its directory is locked for the user (`FileNotSharedError`) -/
def findShared (c : Cfg) (sh : St Comp) (u : Name) (path : List Ch) : Option SItem :=
  match sh.items.find? (fun it => remotePath c it = path) with
  | none => none
  | some it => if locked c it.sd u then none else some it

/-- `Transfer.__eq__` restricted to uploads -/
def sameKey (u : Name) (path : List Ch) (x : Xfer) : Bool := x.user = u && x.path = path

/-- `_add_upload` followed by `transfer.state.queue()` -/
def newUpload (u : Name) (path : List Ch) : Xfer :=
  (applyMeth .queue none { user := u, path := path, state := .virgin }).1

/-- `_on_peer_transfer_queue`: the uploads afterwards and the reason of the
`PeerTransferQueueFailed` sent (if one is sent) -/
def onQueue (c : Cfg) (sh : St Comp) (xs : List Xfer) (u : Name) (path : List Ch) : List Xfer × Option FailR :=
  if isBlocked c u queueFlag then (xs, some queueBlockedReason)
  else
    match xs.find? (sameKey u path) with
    | none =>
      match findShared c sh u path with
      | none => (xs, some .notShared)
      | some _ => (xs ++ [newUpload u path], none)
    | some x =>
      match findShared c sh u path with
      | none => (updFirst (sameKey u path) (fun y => (applyMeth .fail none y).1) xs, some .notShared)
      | some _ =>
        if x.state = queueCancelState then (xs, some queueCancelReason)
        else if x.state ∈ requeueStates then
          (updFirst (sameKey u path) (fun y => (applyMeth .queue none y).1) xs, none)
        else (xs, none)

/-- `_on_peer_transfer_request` with `direction = UPLOAD`: the uploads afterwards and the reason of
the `PeerTransferReply(allowed=False)` sent (if one is sent; `allowed=True` is never sent here) -/
def onRequest (c : Cfg) (sh : St Comp) (xs : List Xfer) (u : Name) (path : List Ch) : List Xfer × Option FailR :=
  if isBlocked c u requestFlag then (xs, some requestBlockedReason)
  else
    match xs.find? (sameKey u path) with
    | none =>
      match findShared c sh u path with
      | none => (xs, some .notShared)
      | some _ => (xs ++ [newUpload u path], some .queued)
    | some x =>
      match findShared c sh u path with
      | none => (updFirst (sameKey u path) (fun y => (applyMeth .fail none y).1) xs, some .notShared)
      | some _ => (xs, failReasonMap x.state)

/-! ## The management cycle (transfer/manager.py:569-594, 1547-1584) -/

/-- the three predicates of `_evaluate_aborted_state` given what the settings and the index say -/
def condHolds (blocked notShared : Bool) (reason : Option Reason) : Cond → Bool
  | .abortRequested => reason = some requestedReason
  | .userBlocked => blocked
  | .notShared => notShared

/-- `abort_reason` computed by the loop over `conditions`: the first one that holds -/
def verdict (blocked notShared : Bool) (reason : Option Reason) : Option Reason :=
  (conditions.find? (fun cr => condHolds blocked notShared reason cr.1)).map (·.2)

/-- what one iteration of the loop of `manage_shares_changed` decides for an upload -/
inductive Act
  /-- left alone -/
  | none
  /-- `elif abort_reason: upload.abort_reason = abort_reason` (done at once, no state method) -/
  | assign (r : Reason)
  /-- `tasks.append(upload.state.abort(reason=…))` / `tasks.append(self._requeue_if_listed(upload))`:
  a state method, run by the `gather` at the end — it goes through the transfer's state lock -/
  | call (m : Meth) (r : Option Reason)
deriving DecidableEq, Repr

/-- The decision, from the (state, `abort_reason`) the upload shows at that instant, its user being
`blocked` / its file `notShared` right now. -/
def cycleAct (blocked notShared : Bool) (sr : St × Option Reason) : Act :=
  if sr.1 ∈ skipStates then .none
  else
    let v := verdict blocked notShared sr.2
    let aborted := decide (sr.1 = .aborted)
    if aborted != v.isSome then                       -- should_change
      if aborted then .call .queue Option.none else .call .abort v
    else
      match v with
      | some r => .assign r
      | Option.none => .none

/-- the decision carried out on an upload nobody else is changing -/
def applyAct (a : Act) (sr : St × Option Reason) : St × Option Reason :=
  match a with
  | .none => sr
  | .assign r => (sr.1, some r)
  | .call m r => (methSR m r sr).1

/-- One iteration of the loop of `manage_shares_changed` (with the task it creates run to
completion) on the (state, `abort_reason`) of an upload whose user is `blocked` / whose file is
`notShared` right now. (The re-queue goes through `_requeue_if_listed`, which does nothing for an
upload that was removed meanwhile; no op of this model removes an upload.) -/
def reconcileSR (blocked notShared : Bool) (sr : St × Option Reason) : St × Option Reason :=
  applyAct (cycleAct blocked notShared sr) sr

def reconcileX (blocked notShared : Bool) (x : Xfer) : Xfer := x.withSR (reconcileSR blocked notShared x.sr)

def userBlocked (c : Cfg) (x : Xfer) : Bool := isBlocked c x.user evalFlag
def fileNotShared (c : Cfg) (sh : St Comp) (x : Xfer) : Bool := (findShared c sh x.user x.path).isNone

def reconcile1 (c : Cfg) (sh : St Comp) (x : Xfer) : Xfer :=
  reconcileX (userBlocked c x) (fileNotShared c sh x) x

/-- `manage_shares_changed` -/
def reconcile (c : Cfg) (sh : St Comp) (xs : List Xfer) : List Xfer := xs.map (reconcile1 c sh)

/-! ## State methods in flight (transfer/state.py:17-29, 151-156; transfer/model.py:222-237)

Every public state method runs under the transfer's `_state_lock` (`_with_state_lock`): it is
dispatched on the state the transfer has when the lock is obtained. A method can be suspended
while it holds the lock at two places: in `_cancel_transfer_tasks` / `_stop_transfer` — it waits for
the tasks it cancelled (an upload task closing its file connection) and has written nothing yet
but what precedes that statement — and in `Transfer.transition`, after `transfer.state` was replaced,
while the state listeners are told. Calls made meanwhile wait for the lock in the order in which
they were made (`asyncio.Lock` is first come first served). -/

/-- a call of a public state method -/
structure Call where
  m : Meth
  /-- the `reason` argument (`abort`) -/
  r : Option Reason := none
  /-- one of the calls gathered by `manage_shares_changed`: `_management_job` does not go on before
  it has run, and the management task does not start another job before this one is over -/
  job : Bool := false
deriving DecidableEq, Repr

inductive Phase
  /-- inside `_cancel_transfer_tasks()`: the state is still the old one -/
  | cancelling
  /-- inside `Transfer.transition()`: every effect is written, `transfer.state` is the new state -/
  | notifying
deriving DecidableEq, Repr

/-- upload `k`'s state lock is held by `call`, suspended in `phase`; `waiters` wait for the lock -/
structure Flight where
  k : Nat
  call : Call
  phase : Phase
  waiters : List Call := []
deriving DecidableEq, Repr

def flightOf (fs : List Flight) (k : Nat) : Option Flight := fs.find? (fun f => f.k = k)
def isLocked (fs : List Flight) (k : Nat) : Bool := (flightOf fs k).isSome
/-- `_management_job` is suspended in the `gather` of `manage_shares_changed` -/
def jobWaiting (fs : List Flight) : Bool := fs.any (fun f => f.waiters.any (·.job))

def addWaiter (fs : List Flight) (k : Nat) (c : Call) : List Flight :=
  fs.map (fun f => if f.k = k then { f with waiters := f.waiters ++ [c] } else f)

def runCall (c : Call) (sr : St × Option Reason) : St × Option Reason := (methSR c.m c.r sr).1
/-- calls run one after the other, each dispatched on the state the one before left -/
def runCalls (cs : List Call) (sr : St × Option Reason) : St × Option Reason :=
  cs.foldl (fun sr c => runCall c sr) sr
/-- … and what each of them returned -/
def callResults : List Call → St × Option Reason → List (Call × Bool)
  | [], _ => []
  | c :: cs, sr => (c, (methSR c.m c.r sr).2) :: callResults cs (runCall c sr)

/-- the effect statements a method has executed when it is suspended in `_cancel_transfer_tasks` -/
def preCancel (effs : List Eff) : List Eff := effs.takeWhile (fun e => e != Eff.cancelTasks)

/-- the calls that run when the lock holder `f` is released: the rest of its own method when it
was waiting for the cancelled tasks, then the waiters -/
def Flight.pendingCalls (f : Flight) : List Call :=
  (match f.phase with | .cancelling => [f.call] | .notifying => []) ++ f.waiters

/-- One iteration of the loop of `manage_shares_changed` for upload `k`: the decision is taken on what
the upload shows NOW; a state method goes through the lock — at once when it is free, else it is
left waiting (the second component) — while `upload.abort_reason = …` is written directly. -/
def cycleOne (c : Cfg) (sh : St Comp) (fs : List Flight) (k : Nat) (x : Xfer) : Xfer × Option Call :=
  let a := cycleAct (userBlocked c x) (fileNotShared c sh x) x.sr
  if isLocked fs k then
    match a with
    | .call m r => (x, some { m := m, r := r, job := true })
    | .assign r => (x.withSR (x.state, some r), none)
    | .none => (x, none)
  else (x.withSR (applyAct a x.sr), none)

def reconcileFrom (c : Cfg) (sh : St Comp) (fs : List Flight) (k : Nat) : List Xfer → List Xfer
  | [] => []
  | x :: l => (cycleOne c sh fs k x).1 :: reconcileFrom c sh fs (k + 1) l

/-- `manage_shares_changed` with state locks: the uploads afterwards and the lock queues -/
def reconcileL (c : Cfg) (sh : St Comp) (fs : List Flight) (xs : List Xfer) : List Xfer × List Flight :=
  (reconcileFrom c sh fs 0 xs,
   fs.map (fun f =>
     match xs[f.k]? with
     | some x =>
       match (cycleOne c sh fs f.k x).2 with
       | some call => { f with waiters := f.waiters ++ [call] }
       | none => f
     | none => f))

/-! ## The whole thing as a step function -/

structure S where
  cls : Query.Cls Ch
  sh : St Comp := {}
  cfg : Cfg := {}
  xs : List Xfer := []
  /-- `_RequestFlag.SHARES_CHANGE` is set in `_management_flags` -/
  sharesChanged : Bool := false
  /-- `UserManagementContext.friends` / `.blocked`: the copies of the two settings the user
  manager's polling job took when it last announced a change (user/manager.py:98-101, 125-128,
  289-291). Lists stand for the Python set / dict: the driver is fed canonical (sorted) lists. -/
  seenFriends : List Name := []
  seenBlocked : List (Name × Nat) := []
  /-- the state locks that are held (at most one entry per upload) -/
  flights : List Flight := []

inductive Op
  /-- `settings.users.friends` replaced and the change announced (`FriendListChangedEvent`) in one
  step: `mutFriends l` immediately followed by the user manager's poll -/
  | setFriends (l : List Name)
  /-- `settings.users.blocked` replaced and announced (`BlockListChangedEvent`) in one step -/
  | setBlocked (l : List (Name × Nat))
  /-- `settings.users.friends` becomes `l` — assigned, or the set mutated in place. Nothing is
  emitted: the lock checks read the setting at once, the change is announced by the next `poll` -/
  | mutFriends (l : List Name)
  /-- `settings.users.blocked` becomes `l` (assigned or mutated in place), nothing emitted -/
  | mutBlocked (l : List (Name × Nat))
  /-- one run of `UserManager._management_job` (every second): the two settings are compared with
  the copies of the context; on a difference the events are emitted and both copies refreshed -/
  | poll
  /-- `settings.shares.directories` becomes `es` (entries dropped, added, their mode / users
  changed — by assignment or by mutating the lists in place), then `load_from_settings()`, then
  `scan_directory_files` of every directory it lists (`disk` = what is on disk) -/
  | reload (es : List DirInfo) (disk : List (File Comp))
  /-- `SharesManager.scan()`: every directory is scanned, `ScanCompleteEvent` is emitted -/
  | scanAll (disk : List (File Comp))
  /-- `add_shared_directory(path, share_mode, users)` then `scan_directory_files` -/
  | share (d : DirInfo) (disk : List (File Comp))
  /-- `remove_shared_directory(path)` -/
  | unshare (p : List Comp)
  /-- `update_shared_directory(path, share_mode, users)` -/
  | setMode (p : List Comp) (m : Mode)
  /-- `ExcludedSearchPhrases` from the server -/
  | phrases (l : List (List Ch))
  /-- a search request from `u` (server, distributed or user search) -/
  | search (u : Name) (q : List Ch)
  | sharesReq (u : Name)
  | dirReq (u : Name) (req : List Ch)
  | queueReq (u : Name) (path : List Ch)
  | xferReq (u : Name) (path : List Ch)
  /-- one run of `_management_job` -/
  | cycle
  /-- a state method called on upload `k` by its own task or by the user (`initialize`,
  `start_transferring`, `complete`, `fail`, `pause`) -/
  | meth (k : Nat) (m : Meth)
  /-- `TransferManager.abort(transfer)` : `abort(reason=REQUESTED)` -/
  | userAbort (k : Nat)
  /-- `TransferManager.queue(transfer)` -/
  | userQueue (k : Nat)
  /-- the call `c` made on upload `k` and — when the lock is free and the state accepts it —
  SUSPENDED while it holds the lock: `ph = cancelling` in `_cancel_transfer_tasks` (only a method that
  has that statement can be; another one runs to its end), `ph = notifying` in `Transfer.transition` -/
  | beginCall (k : Nat) (c : Call) (ph : Phase)
  /-- the suspended holder of upload `k`'s lock goes on (the cancelled task has ended / the listener
  returned): its method completes, the lock is handed to the waiters one after the other -/
  | endCall (k : Nat)

inductive Obs
  | none
  | res (r : Res)
  | search (r : Option (List SItem × List SItem))
  | shares (r : Option (List (List Comp × List Comp) × List (List Comp × List Comp)))
  | dir (r : Option (List (List Ch × List SItem)))
  | refusal (r : Option FailR)
  | changed (ok : Bool)
  | noSuchUpload
  /-- the op is outside the modelled domain (two settings entries for one path) -/
  | outside
  /-- the call waits for the upload's state lock -/
  | waiting
  /-- the call holds the lock and is suspended -/
  | suspended
  /-- `_management_job` is still inside `manage_shares_changed` (no other job starts); a peer's
  request names an upload whose lock is held (not modelled, the request is not delivered) -/
  | busy
  /-- the lock holder finished; what it and the waiting calls of the user / the task returned -/
  | ended (rs : List Bool)
  | notInFlight

def modifyAt (xs : List Xfer) (k : Nat) (f : Xfer → Xfer × Bool) : List Xfer × Obs :=
  match xs[k]? with
  | none => (xs, .noSuchUpload)
  | some x => (xs.set k (f x).1, .changed (f x).2)

/-- a state method called on upload `k`: run at once when the lock is free (`modifyAt`), else it waits -/
def callOn (xs : List Xfer) (fs : List Flight) (k : Nat) (c : Call) : (List Xfer × List Flight) × Obs :=
  if isLocked fs k then ((xs, addWaiter fs k c), .waiting)
  else (((modifyAt xs k (applyMeth c.m c.r)).1, fs), (modifyAt xs k (applyMeth c.m c.r)).2)

def beginOn (xs : List Xfer) (fs : List Flight) (k : Nat) (c : Call) (ph : Phase) :
    (List Xfer × List Flight) × Obs :=
  if isLocked fs k then callOn xs fs k c
  else
    match xs[k]? with
    | none => ((xs, fs), .noSuchUpload)
    | some x =>
      match Generated.Transfer.implStep .upload x.state c.m with
      | none => ((xs, fs), .changed false)
      | some (_, effs) =>
        match ph with
        | .cancelling =>
          if effs.contains Eff.cancelTasks then
            ((xs.set k (x.withSR (x.state, effReason c.r (preCancel effs) x.reason)),
              fs ++ [{ k := k, call := c, phase := .cancelling }]), .suspended)
          else ((xs.set k (applyMeth c.m c.r x).1, fs), .changed true)
        | .notifying =>
          ((xs.set k (applyMeth c.m c.r x).1, fs ++ [{ k := k, call := c, phase := .notifying }]), .suspended)

def endOn (xs : List Xfer) (fs : List Flight) (k : Nat) : (List Xfer × List Flight) × Obs :=
  match flightOf fs k, xs[k]? with
  | some f, some x =>
    ((xs.set k (x.withSR (runCalls f.pendingCalls x.sr)), fs.filter (fun g => g.k ≠ k)),
      .ended ((match f.phase with | .cancelling => [] | .notifying => [true]) ++
        ((callResults f.pendingCalls x.sr).filter (fun cr => !cr.1.job)).map (·.2)))
  | _, _ => ((xs, fs), .notInFlight)

/-- does the request of `u` for `path` name an existing upload whose state lock is held? -/
def namesLocked (xs : List Xfer) (fs : List Flight) (u : Name) (path : List Ch) : Bool :=
  match xs.findIdx? (sameKey u path) with
  | some k => isLocked fs k
  | none => false

/-- a peer's request that names an upload whose state lock is held is not delivered (`busy`) -/
def guarded (xs : List Xfer) (fs : List Flight) (u : Name) (path : List Ch) (r : List Xfer × Option FailR) :
    List Xfer × Obs :=
  if namesLocked xs fs u path then (xs, .busy) else (r.1, .refusal r.2)

def setDirMode (dirs : List DirInfo) (p : List Comp) (m : Mode) : List DirInfo :=
  dirs.map (fun d => if d.path = p then { d with mode := m } else d)

/-- `load_from_settings()` on the index (shares/manager.py:234-262). For every entry, in the
order of the settings: a path that is not shared yet goes through `add_shared_directory` (which
carves its items out of the innermost directory shared *at that moment* — directories about to be
dropped included), a known one through `update_shared_directory`. Then `_shared_directories` is
replaced by the listed directories — a directory that is no longer named is dropped **without**
handing its items to a parent (unlike `remove_shared_directory`) — and the term map is rebuilt
from the directories that are left. -/
def reloadSh (sh : St Comp) (ps : List (List Comp)) : St Comp :=
  let sh1 := ps.foldl (fun s p => (add s p).1) sh
  let items := sh1.items.filter (fun it => ps.contains it.sd)
  { paths := ps, items := items, tm := items }

/-- the directories `load_from_settings()` drops: shared now, not named by the settings -/
def droppedBy (sh : St Comp) (ps : List (List Comp)) : List (List Comp) :=
  sh.paths.filter (fun p => !ps.contains p)

def step (s : S) : Op → S × Obs
  | .setFriends l =>
    ({ s with cfg := { s.cfg with friends := l }, seenFriends := l, sharesChanged := true }, .none)
  | .setBlocked l =>
    ({ s with cfg := { s.cfg with blocked := l }, seenBlocked := l, sharesChanged := true }, .none)
  | .mutFriends l => ({ s with cfg := { s.cfg with friends := l } }, .none)
  | .mutBlocked l => ({ s with cfg := { s.cfg with blocked := l } }, .none)
  | .poll =>
    -- `if context.friends != settings.friends: events.append(…)`, the same for `blocked`;
    -- `if events:` both copies are refreshed; each event reaches `_request_shares_cycle`
    if s.seenFriends != s.cfg.friends || s.seenBlocked != s.cfg.blocked then
      ({ s with seenFriends := s.cfg.friends, seenBlocked := s.cfg.blocked, sharesChanged := true }, .none)
    else (s, .none)
  | .reload es disk =>
    let ps := es.map (·.path)
    if ¬ ps.Nodup then (s, .outside)
    else
      -- one `SharedDirectoryChangeEvent` per entry (`add_…` / `update_shared_directory` emit
      -- unconditionally) and, after the fix, one per dropped directory
      let announced := !es.isEmpty || !(droppedBy s.sh ps).isEmpty
      ({ s with sh := ps.foldl (fun sh p => scanDir sh p disk) (reloadSh s.sh ps),
                cfg := { s.cfg with dirs := es },
                sharesChanged := s.sharesChanged || announced }, .res .ok)
  | .scanAll disk =>
    ({ s with sh := s.sh.paths.foldl (fun sh p => scanDir sh p disk) s.sh, sharesChanged := true }, .none)
  | .share d disk =>
    let r := add s.sh d.path
    match r.2 with
    | .ok =>
      ({ s with sh := scanDir r.1 d.path disk, cfg := { s.cfg with dirs := s.cfg.dirs ++ [d] },
                sharesChanged := true }, .res .ok)
    | e => (s, .res e)
  | .unshare p =>
    let r := remove s.sh p
    match r.2 with
    | .ok =>
      ({ s with sh := r.1, cfg := { s.cfg with dirs := s.cfg.dirs.filter (fun d => d.path ≠ p) },
                sharesChanged := true }, .res .ok)
    | e => (s, .res e)
  | .setMode p m =>
    if p ∈ s.sh.paths then
      ({ s with cfg := { s.cfg with dirs := setDirMode s.cfg.dirs p m }, sharesChanged := true }, .res .ok)
    else (s, .res .notShared)
  | .phrases l => ({ s with cfg := { s.cfg with excluded := l } }, .none)
  | .search u q => (s, .search (searchReply s.cls s.cfg s.sh u q))
  | .sharesReq u => (s, .shares (sharesReply s.cfg s.sh u))
  | .dirReq u req => (s, .dir (dirReply s.cfg s.sh u req))
  | .queueReq u path =>
    let r := guarded s.xs s.flights u path (onQueue s.cfg s.sh s.xs u path)
    ({ s with xs := r.1 }, r.2)
  | .xferReq u path =>
    let r := guarded s.xs s.flights u path (onRequest s.cfg s.sh s.xs u path)
    ({ s with xs := r.1 }, r.2)
  | .cycle =>
    -- the management task runs one job after the other: none starts while one is suspended
    if jobWaiting s.flights then (s, .busy)
    else if s.sharesChanged then
      let r := reconcileL s.cfg s.sh s.flights s.xs
      -- (after `fixes/C08-relook-after-state-lock.patch`: a held state lock makes the job ask for another cycle)
      ({ s with xs := r.1, flights := r.2, sharesChanged := relookWhenLocked && !s.flights.isEmpty }, .none)
    else (s, .none)
  | .meth k m =>
    let r := callOn s.xs s.flights k { m := m }
    ({ s with xs := r.1.1, flights := r.1.2 }, r.2)
  | .userAbort k =>
    let r := callOn s.xs s.flights k { m := .abort, r := some .requested }
    ({ s with xs := r.1.1, flights := r.1.2 }, r.2)
  | .userQueue k =>
    let r := callOn s.xs s.flights k { m := .queue }
    ({ s with xs := r.1.1, flights := r.1.2 }, r.2)
  | .beginCall k c ph =>
    let r := beginOn s.xs s.flights k c ph
    ({ s with xs := r.1.1, flights := r.1.2 }, r.2)
  | .endCall k =>
    let r := endOn s.xs s.flights k
    ({ s with xs := r.1.1, flights := r.1.2 }, r.2)

def run (s : S) (ops : List Op) : S := ops.foldl (fun s op => (step s op).1) s

end AioslskVerif.Entitle
